#!/usr/bin/env python3
"""Shared orchestration for /verif checks (stdlib only).

One run of `bin/check Cxx quick|thorough`:
  1. regenerate coq/Gen (constants / lock disciplines read from the Go source),
  2. build the property's Coq libraries (full .vo build), re-check Properties.v and collect
     its Print Assumptions output, grep for forbidden vernacular,
  3. extract the model to OCaml and build the driver,
  4. run the Go harness(es) against the current tree of $VERIF_REPO (default /repo) through
     `go test -overlay`, producing a trace of inputs and projected observables,
  5. replay the trace on the extracted model (and a sample inside Coq with vm_compute),
  6. decide, write evidence/Cxx.json, print KNOWN-FINDING / VIOLATION lines.
"""
import fcntl
import hashlib
import json
import os
import re
import shutil
import subprocess
import sys
import time

ROOT = os.path.dirname(os.path.dirname(os.path.abspath(__file__)))
REPO = os.environ.get("VERIF_REPO", "/repo")
BUILD = os.path.join(ROOT, "build")
COQ = os.path.join(ROOT, "coq")

GOENV = {
    "GOFLAGS": "-mod=mod", "GOPROXY": "off", "GOSUMDB": "off", "GOTOOLCHAIN": "local",
    "CGO_ENABLED": os.environ.get("CGO_ENABLED", "1"),
}

ALLOWED_AXIOMS = {
    # axioms declared by the Coq standard library / installed libraries themselves
    "functional_extensionality_dep", "FunctionalExtensionality.functional_extensionality_dep",
    "classic", "Classical_Prop.classic", "proof_irrelevance", "ProofIrrelevance.proof_irrelevance",
    "JMeq_eq", "JMeq.JMeq_eq", "Eqdep.Eq_rect_eq.eq_rect_eq", "eq_rect_eq",
    "ClassicalDedekindReals.sig_forall_dec", "sig_forall_dec",
    "ClassicalDedekindReals.sig_not_dec", "sig_not_dec",
    "propositional_extensionality", "PropExtensionality.propositional_extensionality",
    "constructive_indefinite_description", "constructive_definite_description",
    "ClassicalUniqueChoice.dependent_unique_choice", "ClassicalEpsilon.constructive_indefinite_description",
}

FORBIDDEN = re.compile(
    r"\b(Admitted|admit|Axiom|Axioms|Parameter|Parameters|Conjecture|Conjectures|"
    r"Admit\s+Obligations|bypass_check|native_compute)\b|Unset\s+Guard|Unset\s+Positivity|"
    r"Unset\s+Universe\s+Checking|type-in-type|impredicative-set")

STMT = re.compile(r"^\s*(?:Local\s+|Global\s+|#\[[^\]]*\]\s*)*(Theorem|Lemma|Corollary|Example|Fact|Remark|Proposition)\s+([A-Za-z0-9_']+)",
                  re.M)


def log(*a):
    print(*a, file=sys.stderr, flush=True)


def strip_coq_comments(s):
    out = []
    i, n, depth = 0, len(s), 0
    instr = False
    while i < n:
        c = s[i]
        if depth == 0 and c == '"':
            instr = not instr
            out.append(c)
            i += 1
            continue
        if instr:
            out.append(c)
            i += 1
            continue
        if s.startswith("(*", i):
            depth += 1
            i += 2
            continue
        if depth > 0 and s.startswith("*)", i):
            depth -= 1
            i += 2
            continue
        if depth == 0:
            out.append(c)
        elif c == "\n":
            out.append(c)
        i += 1
    return "".join(out)


class Lock:
    def __init__(self, name):
        os.makedirs(os.path.join(BUILD, "locks"), exist_ok=True)
        self.path = os.path.join(BUILD, "locks", name + ".lock")

    def __enter__(self):
        self.f = open(self.path, "w")
        fcntl.flock(self.f, fcntl.LOCK_EX)
        return self

    def __exit__(self, *a):
        fcntl.flock(self.f, fcntl.LOCK_UN)
        self.f.close()


def run(cmd, cwd=None, env=None, timeout=None, stdin=None, stdout_path=None):
    """Run a command; returns (rc, stdout+stderr text). rc=124 on timeout."""
    e = dict(os.environ)
    if env:
        e.update(env)
    try:
        if stdout_path:
            with open(stdout_path, "w") as fo:
                p = subprocess.run(cmd, cwd=cwd, env=e, timeout=timeout, stdin=stdin,
                                   stdout=fo, stderr=subprocess.PIPE, text=True)
            return p.returncode, p.stderr
        p = subprocess.run(cmd, cwd=cwd, env=e, timeout=timeout, stdin=stdin,
                           stdout=subprocess.PIPE, stderr=subprocess.STDOUT, text=True)
        return p.returncode, p.stdout
    except subprocess.TimeoutExpired as ex:
        o = ex.stdout or ""
        if isinstance(o, bytes):
            o = o.decode("utf-8", "replace")
        return 124, o + "\n[timeout]"


# ---------------------------------------------------------------- Coq libraries

def lib_deps(lib):
    p = os.path.join(COQ, lib, "DEPS")
    if os.path.exists(p):
        return open(p).read().split()
    return []


def lib_closure(libs):
    order = []

    def visit(l):
        if l in order:
            return
        for d in lib_deps(l):
            visit(d)
        order.append(l)
    for l in libs:
        visit(l)
    return order


def lib_sources(lib):
    d = os.path.join(COQ, lib)
    return sorted(f for f in os.listdir(d) if f.endswith(".v") and f != "Extract.v" and not f.startswith("cases"))


def qflags(lib):
    fl = []
    for d in lib_closure([lib]):
        fl += ["-Q", os.path.join(COQ, d), d]
    return fl


def build_lib(lib, timeout=3000):
    """Full .vo build of one library with coq_makefile + make. Returns (ok, log)."""
    d = os.path.join(COQ, lib)
    with Lock("coq-" + lib):
        lines = []
        for dep in lib_closure([lib]):
            if dep == lib:
                lines.append("-Q . %s" % lib)
            else:
                lines.append("-Q ../%s %s" % (dep, dep))
        lines.append("-arg -w -arg -notation-overridden,-deprecated-hint-without-locality,-deprecated-instance-without-locality,-ambiguous-paths")
        lines += lib_sources(lib)
        cp = os.path.join(d, "_CoqProject")
        new = "\n".join(lines) + "\n"
        if not os.path.exists(cp) or open(cp).read() != new or not os.path.exists(os.path.join(d, "Makefile.coq")):
            open(cp, "w").write(new)
            rc, out = run(["coq_makefile", "-f", "_CoqProject", "-o", "Makefile.coq"], cwd=d, timeout=120)
            if rc != 0:
                return False, out
        rc, out = run(["make", "-f", "Makefile.coq", "-j16"], cwd=d, timeout=timeout)
        return rc == 0, out


def build_libs(libs, timeout=3000):
    logs = []
    for l in lib_closure(libs):
        ok, out = build_lib(l, timeout)
        logs.append("== make %s ==\n%s" % (l, out[-6000:]))
        if not ok:
            return False, "\n".join(logs), l
    return True, "\n".join(logs), None


def check_properties_file(lib, relpath, outdir, timeout=1200):
    """Re-check Properties.v with coqc (fresh, output captured) and parse Print Assumptions."""
    src = os.path.join(COQ, relpath)
    os.makedirs(outdir, exist_ok=True)
    os.makedirs(os.path.join(outdir, "recheck"), exist_ok=True)
    vo = os.path.join(outdir, "recheck", "Properties.vo")
    rc, out = run(["coqc"] + qflags(lib) + ["-o", vo, src], cwd=outdir, timeout=timeout)
    return rc == 0, out


def parse_assumptions(out, src_text):
    """Returns (theorems, n_print, axioms_by_index, bad). Theorems named in Print Assumptions."""
    text = strip_coq_comments(src_text)
    printed = re.findall(r"Print\s+Assumptions\s+([A-Za-z0-9_'.]+)\s*\.", text)
    theorems = [m.group(2) for m in STMT.finditer(text) if m.group(1) == "Theorem"]
    blocks = []
    cur = None
    for line in out.splitlines():
        if line.startswith("Closed under the global context"):
            blocks.append([])
            cur = None
        elif line.startswith("Axioms:"):
            cur = []
            blocks.append(cur)
        elif cur is not None:
            # an axiom is printed as `name : type` or, when the type is long, as `name` alone
            # on a line followed by indented `: type` lines
            m = re.match(r"^([A-Za-z_][A-Za-z0-9_'.]*)\s*(:.*)?$", line)
            if m:
                cur.append(m.group(1))
            elif line.startswith(" ") or not line.strip():
                pass
            else:
                cur = None
    res = {}
    bad = []
    for i, name in enumerate(printed):
        ax = blocks[i] if i < len(blocks) else ["<missing output>"]
        res[name] = ax
        for a in ax:
            if a not in ALLOWED_AXIOMS and a.split(".")[-1] not in ALLOWED_AXIOMS:
                bad.append("%s depends on %s" % (name, a))
    for t in theorems:
        if t not in printed:
            bad.append("theorem %s has no Print Assumptions" % t)
    return theorems, res, bad


def forbidden_scan(libs):
    hits = []
    for l in lib_closure(libs):
        d = os.path.join(COQ, l)
        for f in sorted(os.listdir(d)):
            if not f.endswith(".v"):
                continue
            txt = strip_coq_comments(open(os.path.join(d, f)).read())
            for i, line in enumerate(txt.splitlines(), 1):
                if FORBIDDEN.search(line):
                    hits.append("%s/%s:%d: %s" % (l, f, i, line.strip()[:120]))
    return hits


def count_obligations(libs):
    total = 0
    discharged = 0
    names = []
    for l in lib_closure(libs):
        d = os.path.join(COQ, l)
        for f in lib_sources(l):
            p = os.path.join(d, f)
            txt = strip_coq_comments(open(p).read())
            k = [m.group(2) for m in STMT.finditer(txt)]
            total += len(k)
            vo = p[:-2] + ".vo"
            if os.path.exists(vo) and os.path.getmtime(vo) >= os.path.getmtime(p):
                # every statement of a compiled file ended in Qed/Defined (Admitted is forbidden)
                discharged += len(k)
            names += ["%s.%s.%s" % (l, f[:-2], x) for x in k]
    return total, discharged, names


# ---------------------------------------------------------------- extraction + driver

def build_driver(meta, outdir, timeout=1800):
    pid = meta["id"]
    lib = meta["coq"]["lib"]
    oc = os.path.join(outdir, "ocaml")
    os.makedirs(oc, exist_ok=True)
    ext = os.path.join(COQ, meta["coq"].get("extract", lib + "/Extract.v"))
    drv = os.path.join(ROOT, meta.get("driver", "props/%s/driver.ml" % pid))
    binp = os.path.join(outdir, "model")
    # cache key: sources of the lib closure + driver files
    h = hashlib.sha256()
    for l in lib_closure([lib]):
        for f in sorted(os.listdir(os.path.join(COQ, l))):
            if f.endswith(".v"):
                h.update(open(os.path.join(COQ, l, f), "rb").read())
    extra = [os.path.join(ROOT, x) for x in meta.get("driver_extra", [])]
    for p in [drv, os.path.join(ROOT, "ocaml", "vutil.ml")] + extra:
        h.update(open(p, "rb").read())
    key = h.hexdigest()
    kp = os.path.join(outdir, "driver.key")
    if os.path.exists(binp) and os.path.exists(kp) and open(kp).read() == key:
        return True, "driver cached"
    with Lock("drv-" + pid):
        rc, out = run(["coqc"] + qflags(lib) + ["-o", os.path.join(oc, "Extract.vo"), ext], cwd=oc, timeout=timeout)
        if rc != 0:
            return False, "extraction failed:\n" + out[-4000:]
        shutil.copy(os.path.join(ROOT, "ocaml", "vutil.ml"), oc)
        names = []
        for p in extra + [drv]:
            shutil.copy(p, oc)
            names.append(os.path.basename(p))
        cmd = ["ocamlfind", "ocamlopt", "-O3", "-unboxed-types"]
        cmd = ["ocamlfind", "ocamlopt", "-w", "-a", "-inline", "200", "model.mli", "model.ml", "vutil.ml"] + names + ["-o", binp]
        rc, out = run(cmd, cwd=oc, timeout=timeout)
        if rc != 0:
            return False, "ocaml build failed:\n" + out[-4000:]
        open(kp, "w").write(key)
    return True, "driver built"


# ---------------------------------------------------------------- Go harness

def overlay_for(harness, outdir):
    rep = {os.path.join(REPO, "internal/verifutil/verifutil.go"): os.path.join(ROOT, "harness/verifutil/verifutil.go")}
    for dst, src in harness.get("files", {}).items():
        rep[os.path.join(REPO, dst)] = os.path.join(ROOT, src)
    p = os.path.join(outdir, "overlay-%s.json" % harness.get("name", "main"))
    json.dump({"Replace": rep}, open(p, "w"), indent=1)
    return p


def run_harness(meta, harness, outdir, tier, seed, n=None, replay=None, race=False):
    """Returns (rc, output, trace_path)."""
    name = harness.get("name", "main")
    ov = overlay_for(harness, outdir)
    trace = os.path.join(outdir, "trace-%s%s.txt" % (name, "-replay" if replay else ""))
    if os.path.exists(trace):
        os.remove(trace)
    env = dict(GOENV)
    env.update(harness.get("env", {}))
    env["VERIF_OUT"] = trace
    env["VERIF_SEED"] = str(seed)
    env["VERIF_TIER"] = tier
    if n is None:
        n = harness.get("n_thorough" if tier == "thorough" else "n_quick")
    if n is not None:
        env["VERIF_N"] = str(n)
    corpus = os.path.join(ROOT, "corpus", meta["id"], name + ".txt")
    if os.path.exists(corpus):
        env["VERIF_CORPUS"] = corpus
    if replay:
        env["VERIF_REPLAY"] = replay
    tmo = harness.get("timeout_thorough_s" if tier == "thorough" else "timeout_s", 900)
    cmd = ["go", "test", "-vet=off", "-count=1", "-overlay", ov, "-run", "^%s$" % harness["test"],
           "-timeout", "%ds" % tmo]
    if race:
        cmd.append("-race")
    cmd += harness.get("go_args", [])
    cmd.append(harness["pkg"])
    rc, out = run(cmd, cwd=REPO, env=env, timeout=tmo + 600)
    return rc, out, trace


def run_driver(outdir, trace, verdict_path, timeout=3600, args=None):
    with open(trace) as fi:
        rc, err = run([os.path.join(outdir, "model")] + (args or []), stdin=fi, stdout_path=verdict_path, timeout=timeout)
    return rc, err


def parse_verdicts(verdict_path):
    res = []
    for line in open(verdict_path, errors="replace"):
        if not line.startswith("R\t"):
            continue
        f = line.rstrip("\n").split("\t")
        if len(f) < 8:
            continue
        res.append({"id": f[1], "prop": f[2] == "1", "eq": f[3] == "1", "nontrivial": f[4] == "1",
                    "finding": f[5], "tags": [] if f[6] == "-" else f[6].split(","), "detail": f[7]})
    return res


def load_trace(trace):
    d = {}
    for line in open(trace, errors="replace"):
        f = line.rstrip("\n").split("\t")
        if len(f) == 3:
            d[f[0]] = (f[1], f[2])
    return d


# ---------------------------------------------------------------- known findings

def load_findings(pid):
    """known-findings.txt lines: `finding: property=Cxx id=<slug> | text` and
    `fixed: property=Cxx <commit> <what failed>` (the latter suppress nothing)."""
    p = os.path.join(ROOT, "known-findings.txt")
    res = {}
    if os.path.exists(p):
        for line in open(p):
            line = line.strip()
            m = re.match(r"finding:\s+property=(\S+)\s+id=(\S+)\s*\|?\s*(.*)", line)
            if m and m.group(1) == pid:
                res[m.group(2)] = m.group(3)
    return res


# ---------------------------------------------------------------- translator

def regen(meta, outdir):
    """Regenerate coq/<lib>/Gen.v from the Go source if the property declares consts."""
    cfg = os.path.join(ROOT, "props", meta["id"], "consts.json")
    if not os.path.exists(cfg):
        return True, "no generated constants"
    lib = meta["coq"]["lib"]
    target = os.path.join(COQ, lib, "Gen.v")
    tool = os.path.join(BUILD, "gosrc")
    with Lock("gosrc"):
        src = os.path.join(ROOT, "tools", "gosrc", "main.go")
        if not os.path.exists(tool) or os.path.getmtime(tool) < os.path.getmtime(src):
            rc, out = run(["go", "build", "-o", tool, "main.go"], cwd=os.path.dirname(src),
                          env=dict(GOENV, GOFLAGS="-mod=mod", GO111MODULE="off"), timeout=300)
            if rc != 0:
                return False, "translator build failed:\n" + out
    with Lock("coq-" + lib):
        tmp = target + ".tmp"
        rc, out = run([tool, "-repo", REPO, "-config", cfg, "-out", tmp], timeout=120)
        if rc != 0:
            return False, "translator failed:\n" + out
        if not os.path.exists(target) or open(target).read() != open(tmp).read():
            os.replace(tmp, target)
        else:
            os.remove(tmp)
    return True, out


# ---------------------------------------------------------------- vm_compute cross-check

def vm_sample(meta, outdir, trace, k, seed):
    """Re-evaluate a sample of the traced cases inside Coq with vm_compute (guards the
    extraction and the OCaml driver). Returns (n_checked, n_false, log)."""
    import random
    lines = [l for l in open(trace, errors="replace") if l.count("\t") == 2]
    rnd = random.Random(seed)
    if len(lines) > k:
        lines = rnd.sample(lines, k)
    sp = os.path.join(outdir, "vm-sample.txt")
    open(sp, "w").write("".join(lines))
    with open(sp) as fi:
        p = subprocess.run([os.path.join(outdir, "model"), "--coq"], stdin=fi, stdout=subprocess.PIPE,
                           stderr=subprocess.PIPE, text=True, timeout=600)
    terms = p.stdout
    n = terms.count("::\n")
    if n == 0:
        return 0, 0, "driver rendered no case"
    lib = meta["coq"]["lib"]
    hdr = meta.get("vm_header", "From Common Require Import Bytes.\nFrom %s Require Import Model.\n" % lib)
    d = os.path.join(outdir, "vm")
    os.makedirs(d, exist_ok=True)
    src = os.path.join(d, "cases.v")
    with open(src, "w") as f:
        f.write("From Coq Require Import List NArith ZArith Bool.\nImport ListNotations.\n" + hdr)
        f.write("Definition cases : list bool :=\n" + terms + "nil.\n")
        f.write("Definition n_false := length (filter negb cases).\n")
        f.write("Eval vm_compute in (length cases, n_false).\n")
    rc, out = run(["coqc"] + qflags(lib) + ["-o", os.path.join(d, "cases.vo"), src], cwd=d, timeout=1800)
    m = re.search(r"=\s*\((\d+)(?:%\w+)?,\s*(\d+)(?:%\w+)?\)", out)
    if rc != 0 or not m:
        return 0, -1, out[-3000:]
    return int(m.group(1)), int(m.group(2)), out[-500:]


# ---------------------------------------------------------------- coqchk (thorough tier)

def coqchk(lib, module="Properties", timeout=3600):
    """Independent re-check of the compiled library with coqchk -o; cached on the .vo contents.
    Returns (ok, axioms_text)."""
    h = hashlib.sha256()
    for l in lib_closure([lib]):
        d = os.path.join(COQ, l)
        for f in sorted(os.listdir(d)):
            if f.endswith(".vo"):
                h.update(f.encode())
                h.update(open(os.path.join(d, f), "rb").read())
    key = h.hexdigest()[:24]
    cd = os.path.join(BUILD, "coqchk")
    os.makedirs(cd, exist_ok=True)
    cp = os.path.join(cd, "%s-%s.txt" % (lib, key))
    if os.path.exists(cp):
        txt = open(cp).read()
        return txt.startswith("OK"), txt
    cmd = ["coqchk", "-silent", "-o"] + qflags(lib) + ["%s.%s" % (lib, module)]
    rc, out = run(cmd, cwd=cd, timeout=timeout)
    txt = ("OK\n" if rc == 0 else "FAILED rc=%d\n" % rc) + " ".join(cmd) + "\n" + out[-6000:]
    open(cp, "w").write(txt)
    return rc == 0, txt
