(* C02/Model.v — operation sequences over the trie API and over the ordered byte-string map
   (definitions only).  The trie side is parameterised by the implementation record so that the
   same interpreter runs the repaired model and the model of the pinned tree. *)
From Common Require Import Bytes Outcome.
From Trie Require Import Nibbles Node Encode Model Spec GoSpec.

Inductive op :=
| OpPut (k : list byte) (v : value)
| OpDel (k : list byte)
| OpClear (p : list byte)
| OpClearLimit (p : list byte) (limit : N)
| OpGet (k : list byte)
| OpNext (k : list byte)
| OpKeys (p : list byte)
| OpEntries.

Definition listing := list (list byte * option value).

Inductive out :=
| OutEntries (e : listing)
| OutLimit (deleted : N) (all_deleted : bool) (e : listing)
| OutGet (v : option value)
| OutNext (k : option (list byte))
| OutKeys (ks : list (list byte))
| OutPanic.

Record impl := {
  i_get : trie -> list byte -> option value;
  i_delete : trie -> list byte -> trie;
  i_clear : trie -> list byte -> trie;
  i_clear_limit : trie -> list byte -> N -> trie * N * bool;
  i_keys : trie -> list byte -> outcome (list (list byte));
  i_entries : trie -> listing
}.

Definition pinned : impl := {|
  i_get := trie_get_pinned;
  i_delete := trie_delete_pinned;
  i_clear := trie_clear_prefix_pinned;
  i_clear_limit := trie_clear_prefix_limit_pinned;
  i_keys := trie_keys_with_prefix_pinned;
  i_entries := trie_entries_pinned
|}.

Definition repaired : impl := {|
  i_get := trie_get;
  i_delete := trie_delete;
  i_clear := trie_clear_prefix;
  i_clear_limit := trie_clear_prefix_limit;
  i_keys := trie_keys_with_prefix;
  i_entries := trie_entries
|}.

(* one API call: new state, observable, stop flag (a panic ends the case) *)
Definition trie_step (I : impl) (t : trie) (o : op) : trie * out :=
  match o with
  | OpPut k v => let t' := trie_put t k v in (t', OutEntries (i_entries I t'))
  | OpDel k => let t' := i_delete I t k in (t', OutEntries (i_entries I t'))
  | OpClear p => let t' := i_clear I t p in (t', OutEntries (i_entries I t'))
  | OpClearLimit p l =>
    let '(t', d, a) := i_clear_limit I t p l in (t', OutLimit d a (i_entries I t'))
  | OpGet k => (t, OutGet (i_get I t k))
  | OpNext k => (t, OutNext (trie_next_key t k))
  | OpKeys p => (t, match i_keys I t p with Ok l => OutKeys l | _ => OutPanic end)
  | OpEntries => (t, OutEntries (i_entries I t))
  end.

Definition is_panic (o : out) : bool := match o with OutPanic => true | _ => false end.

Fixpoint run_trie (I : impl) (t : trie) (ops : list op) : list out :=
  match ops with
  | [] => []
  | o :: r => let '(t', x) := trie_step I t o in
              if is_panic x then [x] else x :: run_trie I t' r
  end.

(* ---- the ordered map ---- *)
Definition bm_listing (m : bmap) : listing := map (fun e => (fst e, Some (snd e))) m.

Definition bm_step (m : bmap) (o : op) : bmap * out :=
  match o with
  | OpPut k v => let m' := bm_put m k v in (m', OutEntries (bm_listing m'))
  | OpDel k => let m' := bm_del m k in (m', OutEntries (bm_listing m'))
  | OpClear p => let m' := bm_clear_prefix m p in (m', OutEntries (bm_listing m'))
  | OpClearLimit p l =>
    let '(m', d, a) := bm_clear_prefix_limit m p l in (m', OutLimit d a (bm_listing m'))
  | OpGet k => (m, OutGet (bm_get m k))
  | OpNext k => (m, OutNext (bm_next_key m k))
  | OpKeys p => (m, OutKeys (bm_keys_with_prefix m p))
  | OpEntries => (m, OutEntries (bm_listing m))
  end.

Fixpoint run_bmap (m : bmap) (ops : list op) : list out :=
  match ops with
  | [] => []
  | o :: r => let '(m', x) := bm_step m o in x :: run_bmap m' r
  end.

(* ---- the ordered map with the matching rule of the Go code (Trie/GoSpec.v): the prefix
   operations match a byte prefix minus one trailing zero nibble, and a limited clear with limit 0
   reports "not all deleted".  run_gomap is what the trie computes also INSIDE the known-finding
   classes prefix-trim and clear-limit-zero (C02_refines_go). ---- *)
Definition gm_step (m : bmap) (o : op) : bmap * out :=
  match o with
  | OpClear p => let m' := go_clear_prefix m p in (m', OutEntries (bm_listing m'))
  | OpClearLimit p l =>
    let '(m', d, a) := go_clear_prefix_limit m p l in (m', OutLimit d a (bm_listing m'))
  | OpKeys p => (m, OutKeys (go_keys_with_prefix m p))
  | _ => bm_step m o
  end.

Fixpoint run_gomap (m : bmap) (ops : list op) : list out :=
  match ops with
  | [] => []
  | o :: r => let '(m', x) := gm_step m o in x :: run_gomap m' r
  end.
