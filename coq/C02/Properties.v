(* C02/Properties.v — property C02: trie storage behaves as an ordered byte-string map.
   Only statements, each closed by `exact <lemma>`, with Print Assumptions beneath.

   run_trie repaired None ops : the observations (values, keys, key lists in the order returned,
       (deleted, allDeleted), and Entries() after every mutation) of the operation sequence ops on
       the model of InMemoryTrie (in_memory.go, iterator.go; fix patches applied), starting empty.
   run_bmap [] ops : the same sequence on the ordered map over byte-string keys of Trie/Spec.v
       (get, put, del, next_key = smallest strictly greater key, keys_with_prefix byte-wise and
       ascending, clear_prefix, clear_prefix_limit = remove the [limit] smallest matching keys and
       report (removed, none remain)).

   FULL STATEMENT:  forall ops, run_trie repaired None ops = run_bmap [] ops.
   It is refuted in five input classes, each pinned down by an existing unit test of
   pkg/trie/inmemory (known findings prefix-trim, get-exhausted-key, delete-exhausted-key,
   clear-limit-zero, clear-limit-order): C02_*_refuted below.  C02_refines_partial is the full
   statement for every sequence in which no operation meets one of the five guards
   (guard_of, evaluated on the state before the operation); every limit, including 0 and
   limits above the number of matching keys, is covered. *)
From Common Require Import Bytes Outcome.
From Trie Require Import Nibbles Node Encode Model Spec.
From C02 Require Import Model Guards Proofs.

Theorem C02_refines_partial : forall ops,
  guards_free [] None ops = true -> run_trie repaired None ops = run_bmap [] ops.
Proof. exact refines. Qed.
Print Assumptions C02_refines_partial.

(* one step, from any state in which the trie represents the map *)
Theorem C02_step : forall t m o, Trie.MapProofs.Rep t m -> guard_of m t o = 0%nat ->
  snd (trie_step repaired t o) = snd (bm_step m o) /\
  Trie.MapProofs.Rep (fst (trie_step repaired t o)) (fst (bm_step m o)).
Proof. exact step_correct. Qed.
Print Assumptions C02_step.

(* the five known-finding classes: the full statement fails inside each guard *)
Theorem C02_prefix_refuted :
  (exists ops, run_trie repaired None ops <> run_bmap [] ops) /\
  (exists ops, run_trie repaired None ops <> run_bmap [] ops).
Proof. split; [exists w_trim; exact trim_refuted|exists w_trim_clear; exact trim_clear_refuted]. Qed.
Print Assumptions C02_prefix_refuted.

Theorem C02_empty_key_refuted :
  (exists ops, run_trie repaired None ops <> run_bmap [] ops) /\
  (exists ops, run_trie repaired None ops <> run_bmap [] ops).
Proof. split; [exists w_get_empty; exact get_empty_refuted|exists w_del_empty; exact del_empty_refuted]. Qed.
Print Assumptions C02_empty_key_refuted.

Theorem C02_limit_refuted :
  (exists ops, run_trie repaired None ops <> run_bmap [] ops) /\
  (exists ops, run_trie repaired None ops <> run_bmap [] ops).
Proof. split; [exists w_limit_zero; exact limit_zero_refuted|exists w_limit_order; exact limit_order_refuted]. Qed.
Print Assumptions C02_limit_refuted.

(* the guards are not wider than the failing classes: inside the trim guard the key listing differs
   from the ordered map's, inside the get guard Get differs, inside the limit-zero guard allDeleted differs *)
Theorem C02_guards_exact : forall t m,
  Trie.MapProofs.Rep t m ->
  (forall p, guard_trim m p = true -> trie_keys_with_prefix t p <> Ok (bm_keys_with_prefix m p)) /\
  (forall k, guard_get_exhausted t k = true -> trie_get t k <> bm_get m k) /\
  (forall p limit, guard_limit_zero m p limit = true ->
     snd (trie_clear_prefix_limit t p limit) <> snd (bm_clear_prefix_limit m p limit)).
Proof.
  intros t m R. split; [|split].
  - intros p G. exact (guard_trim_exact_keys t m p R G).
  - intros k G. exact (guard_get_exact t m k R G).
  - intros p limit G. exact (guard_limit_zero_exact t m p limit G).
Qed.
Print Assumptions C02_guards_exact.

(* the pinned tree violated the statement outside every guard (fixed by fixes/C02-get-diverging-key,
   C02-delete-diverging-key, C02-keys-prefix-descent, C02-get-exhausted-key-nested,
   C02-delete-exhausted-key-nested) *)
Theorem C02_pinned_refuted :
  Forall (fun w => guards_free [] None w = true /\ run_trie pinned None w <> run_bmap [] w)
         [w_pinned_get; w_pinned_del; w_pinned_keys; w_pinned_nested_get; w_pinned_nested_del].
Proof. exact pinned_refuted. Qed.
Print Assumptions C02_pinned_refuted.

(* non-vacuity: a guard-free sequence that uses every operation, with a prefix whose last byte has a
   zero low nibble, a key that is a prefix of another, and limits 0, 1 and 5 *)
Example C02_nonvacuous :
  let ops := [OpPut (b [16]) (b [1]); OpPut (b [16; 1]) (b [2]); OpPut (b [16; 2]) (b [3]);
              OpPut (b [32]) (b [4]); OpPut [] (b [5]);
              OpGet (b [16; 1]); OpGet (b [17]); OpNext (b [16]); OpNext (b [32]);
              OpKeys (b [16]); OpKeys []; OpEntries;
              OpClearLimit (b [16; 1]) 0; OpClearLimit (b [16; 1]) 1; OpClearLimit (b [16]) 5;
              OpDel (b [32]); OpClear (b [48]); OpClear []]%N in
  guards_free [] None ops = true /\ length (run_bmap [] ops) = 18%nat /\
  nth 9 (run_bmap [] ops) OutPanic = OutKeys [b [16]; b [16; 1]; b [16; 2]]%N /\
  nth 14 (run_bmap [] ops) OutPanic = OutLimit 2 true [([], Some (b [5])); (b [32], Some (b [4]))]%N.
Proof. vm_compute. repeat split; reflexivity. Qed.
