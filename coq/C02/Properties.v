(* C02/Properties.v — property C02: trie storage behaves as an ordered byte-string map.
   Only statements, each closed by `exact <lemma>`, with Print Assumptions beneath.

   run_trie repaired None ops : the observations (values, keys, key lists in the order returned,
       (deleted, allDeleted), and Entries() after every mutation) of the operation sequence ops on
       the model of InMemoryTrie (in_memory.go, iterator.go; fix patches applied), starting empty.
   run_bmap [] ops : the same sequence on the ordered map over byte-string keys of Trie/Spec.v
       (get, put, del, next_key = smallest strictly greater key, keys_with_prefix byte-wise and
       ascending, clear_prefix, clear_prefix_limit = remove the [limit] smallest matching keys and
       report (removed, none remain)); C02_spec_meaning proves that the definitions compute that.
   run_gomap [] ops : the ordered map with the matching rule the Go code really uses for the three
       prefix operations (byte prefix minus one trailing zero nibble; limit 0 answers "not all
       deleted"): what the code computes also inside the classes prefix-trim and clear-limit-zero.

   FULL STATEMENT:  forall ops, run_trie repaired None ops = run_bmap [] ops.
   It is refuted in five input classes, each pinned down by an existing unit test of
   pkg/trie/inmemory (known findings prefix-trim, get-exhausted-key, delete-exhausted-key,
   clear-limit-zero, clear-limit-order): C02_*_refuted below.  C02_refines_partial is the full
   statement for every sequence in which no operation meets one of the five guards
   (guard_of, evaluated on the state before the operation); every limit, including 0 and
   limits above the number of matching keys, is covered.  C02_guards_exact: inside every guard the
   observation provably differs from the map's, so the guards exclude nothing but failing inputs
   (complete since round 4: the order guard of a limited clear is exact whether or not the trimmed
   prefix matters — byte keys have an even number of nibbles, so the keys with the byte prefix come
   before the keys that match the trimmed prefix only). *)
From Common Require Import Bytes Outcome.
From Trie Require Import Nibbles Node Encode Model Spec GoSpec SpecProofs.
From C02 Require Import Model Guards Proofs.

Theorem C02_refines_partial : forall ops,
  guards_free [] None ops = true -> run_trie repaired None ops = run_bmap [] ops.
Proof. exact refines. Qed.
Print Assumptions C02_refines_partial.

(* one step, from any state in which the trie represents the map *)
Theorem C02_step : forall t m o, Trie.MapProofs.Rep t m -> guard_of m t o = 0%nat ->
  snd (trie_step repaired t o) = snd (bm_step m o) /\
  Trie.MapProofs.Rep (fst (trie_step repaired t o)) (fst (bm_step m o)).
Proof. exact step_correct. Qed.
Print Assumptions C02_step.

(* the hypothesis of C02_step is met by every state a guard-free sequence passes through *)
Theorem C02_states : forall ops, guards_free [] None ops = true ->
  forall i, Trie.MapProofs.Rep (trie_before repaired None ops i) (bmap_before [] ops i).
Proof. intros ops G. exact (run_states ops None [] Trie.MapProofs.Rep_empty G). Qed.
Print Assumptions C02_states.

(* the code IS an ordered map, with the prefix rule of the Go code: no prefix-trim and no
   clear-limit-zero guard is needed for this statement *)
Theorem C02_refines_go : forall ops,
  guards_go_free [] None ops = true -> run_trie repaired None ops = run_gomap [] ops.
Proof. exact refines_go. Qed.
Print Assumptions C02_refines_go.

(* what the specification operations compute, in the words of the property *)
Theorem C02_spec_meaning : forall m, bm_sorted m = true ->
  (* next-key returns the smallest strictly greater key, and none only if there is none *)
  (forall k k', bm_next_key m k = Some k' ->
     In k' (bm_keys m) /\ bytes_lt k k' /\
     forall k'', In k'' (bm_keys m) -> bytes_lt k k'' -> k'' = k' \/ bytes_lt k' k'') /\
  (forall k, bm_next_key m k = None -> forall k'', In k'' (bm_keys m) -> ~ bytes_lt k k'') /\
  (* prefixes match byte-wise; the listing keeps the (ascending) order of the map *)
  (forall p, bm_keys_with_prefix m p = filter (bytes_prefix p) (bm_keys m)) /\
  (forall p k v, In (k, v) (bm_clear_prefix m p) <-> In (k, v) m /\ bytes_prefix p k = false) /\
  (* a limited clear leaves the other entries alone, removes the [limit] smallest matching keys,
     reports how many it removed and whether none remain *)
  (forall p limit,
     let '(m', n, all) := bm_clear_prefix_limit m p limit in
     let M := filter (Trie.LimitProofs.bmatch p) m in
     filter (fun e => negb (Trie.LimitProofs.bmatch p e)) m' = filter (fun e => negb (Trie.LimitProofs.bmatch p e)) m /\
     filter (Trie.LimitProofs.bmatch p) m' = skipn (N.to_nat limit) M /\
     n = N.of_nat (Nat.min (N.to_nat limit) (length M)) /\
     (all = true <-> filter (Trie.LimitProofs.bmatch p) m' = [])).
Proof.
  intros m S. split; [|split; [|split; [|split]]].
  - intros k k'. exact (bm_next_key_some m k k' S).
  - intros k. exact (bm_next_key_none m k).
  - intros p. exact (bm_keys_with_prefix_order m p).
  - intros p k v. exact (bm_clear_prefix_in m p k v).
  - intros p limit. exact (bm_clear_prefix_limit_meaning m p limit).
Qed.
Print Assumptions C02_spec_meaning.

(* the five known-finding classes: the full statement fails inside each guard *)
Theorem C02_prefix_refuted :
  (exists ops, run_trie repaired None ops <> run_bmap [] ops) /\
  (exists ops, run_trie repaired None ops <> run_bmap [] ops).
Proof. split; [exists w_trim; exact trim_refuted|exists w_trim_clear; exact trim_clear_refuted]. Qed.
Print Assumptions C02_prefix_refuted.

Theorem C02_empty_key_refuted :
  (exists ops, run_trie repaired None ops <> run_bmap [] ops) /\
  (exists ops, run_trie repaired None ops <> run_bmap [] ops).
Proof. split; [exists w_get_empty; exact get_empty_refuted|exists w_del_empty; exact del_empty_refuted]. Qed.
Print Assumptions C02_empty_key_refuted.

Theorem C02_limit_refuted :
  (exists ops, run_trie repaired None ops <> run_bmap [] ops) /\
  (exists ops, run_trie repaired None ops <> run_bmap [] ops).
Proof. split; [exists w_limit_zero; exact limit_zero_refuted|exists w_limit_order; exact limit_order_refuted]. Qed.
Print Assumptions C02_limit_refuted.

(* the guards are not wider than the failing classes.  From any state in which the trie represents
   the map: inside the trim guard the key listing and the entries after ClearPrefix differ from the
   map's; inside the narrowed trim guard of the limited clear (outside the order guard) the
   observation differs; inside the order guard (class clear-limit-order) the keys listed after the
   limited clear differ; inside the get guard Get differs; inside the delete guard an entry is lost
   although the map keeps it; inside the limit-zero guard allDeleted differs. *)
Theorem C02_guards_exact : forall t m,
  Trie.MapProofs.Rep t m ->
  (forall p, guard_trim m p = true -> trie_keys_with_prefix t p <> Ok (bm_keys_with_prefix m p)) /\
  (forall p, guard_trim m p = true -> trie_entries (trie_clear_prefix t p) <> bm_listing (bm_clear_prefix m p)) /\
  (forall p l, l <> 0%N -> guard_limit_order_go m p l = false -> guard_trim_limit m p l = true ->
     snd (trie_step repaired t (OpClearLimit p l)) <> snd (bm_step m (OpClearLimit p l))) /\
  (forall p l, l <> 0%N -> guard_limit_order_go m p l = true ->
     snd (trie_step repaired t (OpClearLimit p l)) <> snd (bm_step m (OpClearLimit p l))) /\
  (forall k, guard_get_exhausted t k = true -> trie_get t k <> bm_get m k) /\
  (forall k, guard_delete_exhausted t k = true ->
     length (trie_entries (trie_delete t k)) < length (bm_listing (bm_del m k))) /\
  (forall p limit, guard_limit_zero m p limit = true ->
     snd (trie_clear_prefix_limit t p limit) <> snd (bm_clear_prefix_limit m p limit)).
Proof.
  intros t m R. split; [|split; [|split; [|split; [|split; [|split]]]]].
  - intros p G. exact (guard_trim_exact_keys t m p R G).
  - intros p G. exact (guard_trim_exact_clear t m p R G).
  - intros p l Z Go Gt. exact (guard_trim_limit_exact t m p l R Z Go Gt).
  - intros p l Z Go. exact (guard_limit_order_exact_all t m p l R Z Go).
  - intros k G. exact (guard_get_exact t m k R G).
  - intros k G. exact (guard_delete_exact t m k R G).
  - intros p limit G. exact (guard_limit_zero_exact t m p limit G).
Qed.
Print Assumptions C02_guards_exact.

(* the driver evaluates the guards of a limited clear with the limit clamped to (number of stored
   keys + 1): that is the same guard *)
Theorem C02_guard_clamp : forall m t p l,
  guard_of m t (OpClearLimit p l) = guard_of m t (OpClearLimit p (N.min l (N.of_nat (S (length m))))).
Proof. exact guard_of_clamp. Qed.
Print Assumptions C02_guard_clamp.

(* the pinned tree violated the statement outside every guard (fixed by fixes/C02-get-diverging-key,
   C02-delete-diverging-key, C02-keys-prefix-descent, C02-get-exhausted-key-nested,
   C02-delete-exhausted-key-nested) *)
Theorem C02_pinned_refuted :
  Forall (fun w => guards_free [] None w = true /\ run_trie pinned None w <> run_bmap [] w)
         [w_pinned_get; w_pinned_del; w_pinned_keys; w_pinned_nested_get; w_pinned_nested_del].
Proof. exact pinned_refuted. Qed.
Print Assumptions C02_pinned_refuted.

(* non-vacuity: a guard-free sequence that uses every operation, with a prefix whose last byte has a
   zero low nibble, a key that is a prefix of another, and limits 0, 1 and 5 *)
Example C02_nonvacuous :
  let ops := [OpPut (b [16]) (b [1]); OpPut (b [16; 1]) (b [2]); OpPut (b [16; 2]) (b [3]);
              OpPut (b [32]) (b [4]); OpPut [] (b [5]);
              OpGet (b [16; 1]); OpGet (b [17]); OpNext (b [16]); OpNext (b [32]);
              OpKeys (b [16]); OpKeys []; OpEntries;
              OpClearLimit (b [16; 1]) 0; OpClearLimit (b [16; 1]) 1; OpClearLimit (b [16]) 5;
              OpDel (b [32]); OpClear (b [48]); OpClear []]%N in
  guards_free [] None ops = true /\ length (run_bmap [] ops) = 18%nat /\
  nth 9 (run_bmap [] ops) OutPanic = OutKeys [b [16]; b [16; 1]; b [16; 2]]%N /\
  nth 14 (run_bmap [] ops) OutPanic = OutLimit 2 true [([], Some (b [5])); (b [32], Some (b [4]))]%N.
Proof. vm_compute. repeat split; reflexivity. Qed.

(* the narrowed guard of the limited clear: with 0x1001, 0x1002, 0x1f02 stored the trimmed prefix
   of 0x10 also matches 0x1f02 (guard_trim holds), yet ClearPrefixLimit(0x10, 1) and
   ClearPrefixLimit(0x10, 0) are inside the theorem (guard 0) and give the map's answer, while
   ClearPrefixLimit(0x10, 2) (allDeleted differs) and (0x10, 3) (0x1f02 is removed) are not *)
Example C02_nonvacuous_trim_limit :
  let pre := [OpPut (b [16; 1]) (b [1]); OpPut (b [16; 2]) (b [2]); OpPut (b [31; 2]) (b [3])]%N in
  let m := fst (fold_left (fun s o => bm_step (fst s) o) pre ([], OutPanic)) in
  guard_trim m (b [16])%N = true /\
  guards_free [] None (pre ++ [OpClearLimit (b [16]) 1; OpClearLimit (b [16]) 0])%N = true /\
  guards_free [] None (pre ++ [OpClearLimit (b [16]) 2])%N = false /\
  guards_free [] None (pre ++ [OpClearLimit (b [16]) 3])%N = false /\
  run_trie repaired None (pre ++ [OpClearLimit (b [16]) 2])%N <> run_bmap [] (pre ++ [OpClearLimit (b [16]) 2])%N /\
  run_trie repaired None (pre ++ [OpClearLimit (b [16]) 3])%N <> run_bmap [] (pre ++ [OpClearLimit (b [16]) 3])%N.
Proof. vm_compute. repeat split; try reflexivity; discriminate. Qed.

(* C02_refines_go is not vacuous inside the finding classes: the prefix-trim and limit-zero
   witnesses are free of its guards, and there the Go rule differs from the byte-wise rule *)
Example C02_nonvacuous_go :
  guards_go_free [] None w_trim = true /\ run_gomap [] w_trim <> run_bmap [] w_trim /\
  guards_go_free [] None w_trim_clear = true /\ guards_go_free [] None w_limit_zero = true /\
  guards_go_free [] None w_limit_order = false.
Proof. vm_compute. repeat split; try reflexivity; discriminate. Qed.

(* ---- closer: the corner inside BOTH guards of a limited clear, and the uniform consequence ---- *)
From C02 Require Import ProofsCorner.

(* a limited ClearPrefixLimit inside both guard_trim_limit and guard_limit_order_go is reported as
   class 3 (prefix-trim) and its observation really differs from the ordered map's *)
Theorem C02_guard_corner_exact : forall t m p l, Trie.MapProofs.Rep t m -> l <> 0%N ->
  guard_trim_limit m p l = true -> guard_limit_order_go m p l = true ->
  guard_of m t (OpClearLimit p l) = 3%nat /\
  snd (trie_step repaired t (OpClearLimit p l)) <> snd (bm_step m (OpClearLimit p l)).
Proof. exact guard_corner_exact. Qed.
Print Assumptions C02_guard_corner_exact.

(* hence, for every operation and from every state in which the trie represents the map: a guard
   is hit if and only if the call's observation differs from the ordered map's *)
Theorem C02_guard_iff_differs : forall t m o, Trie.MapProofs.Rep t m ->
  (guard_of m t o = 0%nat <-> snd (trie_step repaired t o) = snd (bm_step m o)).
Proof. exact guard_iff_differs. Qed.
Print Assumptions C02_guard_iff_differs.

(* the corner is inhabited: 0x10, 0x1f, 0x1f01 stored, ClearPrefixLimit(0x10, 2) *)
Example C02_guard_corner_nonvacuous :
  let m := fst (fold_left (fun s o => bm_step (fst s) o) w_corner_pre ([], OutPanic)) in
  guard_trim_limit m (b [16])%N 2 = true /\ guard_limit_order_go m (b [16])%N 2 = true /\
  guards_free [] None w_corner = false /\
  run_trie repaired None w_corner <> run_bmap [] w_corner.
Proof. exact corner_nonvacuous. Qed.
