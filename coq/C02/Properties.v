(* C02/Properties.v — property C02 (statements only). Under construction. *)
From Common Require Import Bytes.
From Trie Require Import Nibbles Node Encode Model Spec.
From C02 Require Import Model.
