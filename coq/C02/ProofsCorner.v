(* C02/ProofsCorner.v — the corner of a limited ClearPrefixLimit that lies inside BOTH
   guard_trim_limit and guard_limit_order_go (reported as class prefix-trim, number 3, because
   guard_of tests the trim guard first), and the uniform statement that follows once that corner is
   exact: a guard is hit IF AND ONLY IF the observation of the trie differs from the ordered map's.

   The parity argument (byte keys have an even number of nibbles, so the keys with the byte prefix
   come before the keys that match the trimmed prefix only: Trie.OrderProofs.trimmed_only_greater,
   byte_prefix_initial_segment) and the count under the order guard (order_guard_count) are used
   through C02.Proofs.guard_limit_order_exact_all, which has no hypothesis on the trim guard. *)
From Common Require Import Bytes Outcome.
From Trie Require Import Nibbles Node Encode Model Spec MapProofs GoSpec.
From C02 Require Import Model Guards Proofs.
From Coq Require Import Arith Lia.

(* the corner itself *)
Theorem guard_corner_exact t m p l : Rep t m -> l <> 0%N ->
  guard_trim_limit m p l = true -> guard_limit_order_go m p l = true ->
  guard_of m t (OpClearLimit p l) = 3 /\
  snd (trie_step repaired t (OpClearLimit p l)) <> snd (bm_step m (OpClearLimit p l)).
Proof.
  intros R Z Gt Go. split.
  - cbn [guard_of]. destruct (N.eqb_spec l 0); [contradiction|]. now rewrite Gt.
  - exact (guard_limit_order_exact_all t m p l R Z Go).
Qed.

(* every guard hit differs, whatever the operation and the class *)
Theorem guard_hit_differs t m o : Rep t m -> guard_of m t o <> 0 ->
  snd (trie_step repaired t o) <> snd (bm_step m o).
Proof.
  intros R G. destruct o as [k v|k|p|p l|k|k|p|]; cbn [guard_of] in G; try congruence.
  - (* Delete *)
    destruct (guard_delete_exhausted t k) eqn:E; [|congruence].
    pose proof (guard_delete_exact t m k R E) as Lt.
    cbn [trie_step bm_step repaired i_delete i_entries fst snd]. intros Eq.
    inversion Eq as [E1]. rewrite E1 in Lt. lia.
  - (* ClearPrefix *)
    destruct (guard_trim m p) eqn:E; [|congruence].
    pose proof (guard_trim_exact_clear t m p R E) as D.
    cbn [trie_step bm_step repaired i_clear i_entries fst snd]. intros Eq.
    inversion Eq as [E1]. exact (D E1).
  - (* ClearPrefixLimit *)
    destruct (N.eqb_spec l 0) as [->|Z].
    + destruct (guard_limit_zero m p 0) eqn:E; [|congruence].
      pose proof (guard_limit_zero_exact t m p 0%N E) as D.
      cbn [trie_step bm_step repaired i_clear_limit i_entries].
      destruct (trie_clear_prefix_limit t p 0) as [[t' d] a].
      destruct (bm_clear_prefix_limit m p 0) as [[m' d'] a']. cbn [fst snd] in *.
      intros Eq. inversion Eq as [[E1 E2 E3]]. apply D. exact E2.
    + destruct (guard_limit_order_go m p l) eqn:Go.
      * exact (guard_limit_order_exact_all t m p l R Z Go).
      * destruct (guard_trim_limit m p l) eqn:Gt; [|congruence].
        exact (guard_trim_limit_exact t m p l R Z Go Gt).
  - (* Get *)
    destruct (guard_get_exhausted t k) eqn:E; [|congruence].
    pose proof (guard_get_exact t m k R E) as D.
    cbn [trie_step bm_step repaired i_get fst snd]. intros Eq. inversion Eq as [E1]. exact (D E1).
  - (* Keys *)
    destruct (guard_trim m p) eqn:E; [|congruence].
    pose proof (guard_trim_exact_keys t m p R E) as D.
    cbn [trie_step bm_step repaired i_keys fst snd].
    destruct (trie_keys_with_prefix t p) as [ks|c| |] eqn:K; try discriminate.
    intros Eq. inversion Eq as [E1]. apply D. now rewrite E1.
Qed.

(* guard_of is a decision procedure for "this call gives the ordered map's observation" *)
Theorem guard_iff_differs t m o : Rep t m ->
  (guard_of m t o = 0 <-> snd (trie_step repaired t o) = snd (bm_step m o)).
Proof.
  intros R. split.
  - intros G. exact (proj1 (step_correct t m o R G)).
  - intros Eq. destruct (Nat.eq_dec (guard_of m t o) 0) as [G|G]; [exact G|].
    exfalso. exact (guard_hit_differs t m o R G Eq).
Qed.

(* non-vacuity of the corner: with 0x10, 0x1f, 0x1f01 stored, ClearPrefixLimit(0x10, 2) is inside
   both guards (the second matched key 0x1f lacks the byte prefix; the third, 0x1f01, extends it) *)
Definition w_corner_pre : list op :=
  [OpPut (b [16]) (b [1]); OpPut (b [31]) (b [2]); OpPut (b [31; 1]) (b [3])]%N.
Definition w_corner : list op := (w_corner_pre ++ [OpClearLimit (b [16]) 2])%N.
Lemma corner_nonvacuous :
  let m := fst (fold_left (fun s o => bm_step (fst s) o) w_corner_pre ([], OutPanic)) in
  guard_trim_limit m (b [16])%N 2 = true /\ guard_limit_order_go m (b [16])%N 2 = true /\
  guards_free [] None w_corner = false /\
  run_trie repaired None w_corner <> run_bmap [] w_corner.
Proof. vm_compute. repeat split; try reflexivity; discriminate. Qed.
