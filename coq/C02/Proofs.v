(* C02/Proofs.v — every operation sequence outside the known-finding guards gives, on the trie model,
   exactly the observations of the ordered byte-string map. *)
From Common Require Import Bytes Outcome.
From Trie Require Import Nibbles Node Encode Model Spec NibblesProofs Sem InsertProofs DeleteProofs
     BuildProofs MapProofs QueryProofs ClearProofs LimitProofs.
From C02 Require Import Model Guards.
From Coq Require Import Arith Lia.

(* no guard is met along the sequence (states follow the ordered map and the trie model) *)
Fixpoint guards_free (m : bmap) (t : trie) (ops : list op) : bool :=
  match ops with
  | [] => true
  | o :: r => (guard_of m t o =? 0) && guards_free (fst (bm_step m o)) (fst (trie_step repaired t o)) r
  end.

Lemma listing_rep t m : Rep t m -> trie_entries t = bm_listing m.
Proof. intros R. now rewrite (Rep_entries t m R). Qed.

Lemma step_correct t m o : Rep t m -> guard_of m t o = 0 ->
  snd (trie_step repaired t o) = snd (bm_step m o) /\
  Rep (fst (trie_step repaired t o)) (fst (bm_step m o)).
Proof.
  intros R G. destruct o as [k v|k|p|p l|k|k|p|]; cbn [trie_step bm_step repaired i_get i_delete i_clear
    i_clear_limit i_keys i_entries fst snd guard_of] in *.
  - pose proof (Rep_put t m k v R) as R'. split; auto. now rewrite (listing_rep _ _ R').
  - destruct (guard_delete_exhausted t k) eqn:Gd; [discriminate|].
    pose proof (Rep_delete t m k R Gd) as R'. split; auto. now rewrite (listing_rep _ _ R').
  - destruct (guard_trim m p) eqn:Gt; [discriminate|].
    pose proof (Rep_clear_prefix t m p R Gt) as R'. split; auto. now rewrite (listing_rep _ _ R').
  - destruct (guard_trim m p) eqn:Gt; [discriminate|].
    destruct (guard_limit_zero m p l) eqn:Gz; [discriminate|].
    destruct (guard_limit_order m p l) eqn:Go; [discriminate|].
    destruct (Rep_clear_prefix_limit t m p l R Gt Gz Go) as (R' & Ed & Ea).
    destruct (trie_clear_prefix_limit t p l) as [[t' d] a].
    destruct (bm_clear_prefix_limit m p l) as [[m' d'] a']. cbn [fst snd] in *. subst.
    split; auto. now rewrite (listing_rep _ _ R').
  - destruct (guard_get_exhausted t k) eqn:Gg; [discriminate|].
    split; auto. now rewrite (Rep_get t m k R Gg).
  - split; auto. now rewrite (Rep_next_key t m k R).
  - destruct (guard_trim m p) eqn:Gt; [discriminate|].
    split; auto. now rewrite (Rep_keys_with_prefix t m p R Gt).
  - split; auto. now rewrite (listing_rep _ _ R).
Qed.

Lemma bm_step_no_panic m o : is_panic (snd (bm_step m o)) = false.
Proof.
  destruct o; cbn [bm_step snd]; auto.
  destruct (bm_clear_prefix_limit m p limit) as [[m' d] a]. reflexivity.
Qed.

Lemma run_correct ops : forall t m, Rep t m -> guards_free m t ops = true ->
  run_trie repaired t ops = run_bmap m ops.
Proof.
  induction ops as [|o ops IH]; intros t m R G; cbn [run_trie run_bmap]; auto.
  cbn [guards_free] in G. apply andb_true_iff in G as [G1 G2]. apply Nat.eqb_eq in G1.
  destruct (step_correct t m o R G1) as [Es R'].
  destruct (trie_step repaired t o) as [t' x]. destruct (bm_step m o) as [m' x'] eqn:Eb.
  cbn [fst snd] in *. subst x.
  pose proof (bm_step_no_panic m o) as Np. rewrite Eb in Np. cbn [snd] in Np. rewrite Np.
  f_equal. apply IH; auto.
Qed.

Theorem refines ops : guards_free [] None ops = true -> run_trie repaired None ops = run_bmap [] ops.
Proof. intros G. apply run_correct; auto. apply Rep_empty. Qed.

(* ---- the guards are exact: inside a guard the observation differs from the ordered map's ---- *)
(* the trim guard is exact for the key listing: inside it the listing differs from the map's *)
Lemma filter_length_le {A} (f g : A -> bool) l :
  (forall x, In x l -> g x = true -> f x = true) -> length (filter g l) <= length (filter f l).
Proof.
  induction l as [|x l IH]; intros H; simpl; auto.
  destruct (g x) eqn:Gx.
  - rewrite (H x (or_introl eq_refl) Gx). simpl. apply le_n_S. apply IH. intros; apply H; simpl; auto.
  - destruct (f x); simpl; [apply le_S|]; apply IH; intros; apply H; simpl; auto.
Qed.
Lemma filter_length_lt {A} (f g : A -> bool) l :
  (forall x, In x l -> g x = true -> f x = true) ->
  (exists x, In x l /\ f x = true /\ g x = false) -> length (filter g l) < length (filter f l).
Proof.
  induction l as [|x l IH]; intros H (y & Hy & Fy & Gy); simpl in *; [contradiction|].
  destruct Hy as [->|Hy].
  - rewrite Fy, Gy. simpl. apply le_n_S. apply filter_length_le. intros; apply H; auto.
  - destruct (g x) eqn:Gx.
    + rewrite (H x (or_introl eq_refl) Gx). simpl. apply -> Nat.succ_lt_mono. apply IH; eauto.
    + destruct (f x); simpl; [apply Nat.lt_lt_succ_r|]; apply IH; eauto.
Qed.

Lemma filter_kv_length pn (m : bmap) :
  length (filter (has_prefix pn) (kv_of_bmap m)) =
  length (filter (fun e => is_prefix pn (key_le_to_nibbles (fst e))) m).
Proof.
  induction m as [|[k v] m IH]; [reflexivity|].
  change (kv_of_bmap ((k, v) :: m)) with ((key_le_to_nibbles k, v) :: kv_of_bmap m).
  cbn [filter]. unfold has_prefix at 1. cbn [fst].
  destruct (is_prefix pn (key_le_to_nibbles k)); cbn [length]; now rewrite IH.
Qed.

Theorem guard_trim_exact_keys t m p : Rep t m -> guard_trim m p = true ->
  trie_keys_with_prefix t p <> Ok (bm_keys_with_prefix m p).
Proof.
  intros R G E. unfold guard_trim in G. apply existsb_exists in G as (e & He & Ge).
  apply andb_true_iff in Ge as [G1 G2]. apply negb_true_iff in G2.
  destruct t as [n|]; [|apply Rep_nil_map in R; subst; contradiction].
  destruct R as [C E0]. simpl in E0. unfold trie_keys_with_prefix in E.
  rewrite keys_with_prefix_spec, app_nil_l, E0 in E. inversion E as [E1]. clear E.
  apply (f_equal (@length _)) in E1. unfold bm_keys_with_prefix in E1. rewrite !map_length in E1.
  destruct p as [|b p']; [simpl in G2; discriminate|]. set (p := b :: p') in *.
  set (pn := trim_zero_suffix (key_le_to_nibbles p)) in *.
  rewrite filter_kv_length in E1. fold pn in E1.
  change (fun e : list byte * value => is_prefix pn (key_le_to_nibbles (fst e)))
    with (fun e : list byte * value => go_prefix p (fst e)) in E1.
  assert (X : length (filter (fun e => bytes_prefix p (fst e)) m) < length (filter (fun e => go_prefix p (fst e)) m)).
  { apply filter_length_lt.
    - intros x _ Hx. now apply bytes_prefix_go_prefix.
    - exists e. auto. }
  lia.
Qed.

Theorem guard_get_exact t m k : Rep t m -> guard_get_exhausted t k = true -> trie_get t k <> bm_get m k.
Proof.
  intros R G. rewrite <- (Rep_lookup t m k R). unfold guard_get_exhausted in G.
  destruct k as [|b k]; [|discriminate]. destruct t as [[pk lv|pk [bv|] cs]|]; try discriminate.
  apply Nat.ltb_lt in G. cbn [trie_get lookup_opt key_le_to_nibbles]. rewrite get_branch, lookup_branch.
  cbn [length Nat.eqb orb]. destruct pk as [|x pk]; [simpl in G; lia|]. cbn [key_eqb is_prefix]. discriminate.
Qed.

Theorem guard_limit_zero_exact t m p limit : guard_limit_zero m p limit = true ->
  snd (trie_clear_prefix_limit t p limit) <> snd (bm_clear_prefix_limit m p limit).
Proof.
  unfold guard_limit_zero. intros G. apply andb_true_iff in G as [G1 G2]. apply N.eqb_eq in G1. subst limit.
  unfold trie_clear_prefix_limit, trie_clear_prefix_limit_pinned. cbn [N.eqb snd].
  assert (X : bm_clear_prefix_limit m p 0 = (m, 0%N, true)).
  { rewrite forallb_forall in G2. induction m as [|[k v] m IH]; simpl; auto.
    pose proof (G2 (k, v) (or_introl eq_refl)) as H0. cbn [fst] in H0. apply negb_true_iff in H0. rewrite H0.
    rewrite IH; auto. intros x Hx. apply G2. simpl; auto. }
  rewrite X. cbn [snd]. discriminate.
Qed.

(* ---- witnesses ---- *)
Local Open Scope N_scope.
Definition b (l : list N) : list byte := map n2b l.

(* prefix-trim: keys 0x1001, 0x1f02; prefix 0x10 *)
Definition w_trim : list op := [OpPut (b [16; 1]) (b [170]); OpPut (b [31; 2]) (b [187]); OpKeys (b [16])].
Lemma trim_refuted : run_trie repaired None w_trim <> run_bmap [] w_trim.
Proof. vm_compute. discriminate. Qed.
Definition w_trim_clear : list op := [OpPut (b [16; 1]) (b [170]); OpPut (b [31; 2]) (b [187]); OpClear (b [16])].
Lemma trim_clear_refuted : run_trie repaired None w_trim_clear <> run_bmap [] w_trim_clear.
Proof. vm_compute. discriminate. Qed.
(* get / delete of the empty key *)
Definition w_get_empty : list op := [OpPut (b [16]) (b [1]); OpPut (b [16; 0]) (b [2]); OpGet []].
Lemma get_empty_refuted : run_trie repaired None w_get_empty <> run_bmap [] w_get_empty.
Proof. vm_compute. discriminate. Qed.
Definition w_del_empty : list op := [OpPut (b [16]) []; OpDel []].
Lemma del_empty_refuted : run_trie repaired None w_del_empty <> run_bmap [] w_del_empty.
Proof. vm_compute. discriminate. Qed.
(* limit 0 on the empty trie *)
Definition w_limit_zero : list op := [OpClearLimit [] 0].
Lemma limit_zero_refuted : run_trie repaired None w_limit_zero <> run_bmap [] w_limit_zero.
Proof. vm_compute. discriminate. Qed.
(* a limited clear keeps the branch value *)
Definition w_limit_order : list op :=
  [OpPut (b [16]) (b [1]); OpPut (b [16; 0]) (b [2]); OpPut (b [16; 1]) (b [3]); OpClearLimit (b [16]) 1].
Lemma limit_order_refuted : run_trie repaired None w_limit_order <> run_bmap [] w_limit_order.
Proof. vm_compute. discriminate. Qed.

(* the pinned tree outside every guard *)
Definition w_pinned_get : list op :=
  [OpPut (b [18; 52; 86]) (b [1]); OpPut (b [18; 60; 86]) (b [2]); OpGet (b [28; 86])].
Definition w_pinned_del : list op :=
  [OpPut (b [18; 52; 86]) (b [1]); OpPut (b [18; 60; 86]) (b [2]); OpDel (b [28; 86])].
Definition w_pinned_keys : list op :=
  [OpPut (b [18; 69]) (b [1]); OpPut (b [18; 85]) (b [2]); OpKeys (b [19])].
Definition w_pinned_nested_get : list op :=
  [OpPut (b [171; 205]) (b [2]); OpPut (b [171; 205; 239]) (b [3]); OpPut (b [171; 205; 238]) (b [3]);
   OpPut (b [172]) (b [4]); OpGet (b [171])].
Definition w_pinned_nested_del : list op :=
  [OpPut (b [171; 18]) (b [1]); OpPut (b [172; 52]) (b [2]); OpDel (b [171])].
Lemma pinned_refuted :
  Forall (fun w => guards_free [] None w = true /\ run_trie pinned None w <> run_bmap [] w)
         [w_pinned_get; w_pinned_del; w_pinned_keys; w_pinned_nested_get; w_pinned_nested_del].
Proof. repeat constructor; vm_compute; discriminate. Qed.
