(* C02/Proofs.v — every operation sequence outside the known-finding guards gives, on the trie model,
   exactly the observations of the ordered byte-string map. *)
From Common Require Import Bytes Outcome.
From Trie Require Import Nibbles Node Encode Model Spec NibblesProofs Sem InsertProofs DeleteProofs
     BuildProofs MapProofs QueryProofs ClearProofs LimitProofs SpecProofs GoSpec GoPrefixProofs OrderProofs.
From C02 Require Import Model Guards.
From Coq Require Import Arith Lia.

(* no guard is met along the sequence (states follow the ordered map and the trie model) *)
Fixpoint guards_free (m : bmap) (t : trie) (ops : list op) : bool :=
  match ops with
  | [] => true
  | o :: r => (guard_of m t o =? 0) && guards_free (fst (bm_step m o)) (fst (trie_step repaired t o)) r
  end.

Lemma listing_rep t m : Rep t m -> trie_entries t = bm_listing m.
Proof. intros R. now rewrite (Rep_entries t m R). Qed.


(* limit 0: the Go code returns (0, false) untouched; so does the map when a key has the prefix *)
Lemma limit_zero_both t m p : guard_limit_zero m p 0 = false ->
  trie_clear_prefix_limit t p 0 = (t, 0%N, false) /\ bm_clear_prefix_limit m p 0 = (m, 0%N, false).
Proof.
  intros G2. split; [reflexivity|]. unfold guard_limit_zero in G2. cbn [N.eqb andb] in G2.
  apply bm_clear_limit_zero.
  destruct (existsb (bmatch p) m) eqn:Ex; auto. exfalso.
  assert (forallb (fun e => negb (bytes_prefix p (fst e))) m = true); [|congruence].
  apply forallb_forall. intros e He. destruct (bytes_prefix p (fst e)) eqn:B; auto.
  assert (existsb (bmatch p) m = true); [|congruence].
  apply existsb_exists. exists e. auto.
Qed.
(* outside guard_trim_limit the Go rule and the byte-wise rule give the same limited clear *)
Lemma go_limit_is_bm m p l : l <> 0%N -> guard_trim_limit m p l = false ->
  go_clear_prefix_limit m p l = bm_clear_prefix_limit m p l.
Proof.
  intros Z G. unfold go_clear_prefix_limit. destruct (N.eqb_spec l 0); [congruence|].
  now rewrite bm_clear_prefix_limit_by, trim_limit_agree.
Qed.

Lemma step_correct t m o : Rep t m -> guard_of m t o = 0 ->
  snd (trie_step repaired t o) = snd (bm_step m o) /\
  Rep (fst (trie_step repaired t o)) (fst (bm_step m o)).
Proof.
  intros R G. destruct o as [k v|k|p|p l|k|k|p|]; cbn [trie_step bm_step repaired i_get i_delete i_clear
    i_clear_limit i_keys i_entries fst snd guard_of] in *.
  - pose proof (Rep_put t m k v R) as R'. split; auto. now rewrite (listing_rep _ _ R').
  - destruct (guard_delete_exhausted t k) eqn:Gd; [discriminate|].
    pose proof (Rep_delete t m k R Gd) as R'. split; auto. now rewrite (listing_rep _ _ R').
  - destruct (guard_trim m p) eqn:Gt; [discriminate|].
    pose proof (Rep_clear_prefix t m p R Gt) as R'. split; auto. now rewrite (listing_rep _ _ R').
  - destruct (N.eqb_spec l 0) as [->|Z].
    + (* limit 0: some key has the prefix, so both sides report "not all deleted" *)
      destruct (guard_limit_zero m p 0) eqn:Gz; [discriminate|].
      destruct (limit_zero_both t m p Gz) as [Et Eb]. rewrite Et, Eb. cbn [fst snd]. split; auto.
      now rewrite (listing_rep _ _ R).
    + destruct (guard_trim_limit m p l) eqn:Gt; [discriminate|].
      destruct (guard_limit_order_go m p l) eqn:Go; [discriminate|].
      destruct (Rep_clear_prefix_limit_go t m p l R Z Go) as (R' & Ed & Ea).
      rewrite (go_limit_is_bm m p l Z Gt) in R', Ed, Ea.
      destruct (trie_clear_prefix_limit t p l) as [[t' d] a].
      destruct (bm_clear_prefix_limit m p l) as [[m' d'] a']. cbn [fst snd] in *. subst.
      split; auto. now rewrite (listing_rep _ _ R').
  - destruct (guard_get_exhausted t k) eqn:Gg; [discriminate|].
    split; auto. now rewrite (Rep_get t m k R Gg).
  - split; auto. now rewrite (Rep_next_key t m k R).
  - destruct (guard_trim m p) eqn:Gt; [discriminate|].
    split; auto. now rewrite (Rep_keys_with_prefix t m p R Gt).
  - split; auto. now rewrite (listing_rep _ _ R).
Qed.

Lemma bm_step_no_panic m o : is_panic (snd (bm_step m o)) = false.
Proof.
  destruct o; cbn [bm_step snd]; auto.
  destruct (bm_clear_prefix_limit m p limit) as [[m' d] a]. reflexivity.
Qed.

Lemma run_correct ops : forall t m, Rep t m -> guards_free m t ops = true ->
  run_trie repaired t ops = run_bmap m ops.
Proof.
  induction ops as [|o ops IH]; intros t m R G; cbn [run_trie run_bmap]; auto.
  cbn [guards_free] in G. apply andb_true_iff in G as [G1 G2]. apply Nat.eqb_eq in G1.
  destruct (step_correct t m o R G1) as [Es R'].
  destruct (trie_step repaired t o) as [t' x]. destruct (bm_step m o) as [m' x'] eqn:Eb.
  cbn [fst snd] in *. subst x.
  pose proof (bm_step_no_panic m o) as Np. rewrite Eb in Np. cbn [snd] in Np. rewrite Np.
  f_equal. apply IH; auto.
Qed.

Theorem refines ops : guards_free [] None ops = true -> run_trie repaired None ops = run_bmap [] ops.
Proof. intros G. apply run_correct; auto. apply Rep_empty. Qed.

(* ---- the guards are exact: inside a guard the observation differs from the ordered map's ---- *)
(* the trim guard is exact for the key listing: inside it the listing differs from the map's *)
Lemma filter_length_le {A} (f g : A -> bool) l :
  (forall x, In x l -> g x = true -> f x = true) -> length (filter g l) <= length (filter f l).
Proof.
  induction l as [|x l IH]; intros H; simpl; auto.
  destruct (g x) eqn:Gx.
  - rewrite (H x (or_introl eq_refl) Gx). simpl. apply le_n_S. apply IH. intros; apply H; simpl; auto.
  - destruct (f x); simpl; [apply le_S|]; apply IH; intros; apply H; simpl; auto.
Qed.
Lemma filter_length_lt {A} (f g : A -> bool) l :
  (forall x, In x l -> g x = true -> f x = true) ->
  (exists x, In x l /\ f x = true /\ g x = false) -> length (filter g l) < length (filter f l).
Proof.
  induction l as [|x l IH]; intros H (y & Hy & Fy & Gy); simpl in *; [contradiction|].
  destruct Hy as [->|Hy].
  - rewrite Fy, Gy. simpl. apply le_n_S. apply filter_length_le. intros; apply H; auto.
  - destruct (g x) eqn:Gx.
    + rewrite (H x (or_introl eq_refl) Gx). simpl. apply -> Nat.succ_lt_mono. apply IH; eauto.
    + destruct (f x); simpl; [apply Nat.lt_lt_succ_r|]; apply IH; eauto.
Qed.

Lemma filter_kv_length pn (m : bmap) :
  length (filter (has_prefix pn) (kv_of_bmap m)) =
  length (filter (fun e => is_prefix pn (key_le_to_nibbles (fst e))) m).
Proof.
  induction m as [|[k v] m IH]; [reflexivity|].
  change (kv_of_bmap ((k, v) :: m)) with ((key_le_to_nibbles k, v) :: kv_of_bmap m).
  cbn [filter]. unfold has_prefix at 1. cbn [fst].
  destruct (is_prefix pn (key_le_to_nibbles k)); cbn [length]; now rewrite IH.
Qed.

Theorem guard_trim_exact_keys t m p : Rep t m -> guard_trim m p = true ->
  trie_keys_with_prefix t p <> Ok (bm_keys_with_prefix m p).
Proof.
  intros R G E. unfold guard_trim in G. apply existsb_exists in G as (e & He & Ge).
  apply andb_true_iff in Ge as [G1 G2]. apply negb_true_iff in G2.
  destruct t as [n|]; [|apply Rep_nil_map in R; subst; contradiction].
  destruct R as [C E0]. simpl in E0. unfold trie_keys_with_prefix in E.
  rewrite keys_with_prefix_spec, app_nil_l, E0 in E. inversion E as [E1]. clear E.
  apply (f_equal (@length _)) in E1. unfold bm_keys_with_prefix in E1. rewrite !map_length in E1.
  destruct p as [|b p']; [simpl in G2; discriminate|]. set (p := b :: p') in *.
  set (pn := trim_zero_suffix (key_le_to_nibbles p)) in *.
  rewrite filter_kv_length in E1. fold pn in E1.
  change (fun e : list byte * value => is_prefix pn (key_le_to_nibbles (fst e)))
    with (fun e : list byte * value => go_prefix p (fst e)) in E1.
  assert (X : length (filter (fun e => bytes_prefix p (fst e)) m) < length (filter (fun e => go_prefix p (fst e)) m)).
  { apply filter_length_lt.
    - intros x _ Hx. now apply bytes_prefix_go_prefix.
    - exists e. auto. }
  lia.
Qed.

Theorem guard_get_exact t m k : Rep t m -> guard_get_exhausted t k = true -> trie_get t k <> bm_get m k.
Proof.
  intros R G. rewrite <- (Rep_lookup t m k R). unfold guard_get_exhausted in G.
  destruct k as [|b k]; [|discriminate]. destruct t as [[pk lv|pk [bv|] cs]|]; try discriminate.
  apply Nat.ltb_lt in G. cbn [trie_get lookup_opt key_le_to_nibbles]. rewrite get_branch, lookup_branch.
  cbn [length Nat.eqb orb]. destruct pk as [|x pk]; [simpl in G; lia|]. cbn [key_eqb is_prefix]. discriminate.
Qed.

Theorem guard_limit_zero_exact t m p limit : guard_limit_zero m p limit = true ->
  snd (trie_clear_prefix_limit t p limit) <> snd (bm_clear_prefix_limit m p limit).
Proof.
  unfold guard_limit_zero. intros G. apply andb_true_iff in G as [G1 G2]. apply N.eqb_eq in G1. subst limit.
  unfold trie_clear_prefix_limit, trie_clear_prefix_limit_pinned. cbn [N.eqb snd].
  assert (X : bm_clear_prefix_limit m p 0 = (m, 0%N, true)).
  { rewrite forallb_forall in G2. induction m as [|[k v] m IH]; simpl; auto.
    pose proof (G2 (k, v) (or_introl eq_refl)) as H0. cbn [fst] in H0. apply negb_true_iff in H0. rewrite H0.
    rewrite IH; auto. intros x Hx. apply G2. simpl; auto. }
  rewrite X. cbn [snd]. discriminate.
Qed.


(* ---- exactness of the remaining guards (audit round) ---- *)
Lemma bm_listing_inj a b : bm_listing a = bm_listing b -> a = b.
Proof.
  revert b; induction a as [|[k v] a IH]; intros [|[k' v'] b] E; try discriminate; auto.
  simpl in E. inversion E; subst. f_equal. now apply IH.
Qed.

(* ClearPrefix inside the trim guard: the entry listing afterwards differs from the map's *)
Theorem guard_trim_exact_clear t m p : Rep t m -> guard_trim m p = true ->
  trie_entries (trie_clear_prefix t p) <> bm_listing (bm_clear_prefix m p).
Proof.
  intros R G E. rewrite (listing_rep _ _ (Rep_clear_prefix_go t m p R)) in E.
  apply bm_listing_inj in E. exact (go_clear_exact m p G E).
Qed.

(* limited clear inside the (narrowed) trim guard, outside the order guard: the observation differs *)
Theorem guard_trim_limit_exact t m p l : Rep t m -> l <> 0%N ->
  guard_limit_order_go m p l = false -> guard_trim_limit m p l = true ->
  snd (trie_step repaired t (OpClearLimit p l)) <> snd (bm_step m (OpClearLimit p l)).
Proof.
  intros R Z Go Gt. cbn [trie_step bm_step repaired i_clear_limit i_entries].
  destruct (Rep_clear_prefix_limit_go t m p l R Z Go) as (R' & Ed & Ea).
  pose proof (trim_limit_exact m p l Gt) as X. rewrite <- bm_clear_prefix_limit_by in X.
  unfold go_clear_prefix_limit in *. destruct (N.eqb_spec l 0); [congruence|].
  destruct (trie_clear_prefix_limit t p l) as [[t' d] a].
  destruct (clear_limit_by (gmatch p) m l) as [[g' gd] ga].
  destruct (bm_clear_prefix_limit m p l) as [[m' d'] a']. cbn [fst snd] in *. subst.
  intros E. inversion E as [[E1 E2 E3]]. rewrite (listing_rep _ _ R') in E3.
  apply bm_listing_inj in E3. subst. now apply X.
Qed.

(* Delete inside the exhausted-key guard: an entry disappears although the map is unchanged *)
Lemma bm_del_absent m k : bm_get m k = None -> bm_del m k = m.
Proof.
  induction m as [|[k' v'] m IH]; simpl; auto. destruct (bytes_eqb k' k); [discriminate|].
  intros H. now rewrite IH.
Qed.
Lemma handle_deletion_none_key pk cs k : handle_deletion pk None cs k = handle_deletion pk None cs pk.
Proof. unfold handle_deletion. destruct (count_children cs) as [|[|n]]; reflexivity. Qed.

Theorem guard_delete_exact t m k : Rep t m -> guard_delete_exhausted t k = true ->
  length (trie_entries (trie_delete t k)) < length (bm_listing (bm_del m k)).
Proof.
  intros R G. unfold guard_delete_exhausted in G.
  destruct k as [|b0 k0]; [|discriminate].
  assert (Absent : bm_get m [] = None).
  { rewrite <- (Rep_lookup t m [] R). cbn [key_le_to_nibbles].
    destruct t as [[pk lv|pk [bv|] cs]|]; try discriminate; cbn [lookup_opt].
    - cbn [lookup]. destruct pk; [simpl in G; discriminate|reflexivity].
    - apply lookup_branch_out. destruct pk; [simpl in G; discriminate|reflexivity]. }
  rewrite (bm_del_absent m [] Absent). unfold trie_entries, bm_listing. rewrite !map_length.
  destruct R as [C E0]. apply (f_equal (@length _)) in E0. unfold kv_of_bmap in E0. rewrite map_length in E0.
  rewrite <- E0. clear E0 Absent.
  destruct t as [[pk lv|pk [bv|] cs]|]; try discriminate; cbn [trie_delete key_le_to_nibbles].
  - cbn [delete length Nat.ltb Nat.leb andb fst entries entries_node]. simpl. lia.
  - rewrite delete_branch. cbn [length Nat.eqb orb fst].
    apply Canon_branch_inv in C as (Hpk & L & F & C1 & C2).
    rewrite handle_deletion_none_key.
    destruct (handle_deletion_spec pk None cs pk Hpk L F) as [Hc Hl].
    { unfold occupants. simpl. lia. }
    { apply is_prefix_refl. }
    cbn [entries]. fold (E (handle_deletion pk None cs pk)). fold (E (Branch pk (Some bv) cs)).
    rewrite (entries_lookup_ext _ _ Hl), !E_branch, !shift_length, !app_length. simpl. lia.
Qed.


(* limited clear inside the order guard (evaluated on the keys the code matches), when the trimmed
   prefix does not change the map's answer: the keys listed afterwards differ from the map's *)
Theorem guard_limit_order_exact t m p l : Rep t m -> l <> 0%N ->
  guard_limit_order_go m p l = true -> guard_trim_limit m p l = false ->
  snd (trie_step repaired t (OpClearLimit p l)) <> snd (bm_step m (OpClearLimit p l)).
Proof.
  intros R Z Go Gt. destruct (order_guard_exact_keys t m p l R Z Go) as [Inc D].
  cbn [trie_step bm_step repaired i_clear_limit i_entries].
  pose proof (trim_limit_agree m p l Gt) as Ag. rewrite !clear_limit_by_spec in Ag. inversion Ag as [[A1 A2 A3]].
  rewrite bm_clear_prefix_limit_spec.
  destruct (trie_clear_prefix_limit t p l) as [[t' d] a]. cbn [fst snd] in *.
  intros Eq. inversion Eq as [[E1 E2 E3]]. apply D. rewrite A1.
  apply (f_equal (map fst)) in E3. unfold trie_entries, bm_listing in E3. rewrite !map_map in E3. cbn [fst] in E3.
  change (fun x : list byte * value => fst x) with (@fst (list byte) value) in E3.
  change (bmatch p) with (bmatch_b p) in E3. rewrite <- E3, map_map.
  apply map_ext_in. intros [k v] H. apply Inc in H. apply kv_of_bmap_in in H as (kb & -> & _).
  cbn [fst]. now rewrite nibbles_to_key_le_of_bytes.
Qed.


(* round 4: ... and also when the trimmed prefix does change the map's answer (the corner where
   guard_trim_limit and the order guard hold at once): the order guard alone is exact *)
Lemma remove_first_keeps {A} (f : A -> bool) l x : forall n, In x l -> f x = false -> In x (remove_first n f l).
Proof.
  induction l as [|y l IH]; intros n H F; [contradiction|]. cbn [remove_first].
  destruct H as [->|H].
  - rewrite F. left. reflexivity.
  - destruct (f y); [destruct n; [right; exact H|apply IH; auto]|right; apply IH; auto].
Qed.

Theorem guard_limit_order_exact_all t m p l : Rep t m -> l <> 0%N ->
  guard_limit_order_go m p l = true ->
  snd (trie_step repaired t (OpClearLimit p l)) <> snd (bm_step m (OpClearLimit p l)).
Proof.
  intros R Z Go. destruct (order_guard_exact_keys t m p l R Z Go) as [Inc D].
  pose proof (order_guard_count t m p l R Z Go) as Cnt.
  pose proof (Rep_sorted_bmap t m R) as Srt.
  cbn [trie_step bm_step repaired i_clear_limit i_entries].
  rewrite bm_clear_prefix_limit_spec.
  destruct (trie_clear_prefix_limit t p l) as [[t' d] a]. cbn [fst snd] in *.
  intros Eq. inversion Eq as [[E1 E2 E3]].
  apply (f_equal (map fst)) in E3. unfold trie_entries, bm_listing in E3. rewrite !map_map in E3. cbn [fst] in E3.
  change (fun x : list byte * value => fst x) with (@fst (list byte) value) in E3.
  change (bmatch p) with (bmatch_b p) in *.
  destruct (forallb (bmatch_b p) (firstn (N.to_nat l) (filter (gmatch p) m))) eqn:Fa.
  - destruct (remove_first_agree (bmatch_b p) (gmatch p) (bmatch_gmatch p) m (N.to_nat l) Fa) as [A1 _].
    apply D. rewrite A1, <- E3, map_map.
    apply map_ext_in. intros [k v] H. apply Inc in H. apply kv_of_bmap_in in H as (kb & -> & _).
    cbn [fst]. now rewrite nibbles_to_key_le_of_bytes.
  - apply forallb_false_exists in Fa as (x & Hx & Bx).
    pose proof (byte_prefix_initial_segment p m (N.to_nat l) x Srt Hx Bx) as Lt.
    destruct Cnt as [Cnt|Cnt]; [lia|].
    assert (Hm : In x m /\ gmatch p x = true).
    { apply In_firstn in Hx. apply filter_In in Hx. exact Hx. }
    destruct Hm as [Hm Gx].
    pose proof (remove_first_keeps (bmatch_b p) m x (N.to_nat l) Hm Bx) as Kx.
    assert (Kf : In (fst x) (map fst (remove_first (N.to_nat l) (bmatch_b p) m))) by (apply in_map; exact Kx).
    rewrite <- E3 in Kf. apply in_map_iff in Kf as ([k v] & Ek & Hk). cbn [fst] in Ek.
    pose proof (Cnt _ Hk) as Nm. apply Inc in Hk. apply kv_of_bmap_in in Hk as (kb & -> & _).
    rewrite nibbles_to_key_le_of_bytes in Ek. subst kb.
    unfold has_prefix in Nm. cbn [fst] in Nm. unfold gmatch, go_prefix in Gx. unfold pn_of in Nm. congruence.
Qed.

(* ---- the trie is the ordered map under the Go matching rule, also inside prefix-trim and
   clear-limit-zero ---- *)
Fixpoint guards_go_free (m : bmap) (t : trie) (ops : list op) : bool :=
  match ops with
  | [] => true
  | o :: r => (guard_go_of t m o =? 0) && guards_go_free (fst (gm_step m o)) (fst (trie_step repaired t o)) r
  end.

Lemma step_go_correct t m o : Rep t m -> guard_go_of t m o = 0 ->
  snd (trie_step repaired t o) = snd (gm_step m o) /\
  Rep (fst (trie_step repaired t o)) (fst (gm_step m o)).
Proof.
  intros R G. destruct o as [k v|k|p|p l|k|k|p|]; cbn [trie_step gm_step bm_step repaired i_get i_delete i_clear
    i_clear_limit i_keys i_entries fst snd guard_go_of] in *.
  - pose proof (Rep_put t m k v R) as R'. split; auto. now rewrite (listing_rep _ _ R').
  - destruct (guard_delete_exhausted t k) eqn:Gd; [discriminate|].
    pose proof (Rep_delete t m k R Gd) as R'. split; auto. now rewrite (listing_rep _ _ R').
  - pose proof (Rep_clear_prefix_go t m p R) as R'. split; auto. now rewrite (listing_rep _ _ R').
  - destruct (guard_limit_order_go m p l) eqn:Go; [discriminate|].
    destruct (N.eqb_spec l 0) as [->|Z].
    + unfold trie_clear_prefix_limit, trie_clear_prefix_limit_pinned, go_clear_prefix_limit.
      cbn [N.eqb fst snd]. split; auto. now rewrite (listing_rep _ _ R).
    + destruct (Rep_clear_prefix_limit_go t m p l R Z Go) as (R' & Ed & Ea).
      destruct (trie_clear_prefix_limit t p l) as [[t' d] a].
      destruct (go_clear_prefix_limit m p l) as [[m' d'] a']. cbn [fst snd] in *. subst.
      split; auto. now rewrite (listing_rep _ _ R').
  - destruct (guard_get_exhausted t k) eqn:Gg; [discriminate|].
    split; auto. now rewrite (Rep_get t m k R Gg).
  - split; auto. now rewrite (Rep_next_key t m k R).
  - split; auto. now rewrite (Rep_keys_go t m p R).
  - split; auto. now rewrite (listing_rep _ _ R).
Qed.

Lemma gm_step_no_panic m o : is_panic (snd (gm_step m o)) = false.
Proof.
  destruct o; cbn [gm_step bm_step snd]; auto.
  - destruct (go_clear_prefix_limit m p limit) as [[m' d] a]. reflexivity.
Qed.

Lemma run_go_correct ops : forall t m, Rep t m -> guards_go_free m t ops = true ->
  run_trie repaired t ops = run_gomap m ops.
Proof.
  induction ops as [|o ops IH]; intros t m R G; cbn [run_trie run_gomap]; auto.
  cbn [guards_go_free] in G. apply andb_true_iff in G as [G1 G2]. apply Nat.eqb_eq in G1.
  destruct (step_go_correct t m o R G1) as [Es R'].
  destruct (trie_step repaired t o) as [t' x]. destruct (gm_step m o) as [m' x'] eqn:Eb.
  cbn [fst snd] in *. subst x.
  pose proof (gm_step_no_panic m o) as Np. rewrite Eb in Np. cbn [snd] in Np. rewrite Np.
  f_equal. apply IH; auto.
Qed.

Theorem refines_go ops : guards_go_free [] None ops = true -> run_trie repaired None ops = run_gomap [] ops.
Proof. intros G. apply run_go_correct; auto. apply Rep_empty. Qed.

(* ---- every reachable state represents the map: the hypothesis of C02_step / C02_guards_exact is met ---- *)
Lemma run_states ops : forall t m, Rep t m -> guards_free m t ops = true ->
  forall i, Rep (trie_before repaired t ops i) (bmap_before m ops i).
Proof.
  induction ops as [|o ops IH]; intros t m R G i; [destruct i; exact R|].
  destruct i as [|j]; [exact R|]. cbn [trie_before bmap_before].
  cbn [guards_free] in G. apply andb_true_iff in G as [G1 G2]. apply Nat.eqb_eq in G1.
  apply IH; auto. apply (step_correct t m o R G1).
Qed.


(* ---- the guards of a limited clear only compare the limit with list lengths: a limit above the
   number of stored keys can be replaced by (number of keys + 1).  The driver evaluates guard_of on
   the clamped operation (N.to_nat of 0xffffffff is not computable in unary). ---- *)
Lemma filter_len_le {A} (f : A -> bool) l : length (filter f l) <= length l.
Proof. induction l as [|x l IH]; simpl; auto. destruct (f x); simpl; lia. Qed.

Lemma guard_of_clamp m t p l :
  guard_of m t (OpClearLimit p l) = guard_of m t (OpClearLimit p (N.min l (N.of_nat (S (length m))))).
Proof.
  destruct (N.le_gt_cases l (N.of_nat (S (length m)))) as [Le|Gt]; [now rewrite N.min_l|].
  rewrite N.min_r by lia. set (c := N.of_nat (S (length m))).
  cbn [guard_of]. destruct (N.eqb_spec l 0) as [->|_]; [lia|]. destruct (N.eqb_spec c 0) as [E|_]; [unfold c in E; lia|].
  pose proof (filter_len_le (gmatch p) m) as LG. pose proof (filter_len_le (bmatch_b p) m) as LB.
  assert (Ho : forall x, (S (length m) <= N.to_nat x) -> guard_limit_order_go m p x = false).
  { intros x Hx. unfold guard_limit_order_go. rewrite map_length.
    replace (N.to_nat x <? length (filter (gmatch p) m)) with false by (symmetry; apply Nat.ltb_ge; lia).
    now rewrite andb_false_r. }
  assert (Ht : forall x, (S (length m) <= N.to_nat x) ->
             guard_trim_limit m p x = negb (forallb (bmatch_b p) (filter (gmatch p) m))).
  { intros x Hx. unfold guard_trim_limit. rewrite firstn_all2 by lia.
    replace (length (filter (gmatch p) m) <=? N.to_nat x) with true by (symmetry; apply Nat.leb_le; lia).
    replace (length (filter (bmatch_b p) m) <=? N.to_nat x) with true by (symmetry; apply Nat.leb_le; lia).
    cbn [Bool.eqb negb]. now rewrite orb_false_r. }
  rewrite !Ho, !Ht by (unfold c; lia). reflexivity.
Qed.

(* ---- witnesses ---- *)
Local Open Scope N_scope.
Definition b (l : list N) : list byte := map n2b l.

(* prefix-trim: keys 0x1001, 0x1f02; prefix 0x10 *)
Definition w_trim : list op := [OpPut (b [16; 1]) (b [170]); OpPut (b [31; 2]) (b [187]); OpKeys (b [16])].
Lemma trim_refuted : run_trie repaired None w_trim <> run_bmap [] w_trim.
Proof. vm_compute. discriminate. Qed.
Definition w_trim_clear : list op := [OpPut (b [16; 1]) (b [170]); OpPut (b [31; 2]) (b [187]); OpClear (b [16])].
Lemma trim_clear_refuted : run_trie repaired None w_trim_clear <> run_bmap [] w_trim_clear.
Proof. vm_compute. discriminate. Qed.
(* get / delete of the empty key *)
Definition w_get_empty : list op := [OpPut (b [16]) (b [1]); OpPut (b [16; 0]) (b [2]); OpGet []].
Lemma get_empty_refuted : run_trie repaired None w_get_empty <> run_bmap [] w_get_empty.
Proof. vm_compute. discriminate. Qed.
Definition w_del_empty : list op := [OpPut (b [16]) []; OpDel []].
Lemma del_empty_refuted : run_trie repaired None w_del_empty <> run_bmap [] w_del_empty.
Proof. vm_compute. discriminate. Qed.
(* limit 0 on the empty trie *)
Definition w_limit_zero : list op := [OpClearLimit [] 0].
Lemma limit_zero_refuted : run_trie repaired None w_limit_zero <> run_bmap [] w_limit_zero.
Proof. vm_compute. discriminate. Qed.
(* a limited clear keeps the branch value *)
Definition w_limit_order : list op :=
  [OpPut (b [16]) (b [1]); OpPut (b [16; 0]) (b [2]); OpPut (b [16; 1]) (b [3]); OpClearLimit (b [16]) 1].
Lemma limit_order_refuted : run_trie repaired None w_limit_order <> run_bmap [] w_limit_order.
Proof. vm_compute. discriminate. Qed.

(* the pinned tree outside every guard *)
Definition w_pinned_get : list op :=
  [OpPut (b [18; 52; 86]) (b [1]); OpPut (b [18; 60; 86]) (b [2]); OpGet (b [28; 86])].
Definition w_pinned_del : list op :=
  [OpPut (b [18; 52; 86]) (b [1]); OpPut (b [18; 60; 86]) (b [2]); OpDel (b [28; 86])].
Definition w_pinned_keys : list op :=
  [OpPut (b [18; 69]) (b [1]); OpPut (b [18; 85]) (b [2]); OpKeys (b [19])].
Definition w_pinned_nested_get : list op :=
  [OpPut (b [171; 205]) (b [2]); OpPut (b [171; 205; 239]) (b [3]); OpPut (b [171; 205; 238]) (b [3]);
   OpPut (b [172]) (b [4]); OpGet (b [171])].
Definition w_pinned_nested_del : list op :=
  [OpPut (b [171; 18]) (b [1]); OpPut (b [172; 52]) (b [2]); OpDel (b [171])].
Lemma pinned_refuted :
  Forall (fun w => guards_free [] None w = true /\ run_trie pinned None w <> run_bmap [] w)
         [w_pinned_get; w_pinned_del; w_pinned_keys; w_pinned_nested_get; w_pinned_nested_del].
Proof. repeat constructor; vm_compute; discriminate. Qed.
