From Coq Require Import Extraction ExtrOcamlBasic.
From Common Require Import Bytes Drv Blake2b Outcome.
From Trie Require Import Nibbles Node Encode Model Spec GoSpec.
From C02 Require Import Model Guards.
Extraction "model.ml" drv_b2n drv_n2b drv_z_of_n drv_n_of_z drv_nat_of_n drv_n_of_nat
  guard_of guard_go_of gm_step run_gomap bmap_before trie_before pinned repaired trie_step run_trie run_bmap bm_step bm_listing is_panic
  trie_root spec_root_bytes blake2b_256 bm_of_list V0 V1.
