(* C02/VmCheck.v — boolean comparison of observation lists, for the vm_compute cross-check of the
   extraction (definitions only): the driver's --coq mode prints one [vm_case ops expected] term per
   sampled case, expected being the observations of the Go trie; bin/check evaluates them in Coq. *)
From Common Require Import Bytes Outcome.
From Trie Require Import Nibbles Node Encode Model Spec.
From C02 Require Import Model.

Definition opt_eqb {A} (eq : A -> A -> bool) (a b : option A) : bool :=
  match a, b with Some x, Some y => eq x y | None, None => true | _, _ => false end.
Fixpoint list_eqb {A} (eq : A -> A -> bool) (a b : list A) : bool :=
  match a, b with
  | [], [] => true
  | x :: a', y :: b' => eq x y && list_eqb eq a' b'
  | _, _ => false
  end.
Definition listing_eqb (a b : listing) : bool :=
  list_eqb (fun x y => bytes_eqb (fst x) (fst y) && opt_eqb bytes_eqb (snd x) (snd y)) a b.
Definition out_eqb (a b : out) : bool :=
  match a, b with
  | OutEntries e, OutEntries e' => listing_eqb e e'
  | OutLimit d x e, OutLimit d' x' e' => N.eqb d d' && Bool.eqb x x' && listing_eqb e e'
  | OutGet v, OutGet v' => opt_eqb bytes_eqb v v'
  | OutNext k, OutNext k' => opt_eqb bytes_eqb k k'
  | OutKeys ks, OutKeys ks' => list_eqb bytes_eqb ks ks'
  | OutPanic, OutPanic => true
  | _, _ => false
  end.
Definition outs_eqb : list out -> list out -> bool := list_eqb out_eqb.

(* the model of the repaired code reproduces the observed outputs *)
Definition vm_case (ops : list op) (expected : list out) : bool :=
  outs_eqb (run_trie repaired None ops) expected.
(* ... and, when the driver says the property holds on the case, so does the ordered map *)
Definition vm_case_spec (ops : list op) (expected : list out) : bool :=
  outs_eqb (run_bmap [] ops) expected.
