(* C02/Guards.v — boolean guard predicates characterising the known-finding classes
   (definitions only).  Each guard is evaluated on the state BEFORE the operation: the ordered map
   [m] (and, for the exhausted-key classes, the trie [t] that represents it). *)
From Common Require Import Bytes Outcome.
From Trie Require Import Nibbles Node Encode Model Spec GoSpec.
From C02 Require Import Model.
From Coq Require Import Arith.

(* 0 = no guard; otherwise the number of the finding class the operation lies in.
   Limited clear (audit round: narrowed): limit 0 only meets clear-limit-zero (the trie is not
   looked at, so the prefix does not matter); for limit > 0 prefix-trim only when the trimmed prefix
   changes the map's answer (guard_trim_limit: one of the [limit] smallest keys the code matches lacks
   the byte prefix, or the "none remain" flags differ) — not whenever some stored key matches the
   trimmed prefix only — and otherwise the order guard, evaluated on the keys the Go code matches
   (round 3: in this order, so that class 5 is exactly the region where exactness is proved). *)
Definition guard_of (m : bmap) (t : trie) (o : op) : nat :=
  match o with
  | OpGet k => if guard_get_exhausted t k then 1 else 0
  | OpDel k => if guard_delete_exhausted t k then 2 else 0
  | OpKeys p => if guard_trim m p then 3 else 0
  | OpClear p => if guard_trim m p then 3 else 0
  | OpClearLimit p l =>
    if (l =? 0)%N then (if guard_limit_zero m p l then 4 else 0)
    else if guard_trim_limit m p l then 3
    else if guard_limit_order_go m p l then 5
    else 0
  | _ => 0
  end.

(* the guards that remain when the trie is compared with the ordered map under the Go matching
   rule (run_gomap): the exhausted-key classes and clear-limit-order *)
Definition guard_go_of (t : trie) (m : bmap) (o : op) : nat :=
  match o with
  | OpGet k => if guard_get_exhausted t k then 1 else 0
  | OpDel k => if guard_delete_exhausted t k then 2 else 0
  | OpClearLimit p l => if guard_limit_order_go m p l then 5 else 0
  | _ => 0
  end.

(* states before the i-th operation, following the ordered map / the repaired trie model *)
Fixpoint bmap_before (m : bmap) (ops : list op) (i : nat) : bmap :=
  match i, ops with
  | S j, o :: r => bmap_before (fst (bm_step m o)) r j
  | _, _ => m
  end.
Fixpoint trie_before (I : impl) (t : trie) (ops : list op) (i : nat) : trie :=
  match i, ops with
  | S j, o :: r => trie_before I (fst (trie_step I t o)) r j
  | _, _ => t
  end.
