(* C02/Guards.v — boolean guard predicates characterising the known-finding classes
   (definitions only).  Each guard is evaluated on the state BEFORE the operation: the ordered map
   [m] (and, for the exhausted-key classes, the trie [t] that represents it). *)
From Common Require Import Bytes Outcome.
From Trie Require Import Nibbles Node Encode Model Spec.
From C02 Require Import Model.
From Coq Require Import Arith.

(* 0 = no guard; otherwise the number of the finding class the operation lies in *)
Definition guard_of (m : bmap) (t : trie) (o : op) : nat :=
  match o with
  | OpGet k => if guard_get_exhausted t k then 1 else 0
  | OpDel k => if guard_delete_exhausted t k then 2 else 0
  | OpKeys p => if guard_trim m p then 3 else 0
  | OpClear p => if guard_trim m p then 3 else 0
  | OpClearLimit p l =>
    if guard_trim m p then 3
    else if guard_limit_zero m p l then 4
    else if guard_limit_order m p l then 5
    else 0
  | _ => 0
  end.

(* states before the i-th operation, following the ordered map / the repaired trie model *)
Fixpoint bmap_before (m : bmap) (ops : list op) (i : nat) : bmap :=
  match i, ops with
  | S j, o :: r => bmap_before (fst (bm_step m o)) r j
  | _, _ => m
  end.
Fixpoint trie_before (I : impl) (t : trie) (ops : list op) (i : nat) : trie :=
  match i, ops with
  | S j, o :: r => trie_before I (fst (trie_step I t o)) r j
  | _, _ => t
  end.
