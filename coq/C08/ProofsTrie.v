(* C08/ProofsTrie.v — the in-memory trie's limited prefix clear (post-order) against the
   lexicographic order, outside the finding class direct-limit-order. *)
From Common Require Import Bytes.
From C08 Require Import ModelMap Model ModelSpec ModelGuards ProofsMap ProofsDiff ProofsClear.
From Coq Require Import Sorting.Sorted.
Local Open Scope N_scope.

Lemma has_prefix_le a b : has_prefix a b = true -> kcmp a b <> Gt.
Proof.
  revert b; induction a as [|x a IH]; intros [|y b]; cbn; try discriminate.
  intro H. apply andb_prop in H as [E H]. apply N.eqb_eq in E. rewrite E, N.compare_refl.
  now apply IH.
Qed.

Lemma kmem_post_insert k x l : kmem k (post_insert x l) = keqb k x || kmem k l.
Proof.
  induction l as [|y l IH]; [reflexivity|]. cbn [post_insert].
  destruct (post_ltb x y); cbn [kmem]; [reflexivity|]. rewrite IH.
  now destruct (keqb k x), (keqb k y).
Qed.
Lemma kmem_post_sort k l : kmem k (post_sort l) = kmem k l.
Proof.
  induction l as [|x l IH]; [reflexivity|]. unfold post_sort in *. cbn [fold_right kmem].
  now rewrite kmem_post_insert, IH.
Qed.
Lemma length_post_insert x l : length (post_insert x l) = Datatypes.S (length l).
Proof. induction l as [|y l IH]; [reflexivity|]. cbn [post_insert]. destruct (post_ltb x y); cbn; [reflexivity|]. now rewrite IH. Qed.
Lemma length_post_sort l : length (post_sort l) = length l.
Proof. induction l as [|x l IH]; [reflexivity|]. unfold post_sort in *. cbn [fold_right]. now rewrite length_post_insert, IH. Qed.

Lemma post_sort_id l : ksorted l ->
  (forall a b, In a l -> In b l -> proper_prefix a b = false) -> post_sort l = l.
Proof.
  induction l as [|x r IH]; intros S NP; [reflexivity|].
  inversion S as [|? ? Sr F]; subst. unfold post_sort in *. cbn [fold_right].
  rewrite IH; [|exact Sr | intros; apply NP; now right].
  destruct r as [|y r']; [reflexivity|]. cbn [post_insert].
  inversion F as [|? ? Lxy _]; subst. unfold post_ltb.
  assert (E : keqb x y = false).
  { apply keqb_neq. intros ->. exact (klt_irrefl _ Lxy). }
  rewrite E.
  assert (P1 : has_prefix y x = false).
  { destruct (has_prefix y x) eqn:P; [|reflexivity]. apply has_prefix_le in P.
    apply kcmp_gt_lt in Lxy. contradiction. }
  rewrite P1.
  assert (P2 : has_prefix x y = false).
  { pose proof (NP x y (or_introl eq_refl) (or_intror (or_introl eq_refl))) as Q.
    unfold proper_prefix in Q. rewrite E in Q. cbn in Q. now rewrite andb_true_r in Q. }
  rewrite P2. apply kltb_klt in Lxy. now rewrite Lxy.
Qed.

Lemma ksorted_filter f l : ksorted l -> ksorted (filter f l).
Proof.
  induction l as [|x l IH]; intro S; [constructor|]. inversion S as [|? ? Sl F]; subst. cbn.
  destruct (f x); [|now apply IH]. constructor; [now apply IH|].
  rewrite Forall_forall in *. intros y I. apply filter_In in I as [I _]. now apply F.
Qed.

Lemma om_del_list_perm {V} (l1 l2 : list key) (m : omap V) : wf m ->
  (forall k, kmem k l1 = kmem k l2) -> om_del_list l1 m = om_del_list l2 m.
Proof.
  intros W H. apply om_ext; try now apply wf_del_list.
  intro k. rewrite !om_get_del_list by exact W. now rewrite H.
Qed.

Lemma existsb_false {A} (f : A -> bool) l : existsb f l = false -> forall x, In x l -> f x = false.
Proof.
  intros H x I. destruct (f x) eqn:F; [|reflexivity].
  assert (existsb f l = true) by (apply existsb_exists; eauto). congruence.
Qed.

(* outside the guard the trie deletes the same keys as the first n in lexicographic order *)
Lemma trie_clear_limit_lex (m : omap val) p n : wf m -> order_guard m p n = false ->
  fst (fst (trie_clear_prefix_limit m p n)) = om_del_list (firstn (N.to_nat n) (matching_keys p m)) m.
Proof.
  intros W G. unfold trie_clear_prefix_limit. destruct (n =? 0) eqn:Z.
  - apply N.eqb_eq in Z. subst. reflexivity.
  - cbn [fst]. fold (matching_keys p m). apply N.eqb_neq in Z.
    unfold order_guard, keys_with_prefix in G. fold (matching_keys p m) in G.
    replace (0 <? n) with true in G by (symmetry; apply N.ltb_lt; lia). cbn [andb] in G.
    apply andb_false_iff in G as [G|G].
    + apply N.ltb_ge in G.
      rewrite !firstn_all2 by (rewrite ?length_post_sort; lia).
      apply om_del_list_perm; [exact W|]. intro k. apply kmem_post_sort.
    + rewrite post_sort_id; [reflexivity | |].
      * unfold matching_keys. apply ksorted_filter. exact W.
      * intros a b Ia Ib. pose proof (existsb_false _ _ G a Ia) as Ga. cbn in Ga.
        exact (existsb_false _ _ Ga b Ib).
Qed.
