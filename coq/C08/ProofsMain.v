(* C08/ProofsMain.v — refinement of the Substrate overlay specification by the model of the
   repaired TrieState/storageDiff, for histories of main-storage operations and transactions. *)
From Common Require Import Bytes.
From C08 Require Import ModelMap Model ModelSpec ModelGuards ProofsMap ProofsDiff ProofsClear ProofsTrie.
Local Open Scope N_scope.

Definition main_op (o : op) : bool :=
  match o with
  | OPut _ _ | OGet _ | ODel _ | OClearPrefix _ | OClearPrefixLimit _ _ | ONext _ | OEntries
  | OStart | OCommit | ORollback => true
  | _ => false
  end.

(* one transaction level against one spec level, over the committed main map m *)
Record LR (m : omap val) (D : diff) (l : slevel) : Prop := {
  lr_children : d_children D = [];
  lr_killed : d_killed D = [];
  lr_wf : sd_wf (d_main D);
  lr_view : c_main (view l) = mview m (d_main D);
  lr_vchildren : c_children (view l) = [];
  lr_tchildren : t_children l = [];
  lr_twf : wf (t_main l);
  lr_touched : forall k, ks_mem k (t_main l) = tg (d_main D) k;
}.

Record SR (s : tstate) (t : sstate) : Prop := {
  sr_wf : wf (bk_main (ts_state s));
  sr_main : c_main (backend t) = bk_main (ts_state s);
  sr_bchildren : bk_children (ts_state s) = [];
  sr_stale : bk_stale (ts_state s) = [];
  sr_schildren : c_children (backend t) = [];
  sr_levels : Forall2 (LR (bk_main (ts_state s))) (ts_txs s) (levels t);
}.

Lemma SR_init : SR ts_init ss_init.
Proof. split; cbn; try reflexivity; [apply wf_nil | constructor]. Qed.

Lemma LR_empty m bkd : c_main bkd = m -> c_children bkd = [] -> LR m d_empty (mk_slevel bkd [] []).
Proof.
  intros M C. split; cbn; try reflexivity; try assumption.
  - apply sd_wf_empty.
  - apply wf_nil.
Qed.

(* untouched visible keys are backend keys *)
Lemma LR_I2 m D l : wf m -> LR m D l ->
  forall k, om_mem k (c_main (view l)) = true -> ks_mem k (t_main l) = false -> om_mem k m = true.
Proof.
  intros W R k M T. rewrite (lr_view _ _ _ R) in M. rewrite (lr_touched _ _ _ R) in T.
  rewrite mview_mem in M by (try exact W; apply R). unfold tg in T.
  apply orb_false_iff in T as [T1 T2]. rewrite T1, T2 in M. cbn in M. exact M.
Qed.

(* apply_diff of a main-only diff *)
Lemma fold_bk_put_main l b :
  fold_left (fun b kv => bk_put b (fst kv) (snd kv)) l b =
  mk_backing (fold_left (fun acc kv => om_put (fst kv) (snd kv) acc) l (bk_main b))
             (bk_children b) (bk_stale b).
Proof.
  revert b; induction l as [|kv l IH]; intro b; [now destruct b|]. cbn [fold_left]. now rewrite IH.
Qed.
Lemma fold_bk_del_main l b :
  fold_left bk_del l b = mk_backing (om_del_list l (bk_main b)) (bk_children b) (bk_stale b).
Proof.
  revert b; induction l as [|k l IH]; intro b; [now destruct b|]. cbn [fold_left]. rewrite IH.
  reflexivity.
Qed.

Lemma apply_diff_main D b : d_children D = [] -> d_killed D = [] ->
  apply_diff cfg_fixed D b = mk_backing (mview (bk_main b) (d_main D)) (bk_children b) (bk_stale b).
Proof.
  intros C K. unfold apply_diff. rewrite C, K. cbn [om_keys map fold_left fix_child_ns cfg_fixed].
  rewrite fold_bk_put_main.
  change (fun b0 k => bk_del b0 k) with bk_del. rewrite fold_bk_del_main. reflexivity.
Qed.

Lemma fold_d_delete_main del D :
  fold_left (d_delete cfg_fixed) del D =
  mk_diff (fold_left sd_delete del (d_main D)) (d_children D) (d_killed D).
Proof.
  revert D; induction del as [|k del IH]; intro D; [now destruct D|]. cbn [fold_left]. rewrite IH.
  reflexivity.
Qed.

Lemma state_keys_fixed m p : state_keys_with_prefix cfg_fixed m p = matching_keys p m.
Proof.
  unfold state_keys_with_prefix, matching_keys. apply filter_ext. intro k. cbn. now rewrite andb_true_r.
Qed.


(* ------------------------------------------------------------------ one level, one operation *)

Lemma LR_put m D l k v : wf m -> LR m D l ->
  LR m (d_upsert D k v)
     (mk_slevel (mk_cstate (om_put k v (c_main (view l))) (c_children (view l)))
                (touch_main l k) (t_children l)).
Proof.
  intros W R. destruct R as [C K S Vw VC TC TW TT]. split; cbn; try assumption.
  - now apply sd_wf_upsert.
  - rewrite Vw. symmetry. now apply mview_upsert.
  - unfold touch_main, ks_add. now apply wf_put.
  - intro k0. unfold touch_main. rewrite ks_mem_add by exact TW. rewrite tg_upsert by exact S.
    now rewrite TT.
Qed.

Lemma LR_del m D l k : wf m -> LR m D l ->
  LR m (d_delete cfg_fixed D k)
     (mk_slevel (mk_cstate (om_del k (c_main (view l))) (c_children (view l)))
                (touch_main l k) (t_children l)).
Proof.
  intros W R. destruct R as [C K S Vw VC TC TW TT]. split; cbn; try assumption.
  - now apply sd_wf_delete.
  - rewrite Vw. symmetry. now apply mview_delete.
  - unfold touch_main, ks_add. now apply wf_put.
  - intro k0. unfold touch_main. rewrite ks_mem_add by exact TW. rewrite tg_delete by exact S.
    now rewrite TT.
Qed.

(* the committed keys counted against the limit by the Go code *)
Definition go_S (m : omap val) (d : sdiff) (p : key) : list key :=
  filter (fun k => negb (om_mem k (ups d))) (matching_keys p m).

Lemma untouched_le_S m D l p : wf m -> LR m D l ->
  (length (filter (fun k => negb (ks_mem k (t_main l))) (matching_keys p m))
   <= length (go_S m (d_main D) p))%nat.
Proof.
  intros W R. unfold go_S. apply filter_length_le. intros k _ T.
  rewrite (lr_touched _ _ _ R) in T. unfold tg in T. apply negb_true_iff in T.
  apply orb_false_iff in T as [T _]. now rewrite T.
Qed.

(* a clear that removes every matching key: no limit, or a limit above the count *)
Lemma LR_clear_all m D l p limit zl m' t' lp al : wf m -> LR m D l ->
  (limit = None /\ (zl < 0)%Z \/
   exists n, limit = Some n /\ zl = Z.of_N n /\ N.of_nat (length (matching_keys p m)) < n) ->
  spec_clear (c_main (view l)) m (t_main l) p limit = (m', t', lp, al) ->
  let del := rev (cp_loop p (om_keys (ups (d_main D)))
                          (keys_to_clear (ups (d_main D)) (matching_keys p m)) zl []) in
  LR m (mk_diff (fold_left sd_delete del (d_main D)) (d_children D) (d_killed D))
     (mk_slevel (mk_cstate m' (c_children (view l))) t' (t_children l)).
Proof.
  intros W R Big SC. pose proof R as [C K S Vw VC TC TW TT].
  assert (Wv : wf (c_main (view l))) by (rewrite Vw; now apply mview_wf).
  destruct (spec_clear_all _ _ _ p Wv W TW (LR_I2 m D l W R) limit m' t' lp al) as (E1 & E2 & E3).
  { destruct Big as [[-> _]|(n & -> & _ & L)]; [now left | right]. exists n. split; [reflexivity|].
    rewrite skipn_all2 by lia. intros k []. }
  { exact SC. }
  destruct (go_clear_all m (d_main D) p W S zl) as (G1 & G2).
  { destruct Big as [[_ L]|(n & _ & -> & L)]; [now left | right].
    pose proof (filter_length_le' (fun k => negb (om_mem k (ups (d_main D)))) (matching_keys p m)). lia. }
  cbn zeta in *. split; cbn; try assumption.
  - now apply sd_wf_delete_list.
  - rewrite E1, G1, Vw. reflexivity.
  - intro k. rewrite E3, G2, TT. reflexivity.
Qed.

(* a limited clear in a range the transaction has not touched *)
Lemma LR_clear_first m D l p n m' t' lp al : wf m -> LR m D l ->
  (forall k, has_prefix p k = true -> om_mem k (ups (d_main D)) = false) ->
  spec_clear (c_main (view l)) m (t_main l) p (Some n) = (m', t', lp, al) ->
  let del := rev (cp_loop p (om_keys (ups (d_main D)))
                          (keys_to_clear (ups (d_main D)) (matching_keys p m)) (Z.of_N n) []) in
  LR m (mk_diff (fold_left sd_delete del (d_main D)) (d_children D) (d_killed D))
     (mk_slevel (mk_cstate m' (c_children (view l))) t' (t_children l)).
Proof.
  intros W R A1 SC. pose proof R as [C K S Vw VC TC TW TT].
  assert (Wv : wf (c_main (view l))) by (rewrite Vw; now apply mview_wf).
  destruct (spec_clear_first _ _ _ p Wv W TW (LR_I2 m D l W R) n m' t' lp al) as (E1 & E2 & E3).
  { intros k P T. rewrite TT in T. unfold tg in T. rewrite (A1 k P) in T. cbn in T.
    rewrite Vw, mview_mem by assumption. rewrite (A1 k P), T. reflexivity. }
  { exact SC. }
  cbn zeta in *. rewrite (go_clear_first m (d_main D) p S n A1).
  set (del := firstn (N.to_nat n) (matching_keys p m)) in *.
  split; cbn; try assumption.
  - now apply sd_wf_delete_list.
  - rewrite E1, Vw. symmetry. now apply mview_delete_list.
  - intro k. rewrite E3, TT. symmetry. now apply tg_delete_list.
Qed.

(* the guard's negation gives one of the two cases *)
Lemma limit_guard_cases (m : omap val) d p n : wf m ->
  limit_guard d p (matching_keys p m) n = false ->
  N.of_nat (length (matching_keys p m)) < n \/
  (forall k, has_prefix p k = true -> om_mem k (ups d) = false).
Proof.
  intros W G. unfold limit_guard in G. apply andb_false_iff in G as [G|G].
  - left. apply N.leb_gt in G. exact G.
  - right. intros k P. destruct (om_mem k (ups d)) eqn:M; [|reflexivity].
    unfold om_mem in M. destruct (om_get k (ups d)) eqn:E; [|discriminate].
    (* k is a key of ups *)
    assert (I : exists x, In x (om_keys (ups d)) /\ has_prefix p x = true).
    { exists k. split; [|exact P]. clear -E. induction (ups d) as [|[k1 v1] r IH]; [discriminate|].
      cbn in *. destruct (kcmp k k1) eqn:C; try discriminate.
      - apply kcmp_eq in C. now left.
      - right. now apply IH. }
    apply existsb_exists in I. congruence.
Qed.

(* ------------------------------------------------------------------ one step *)

Lemma spec_clear_eta cur bk tch p limit :
  exists m' t' lp al, spec_clear cur bk tch p limit = (m', t', lp, al).
Proof. destruct (spec_clear cur bk tch p limit) as [[[m' t'] lp] al]. eauto. Qed.

Lemma LR_backend_level m bkd : c_main bkd = m -> c_children bkd = [] ->
  LR m d_empty (mk_slevel bkd [] []).
Proof. apply LR_empty. Qed.

Lemma step_main o s t : SR s t -> main_op o = true -> step_guard cfg_fixed o s = None ->
  norm_obs o (fst (step cfg_fixed o s)) = norm_obs o (fst (sstep o t)) /\
  SR (snd (step cfg_fixed o s)) (snd (sstep o t)).
Proof.
  intros R MO G. destruct s as [b txs], t as [bkd lvls].
  destruct R as [W M BC ST SC L]. cbn in W, M, BC, ST, SC, L.
  destruct L as [|D l txs' lvls' R L].
  - (* ---- outside any transaction *)
    assert (LB : LR (bk_main b) d_empty (mk_slevel bkd [] [])) by now apply LR_empty.
    destruct o; try discriminate; cbn.
    + (* Put *) split; [reflexivity|]. split; cbn; try assumption; try constructor.
      * now apply wf_put.
      * now rewrite M.
    + (* Get *) split; [now rewrite M|]. split; cbn; try assumption; constructor.
    + (* Del *) split; [reflexivity|]. split; cbn; try assumption; try constructor.
      * now apply wf_del.
      * now rewrite M.
    + (* ClearPrefix *)
      destruct (covers_child_keys p) eqn:CK;
        [split; [reflexivity|]; split; cbn; try assumption; constructor|].
      destruct (spec_clear_eta (c_main bkd) (c_main bkd) [] p None) as (m' & t' & lp & al & E).
      rewrite E. split; [reflexivity|].
      assert (Wb : wf (c_main bkd)) by now rewrite M.
      assert (I2 : forall k, om_mem k (c_main bkd) = true -> ks_mem k [] = false ->
                             om_mem k (c_main bkd) = true) by (intros k Hk _; exact Hk).
      destruct (spec_clear_all (c_main bkd) (c_main bkd) [] p Wb Wb wf_nil I2 None m' t' lp al
                               (or_introl eq_refl) E) as (E1 & _ & _).
      split; cbn; try assumption; try constructor.
      * unfold trie_clear_prefix. now apply wf_filter.
      * rewrite E1, M. reflexivity.
    + (* ClearPrefixLimit *)
      destruct (covers_child_keys p) eqn:CK;
        [split; [reflexivity|]; split; cbn; try assumption; constructor|].
      destruct (spec_clear_eta (c_main bkd) (c_main bkd) [] p (Some n)) as (m' & t' & lp & al & E).
      rewrite E.
      assert (Wb : wf (c_main bkd)) by now rewrite M.
      assert (I2 : forall k, om_mem k (c_main bkd) = true -> ks_mem k [] = false ->
                             om_mem k (c_main bkd) = true) by (intros k Hk _; exact Hk).
      assert (A0 : forall k, has_prefix p k = true -> ks_mem k [] = true ->
                             om_mem k (c_main bkd) = false)
        by (intros k _ T; discriminate).
      destruct (spec_clear_first (c_main bkd) (c_main bkd) [] p Wb Wb wf_nil I2 n m' t' lp al A0 E)
        as (E1 & _ & _).
      unfold step_guard in G. cbn [ts_txs ts_state fix_child_prefix cfg_fixed andb] in G. rewrite CK in G.
      destruct (order_guard (bk_main b) p n) eqn:OG; [discriminate|].
      pose proof (trie_clear_limit_lex (bk_main b) p n W OG) as TL.
      destruct (trie_clear_prefix_limit (bk_main b) p n) as [[mg dg] ag]. cbn in TL. cbn.
      split; [reflexivity|]. subst mg.
      split; cbn; try assumption; try constructor.
      * now apply wf_del_list.
      * rewrite E1, M. reflexivity.
    + (* Next *) split; [now rewrite M|]. split; cbn; try assumption; constructor.
    + (* Entries *) split; [now rewrite M|]. split; cbn; try assumption; constructor.
    + (* Start *) split; [reflexivity|]. split; cbn; try assumption.
      constructor; [exact LB | constructor].
    + (* Commit: panic *) split; [reflexivity|]. split; cbn; try assumption; constructor.
    + (* Rollback: panic *) split; [reflexivity|]. split; cbn; try assumption; constructor.
  - (* ---- inside a transaction *)
    pose proof R as [C K S Vw VC TC TW TT].
    set (m := bk_main b) in *.
    destruct o; try discriminate; cbn [step sstep ts_txs ts_state cur_level levels set_level backend
                                       with_top with_state fst snd].
    + (* Put *) split; [reflexivity|]. split; cbn; try assumption.
      constructor; [now apply LR_put | exact L].
    + (* Get *)
      rewrite Vw. rewrite (mview_sd_get m (d_main D) k W S).
      destruct (sd_get (d_main D) k) as [[v|] [|]]; cbn;
        (split; [reflexivity | split; cbn; try assumption; constructor; assumption]).
    + (* Del *) split; [reflexivity|]. split; cbn; try assumption.
      constructor; [now apply LR_del | exact L].
    + (* ClearPrefix *)
      cbn [fix_child_prefix cfg_fixed andb].
      destruct (covers_child_keys p) eqn:CK;
        [split; [reflexivity|]; split; cbn; try assumption; constructor; assumption|].
      unfold state_keys_cp. cbn [fix_child_prefix cfg_fixed].
      rewrite state_keys_fixed. unfold d_clear_prefix, clear_prefix_keys.
      rewrite fold_d_delete_main. rewrite M.
      destruct (spec_clear_eta (c_main (view l)) m (t_main l) p None) as (m' & t' & lp & al & E).
      rewrite E. cbn. split; [reflexivity|]. split; cbn; try assumption.
      constructor; [|exact L].
      apply (LR_clear_all m D l p None (-1)%Z m' t' lp al W R); [left; split; [reflexivity | lia] | exact E].
    + (* ClearPrefixLimit *)
      cbn [fix_child_prefix cfg_fixed andb].
      destruct (covers_child_keys p) eqn:CK;
        [split; [reflexivity|]; split; cbn; try assumption; constructor; assumption|].
      unfold step_guard in G. cbn [ts_txs ts_state fix_child_prefix cfg_fixed andb] in G. rewrite CK in G.
      fold m in G. rewrite state_keys_fixed in G.
      destruct (limit_guard (d_main D) p (matching_keys p m) n) eqn:LG; [discriminate|].
      unfold state_keys_cp. cbn [fix_child_prefix cfg_fixed].
      rewrite state_keys_fixed. unfold d_clear_prefix, clear_prefix_keys.
      rewrite fold_d_delete_main. rewrite M.
      destruct (spec_clear_eta (c_main (view l)) m (t_main l) p (Some n)) as (m' & t' & lp & al & E).
      rewrite E. cbn. split; [reflexivity|]. split; cbn; try assumption.
      constructor; [|exact L].
      destruct (limit_guard_cases m (d_main D) p n W LG) as [Big|A1].
      * apply (LR_clear_all m D l p (Some n) (Z.of_N n) m' t' lp al W R); [|exact E].
        right. exists n. auto.
      * now apply (LR_clear_first m D l p n m' t' lp al W R A1).
    + (* Next *)
      rewrite Vw. rewrite (mview_next m (d_main D) k W S). cbn.
      split; [reflexivity | split; cbn; try assumption; constructor; assumption].
    + (* Entries *)
      rewrite Vw. cbn. split; [reflexivity | split; cbn; try assumption; constructor; assumption].
    + (* Start *) cbn. split; [reflexivity|]. split; cbn; try assumption.
      constructor; [exact R | constructor; assumption].
    + (* Commit *)
      destruct L as [|D2 l2 txs2 lvls2 R2 L2]; cbn.
      * split; [reflexivity|]. rewrite (apply_diff_main D b C K). fold m.
        split; cbn; try assumption; try constructor.
        now apply mview_wf.
      * split; [reflexivity|]. split; cbn; try assumption. constructor; assumption.
    + (* Rollback *) cbn. split; [reflexivity|]. split; cbn; assumption.
Qed.

(* ------------------------------------------------------------------ whole histories *)

Definition obs_is_panic (x : obs) : bool := match x with RPanic => true | _ => false end.

Lemma norm_obs_panic o x : norm_obs o x = RPanic <-> x = RPanic.
Proof. destruct o, x; cbn; split; congruence. Qed.

Lemma run_main ops : forall s t, SR s t -> forallb main_op ops = true ->
  run_guards cfg_fixed ops s = [] ->
  norm_list ops (fst (run cfg_fixed ops s)) = norm_list ops (fst (srun ops t)) /\
  SR (snd (run cfg_fixed ops s)) (snd (srun ops t)).
Proof.
  induction ops as [|o r IH]; intros s t R MO G.
  - cbn. split; [reflexivity | exact R].
  - cbn [forallb] in MO. apply andb_prop in MO as [MO1 MO2].
    cbn [run_guards] in G.
    assert (G1 : step_guard cfg_fixed o s = None).
    { destruct (step_guard cfg_fixed o s); [|reflexivity].
      destruct (step cfg_fixed o s) as [x s']. destruct x; discriminate. }
    destruct (step_main o s t R MO1 G1) as [E R'].
    cbn [run srun]. rewrite G1 in G. cbn [app] in G.
    destruct (step cfg_fixed o s) as [x s'] eqn:ES. destruct (sstep o t) as [y t'] eqn:ET.
    cbn [fst snd] in E, R'.
    destruct (obs_is_panic x) eqn:PX.
    + (* both panic *)
      assert (x = RPanic) by (destruct x; try discriminate; reflexivity). subst x.
      assert (y = RPanic).
      { apply (norm_obs_panic o). rewrite <- E. now apply norm_obs_panic. }
      subst y. cbn. split; [reflexivity | exact R'].
    + assert (NY : y <> RPanic).
      { intros ->. assert (P : norm_obs o RPanic = RPanic) by now apply norm_obs_panic.
        rewrite P in E. apply norm_obs_panic in E. subst x. discriminate. }
      assert (GR : run_guards cfg_fixed r s' = []) by (destruct x; try exact G; discriminate).
      destruct (IH s' t' R' MO2 GR) as [E2 R2].
      destruct (run cfg_fixed r s') as [xs s''], (srun r t') as [ys t''].
      cbn [fst snd] in E2, R2.
      destruct x; try discriminate; destruct y; try congruence; cbn [fst snd norm_list];
        (split; [congruence | exact R2]).
Qed.

Theorem reads_main ops : forallb main_op ops = true -> guard_free cfg_fixed ops = true ->
  agrees (run cfg_fixed ops ts_init) (srun ops ss_init) ops.
Proof.
  intros MO G. unfold guard_free in G.
  destruct (run_guards cfg_fixed ops ts_init) eqn:GE; [|discriminate].
  destruct (run_main ops ts_init ss_init SR_init MO GE) as [E R].
  split; [exact E|]. intro Closed. destruct R as [W M BC ST SC L].
  rewrite Closed in L. inversion L as [HL|]. repeat split.
  - now symmetry.
  - now rewrite BC, SC.
  - exact ST.
Qed.
