(* C08/ProofsHeap.v — the hash-keyed child-trie store of the in-memory trie (ModelHeap.v) with
   the repaired copy-on-shared-root rule refines independent child maps (the backing store of
   Model.v): same answers, same registered contents, never a dangling root, for every history of
   PutIntoChild / ClearFromChild / DeleteChild / GetFromChild.  The rule before fix C08-6 does
   not: witness cs:11:22:a1 cs:22:22:a1 cs:11:1122:a1 cg:22:22. *)
From Common Require Import Bytes.
From C08 Require Import ModelMap Model ModelCheck ModelHeap ProofsMap ProofsTrie ProofsCheck.
Local Open Scope N_scope.

(* ---- the set of childTries keys *)
Lemma map_eqb_refl h : map_eqb h h = true.
Proof. now apply map_eqb_eq. Qed.

Lemma present_in h l : present h l = true <-> In h l.
Proof.
  unfold present. rewrite existsb_exists. split.
  - intros (x & I & E). apply map_eqb_eq in E. now subst.
  - intro I. exists h. split; [exact I | apply map_eqb_refl].
Qed.

Lemma present_remove x h l : present x (remove_present h l) = present x l && negb (map_eqb h x).
Proof.
  unfold present, remove_present. induction l as [|y l IH]; [reflexivity|]. cbn [filter existsb].
  destruct (map_eqb h y) eqn:E; cbn [negb].
  - rewrite IH. apply map_eqb_eq in E. subst y.
    destruct (map_eqb x h) eqn:X; cbn [orb]; [|reflexivity].
    apply map_eqb_eq in X. subst x. rewrite map_eqb_refl. cbn. now rewrite andb_false_r.
  - cbn [existsb]. rewrite IH. destruct (map_eqb x y) eqn:X; cbn [orb]; [|reflexivity].
    apply map_eqb_eq in X. subst y. now rewrite E.
Qed.

Lemma present_add x m l : present x (add_present m l) = map_eqb x m || present x l.
Proof.
  unfold add_present. destruct (present m l) eqn:P; [|reflexivity].
  destruct (map_eqb x m) eqn:X; [|reflexivity]. apply map_eqb_eq in X. subst x. now rewrite P.
Qed.

(* ---- the invariant: every registered root has its entry (no dangling root), and no child is
   registered with the empty trie *)
Record HInv (s : hstore) : Prop := {
  hi_wf : wf (hs_reg s);
  hi_present : forall name h, om_get name (hs_reg s) = Some h -> present h (hs_present s) = true;
}.

Lemma HInv_empty : HInv hs_empty.
Proof. split; [apply wf_nil | intros name h H; discriminate]. Qed.

Lemma HInv_lookup s name : HInv s ->
  hs_lookup s name = match om_get name (hs_reg s) with None => LNoChild | Some h => LChild h end.
Proof.
  intros [W P]. unfold hs_lookup. destruct (om_get name (hs_reg s)) as [h|] eqn:G; [|reflexivity].
  now rewrite (P name h G).
Qed.

Lemma not_shared s name h name' h' : wf (hs_reg s) -> shared_root s name h = false ->
  om_get name' (hs_reg s) = Some h' -> keqb name' name = false -> map_eqb h h' = false.
Proof.
  intros W S G N. unfold shared_root in S.
  apply (om_get_in name' h' (hs_reg s) W) in G.
  pose proof (existsb_false _ _ S (name', h') G) as F. cbn [fst snd] in F.
  rewrite N in F. cbn in F. exact F.
Qed.

Lemma HInv_replace s name h m' : HInv s -> HInv (hs_replace true s name h m').
Proof.
  intros [W P]. unfold hs_replace. cbn [andb].
  set (p1 := if shared_root s name h then hs_present s else remove_present h (hs_present s)).
  assert (P1 : forall name' h', keqb name' name = false -> om_get name' (hs_reg s) = Some h' ->
                                present h' p1 = true).
  { intros name' h' N G. unfold p1. destruct (shared_root s name h) eqn:S; [now apply (P name')|].
    rewrite present_remove, (P name' h' G). cbn.
    now rewrite (not_shared s name h name' h' W S G N). }
  destruct m' as [|kv m']; split; cbn [hs_reg hs_present].
  - now apply wf_del.
  - intros name' h' G. rewrite om_get_del in G by exact W.
    destruct (keqb name' name) eqn:N; [discriminate|]. now apply (P1 name').
  - now apply wf_put.
  - intros name' h' G. rewrite om_get_put in G by exact W. rewrite present_add.
    destruct (keqb name' name) eqn:N.
    + injection G as <-. now rewrite map_eqb_refl.
    + rewrite (P1 name' h' N G). now rewrite orb_true_r.
Qed.

Lemma HInv_delete s name : HInv s -> HInv (hs_delete s name).
Proof.
  intros [W P]. split; cbn [hs_delete hs_reg hs_present].
  - now apply wf_del.
  - intros name' h' G. rewrite om_get_del in G by exact W.
    destruct (keqb name' name); [discriminate|]. now apply (P name').
Qed.

Lemma om_put_not_nil {V} k (v : V) m : om_put k v m <> [].
Proof. destruct m as [|[k1 v1] r]; cbn; [discriminate|]. destruct (kcmp k k1); discriminate. Qed.

(* ---- one step: same answer, same registered contents as on independent child maps *)
Lemma hstep_refines o s b : HInv s -> hs_reg s = bk_children b ->
  fst (hstep true o s) = fst (bstep o b) /\
  hs_reg (snd (hstep true o s)) = bk_children (snd (bstep o b)) /\
  HInv (snd (hstep true o s)) /\ fst (hstep true o s) <> HPanic.
Proof.
  intros I E. pose proof I as [W P]. destruct o as [c k v|c k|c|c k]; cbn [hstep bstep].
  - (* PutIntoChild *)
    unfold hs_put. rewrite (HInv_lookup s c I). unfold bk_put_into_child, bk_get_child. rewrite <- E.
    destruct (om_get c (hs_reg s)) as [h|] eqn:G; cbn [fst snd bk_children];
      (refine (conj eq_refl (conj _ (conj _ _))); [| now apply HInv_replace | discriminate]).
    + unfold hs_replace. destruct (om_put k v h) eqn:EP; [now apply om_put_not_nil in EP|].
      cbn [hs_reg]. reflexivity.
    + unfold hs_replace. cbn [hs_reg]. reflexivity.
  - (* ClearFromChild *)
    unfold hs_clear. rewrite (HInv_lookup s c I). unfold bk_clear_from_child, bk_get_child. rewrite <- E.
    destruct (om_get c (hs_reg s)) as [h|]; cbn [fst snd].
    + pose proof (HInv_replace s c h (om_del k h) I) as X. unfold hs_replace in *. unfold bk_delete_child.
      destruct (om_del k h) as [|kv m'] eqn:ED; cbn [fst snd bk_children hs_reg]; rewrite <- ?E;
        (refine (conj eq_refl (conj eq_refl (conj X _))); discriminate).
    + refine (conj eq_refl (conj E (conj I _))). discriminate.
  - (* DeleteChild *)
    cbn [fst snd]. unfold bk_delete_child. cbn [bk_children hs_delete hs_reg]. rewrite <- E.
    refine (conj eq_refl (conj eq_refl (conj _ _))); [|discriminate].
    exact (HInv_delete s c I).
  - (* GetFromChild *)
    rewrite (HInv_lookup s c I). unfold bk_get_child. rewrite <- E.
    destruct (om_get c (hs_reg s)); cbn [fst snd]; (refine (conj eq_refl (conj E (conj I _))); discriminate).
Qed.

(* ---- whole histories *)
Theorem hrun_refines ops : forall s b, HInv s -> hs_reg s = bk_children b ->
  fst (hrun true ops s) = fst (brun ops b) /\
  hs_reg (snd (hrun true ops s)) = bk_children (snd (brun ops b)) /\
  HInv (snd (hrun true ops s)).
Proof.
  induction ops as [|o r IH]; intros s b I E; [cbn; exact (conj eq_refl (conj E I))|].
  destruct (hstep_refines o s b I E) as (E1 & E2 & I' & NP). cbn [hrun brun].
  destruct (hstep true o s) as [x s'] eqn:HS. destruct (bstep o b) as [y b'] eqn:BS.
  cbn [fst snd] in *. subst y.
  destruct (IH s' b' I' E2) as (F1 & F2 & F3).
  destruct (hrun true r s') as [xs s''], (brun r b') as [ys b''].
  cbn [fst snd] in *. subst ys. destruct x; try contradiction; cbn [fst snd]; exact (conj eq_refl (conj F2 F3)).
Qed.

(* from the empty store: the repaired store never panics and answers like independent maps *)
Corollary heap_refines ops :
  fst (hrun true ops hs_empty) = fst (brun ops bk_empty) /\
  hs_reg (snd (hrun true ops hs_empty)) = bk_children (snd (brun ops bk_empty)) /\
  (forall name h, om_get name (hs_reg (snd (hrun true ops hs_empty))) = Some h ->
                  In h (hs_present (snd (hrun true ops hs_empty)))).
Proof.
  destruct (hrun_refines ops hs_empty bk_empty HInv_empty eq_refl) as (E1 & E2 & [W P]).
  refine (conj E1 (conj E2 _)). intros name h G. apply present_in. now apply (P name).
Qed.

(* the check's predicates agree on the heap model's own output *)
Corollary heap_prop_model ops :
  let r := hrun true ops hs_empty in heap_prop ops (fst r) (hs_reg (snd r)) = true.
Proof.
  cbn zeta. destruct (heap_refines ops) as (E1 & E2 & _). unfold heap_prop.
  destruct (brun ops bk_empty) as [bs b]. cbn [fst snd] in *. rewrite E1, E2.
  apply andb_true_intro. split.
  - apply list_eqb_eq; [|reflexivity]. intros x y. destruct x, y; cbn; split; intro H;
      try reflexivity; try discriminate.
    + apply (opt_eqb_eq keqb keqb_eq) in H. now subst.
    + injection H as ->. now apply (opt_eqb_eq keqb keqb_eq).
  - now apply children_eqb_eq.
Qed.

(* ---- the rule before fix C08-6 *)
Definition hk11 : key := map n2b [17].       Definition hk22 : key := map n2b [34].
Definition hk1122 : key := map n2b [17; 34]. Definition hva : val := map n2b [161].
(* cs:11:22:a1 cs:22:22:a1 cs:11:1122:a1 cg:22:22 *)
Definition w_alias := [HPut hk11 hk22 hva; HPut hk22 hk22 hva; HPut hk11 hk1122 hva; HGet hk22 hk22].

Lemma prefix_alias_panics :
  fst (hrun false w_alias hs_empty) = [HOk; HOk; HOk; HPanic] /\
  fst (brun w_alias bk_empty) = [HOk; HOk; HOk; HVal (Some hva)] /\
  hs_lookup (snd (hrun false w_alias hs_empty)) hk22 = LDangling.
Proof. vm_compute. repeat split; reflexivity. Qed.

Lemma fixed_alias_ok :
  fst (hrun true w_alias hs_empty) = [HOk; HOk; HOk; HVal (Some hva)].
Proof. reflexivity. Qed.
