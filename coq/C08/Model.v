(* C08/Model.v — executable model of lib/runtime/storage: storagediff.go (storageDiff) and
   trie.go (TrieState with nested transactions), over an abstract backing store (ModelMap:
   main ordered map + child maps) standing for the in-memory trie.  Definitions only.

   Conventions / abstractions (see props/C08/meta.json):
   - Go maps are modelled by sorted association lists; storageDiff.sortedKeys is not a
     separate field: by construction it always equals the sorted keys of upserts.
   - The backing trie keeps each child trie under the main key ":child_storage:default:"++name
     with its root hash as value.  The model keeps children in a separate map; the harness
     projects those main keys away.  [bk_stale] records children whose content was changed
     through the child trie object without re-registering it (TrieState's non-transactional
     DeleteChildLimit / ClearPrefixInChild[WithLimit]): their root entry is out of date.
   - [cfg] switches between the pinned behaviour and the behaviour after the fixes (one flag per
     repaired defect; cfg_pre7 = the tree before fix C08-7).
   - Child tries are independent maps.  The in-memory trie used to keep child tries with equal
     contents as ONE object (childTries is keyed by root hash); fix C08-6 makes them independent,
     which is what the model says.  The aliasing itself is not modelled. *)
From Common Require Import Bytes.
From C08 Require Import ModelMap.
Local Open Scope N_scope.

Record cfg := mk_cfg {
  fix_prefix_key : bool;   (* in-transaction prefix clears also see the state key equal to the prefix *)
  fix_child_reset : bool;  (* upsertChild clears a pending deletion of the same child key *)
  fix_child_keys : bool;   (* GetKeysWithPrefixFromChild merges state keys, upserts and deletes *)
  fix_child_ns : bool;     (* deleted child tries are tracked apart from main keys
                              (deletedChildTries) and hide the child's content in the state *)
  fix_child_direct : bool; (* outside a transaction, bulk deletions in a child trie go through
                              ClearFromChild (the child root in the parent stays up to date) *)
  fix_child_prefix : bool; (* ClearPrefix / ClearPrefixLimit refuse a prefix that is part of, or
                              contains, ":child_storage:" (fix C08-7); before, the child trie
                              roots kept in the main trie were cleared like ordinary keys *)
}.
Definition cfg_pinned : cfg := mk_cfg false false false false false false.
Definition cfg_fixed : cfg := mk_cfg true true true true true true.
(* the tree after fixes C08-1..5, before C08-7 (diagnostics and the refutation witness) *)
Definition cfg_pre7 : cfg := mk_cfg true true true true true false.

(* ------------------------------------------------------------------ child storage keys *)

(* ":child_storage:" (sp_core::storage::well_known_keys::CHILD_STORAGE_KEY_PREFIX) *)
Definition child_storage_prefix : key :=
  map n2b [58; 99; 104; 105; 108; 100; 95; 115; 116; 111; 114; 97; 103; 101; 58].
(* ":child_storage:default:" (pkg/trie/inmemory ChildStorageKeyPrefix): the root of child trie
   [name] is kept in the main trie under child_root_prefix ++ name *)
Definition child_root_prefix : key :=
  child_storage_prefix ++ map n2b [100; 101; 102; 97; 117; 108; 116; 58].
Definition child_root_key (name : key) : key := child_root_prefix ++ name.

(* starts_with_child_storage_key: keys with this prefix may be child storage keys *)
Definition covers_child_keys (p : key) : bool :=
  if Nat.ltb (length child_storage_prefix) (length p)
  then has_prefix child_storage_prefix p
  else has_prefix p child_storage_prefix.

(* the name of the child trie whose root is kept under main key k *)
Fixpoint strip_prefix (p k : key) : option key :=
  match p, k with
  | [], _ => Some k
  | x :: p', y :: k' => if b2n x =? b2n y then strip_prefix p' k' else None
  | _ :: _, [] => None
  end.
Definition child_of_root_key (k : key) : option key := strip_prefix child_root_prefix k.

(* ------------------------------------------------------------------ storageDiff *)

Record sdiff := mk_sdiff { ups : omap val; dels : kset }.
Definition sd_empty : sdiff := mk_sdiff [] [].

(* a storageDiff: its own maps plus childChangeSet (child diffs never have children) *)
Record diff := mk_diff { d_main : sdiff; d_children : omap sdiff; d_killed : kset }.
Definition d_empty : diff := mk_diff sd_empty [] [].

(* get: (value, deleted) *)
Definition sd_get (d : sdiff) (k : key) : option val * bool :=
  match om_get k (ups d) with
  | Some v => (Some v, false)
  | None => (None, ks_mem k (dels d))
  end.

Definition sd_upsert (d : sdiff) (k : key) (v : val) : sdiff :=
  mk_sdiff (om_put k v (ups d)) (om_del k (dels d)).

Definition sd_delete (d : sdiff) (k : key) : sdiff :=
  mk_sdiff (om_del k (ups d)) (ks_add k (dels d)).

(* upsert / delete on the top-level diff; the pinned delete also drops childChangeSet[key] *)
Definition d_upsert (D : diff) (k : key) (v : val) : diff :=
  mk_diff (sd_upsert (d_main D) k v) (d_children D) (d_killed D).
Definition d_delete (cf : cfg) (D : diff) (k : key) : diff :=
  mk_diff (sd_delete (d_main D) k)
          (if fix_child_ns cf then d_children D else om_del k (d_children D)) (d_killed D).
(* deleting a whole child trie: pinned = delete(keyToChild) in the main key namespace;
   fixed = deleteChild *)
Definition d_kill (cf : cfg) (D : diff) (c : key) : diff :=
  if fix_child_ns cf
  then mk_diff (d_main D) (om_del c (d_children D)) (ks_add c (d_killed D))
  else d_delete cf D c.

Definition child_changes (D : diff) (c : key) : sdiff :=
  match om_get c (d_children D) with Some cd => cd | None => sd_empty end.

(* upsertChild: undoes a deletion mark on keyToChild; writes childChanges.upserts[key] only
   (pinned), or also unmarks the key's pending deletion (fix_child_reset) *)
Definition d_upsert_child (cf : cfg) (D : diff) (c k : key) (v : val) : diff :=
  let cc := child_changes D c in
  let cc' := if fix_child_reset cf then sd_upsert cc k v
             else mk_sdiff (om_put k v (ups cc)) (dels cc) in
  mk_diff (if fix_child_ns cf then d_main D
           else mk_sdiff (ups (d_main D)) (om_del c (dels (d_main D))))
          (om_put c cc' (d_children D)) (d_killed D).

Definition d_delete_from_child (D : diff) (c k : key) : diff :=
  mk_diff (d_main D) (om_put c (sd_delete (child_changes D c) k) (d_children D)) (d_killed D).

(* the loop of clearPrefix / deleteChildLimit over the sorted keys: returns the keys passed
   to delete(), most recent first.  limit is a Go int (-1 = none: never reaches 0). *)
Fixpoint cp_loop (prefix : key) (newKeys ks : list key) (limit : Z) (acc : list key) : list key :=
  match ks with
  | [] => acc
  | k :: r =>
    if (limit =? 0)%Z then acc
    else if has_prefix prefix k
         then cp_loop prefix newKeys r (if kmem k newKeys then limit else (limit - 1)%Z) (k :: acc)
         else cp_loop prefix newKeys r limit acc
  end.

Definition keys_to_clear (u : omap val) (trieKeys : list key) : list key :=
  kmerge (om_keys u) (filter (fun k => negb (om_mem k u)) trieKeys).

(* clearPrefix on one storageDiff: keys deleted (in order), deleted, allDeleted *)
Definition clear_prefix_keys (d : sdiff) (prefix : key) (trieKeys : list key) (limit : Z)
  : list key * N * bool :=
  let ks := keys_to_clear (ups d) trieKeys in
  let del := rev (cp_loop prefix (om_keys (ups d)) ks limit []) in
  (del, N.of_nat (length del), Nat.eqb (length del) (length ks)).

Definition d_clear_prefix (cf : cfg) (D : diff) (prefix : key) (trieKeys : list key) (limit : Z)
  : diff * N * bool :=
  let '(del, n, a) := clear_prefix_keys (d_main D) prefix trieKeys limit in
  (fold_left (d_delete cf) del D, n, a).

Definition d_clear_prefix_in_child (D : diff) (c prefix : key) (childKeys : list key) (limit : Z)
  : diff * N * bool :=
  let cc := child_changes D c in
  let '(del, n, a) := clear_prefix_keys cc prefix childKeys limit in
  (mk_diff (d_main D) (om_put c (fold_left sd_delete del cc) (d_children D)) (d_killed D), n, a).

Definition d_delete_child_limit (cf : cfg) (D : diff) (c : key) (cur : list key) (limit : Z)
  : diff * N * bool :=
  let cc := child_changes D c in
  if (limit =? -1)%Z
  then (d_kill cf D c, N.of_nat (length (ups cc) + length cur), true)
  else
    let newKeys := om_keys (ups cc) in
    let all := kmerge cur newKeys in
    let del := rev (cp_loop [] newKeys all limit []) in
    (mk_diff (d_main D) (om_put c (fold_left sd_delete del cc) (d_children D)) (d_killed D),
     N.of_nat (length del), Nat.eqb (length del) (length all)).

(* ------------------------------------------------------------------ backing trie *)

Record backing := mk_backing {
  bk_main : omap val;
  bk_children : omap (omap val);
  bk_stale : kset;
}.
Definition bk_empty : backing := mk_backing [] [] [].

Definition bk_put (b : backing) (k : key) (v : val) : backing :=
  mk_backing (om_put k v (bk_main b)) (bk_children b) (bk_stale b).
Definition bk_del (b : backing) (k : key) : backing :=
  mk_backing (om_del k (bk_main b)) (bk_children b) (bk_stale b).
Definition bk_get_child (b : backing) (c : key) : option (omap val) := om_get c (bk_children b).

(* PutIntoChild: creates the child when missing; SetChild re-registers the root *)
Definition bk_put_into_child (b : backing) (c k : key) (v : val) : backing :=
  let m := match bk_get_child b c with Some m => m | None => [] end in
  mk_backing (bk_main b) (om_put c (om_put k v m) (bk_children b)) (om_del c (bk_stale b)).

Definition bk_delete_child (b : backing) (c : key) : backing :=
  mk_backing (bk_main b) (om_del c (bk_children b)) (om_del c (bk_stale b)).

(* ClearFromChild: None = ErrChildTrieDoesNotExist *)
Definition bk_clear_from_child (b : backing) (c k : key) : option backing :=
  match bk_get_child b c with
  | None => None
  | Some m =>
    match om_del k m with
    | [] => Some (bk_delete_child b c)
    | m' => Some (mk_backing (bk_main b) (om_put c m' (bk_children b)) (om_del c (bk_stale b)))
    end
  end.

Definition bk_clear_list (b : backing) (c : key) (ks : list key) : backing :=
  fold_left (fun b k => match bk_clear_from_child b c k with Some b' => b' | None => b end) ks b.

(* mutation through the child trie object only (no SetChild): the registered root goes stale *)
Definition bk_set_child_direct (b : backing) (c : key) (m' : omap val) (changed : bool) : backing :=
  mk_backing (bk_main b) (om_put c m' (bk_children b))
             (if changed then ks_add c (bk_stale b) else bk_stale b).

(* InMemoryTrie.ClearPrefix (prefix non-empty, last nibble non-zero: see meta.json) *)
Definition trie_clear_prefix (m : omap val) (prefix : key) : omap val :=
  om_filter (fun k => negb (has_prefix prefix k)) m.

(* InMemoryTrie.ClearPrefixLimit: deleteNodesLimit walks the subtree in post-order *)
Definition trie_clear_prefix_limit (m : omap val) (prefix : key) (limit : N)
  : omap val * N * bool :=
  if limit =? 0 then (m, 0, false)
  else
    let cand := post_sort (filter (has_prefix prefix) (om_keys m)) in
    let del := firstn (N.to_nat limit) cand in
    (om_del_list del m, N.of_nat (length del), Nat.leb (length cand) (length del)).

(* keys collected by `for key := iter.NextKey(); HasPrefix(key, prefix); ...` from
   PrefixedIter(prefix): strictly after the prefix (pinned); fix_prefix_key adds the key equal
   to the prefix *)
Definition state_keys_with_prefix (cf : cfg) (m : omap val) (prefix : key) : list key :=
  filter (fun k => has_prefix prefix k && (fix_prefix_key cf || negb (keqb k prefix))) (om_keys m).

(* pre-7: the child trie roots are main-trie keys for ClearPrefix / ClearPrefixLimit *)
Definition root_keys (b : backing) : list key := map (fun cm => child_root_key (fst cm)) (bk_children b).
Definition main_with_roots (b : backing) : omap val :=
  fold_left (fun m k => om_put k [] m) (root_keys b) (bk_main b).
(* back from a main map with roots: children whose root key is gone are unregistered *)
Definition drop_cleared_children (b : backing) (m' : omap val) : backing :=
  mk_backing (om_filter (fun k => match child_of_root_key k with Some _ => false | None => true end) m')
             (filter (fun cm => om_mem (child_root_key (fst cm)) m') (bk_children b))
             (bk_stale b).

(* the committed keys ClearPrefix / ClearPrefixLimit collect inside a transaction; pre-7 the
   child trie roots are among them *)
Definition state_keys_cp (cf : cfg) (b : backing) (prefix : key) : list key :=
  if fix_child_prefix cf then state_keys_with_prefix cf (bk_main b) prefix
  else state_keys_with_prefix cf (main_with_roots b) prefix.

(* PrefixedIter(k).NextKeyFunc(not deleted) *)
Fixpoint next_not_deleted (k : key) (m : omap val) (deleted : kset) : option key :=
  match m with
  | [] => None
  | (k', _) :: r =>
    if kltb k k' && negb (ks_mem k' deleted) then Some k' else next_not_deleted k r deleted
  end.

Definition merge_next (pending onstate : option key) : option key :=
  match onstate with
  | None => pending
  | Some ks =>
    match pending with
    | None => Some ks
    | Some kp => if kltb ks kp then Some ks else Some kp
    end
  end.

(* applyToTrie *)
Definition apply_child (b : backing) (c : key) (cd : sdiff) : backing :=
  let b1 := fold_left (fun b kv => bk_put_into_child b c (fst kv) (snd kv)) (ups cd) b in
  fold_left (fun b k => match bk_clear_from_child b c k with Some b' => b' | None => b end)
            (om_keys (dels cd)) b1.

Definition apply_diff (cf : cfg) (D : diff) (b : backing) : backing :=
  let b0 := fold_left bk_delete_child (om_keys (d_killed D)) b in
  let b1 := fold_left (fun b kv => bk_put b (fst kv) (snd kv)) (ups (d_main D)) b0 in
  let b2 := fold_left (fun b ccd => apply_child b (fst ccd) (snd ccd)) (d_children D) b1 in
  fold_left (fun b k => match (if fix_child_prefix cf then None else child_of_root_key k) with
                        | Some name => bk_delete_child b name   (* pre-7: a cleared child root *)
                        | None =>
                          if fix_child_ns cf then bk_del b k
                          else match bk_get_child b k with
                               | Some _ => bk_delete_child b k
                               | None => bk_del b k
                               end
                        end) (om_keys (dels (d_main D))) b2.

(* the child trie below the current transaction: gone once the transaction deleted it *)
Definition child_on_state (cf : cfg) (D : diff) (b : backing) (c : key) : option (omap val) :=
  if fix_child_ns cf && ks_mem c (d_killed D) then None else bk_get_child b c.
(* "we are going to delete this child": reads of it fail *)
Definition child_gone (cf : cfg) (D : diff) (c : key) : bool :=
  if fix_child_ns cf
  then (match om_get c (d_children D) with None => true | Some _ => false end) && ks_mem c (d_killed D)
  else ks_mem c (dels (d_main D)).

(* ------------------------------------------------------------------ TrieState *)

Record tstate := mk_tstate { ts_state : backing; ts_txs : list diff }.  (* head = innermost *)
Definition ts_init : tstate := mk_tstate bk_empty [].

Inductive op :=
| OPut (k : key) (v : val) | OGet (k : key) | ODel (k : key)
| OClearPrefix (p : key) | OClearPrefixLimit (p : key) (n : N)
| ONext (k : key) | OEntries
| OStart | OCommit | ORollback
| OCSet (c k : key) (v : val) | OCGet (c k : key) | OCDel (c k : key)
| OCClearPrefix (c p : key) | OCClearPrefixLimit (c p : key) (n : N)
| OCNext (c k : key)
| OKill (c : key) | OKillLimit (c : key) (lim : option N)
| OCKeys (c p : key).

Inductive obs :=
| RUnit                                   (* nil error / no result *)
| RErr                                    (* an error was returned *)
| RVal (v : option val)                   (* a value or key, or nil *)
| RCount (n : N) (all : bool)             (* (deleted, allDeleted) *)
| REntries (l : list (key * val))
| RKeys (l : list key)
| RPanic.

Definition with_state (s : tstate) (b : backing) : tstate := mk_tstate b (ts_txs s).
Definition with_top (s : tstate) (D : diff) : tstate :=
  match ts_txs s with
  | [] => s
  | _ :: r => mk_tstate (ts_state s) (D :: r)
  end.

Definition lim_z (lim : option N) : Z := match lim with None => (-1)%Z | Some n => Z.of_N n end.

Definition keys_with_prefix (prefix : key) (l : list key) : list key := filter (has_prefix prefix) l.

Definition step (cf : cfg) (o : op) (s : tstate) : obs * tstate :=
  let b := ts_state s in
  match o, ts_txs s with
  (* ---- transactions *)
  | OStart, [] => (RUnit, mk_tstate b [d_empty])
  | OStart, D :: r => (RUnit, mk_tstate b (D :: D :: r))
  | ORollback, [] => (RPanic, s)
  | ORollback, _ :: r => (RUnit, mk_tstate b r)
  | OCommit, [] => (RPanic, s)
  | OCommit, [D] => (RUnit, mk_tstate (apply_diff cf D b) [])
  | OCommit, D :: _ :: r => (RUnit, mk_tstate b (D :: r))
  (* ---- main storage *)
  | OPut k v, [] => (RUnit, with_state s (bk_put b k v))
  | OPut k v, D :: _ => (RUnit, with_top s (d_upsert D k v))
  | OGet k, [] => (RVal (om_get k (bk_main b)), s)
  | OGet k, D :: _ =>
    match sd_get (d_main D) k with
    | (Some v, _) => (RVal (Some v), s)
    | (None, true) => (RVal None, s)
    | (None, false) => (RVal (om_get k (bk_main b)), s)
    end
  | ODel k, [] => (RUnit, with_state s (bk_del b k))
  | ODel k, D :: _ => (RUnit, with_top s (d_delete cf D k))
  | OClearPrefix p, [] =>
    if fix_child_prefix cf then
      if covers_child_keys p then (RUnit, s)
      else (RUnit, with_state s (mk_backing (trie_clear_prefix (bk_main b) p) (bk_children b) (bk_stale b)))
    else (RUnit, with_state s (drop_cleared_children b (trie_clear_prefix (main_with_roots b) p)))
  | OClearPrefix p, D :: _ =>
    if fix_child_prefix cf && covers_child_keys p then (RUnit, s)
    else
      let '(D', _, _) := d_clear_prefix cf D p (state_keys_cp cf b p) (-1)%Z in
      (RUnit, with_top s D')
  | OClearPrefixLimit p n, [] =>
    if fix_child_prefix cf then
      if covers_child_keys p then (RCount 0 true, s)
      else
        let '(m', d, a) := trie_clear_prefix_limit (bk_main b) p n in
        (RCount d a, with_state s (mk_backing m' (bk_children b) (bk_stale b)))
    else
      let '(m', d, a) := trie_clear_prefix_limit (main_with_roots b) p n in
      (RCount d a, with_state s (drop_cleared_children b m'))
  | OClearPrefixLimit p n, D :: _ =>
    if fix_child_prefix cf && covers_child_keys p then (RCount 0 true, s)
    else
      let '(D', d, a) := d_clear_prefix cf D p (state_keys_cp cf b p) (Z.of_N n) in
      (RCount d a, with_top s D')
  | ONext k, [] => (RVal (om_next k (bk_main b)), s)
  | ONext k, D :: _ =>
    (RVal (merge_next (om_next k (ups (d_main D)))
                      (next_not_deleted k (bk_main b) (dels (d_main D)))), s)
  | OEntries, [] => (REntries (bk_main b), s)
  | OEntries, D :: _ =>
    let m1 := fold_left (fun m kv => om_put (fst kv) (snd kv) m) (ups (d_main D)) (bk_main b) in
    (REntries (om_del_list (om_keys (dels (d_main D))) m1), s)
  (* ---- child storage *)
  | OCSet c k v, [] => (RUnit, with_state s (bk_put_into_child b c k v))
  | OCSet c k v, D :: _ => (RUnit, with_top s (d_upsert_child cf D c k v))
  | OCGet c k, txs =>
    let from_state := match bk_get_child b c with
                      | None => RErr
                      | Some m => RVal (om_get k m)
                      end in
    match txs with
    | [] => (from_state, s)
    | D :: _ =>
      if fix_child_ns cf && child_gone cf D c then (RErr, s)
      else
        let killed := fix_child_ns cf && ks_mem c (d_killed D) in
        let fallthrough := if killed then RVal None else from_state in
        match om_get c (d_children D) with
        | None => (fallthrough, s)
        | Some cd =>
          match sd_get cd k with
          | (Some v, _) => (RVal (Some v), s)
          | (None, true) => (RVal None, s)
          | (None, false) => (fallthrough, s)
          end
        end
    end
  | OCDel c k, [] =>
    match bk_clear_from_child b c k with
    | None => (RErr, s)
    | Some b' => (RUnit, with_state s b')
    end
  | OCDel c k, D :: _ => (RUnit, with_top s (d_delete_from_child D c k))
  | OCClearPrefix c p, [] =>
    match bk_get_child b c with
    | None => (RErr, s)
    | Some m =>
      if fix_child_direct cf
      then (RUnit, with_state s (bk_clear_list b c (keys_with_prefix p (om_keys m))))
      else
        let m' := trie_clear_prefix m p in
        (RUnit, with_state s (bk_set_child_direct b c m' (negb (Nat.eqb (length m') (length m)))))
    end
  | OCClearPrefix c p, D :: _ =>
    let ks := match child_on_state cf D b c with
              | None => []
              | Some m => state_keys_with_prefix cf m p
              end in
    let '(D', _, _) := d_clear_prefix_in_child D c p ks (-1)%Z in
    (RUnit, with_top s D')
  | OCClearPrefixLimit c p n, [] =>
    match bk_get_child b c with
    | None => (RErr, s)
    | Some m =>
      if fix_child_direct cf
      then
        let ks := keys_with_prefix p (om_keys m) in
        let del := firstn (N.to_nat n) ks in
        (RCount (N.of_nat (length del)) (Nat.eqb (length del) (length ks)),
         with_state s (bk_clear_list b c del))
      else
        let '(m', d, a) := trie_clear_prefix_limit m p n in
        (RCount d a, with_state s (bk_set_child_direct b c m' (negb (d =? 0))))
    end
  | OCClearPrefixLimit c p n, D :: _ =>
    match child_on_state cf D b c with
    | None =>
      let '(D', d, a) := d_clear_prefix_in_child D c p [] (-1)%Z in
      (RCount d a, with_top s D')
    | Some m =>
      let '(D', d, a) := d_clear_prefix_in_child D c p (state_keys_with_prefix cf m p) (Z.of_N n) in
      (RCount d a, with_top s D')
    end
  | OCNext c k, txs =>
    let from_state := match bk_get_child b c with
                      | None => RErr
                      | Some m => RVal (om_next k m)
                      end in
    match txs with
    | [] => (from_state, s)
    | D :: _ =>
      if child_gone cf D c then (RErr, s)
      else match om_get c (d_children D) with
           | None => (from_state, s)
           | Some cd =>
             let pending := om_next k (ups cd) in
             match child_on_state cf D b c with
             | None => (RVal pending, s)
             | Some m => (RVal (merge_next pending (next_not_deleted k m (dels cd))), s)
             end
           end
    end
  | OKill c, [] => (RUnit, with_state s (bk_delete_child b c))
  | OKill c, D :: _ => (RUnit, with_top s (d_kill cf D c))
  | OKillLimit c lim, [] =>
    match bk_get_child b c with
    | None => (RErr, s)
    | Some m =>
      let qty := N.of_nat (length m) in
      match lim with
      | None => (RCount qty true, with_state s (bk_delete_child b c))
      | Some n =>
        if fix_child_direct cf
        then
          let del := firstn (N.to_nat n) (om_keys m) in
          let d := N.of_nat (length del) in
          (RCount d (d =? qty), with_state s (bk_clear_list b c del))
        else
          (* deletes sorted keys until deleted == limit (so limit 0 deletes everything) *)
          let del := if n =? 0 then om_keys m else firstn (N.to_nat n) (om_keys m) in
          let d := N.of_nat (length del) in
          (RCount d (d =? qty),
           with_state s (bk_set_child_direct b c (om_del_list del m) (negb (d =? 0))))
      end
    end
  | OKillLimit c lim, D :: _ =>
    match child_on_state cf D b c, om_get c (d_children D) with
    | None, None => (RErr, s)
    | mo, _ =>
      let cur := match mo with Some m => om_keys m | None => [] end in
      let '(D', d, a) := d_delete_child_limit cf D c cur (lim_z lim) in
      (RCount d a, with_top s D')
    end
  | OCKeys c p, txs =>
    let from_state := match bk_get_child b c with
                      | None => RErr
                      | Some m => RKeys (keys_with_prefix p (om_keys m))
                      end in
    match txs with
    | [] => (from_state, s)
    | D :: _ =>
      if child_gone cf D c then (RErr, s)
      else match om_get c (d_children D) with
           | None => (from_state, s)
           | Some cd =>
             if fix_child_keys cf then
               let st := match child_on_state cf D b c with Some m => m | None => [] end in
               let live := filter (fun k => negb (ks_mem k (dels cd))) (om_keys st) in
               let all := om_keys (fold_left (fun (acc : kset) k => ks_add k acc)
                                             (live ++ om_keys (ups cd)) []) in
               match child_on_state cf D b c, all with
               | None, [] => (RErr, s)
               | _, _ => (RKeys (keys_with_prefix p all), s)
               end
             else
               match bk_get_child b c with
               | None =>
                 match ups cd with
                 | [] => (RErr, s)
                 | u => (RKeys (keys_with_prefix p (om_keys u)), s)
                 end
               | Some m => (RKeys (keys_with_prefix p (om_keys m)), s)
               end
           end
    end
  end.

Fixpoint run (cf : cfg) (ops : list op) (s : tstate) : list obs * tstate :=
  match ops with
  | [] => ([], s)
  | o :: r =>
    let '(x, s') := step cf o s in
    match x with
    | RPanic => ([RPanic], s')
    | _ => let '(xs, s'') := run cf r s' in (x :: xs, s'')
    end
  end.

(* final observation of the harness: contents of the backing trie and whether its root is the
   root of a fresh trie with the same contents (no stale child root) *)
Definition final_obs (s : tstate) : omap val * omap (omap val) * bool :=
  (bk_main (ts_state s), bk_children (ts_state s),
   match bk_stale (ts_state s) with [] => true | _ => false end).
