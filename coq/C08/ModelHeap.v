(* C08/ModelHeap.v — the child tries of pkg/trie/inmemory as they are kept: InMemoryTrie.childTries
   is a Go map from ROOT HASH to *InMemoryTrie, and the main trie holds, per child storage key,
   the root hash of the child trie (child_storage.go).  Definitions only.

   Abstraction: a root hash stands for the contents it is the hash of (the hash is injective on
   contents: property C01), so a root hash IS an ordered map [omap val] here.
     hs_reg     : child name -> root hash kept in the main trie under ":child_storage:default:"++name
     hs_present : the keys of childTries
   No object identities are needed: an object is entered under the hash of its contents
   (SetChild) and every in-place mutation (PutIntoChild, ClearFromChild) removes the entry of the
   old hash and enters the object under the new one, so an entry's key always is the hash of the
   object's contents ([present_exact] is implicit in this representation).  What the aliasing
   does is visible all the same: two names with the same root share ONE entry, and the pre-fix code
   removed that entry when it changed one of the two child tries - the other name's root then
   resolves to no entry (getInternalChildTrie returns (nil, nil)) and the caller dereferences nil.

   [fixed = true]  : the code after fix C08-6 (copy on shared root: the shared entry stays)
   [fixed = false] : the code before it. *)
From Common Require Import Bytes.
From C08 Require Import ModelMap Model ModelCheck.
Local Open Scope N_scope.

Notation rhash := (omap val) (only parsing).

Record hstore := mk_hstore { hs_reg : omap rhash; hs_present : list rhash }.
Definition hs_empty : hstore := mk_hstore [] [].

Definition present (h : rhash) (l : list rhash) : bool := existsb (map_eqb h) l.
Definition remove_present (h : rhash) (l : list rhash) : list rhash :=
  filter (fun x => negb (map_eqb h x)) l.
(* childTries[h] = child : one entry per key *)
Definition add_present (h : rhash) (l : list rhash) : list rhash :=
  if present h l then l else h :: l.

(* getInternalChildTrie / GetChild *)
Inductive lookup := LNoChild | LDangling | LChild (m : omap val).
Definition hs_lookup (s : hstore) (name : key) : lookup :=
  match om_get name (hs_reg s) with
  | None => LNoChild                                  (* ErrChildTrieDoesNotExist *)
  | Some h => if present h (hs_present s) then LChild h else LDangling   (* (nil, nil) *)
  end.

(* sharedChildRoot (fix C08-6): another child storage key holds the same root hash *)
Definition shared_root (s : hstore) (name : key) (h : rhash) : bool :=
  existsb (fun nm => negb (keqb (fst nm) name) && map_eqb h (snd nm)) (hs_reg s).

(* the common tail of PutIntoChild / ClearFromChild: the child (contents h, or a new empty trie
   when the name has no root) was changed into m' *)
Definition hs_replace (fixed : bool) (s : hstore) (name : key) (h m' : rhash) : hstore :=
  let keep := fixed && shared_root s name h in
  let p1 := if keep then hs_present s else remove_present h (hs_present s) in
  match m' with
  | [] => mk_hstore (om_del name (hs_reg s)) p1                  (* child.root == nil: DeleteChild *)
  | _ => mk_hstore (om_put name m' (hs_reg s)) (add_present m' p1)   (* SetChild *)
  end.

(* None = nil dereference (panic) *)
Definition hs_put (fixed : bool) (s : hstore) (name k : key) (v : val) : option hstore :=
  match hs_lookup s name with
  | LDangling => None                                  (* child.version = ... on a nil child *)
  | LNoChild => Some (hs_replace fixed s name [] (om_put k v []))
  | LChild h => Some (hs_replace fixed s name h (om_put k v h))
  end.

(* ClearFromChild: Some None = ErrChildTrieDoesNotExist (also for a dangling root: the code checks
   child == nil there) *)
Definition hs_clear (fixed : bool) (s : hstore) (name k : key) : option (option hstore) :=
  match hs_lookup s name with
  | LNoChild | LDangling => Some None
  | LChild h => Some (Some (hs_replace fixed s name h (om_del k h)))
  end.

(* DeleteChild: only the root in the main trie goes; the childTries entry stays (stale) *)
Definition hs_delete (s : hstore) (name : key) : hstore :=
  mk_hstore (om_del name (hs_reg s)) (hs_present s).

(* ---- histories of the three mutators and the read *)
Inductive hop := HPut (c k : key) (v : val) | HClear (c k : key) | HDelete (c : key) | HGet (c k : key).

Inductive hobs := HOk | HErr | HVal (v : option val) | HPanic.

Definition hstep (fixed : bool) (o : hop) (s : hstore) : hobs * hstore :=
  match o with
  | HPut c k v => match hs_put fixed s c k v with Some s' => (HOk, s') | None => (HPanic, s) end
  | HClear c k =>
    match hs_clear fixed s c k with
    | Some (Some s') => (HOk, s') | Some None => (HErr, s) | None => (HPanic, s)
    end
  | HDelete c => (HOk, hs_delete s c)
  | HGet c k =>
    match hs_lookup s c with
    | LNoChild => (HErr, s) | LDangling => (HPanic, s) | LChild m => (HVal (om_get k m), s)
    end
  end.

Fixpoint hrun (fixed : bool) (ops : list hop) (s : hstore) : list hobs * hstore :=
  match ops with
  | [] => ([], s)
  | o :: r =>
    let '(x, s') := hstep fixed o s in
    match x with
    | HPanic => ([HPanic], s')
    | _ => let '(xs, s'') := hrun fixed r s' in (x :: xs, s'')
    end
  end.

(* the same history on independent child maps: the backing store of Model.v *)
Definition bstep (o : hop) (b : backing) : hobs * backing :=
  match o with
  | HPut c k v => (HOk, bk_put_into_child b c k v)
  | HClear c k => match bk_clear_from_child b c k with Some b' => (HOk, b') | None => (HErr, b) end
  | HDelete c => (HOk, bk_delete_child b c)
  | HGet c k => match bk_get_child b c with None => (HErr, b) | Some m => (HVal (om_get k m), b) end
  end.

Fixpoint brun (ops : list hop) (b : backing) : list hobs * backing :=
  match ops with
  | [] => ([], b)
  | o :: r => let '(x, b') := bstep o b in let '(xs, b'') := brun r b' in (x :: xs, b'')
  end.

(* observables for the driver: the child tries reachable by name, and the keys of childTries *)
Definition hobs_eqb (x y : hobs) : bool :=
  match x, y with
  | HOk, HOk | HErr, HErr | HPanic, HPanic => true
  | HVal a, HVal b => opt_eqb keqb a b
  | _, _ => false
  end.

(* childTries holds exactly these contents (as a set; Go map order is arbitrary) *)
Definition same_present (a b : list rhash) : bool :=
  forallb (fun h => present h b) a && forallb (fun h => present h a) b.

(* the check of one heap case: observations, registered children and childTries of the
   implementation equal the heap model's *)
Definition heap_ok (fixed : bool) (ops : list hop) (xs : list hobs) (reg : omap rhash)
           (tries : list rhash) : bool :=
  let '(ms, s) := hrun fixed ops hs_empty in
  list_eqb hobs_eqb xs ms && children_eqb reg (hs_reg s) && same_present tries (hs_present s).

(* the property on a heap case: what the implementation answered is what independent child maps
   answer *)
Definition heap_prop (ops : list hop) (xs : list hobs) (reg : omap rhash) : bool :=
  let '(bs, b) := brun ops bk_empty in
  list_eqb hobs_eqb xs bs && children_eqb reg (bk_children b).
