(* C08/ModelGuards.v — guard predicates for the known-finding classes of C08 (definitions only).
   A guard is evaluated on the state in which an operation is about to run; a history is inside
   a finding class when some operation of it satisfies the class's guard. *)
From Common Require Import Bytes.
From C08 Require Import ModelMap Model.
Local Open Scope N_scope.

Inductive finding := FTxLimit | FDirectLimitOrder.

(* tx-limit: a limited clear (ClearPrefixLimit, ClearPrefixInChildWithLimit, DeleteChildLimit
   with a limit) inside a transaction that already holds a pending upsert in the cleared range,
   with a limit that does not exceed the number of matching keys of the committed state.
   storageDiff.clearPrefix / deleteChildLimit walk the pending and the committed keys in one
   merged order and stop once `limit` committed keys that are not overwritten were deleted:
   pending upserts sorted after the stopping point survive (limit 0: all of them), and committed
   keys overwritten in the transaction do not count against the limit.  Substrate removes every
   overlay key and then visits the first `limit` committed keys, overwritten or not.
   (Committed keys whose deletion is already pending DO count in both: no guard is needed.) *)
Definition limit_guard (d : sdiff) (prefix : key) (stateKeys : list key) (n : N) : bool :=
  (n <=? N.of_nat (length stateKeys)) && existsb (has_prefix prefix) (om_keys (ups d)).

(* direct-limit-order: ClearPrefixLimit outside a transaction goes to the trie, which deletes a
   subtree in post-order (a key that is a proper prefix of other matching keys goes last) *)
Definition proper_prefix (a b : key) : bool := has_prefix a b && negb (keqb a b).
Definition order_guard (m : omap val) (prefix : key) (n : N) : bool :=
  let ks := keys_with_prefix prefix (om_keys m) in
  (0 <? n) && (n <? N.of_nat (length ks)) &&
  existsb (fun a => existsb (proper_prefix a) ks) ks.

Definition step_guard (cf : cfg) (o : op) (s : tstate) : option finding :=
  let b := ts_state s in
  match o, ts_txs s with
  | OClearPrefixLimit p n, [] =>
    if fix_child_prefix cf && covers_child_keys p then None     (* refused: nothing happens *)
    else if order_guard (bk_main b) p n then Some FDirectLimitOrder else None
  | OClearPrefixLimit p n, D :: _ =>
    if fix_child_prefix cf && covers_child_keys p then None
    else if limit_guard (d_main D) p (state_keys_with_prefix cf (bk_main b) p) n
    then Some FTxLimit else None
  | OCClearPrefixLimit c p n, D :: _ =>
    match child_on_state cf D b c with
    | None => None      (* no committed keys: the code clears without limit *)
    | Some m =>
      if limit_guard (child_changes D c) p (state_keys_with_prefix cf m p) n
      then Some FTxLimit else None
    end
  | OKillLimit c (Some n), D :: _ =>
    let cur := match child_on_state cf D b c with Some m => om_keys m | None => [] end in
    if limit_guard (child_changes D c) [] cur n then Some FTxLimit else None
  | _, _ => None
  end.

Fixpoint run_guards (cf : cfg) (ops : list op) (s : tstate) : list finding :=
  match ops with
  | [] => []
  | o :: r =>
    let g := match step_guard cf o s with Some f => [f] | None => [] end in
    let '(x, s') := step cf o s in
    match x with
    | RPanic => g
    | _ => g ++ run_guards cf r s'
    end
  end.

Definition guard_free (cf : cfg) (ops : list op) : bool :=
  match run_guards cf ops ts_init with [] => true | _ => false end.
