(* C08/ProofsChildren.v — maps of child tries: canonical form (no empty child), the backing
   trie's child operations and applyToTrie on children. *)
From Common Require Import Bytes.
From C08 Require Import ModelMap Model ModelSpec ProofsMap ProofsDiff.
Local Open Scope N_scope.

Definition chmap := omap (omap val).

Definition gch (ch : chmap) (c : key) : omap val :=
  match om_get c ch with Some m => m | None => [] end.

Definition canon (ch : chmap) : Prop :=
  wf ch /\ forall c m, om_get c ch = Some m -> wf m /\ m <> [].

Lemma canon_nil : canon [].
Proof. split; [apply wf_nil | intros c m H; discriminate]. Qed.

Lemma gch_wf ch c : canon ch -> wf (gch ch c).
Proof. intros [_ H]. unfold gch. destruct (om_get c ch) eqn:E; [now apply (H c) | apply wf_nil]. Qed.

Lemma canon_ext ch1 ch2 : canon ch1 -> canon ch2 -> (forall c, gch ch1 c = gch ch2 c) -> ch1 = ch2.
Proof.
  intros [W1 N1] [W2 N2] E. apply om_ext; try assumption. intro c. specialize (E c). unfold gch in E.
  destruct (om_get c ch1) as [m1|] eqn:E1, (om_get c ch2) as [m2|] eqn:E2; try congruence.
  - subst. destruct (N1 c _ E1) as [_ X]. congruence.
  - subst. destruct (N2 c _ E2) as [_ X]. congruence.
Qed.

(* setting a child to a map: an empty map removes the child *)
Definition set_child (ch : chmap) (c : key) (m : omap val) : chmap :=
  match m with [] => om_del c ch | _ => om_put c m ch end.

Lemma cs_set_child_children v c m : c_children (cs_set_child v c m) = set_child (c_children v) c m.
Proof. reflexivity. Qed.

Lemma gch_set_child ch c m c' : wf ch ->
  gch (set_child ch c m) c' = if keqb c' c then m else gch ch c'.
Proof.
  intro W. unfold gch, set_child. destruct m as [|kv m].
  - rewrite om_get_del by exact W. now destruct (keqb c' c).
  - rewrite om_get_put by exact W. now destruct (keqb c' c).
Qed.

Lemma canon_set_child ch c m : canon ch -> wf m -> canon (set_child ch c m).
Proof.
  intros [W N] Wm. unfold set_child. destruct m as [|kv m].
  - split; [now apply wf_del|]. intros c' m' G. rewrite om_get_del in G by exact W.
    destruct (keqb c' c); [discriminate | now apply (N c')].
  - split; [now apply wf_put|]. intros c' m' G. rewrite om_get_put in G by exact W.
    destruct (keqb c' c); [|now apply (N c')]. injection G as <-. split; [exact Wm | discriminate].
Qed.

Lemma set_child_same ch c : canon ch -> set_child ch c (gch ch c) = ch.
Proof.
  intros C. apply canon_ext; [apply canon_set_child; [exact C | now apply gch_wf] | exact C |].
  intro c'. rewrite gch_set_child by apply C. destruct (keqb c' c) eqn:E; [|reflexivity].
  apply keqb_eq in E. now subst.
Qed.

Lemma om_put_nonempty {V} k (v : V) m : om_put k v m <> [].
Proof. destruct m as [|[k1 v1] r]; cbn; [discriminate|]. destruct (kcmp k k1); discriminate. Qed.

(* ------------------------------------------------------------------ backing trie children *)

Record bwf (b : backing) : Prop := {
  bwf_main : wf (bk_main b);
  bwf_children : canon (bk_children b);
  bwf_stale : bk_stale b = [];
}.

Lemma bk_put_into_child_spec b c k v : bwf b ->
  bk_put_into_child b c k v =
  mk_backing (bk_main b) (set_child (bk_children b) c (om_put k v (gch (bk_children b) c))) [].
Proof.
  intros [Wm C St]. unfold bk_put_into_child, bk_get_child, gch, set_child. rewrite St.
  destruct (om_get c (bk_children b)) as [m|];
    (destruct (om_put k v _) eqn:E; [exfalso; exact (om_put_nonempty _ _ _ E) | reflexivity]).
Qed.

Definition clear_or_skip (b : backing) (c k : key) : backing :=
  match bk_clear_from_child b c k with Some b' => b' | None => b end.

Lemma clear_or_skip_spec b c k : bwf b ->
  clear_or_skip b c k =
  mk_backing (bk_main b) (set_child (bk_children b) c (om_del k (gch (bk_children b) c))) [].
Proof.
  intros [Wm C St]. unfold clear_or_skip, bk_clear_from_child, bk_get_child, gch.
  destruct (om_get c (bk_children b)) as [m|] eqn:G.
  - unfold set_child, bk_delete_child. rewrite St. destruct (om_del k m); reflexivity.
  - cbn [om_del set_child]. destruct b as [bm bc bs]. cbn in *. subst bs. f_equal.
    symmetry. apply om_ext; [apply wf_del; apply C | apply C |]. intro c'.
    rewrite om_get_del by apply C. destruct (keqb c' c) eqn:E; [|reflexivity].
    apply keqb_eq in E. subst. now rewrite G.
Qed.

Lemma bwf_set b c m : bwf b -> wf m ->
  bwf (mk_backing (bk_main b) (set_child (bk_children b) c m) []).
Proof. intros [Wm C St] W. split; cbn; [exact Wm | now apply canon_set_child | reflexivity]. Qed.

Lemma set_child_twice ch c m1 m2 : canon ch -> wf m1 -> wf m2 ->
  set_child (set_child ch c m1) c m2 = set_child ch c m2.
Proof.
  intros C W1 W2. apply canon_ext.
  - apply canon_set_child; [now apply canon_set_child | exact W2].
  - now apply canon_set_child.
  - intro c'. rewrite !gch_set_child by (try apply C; apply canon_set_child; assumption).
    now destruct (keqb c' c).
Qed.

Lemma bk_clear_list_spec ks : forall b c, bwf b ->
  bk_clear_list b c ks =
  mk_backing (bk_main b) (set_child (bk_children b) c (om_del_list ks (gch (bk_children b) c))) [].
Proof.
  unfold bk_clear_list. induction ks as [|k ks IH]; intros b c B.
  - cbn. rewrite set_child_same by apply B. destruct b as [bm bc bs], B as [_ _ St]. cbn in *. now subst.
  - cbn [fold_left]. fold (clear_or_skip b c k). rewrite clear_or_skip_spec by exact B.
    pose proof (gch_wf _ c (bwf_children _ B)) as Wg.
    rewrite IH by (apply bwf_set; [exact B | now apply wf_del]). cbn [bk_main bk_children].
    rewrite gch_set_child by apply B. rewrite keqb_refl.
    rewrite set_child_twice; [reflexivity | apply B | now apply wf_del |].
    apply wf_del_list. now apply wf_del.
Qed.

(* applyToTrie for one child change set *)
Lemma apply_child_spec b c cd : bwf b -> sd_wf cd ->
  apply_child b c cd =
  mk_backing (bk_main b) (set_child (bk_children b) c (mview (gch (bk_children b) c) cd)) [].
Proof.
  intros B S. unfold apply_child, mview.
  pose proof (gch_wf _ c (bwf_children _ B)) as Wg.
  assert (P : forall l b0, bwf b0 ->
     fold_left (fun b kv => bk_put_into_child b c (fst kv) (snd kv)) l b0 =
     mk_backing (bk_main b0)
       (set_child (bk_children b0) c
          (fold_left (fun acc kv => om_put (fst kv) (snd kv) acc) l (gch (bk_children b0) c))) []).
  { induction l as [|[k v] l IH]; intros b0 B0.
    - cbn. rewrite set_child_same by apply B0. destruct b0 as [bm bc bs], B0 as [_ _ St]. cbn in *. now subst.
    - cbn [fold_left fst snd]. rewrite bk_put_into_child_spec by exact B0.
      pose proof (gch_wf _ c (bwf_children _ B0)) as Wg0.
      rewrite IH by (apply bwf_set; [exact B0 | now apply wf_put]). cbn [bk_main bk_children].
      rewrite gch_set_child by apply B0. rewrite keqb_refl.
      rewrite set_child_twice; [reflexivity | apply B0 | now apply wf_put |].
      apply wf_fold_put. now apply wf_put. }
  rewrite P by exact B.
  change (fold_left (fun b0 k => match bk_clear_from_child b0 c k with Some b' => b' | None => b0 end))
    with (fun l b0 => bk_clear_list b0 c l).
  cbn beta. rewrite bk_clear_list_spec by (apply bwf_set; [exact B | now apply wf_fold_put]).
  cbn [bk_main bk_children]. rewrite gch_set_child by apply B. rewrite keqb_refl.
  rewrite set_child_twice; [reflexivity | apply B | now apply wf_fold_put |].
  apply wf_del_list. now apply wf_fold_put.
Qed.
