(* C08/ModelSpec.v — the specification: Substrate's overlay semantics (sp-state-machine Ext +
   OverlayedChanges) written as a stack of complete states.  Definitions only.

   A level of the stack is the complete visible state (main map + child maps) together with the
   sets of keys the overlay holds an entry for ("touched": written or deleted since the
   outermost transaction started).  The touched sets matter only for the limited operations:
   Substrate removes every overlay key unconditionally and then visits at most `limit` keys of
   the backend, in order, deleting those not already deleted
   (Ext::clear_prefix / kill_child_storage / limit_remove_from_backend).
   Outside any transaction an operation acts on the backend with an empty overlay. *)
From Common Require Import Bytes.
From C08 Require Import ModelMap Model.
Local Open Scope N_scope.

Record cstate := mk_cstate { c_main : omap val; c_children : omap (omap val) }.
Definition cs_empty : cstate := mk_cstate [] [].

Record slevel := mk_slevel { view : cstate; t_main : kset; t_children : omap kset }.
Record sstate := mk_sstate { backend : cstate; levels : list slevel }.  (* head = innermost *)
Definition ss_init : sstate := mk_sstate cs_empty [].

Definition cs_child (c : cstate) (name : key) : omap val :=
  match om_get name (c_children c) with Some m => m | None => [] end.
(* a child without keys does not exist *)
Definition cs_set_child (c : cstate) (name : key) (m : omap val) : cstate :=
  mk_cstate (c_main c)
            (match m with [] => om_del name (c_children c) | _ => om_put name m (c_children c) end).
Definition touched_child (l : slevel) (name : key) : kset :=
  match om_get name (t_children l) with Some s => s | None => [] end.

(* limit_remove_from_backend over the backend keys (in order): returns the keys newly deleted,
   the number of keys visited (loops) and whether the iteration ran to the end.
   The limit bounds the number of backend keys VISITED (sp-state-machine: `loop_count == limit`;
   before paritytech/substrate#11490 `num_deleted == limit` with num_deleted incremented for every
   key visited): a backend key whose deletion is already pending in the overlay is visited,
   counted against the limit and not deleted again ("not cumulative when called inside the same
   block", sp-io).  [count] is the number of keys newly deleted (MultiRemovalResults.backend). *)
Fixpoint remove_from_backend (bkeys : list key) (touched : kset) (limit : option N)
         (count loops : N) (acc : list key) : list key * N * bool :=
  match bkeys with
  | [] => (rev acc, loops, true)
  | k :: r =>
    if match limit with Some n => loops =? n | None => false end
    then (rev acc, loops, false)
    else if ks_mem k touched
         then remove_from_backend r touched limit count (loops + 1) acc
         else remove_from_backend r touched limit (count + 1) (loops + 1) (k :: acc)
  end.

(* clear_prefix on one keyed map (the main map or one child): [cur] visible map, [bk] backend
   map, [tch] overlay keys; prefix = [] for kill_child_storage *)
Definition spec_clear (cur bk : omap val) (tch : kset) (prefix : key) (limit : option N)
  : omap val * kset * N * bool :=
  (* 1. every overlay key with the prefix is deleted *)
  let ov := filter (has_prefix prefix) (om_keys tch) in
  let cur1 := om_del_list ov cur in
  (* 2. backend keys with the prefix, in order, at most `limit` of them; keys the overlay already
        holds an entry for (now all deletions) are visited (they count) but not deleted again *)
  let '(del, loops, all) :=
      remove_from_backend (filter (has_prefix prefix) (om_keys bk)) tch limit 0 0 [] in
  (om_del_list del cur1, fold_left (fun s k => ks_add k s) del tch, loops, all).

Definition in_tx (s : sstate) : bool := match levels s with [] => false | _ => true end.

(* the level an operation works on: the innermost one, or the backend with an empty overlay *)
Definition cur_level (s : sstate) : slevel :=
  match levels s with
  | l :: _ => l
  | [] => mk_slevel (backend s) [] []
  end.
(* store it back: outside a transaction the overlay is flushed immediately *)
Definition set_level (s : sstate) (l : slevel) : sstate :=
  match levels s with
  | _ :: r => mk_sstate (backend s) (l :: r)
  | [] => mk_sstate (view l) []
  end.

Definition touch_main (l : slevel) (k : key) : kset := ks_add k (t_main l).
Definition touch_child (l : slevel) (c k : key) : omap kset :=
  om_put c (ks_add k (touched_child l c)) (t_children l).

Definition sstep (o : op) (s : sstate) : obs * sstate :=
  let l := cur_level s in
  let v := view l in
  match o with
  | OStart => (RUnit, mk_sstate (backend s) (l :: levels s))
  | ORollback =>
    match levels s with
    | [] => (RPanic, s)
    | _ :: r => (RUnit, mk_sstate (backend s) r)
    end
  | OCommit =>
    match levels s with
    | [] => (RPanic, s)
    | [l0] => (RUnit, mk_sstate (view l0) [])
    | l0 :: _ :: r => (RUnit, mk_sstate (backend s) (l0 :: r))
    end
  | OPut k x =>
    (RUnit, set_level s (mk_slevel (mk_cstate (om_put k x (c_main v)) (c_children v))
                                   (touch_main l k) (t_children l)))
  | OGet k => (RVal (om_get k (c_main v)), s)
  | ODel k =>
    (RUnit, set_level s (mk_slevel (mk_cstate (om_del k (c_main v)) (c_children v))
                                   (touch_main l k) (t_children l)))
  (* Ext::clear_prefix: "Refuse to directly clear prefix that is part or contains of child
     storage key": nothing happens at all *)
  | OClearPrefix p =>
    if covers_child_keys p then (RUnit, s)
    else
      let '(m', t', _, _) := spec_clear (c_main v) (c_main (backend s)) (t_main l) p None in
      (RUnit, set_level s (mk_slevel (mk_cstate m' (c_children v)) t' (t_children l)))
  | OClearPrefixLimit p n =>
    if covers_child_keys p then (RCount 0 true, s)
    else
      let '(m', t', loops, all) := spec_clear (c_main v) (c_main (backend s)) (t_main l) p (Some n) in
      (RCount loops all, set_level s (mk_slevel (mk_cstate m' (c_children v)) t' (t_children l)))
  | ONext k => (RVal (om_next k (c_main v)), s)
  | OEntries => (REntries (c_main v), s)
  | OCSet c k x =>
    (RUnit, set_level s (mk_slevel (cs_set_child v c (om_put k x (cs_child v c)))
                                   (t_main l) (touch_child l c k)))
  | OCGet c k => (RVal (om_get k (cs_child v c)), s)
  | OCDel c k =>
    (RUnit, set_level s (mk_slevel (cs_set_child v c (om_del k (cs_child v c)))
                                   (t_main l) (touch_child l c k)))
  | OCClearPrefix c p =>
    let '(m', t', _, _) :=
        spec_clear (cs_child v c) (cs_child (backend s) c) (touched_child l c) p None in
    (RUnit, set_level s (mk_slevel (cs_set_child v c m') (t_main l) (om_put c t' (t_children l))))
  | OCClearPrefixLimit c p n =>
    let '(m', t', loops, all) :=
        spec_clear (cs_child v c) (cs_child (backend s) c) (touched_child l c) p (Some n) in
    (RCount loops all,
     set_level s (mk_slevel (cs_set_child v c m') (t_main l) (om_put c t' (t_children l))))
  | OCNext c k => (RVal (om_next k (cs_child v c)), s)
  | OKill c =>
    let '(m', t', _, _) :=
        spec_clear (cs_child v c) (cs_child (backend s) c) (touched_child l c) [] None in
    (RUnit, set_level s (mk_slevel (cs_set_child v c m') (t_main l) (om_put c t' (t_children l))))
  | OKillLimit c lim =>
    let '(m', t', loops, all) :=
        spec_clear (cs_child v c) (cs_child (backend s) c) (touched_child l c) [] lim in
    (RCount loops all,
     set_level s (mk_slevel (cs_set_child v c m') (t_main l) (om_put c t' (t_children l))))
  | OCKeys c p => (RKeys (keys_with_prefix p (om_keys (cs_child v c))), s)
  end.

Fixpoint srun (ops : list op) (s : sstate) : list obs * sstate :=
  match ops with
  | [] => ([], s)
  | o :: r =>
    let '(x, s') := sstep o s in
    match x with
    | RPanic => ([RPanic], s')
    | _ => let '(xs, s'') := srun r s' in (x :: xs, s'')
    end
  end.

(* ---- comparing implementation observables with the spec: what counts as a read *)

(* error returns of child reads mean "child trie does not exist": no value / no keys *)
Definition norm_obs (o : op) (x : obs) : obs :=
  match o, x with
  | (OCGet _ _ | OCNext _ _), RErr => RVal None
  | OCKeys _ _, RErr => RKeys []
  | (OGet _ | ONext _ | OCGet _ _ | OCNext _ _ | OEntries | OCKeys _ _), _ => x
  | _, RPanic => RPanic
  | _, _ => RUnit      (* writes: results (error codes, counts) are not reads *)
  end.

(* final contents: an empty child is no child *)
Definition norm_children (ch : omap (omap val)) : omap (omap val) :=
  filter (fun cm => match snd cm with [] => false | _ => true end) ch.

Fixpoint norm_list (ops : list op) (xs : list obs) : list obs :=
  match ops, xs with
  | o :: r, x :: xr => norm_obs o x :: norm_list r xr
  | _, _ => []
  end.

(* the statement "the implementation's history agrees with the specification's":
   equal reads, and — once every transaction is closed — equal contents of the committed
   state, whose root is the root of exactly these contents *)
Definition agrees (impl : list obs * tstate) (spec : list obs * sstate) (ops : list op) : Prop :=
  norm_list ops (fst impl) = norm_list ops (fst spec) /\
  (ts_txs (snd impl) = [] ->
   levels (snd spec) = [] /\
   bk_main (ts_state (snd impl)) = c_main (backend (snd spec)) /\
   norm_children (bk_children (ts_state (snd impl))) = norm_children (c_children (backend (snd spec))) /\
   bk_stale (ts_state (snd impl)) = []).

(* ---- "the committed operations applied directly": the operations of a well-nested history
   that survive (rolled-back transactions dropped, start/commit markers removed).  One op list
   per open transaction level, each holding everything visible at that level. *)
Definition limit_free_op (o : op) : bool :=
  match o with
  | OClearPrefixLimit _ _ | OCClearPrefixLimit _ _ _ | OKillLimit _ (Some _) => false
  | _ => true
  end.

Definition fsstep (o : op) (fs : list (list op)) : option (list (list op)) :=
  match o, fs with
  | OStart, f :: r => Some (f :: f :: r)
  | OCommit, f :: _ :: r => Some (f :: r)
  | ORollback, _ :: g :: r => Some (g :: r)
  | OCommit, _ | ORollback, _ => None
  | _, f :: r => Some ((f ++ [o]) :: r)
  | _, [] => None
  end.

Fixpoint fsrun (ops : list op) (fs : list (list op)) : option (list (list op)) :=
  match ops with
  | [] => Some fs
  | o :: r => match fsstep o fs with Some fs' => fsrun r fs' | None => None end
  end.

(* flattened ops = Some f: ops is well nested from depth 0, ends at depth 0, and f is what
   it commits *)
Definition flattened (ops : list op) : option (list op) :=
  match fsrun ops [[]] with Some [f] => Some f | _ => None end.
