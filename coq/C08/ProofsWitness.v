(* C08/ProofsWitness.v — concrete histories: the pinned TrieState/storageDiff (cfg_pinned)
   disagrees with the Substrate overlay specification; each is replayed on the Go code from
   corpus/C08/main.txt. *)
From Common Require Import Bytes.
From C08 Require Import ModelMap Model ModelSpec ModelGuards.
Local Open Scope N_scope.

Definition bs (l : list N) : list byte := map n2b l.
Definition k11 := bs [17].           Definition k22 := bs [34].
Definition k1122 := bs [17; 34].     Definition k112233 := bs [17; 34; 51].
Definition k112244 := bs [17; 34; 68]. Definition k2255 := bs [34; 85].
Definition v1 := bs [1]. Definition v2 := bs [2]. Definition v3 := bs [3].
Definition va := bs [161]. Definition vb := bs [177].

(* p:11:03 S cp:11 g:11 C : the committed key equal to the cleared prefix survives *)
Definition w_prefix_key := [OPut k11 v3; OStart; OClearPrefix k11; OGet k11; OCommit].
(* S cd:11:1122 cs:11:1122:a1 C cg:11:1122 : a child key cleared and set again is lost at commit *)
Definition w_child_reset := [OStart; OCDel k11 k1122; OCSet k11 k1122 va; OCommit; OCGet k11 k1122].
(* cs:11:1122:a1 S cs:11:2255:a1 cks:11:11 C : pending child keys are not listed *)
Definition w_child_keys := [OCSet k11 k1122 va; OStart; OCSet k11 k2255 va; OCKeys k11 k11; OCSet k11 k112233 va; OCKeys k11 k11; OCommit].
(* cs:11:22:a1 S d:11 C cg:11:22 : deleting main key 11 deletes child trie 11 *)
Definition w_namespace := [OCSet k11 k22 va; OStart; ODel k11; OCommit; OCGet k11 k22].
(* cs:11:22:a1 S ck:11 cg:11:22 cs:11:1122:a1 C cg:11:22 : a deleted child trie keeps its keys *)
Definition w_child_kill := [OCSet k11 k22 va; OStart; OKill k11; OCGet k11 k22; OCSet k11 k1122 va; OCommit; OCGet k11 k22].
(* cs:11:22:a1 ccp:11:22 : direct prefix clear leaves an empty child with a stale root *)
Definition w_child_direct := [OCSet k11 k22 va; OCClearPrefix k11 k22].
(* cs:11:22:a1 p:11:01 cp:- g:11 cg:11:22 : clearing the empty prefix (a part of ":child_storage:")
   removes the child trie roots kept in the main trie; Substrate refuses the call (fix C08-7) *)
Definition w_clear_roots := [OCSet k11 k22 va; OPut k11 v1; OClearPrefix []; OGet k11; OCGet k11 k22].
(* cs:11:22:a1 p:11:01 S cl:-:5 g:11 cg:11:22 C g:11 cg:11:22 : inside a transaction the child trie
   is still readable and disappears when the outermost transaction is committed *)
Definition w_clear_roots_tx := [OCSet k11 k22 va; OPut k11 v1; OStart; OClearPrefixLimit [] 5; OGet k11;
                                OCGet k11 k22; OCommit; OGet k11; OCGet k11 k22].
(* findings that remain after the fixes *)
Definition w_tx_limit := [OPut k11 v3; OStart; OPut k112244 v3; OClearPrefixLimit k11 1; OGet k112244; OCommit].
Definition w_tx_limit0 := [OStart; OPut k11 v2; OClearPrefixLimit k11 0; OGet k11; OCommit].
(* p:11:01 p:1122:02 p:112233:03 S p:11:03 p:1122:03 cl:11:2 g:112233 C : committed keys overwritten
   in the transaction do not count against the limit (Substrate visits 11 and 1122 and stops) *)
Definition w_tx_limit_over := [OPut k11 v1; OPut k1122 v2; OPut k112233 v3; OStart; OPut k11 v3; OPut k1122 v3;
                               OClearPrefixLimit k11 2; OGet k112233; OCommit].
(* p:11:01 p:1122:02 S d:11 cl:11:1 g:1122 C : a committed key whose deletion is pending counts against
   the limit, in the code as in Substrate: no finding, the guard is silent *)
Definition w_tx_limit_deleted := [OPut k11 v1; OPut k1122 v2; OStart; ODel k11; OClearPrefixLimit k11 1;
                                  OGet k1122; OCommit; OGet k1122].
Definition w_direct_order := [OPut k1122 v2; OPut k112233 v3; OClearPrefixLimit k1122 1; OGet k1122].

Ltac refute := intros [H1 H2]; vm_compute in H1, H2;
  first [discriminate H1 | (destruct (H2 eq_refl) as (X1 & X2 & X3 & X4); congruence)].

Lemma pinned_prefix_key : ~ agrees (run cfg_pinned w_prefix_key ts_init) (srun w_prefix_key ss_init) w_prefix_key.
Proof. refute. Qed.
Lemma pinned_child_reset : ~ agrees (run cfg_pinned w_child_reset ts_init) (srun w_child_reset ss_init) w_child_reset.
Proof. refute. Qed.
Lemma pinned_child_keys : ~ agrees (run cfg_pinned w_child_keys ts_init) (srun w_child_keys ss_init) w_child_keys.
Proof. refute. Qed.
Lemma pinned_namespace : ~ agrees (run cfg_pinned w_namespace ts_init) (srun w_namespace ss_init) w_namespace.
Proof. refute. Qed.
Lemma pinned_child_kill : ~ agrees (run cfg_pinned w_child_kill ts_init) (srun w_child_kill ss_init) w_child_kill.
Proof. refute. Qed.
Lemma pinned_child_direct : ~ agrees (run cfg_pinned w_child_direct ts_init) (srun w_child_direct ss_init) w_child_direct.
Proof. refute. Qed.

Lemma pre7_clear_roots :
  ~ agrees (run cfg_pre7 w_clear_roots ts_init) (srun w_clear_roots ss_init) w_clear_roots /\
  ~ agrees (run cfg_pre7 w_clear_roots_tx ts_init) (srun w_clear_roots_tx ss_init) w_clear_roots_tx.
Proof. split; refute. Qed.
(* what the code before C08-7 answered (observed on the Go code, corpus/C08/main.txt) *)
Lemma pre7_clear_roots_obs :
  fst (run cfg_pre7 w_clear_roots ts_init) = [RUnit; RUnit; RUnit; RVal None; RErr] /\
  fst (run cfg_pre7 w_clear_roots_tx ts_init) =
    [RUnit; RUnit; RUnit; RCount 2 true; RVal None; RVal (Some va); RUnit; RVal None; RErr].
Proof. split; reflexivity. Qed.

(* the repaired code agrees on all of them *)
Lemma fixed_agrees_witnesses :
  Forall (fun w => agrees (run cfg_fixed w ts_init) (srun w ss_init) w)
         [w_prefix_key; w_child_reset; w_child_keys; w_namespace; w_child_kill; w_child_direct;
          w_clear_roots; w_clear_roots_tx].
Proof.
  repeat constructor; vm_compute; try reflexivity; intros _; repeat split; reflexivity.
Qed.

(* ... and still disagrees inside the two finding classes, which the guards flag *)
Lemma fixed_tx_limit :
  ~ agrees (run cfg_fixed w_tx_limit ts_init) (srun w_tx_limit ss_init) w_tx_limit /\
  ~ agrees (run cfg_fixed w_tx_limit0 ts_init) (srun w_tx_limit0 ss_init) w_tx_limit0 /\
  guard_free cfg_fixed w_tx_limit = false /\ guard_free cfg_fixed w_tx_limit0 = false.
Proof. split; [refute|]. split; [refute|]. split; reflexivity. Qed.
Lemma fixed_tx_limit_over :
  ~ agrees (run cfg_fixed w_tx_limit_over ts_init) (srun w_tx_limit_over ss_init) w_tx_limit_over /\
  guard_free cfg_fixed w_tx_limit_over = false.
Proof. split; [refute | reflexivity]. Qed.
Lemma fixed_tx_limit_deleted :
  guard_free cfg_fixed w_tx_limit_deleted = true /\
  fst (run cfg_fixed w_tx_limit_deleted ts_init) =
    [RUnit; RUnit; RUnit; RUnit; RCount 1 false; RVal (Some v2); RUnit; RVal (Some v2)] /\
  fst (srun w_tx_limit_deleted ss_init) =
    [RUnit; RUnit; RUnit; RUnit; RCount 1 false; RVal (Some v2); RUnit; RVal (Some v2)].
Proof. vm_compute. repeat split; reflexivity. Qed.
Lemma fixed_direct_order :
  ~ agrees (run cfg_fixed w_direct_order ts_init) (srun w_direct_order ss_init) w_direct_order /\
  guard_free cfg_fixed w_direct_order = false.
Proof. split; [refute | reflexivity]. Qed.
