(* C08/Properties.v — property C08: runtime storage transactions are transparent and roll back
   exactly.  Only statements, each closed by `exact <lemma>`, with Print Assumptions beneath.

   run cfg_fixed  : the model of TrieState/storageDiff after fixes/C08-1..5 and C08-7 (Model.v)
   srun           : Substrate's overlay semantics as a stack of complete states (ModelSpec.v):
                    a limited clear removes every overlay key in the range and then visits at most
                    `limit` backend keys (already deleted ones count); clear_prefix refuses a
                    prefix that is part of, or contains, ":child_storage:"
   agrees         : equal reads (get, next-key, entries, child get/next-key/key listing; error
                    returns of child reads = "no such child"), and, once all transactions are
                    closed, equal committed contents whose root is the root of those contents
   guard_free     : no operation of the history lies in a known-finding class (ModelGuards.v) *)
From Common Require Import Bytes.
From C08 Require Import ModelMap Model ModelSpec ModelGuards ModelCheck ModelHeap ProofsTx ProofsMain ProofsFull
     ProofsCommit ProofsWitness ProofsCheck ProofsHeap.
Local Open Scope N_scope.

(* For every history of runtime storage operations on main and child storage (get, set, delete,
   prefix clear with and without limit, next-key, entries, child-trie deletion with and without
   limit, child key listing) interleaved with start/commit/rollback at any nesting depth, outside
   the two finding classes: every read observes what Substrate's overlay semantics prescribe, and
   once the outermost transaction is committed the committed contents are the specification's
   (with a root that is the root of exactly these contents: no stale child root). *)
Theorem C08_reads : forall ops, guard_free cfg_fixed ops = true ->
  agrees (run cfg_fixed ops ts_init) (srun ops ss_init) ops.
Proof. exact reads_full. Qed.
Print Assumptions C08_reads.

(* A rollback restores exactly the state at the matching start: all operations (main and child
   storage), any state, any well-nested body, pinned and repaired code alike. *)
Theorem C08_rollback : forall cf body s, balanced 0 body = true ->
  snd (run cf (OStart :: body ++ [ORollback]) s) = s.
Proof. exact rollback_exact. Qed.
Print Assumptions C08_rollback.

(* Committing the outermost transaction gives the same state (contents of main and child tries,
   hence the same root) as applying the committed operations directly: from any state reached by
   a guard-free history with all transactions closed, a well-nested history [ops] without limited
   clears ends in exactly the state reached by running [f] = its committed operations (rolled-back
   transactions dropped, markers removed; flattened ops = Some f also says that ops is well
   nested and closes every transaction) outside any transaction.  (With a limit the statement
   is false for Substrate itself: overlay keys do not count against the limit.) *)
Theorem C08_commit : forall pre ops f, guard_free cfg_fixed pre = true ->
  let s := snd (run cfg_fixed pre ts_init) in
  ts_txs s = [] -> forallb limit_free_op ops = true -> flattened ops = Some f ->
  snd (run cfg_fixed ops s) = snd (run cfg_fixed f s).
Proof. exact commit_direct_reachable. Qed.
Print Assumptions C08_commit.

Example C08_commit_nonvacuous :
  flattened [OStart; OPut k11 v1; OStart; ODel k11; OCSet k11 k22 va; ORollback; OStart;
             OClearPrefix k11; OPut k22 v2; OCommit; OKill k11; OCommit] =
  Some [OPut k11 v1; OClearPrefix k11; OPut k22 v2; OKill k11].
Proof. reflexivity. Qed.

(* non-vacuity: a guard-free history with nested transactions, a rollback, a key equal to a
   cleared prefix, a limited clear and next-key; the final contents are not empty *)
Example C08_nonvacuous :
  let ops := [OPut k11 v1; OPut k1122 v2; OPut k22 v3; OStart; OClearPrefix k1122; OPut k112233 v1;
              OStart; ODel k22; ONext k11; ORollback; OGet k22; OClearPrefixLimit k22 3; ONext k11;
              OCommit; OEntries] in
  forallb main_op ops = true /\ guard_free cfg_fixed ops = true /\ balanced 0 [ODel k22; ONext k11] = true /\
  fst (run cfg_fixed ops ts_init) =
    [RUnit; RUnit; RUnit; RUnit; RUnit; RUnit; RUnit; RUnit; RVal (Some k112233); RUnit;
     RVal (Some v3); RCount 1 false; RVal (Some k112233); RUnit; REntries [(k11, v1); (k112233, v1)]].
Proof. vm_compute. repeat split; reflexivity. Qed.

(* non-vacuity with child storage: main key 11 and child trie 11 side by side, a child trie deleted
   and written again inside a transaction, nested commit, key listing and next-key *)
Example C08_nonvacuous_child :
  let ops := [OCSet k11 k11 va; OCSet k11 k22 va; OPut k11 v1; OStart; ODel k11; OKill k11;
              OCGet k11 k22; OCSet k11 k1122 vb; OStart; OCSet k11 k2255 vb; OCommit;
              OCKeys k11 k11; OCNext k11 k11; OGet k11; OCommit; OCGet k11 k11; OCKeys k11 k22] in
  guard_free cfg_fixed ops = true /\
  fst (run cfg_fixed ops ts_init) =
    [RUnit; RUnit; RUnit; RUnit; RUnit; RUnit; RErr; RUnit; RUnit; RUnit; RUnit;
     RKeys [k1122]; RVal (Some k1122); RVal None; RUnit; RVal None; RKeys [k2255]] /\
  snd (final_obs (snd (run cfg_fixed ops ts_init))) = true.
Proof. vm_compute. repeat split; reflexivity. Qed.

(* The pinned code (cfg_pinned) violates the property; one witness per repaired defect *)
Theorem C08_pinned_refuted :
  ~ agrees (run cfg_pinned w_prefix_key ts_init) (srun w_prefix_key ss_init) w_prefix_key /\
  ~ agrees (run cfg_pinned w_child_reset ts_init) (srun w_child_reset ss_init) w_child_reset /\
  ~ agrees (run cfg_pinned w_child_keys ts_init) (srun w_child_keys ss_init) w_child_keys /\
  ~ agrees (run cfg_pinned w_namespace ts_init) (srun w_namespace ss_init) w_namespace /\
  ~ agrees (run cfg_pinned w_child_kill ts_init) (srun w_child_kill ss_init) w_child_kill /\
  ~ agrees (run cfg_pinned w_child_direct ts_init) (srun w_child_direct ss_init) w_child_direct.
Proof.
  exact (conj pinned_prefix_key (conj pinned_child_reset (conj pinned_child_keys
        (conj pinned_namespace (conj pinned_child_kill pinned_child_direct))))).
Qed.
Print Assumptions C08_pinned_refuted.

(* The code after fixes C08-1..5 and before C08-7 (cfg_pre7) violates it too: ClearPrefix /
   ClearPrefixLimit with a prefix that is part of ":child_storage:" (here the empty prefix) remove
   the child trie roots kept in the main trie - at once outside a transaction, at the outermost
   commit inside one - where Substrate refuses the call. *)
Theorem C08_pre7_refuted :
  ~ agrees (run cfg_pre7 w_clear_roots ts_init) (srun w_clear_roots ss_init) w_clear_roots /\
  ~ agrees (run cfg_pre7 w_clear_roots_tx ts_init) (srun w_clear_roots_tx ss_init) w_clear_roots_tx.
Proof. exact pre7_clear_roots. Qed.
Print Assumptions C08_pre7_refuted.

(* ... on which the repaired code agrees with the specification *)
Theorem C08_fixed_witnesses :
  Forall (fun w => agrees (run cfg_fixed w ts_init) (srun w ss_init) w)
         [w_prefix_key; w_child_reset; w_child_keys; w_namespace; w_child_kill; w_child_direct;
          w_clear_roots; w_clear_roots_tx].
Proof. exact fixed_agrees_witnesses. Qed.
Print Assumptions C08_fixed_witnesses.

(* The repaired code still violates the full statement inside the two finding classes
   (known-findings tx-limit and direct-limit-order); the guards flag the witnesses.
   tx-limit: a pending upsert sorted after the stopping point survives (w_tx_limit), limit 0 keeps
   every pending upsert (w_tx_limit0), committed keys overwritten in the transaction do not count
   against the limit (w_tx_limit_over). *)
Theorem C08_findings_refuted :
  (~ agrees (run cfg_fixed w_tx_limit ts_init) (srun w_tx_limit ss_init) w_tx_limit /\
   ~ agrees (run cfg_fixed w_tx_limit0 ts_init) (srun w_tx_limit0 ss_init) w_tx_limit0 /\
   guard_free cfg_fixed w_tx_limit = false /\ guard_free cfg_fixed w_tx_limit0 = false) /\
  (~ agrees (run cfg_fixed w_tx_limit_over ts_init) (srun w_tx_limit_over ss_init) w_tx_limit_over /\
   guard_free cfg_fixed w_tx_limit_over = false) /\
  (~ agrees (run cfg_fixed w_direct_order ts_init) (srun w_direct_order ss_init) w_direct_order /\
   guard_free cfg_fixed w_direct_order = false).
Proof. exact (conj fixed_tx_limit (conj fixed_tx_limit_over fixed_direct_order)). Qed.
Print Assumptions C08_findings_refuted.

(* ... and only there: a committed key whose deletion is already pending counts against the limit
   in the code exactly as in Substrate ("not cumulative when called inside the same block");
   the history is guard-free, so C08_reads applies to it *)
Example C08_limit_counts_deleted :
  guard_free cfg_fixed w_tx_limit_deleted = true /\
  fst (run cfg_fixed w_tx_limit_deleted ts_init) =
    [RUnit; RUnit; RUnit; RUnit; RCount 1 false; RVal (Some v2); RUnit; RVal (Some v2)] /\
  fst (srun w_tx_limit_deleted ss_init) =
    [RUnit; RUnit; RUnit; RUnit; RCount 1 false; RVal (Some v2); RUnit; RVal (Some v2)].
Proof. exact fixed_tx_limit_deleted. Qed.

(* The check's verdict is the property predicate.  The driver evaluates the extracted boolean
   agrees_b on the IMPLEMENTATION's view (observations + final contents printed by the harness):
   on the view of a run without panic it implies [agrees]; and the model's own view passes it on
   every guard-free history, so on a guard-free history the check can only report a property
   failure when the implementation's view differs from the model's (model_ok = false). *)
Theorem C08_check_sound : forall ops (r : list obs * tstate),
  existsb is_panic (fst r) = false ->
  agrees_b (view_of r) ops = true -> agrees r (srun ops ss_init) ops.
Proof. exact agrees_b_sound. Qed.
Print Assumptions C08_check_sound.

Theorem C08_check_complete : forall ops, guard_free cfg_fixed ops = true ->
  agrees_b (view_of (run cfg_fixed ops ts_init)) ops = true.
Proof. exact agrees_b_model. Qed.
Print Assumptions C08_check_complete.

(* The backing store of the model keeps child tries as independent maps.  The in-memory trie keeps
   them in a Go map keyed by ROOT HASH (child tries with equal contents are one entry, one object)
   and the main trie holds a root hash per child name: ModelHeap.v.  With the copy-on-shared-root
   rule of fix C08-6 this store refines independent child maps: for every history of
   PutIntoChild / ClearFromChild / DeleteChild / GetFromChild (the only operations through which
   Model.step and Model.apply_diff touch child tries) it gives the same answers and the same
   registered contents as bk_put_into_child / bk_clear_from_child / bk_delete_child / bk_get_child,
   never panics, and every registered root has its entry in childTries. *)
Theorem C08_childtries_refine : forall ops,
  fst (hrun true ops hs_empty) = fst (brun ops bk_empty) /\
  hs_reg (snd (hrun true ops hs_empty)) = bk_children (snd (brun ops bk_empty)) /\
  (forall name h, om_get name (hs_reg (snd (hrun true ops hs_empty))) = Some h ->
                  In h (hs_present (snd (hrun true ops hs_empty)))).
Proof. exact heap_refines. Qed.
Print Assumptions C08_childtries_refine.

(* The rule before fix C08-6 (the shared entry is removed when one of the child tries changes)
   does not: cs:11:22:a1 cs:22:22:a1 cs:11:1122:a1 cg:22:22 leaves the root of child trie 22
   without entry and the read dereferences nil, where independent maps answer a1. *)
Theorem C08_pre6_refuted :
  fst (hrun false w_alias hs_empty) = [HOk; HOk; HOk; HPanic] /\
  fst (brun w_alias bk_empty) = [HOk; HOk; HOk; HVal (Some hva)] /\
  hs_lookup (snd (hrun false w_alias hs_empty)) hk22 = LDangling.
Proof. exact prefix_alias_panics. Qed.
Print Assumptions C08_pre6_refuted.
