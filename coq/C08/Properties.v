From C08 Require Import ModelMap Model ModelSpec.
