(* C08/ProofsCheck.v — the boolean predicate the driver evaluates on the implementation's
   observables (ModelCheck.agrees_b) is the property predicate [agrees] of the theorems:
   - sound: on the view of a run, agrees_b = true implies agrees (no panic in the run);
   - complete on the model: for every guard-free history the model's own view passes agrees_b,
     so a property failure of the check on a guard-free history can only come from an
     implementation view that differs from the model's (model_ok = false). *)
From Common Require Import Bytes.
From C08 Require Import ModelMap Model ModelSpec ModelGuards ModelCheck ProofsMap ProofsMain ProofsFull.
Local Open Scope N_scope.

(* ---- reflection of the boolean equalities *)
Lemma list_eqb_eq {A} (e : A -> A -> bool) :
  (forall x y, e x y = true <-> x = y) -> forall a b, list_eqb e a b = true <-> a = b.
Proof.
  intros He. induction a as [|x a IH]; intros [|y b]; cbn; split; intro H; try reflexivity; try discriminate.
  - apply andb_prop in H as [H1 H2]. apply He in H1. apply IH in H2. now subst.
  - injection H as -> ->. apply andb_true_intro. split; [now apply He | now apply IH].
Qed.

Lemma opt_eqb_eq {A} (e : A -> A -> bool) :
  (forall x y, e x y = true <-> x = y) -> forall a b, opt_eqb e a b = true <-> a = b.
Proof.
  intros He [x|] [y|]; cbn; split; intro H; try reflexivity; try discriminate.
  - apply He in H. now subst.
  - injection H as ->. now apply He.
Qed.

Lemma kv_eqb_eq a b : kv_eqb a b = true <-> a = b.
Proof.
  destruct a as [k v], b as [k' v']. unfold kv_eqb. cbn. split; intro H.
  - apply andb_prop in H as [H1 H2]. apply keqb_eq in H1. apply keqb_eq in H2. now subst.
  - injection H as -> ->. now rewrite !keqb_refl.
Qed.

Lemma map_eqb_eq a b : map_eqb a b = true <-> a = b.
Proof. apply list_eqb_eq. exact kv_eqb_eq. Qed.

Lemma child_eqb_eq a b : child_eqb a b = true <-> a = b.
Proof.
  destruct a as [k m], b as [k' m']. unfold child_eqb. cbn. split; intro H.
  - apply andb_prop in H as [H1 H2]. apply keqb_eq in H1. apply map_eqb_eq in H2. now subst.
  - injection H as -> ->. rewrite keqb_refl. cbn. now apply map_eqb_eq.
Qed.

Lemma children_eqb_eq a b : children_eqb a b = true <-> a = b.
Proof. apply list_eqb_eq. exact child_eqb_eq. Qed.

Lemma obs_eqb_eq x y : obs_eqb x y = true <-> x = y.
Proof.
  destruct x, y; cbn; split; intro H; try reflexivity; try discriminate.
  - apply (opt_eqb_eq keqb keqb_eq) in H. now subst.
  - injection H as ->. now apply (opt_eqb_eq keqb keqb_eq).
  - apply andb_prop in H as [H1 H2]. apply N.eqb_eq in H1. apply Bool.eqb_prop in H2. now subst.
  - injection H as -> ->. rewrite N.eqb_refl. now destruct all0.
  - apply map_eqb_eq in H. now subst.
  - injection H as ->. now apply map_eqb_eq.
  - apply (list_eqb_eq keqb keqb_eq) in H. now subst.
  - injection H as ->. now apply (list_eqb_eq keqb keqb_eq).
Qed.

Lemma obs_list_eqb_eq a b : list_eqb obs_eqb a b = true <-> a = b.
Proof. apply list_eqb_eq. exact obs_eqb_eq. Qed.

(* ---- lengths: a run answers at most one observation per operation *)
Lemma run_length cf ops : forall s, (length (fst (run cf ops s)) <= length ops)%nat.
Proof.
  induction ops as [|o r IH]; intro s; [cbn; lia|]. cbn [run].
  destruct (step cf o s) as [x s']. specialize (IH s').
  destruct (run cf r s') as [xs s'']. cbn [fst] in IH. destruct x; cbn; lia.
Qed.

Lemma srun_length ops : forall t, (length (fst (srun ops t)) <= length ops)%nat.
Proof.
  induction ops as [|o r IH]; intro t; [cbn; lia|]. cbn [srun].
  destruct (sstep o t) as [x t']. specialize (IH t').
  destruct (srun r t') as [xs t'']. cbn [fst] in IH. destruct x; cbn; lia.
Qed.

Lemma norm_list_length ops : forall xs, (length xs <= length ops)%nat ->
  length (norm_list ops xs) = length xs.
Proof.
  induction ops as [|o r IH]; intros [|x xs] H; cbn in *; try reflexivity; try lia.
  f_equal. apply IH. lia.
Qed.

Lemma norm_list_panic ops : forall xs ys, norm_list ops xs = norm_list ops ys ->
  (length xs <= length ops)%nat -> (length ys <= length ops)%nat ->
  existsb is_panic xs = existsb is_panic ys.
Proof.
  induction ops as [|o r IH]; intros [|x xs] [|y ys] H Lx Ly; cbn in *; try reflexivity; try lia;
    try discriminate.
  injection H as H1 H2. rewrite (IH xs ys H2) by lia. f_equal.
  destruct (is_panic x) eqn:Px.
  - assert (x = RPanic) by (destruct x; try discriminate; reflexivity). subst x.
    assert (P : norm_obs o RPanic = RPanic) by now apply norm_obs_panic.
    rewrite P in H1. symmetry in H1. apply norm_obs_panic in H1. now subst y.
  - destruct (is_panic y) eqn:Py; [|reflexivity].
    assert (y = RPanic) by (destruct y; try discriminate; reflexivity). subst y.
    assert (P : norm_obs o RPanic = RPanic) by now apply norm_obs_panic.
    rewrite P in H1. apply norm_obs_panic in H1. subst x. discriminate.
Qed.

(* ---- soundness: the check's verdict implies the property predicate *)
Theorem agrees_b_sound ops (r : list obs * tstate) :
  existsb is_panic (fst r) = false ->
  agrees_b (view_of r) ops = true -> agrees r (srun ops ss_init) ops.
Proof.
  intros NP H. unfold agrees_b, view_of in H. cbn [fst snd] in H. rewrite NP in H.
  apply andb_prop in H as [H HF]. apply andb_prop in H as [_ HN].
  apply obs_list_eqb_eq in HN. split; [exact HN|]. intro Closed. rewrite Closed in HF.
  unfold final_obs in HF.
  apply andb_prop in HF as [HF HR]. apply andb_prop in HF as [HF HC]. apply andb_prop in HF as [HL HM].
  apply map_eqb_eq in HM. apply children_eqb_eq in HC. repeat split; try assumption.
  - now destruct (levels (snd (srun ops ss_init))).
  - now destruct (bk_stale (ts_state (snd r))).
Qed.

(* ---- completeness on the model: every guard-free history of the model passes the check *)
Theorem agrees_b_model ops : guard_free cfg_fixed ops = true ->
  agrees_b (view_of (run cfg_fixed ops ts_init)) ops = true.
Proof.
  intros G. unfold guard_free in G.
  destruct (run_guards cfg_fixed ops ts_init) eqn:GE; [|discriminate].
  destruct (run_full ops ts_init ss_init GSR_init GE) as [E R].
  pose proof (run_length cfg_fixed ops ts_init) as L1. pose proof (srun_length ops ss_init) as L2.
  pose proof (norm_list_panic ops _ _ E L1 L2) as EP.
  unfold agrees_b, view_of. cbn [fst snd].
  set (r := run cfg_fixed ops ts_init) in *. set (sp := srun ops ss_init) in *.
  apply andb_true_intro. split; [apply andb_true_intro; split|].
  - apply Nat.eqb_eq. rewrite <- (norm_list_length ops (fst r) L1), <- (norm_list_length ops (fst sp) L2).
    now rewrite E.
  - now apply obs_list_eqb_eq.
  - destruct R as [B M C L].
    destruct (ts_txs (snd r)) as [|D txs] eqn:TX.
    + inversion L as [HL|]. destruct (existsb is_panic (fst r)) eqn:PR.
      * rewrite <- EP. now rewrite orb_true_r.
      * unfold final_obs. destruct B as [_ _ St]. rewrite St.
        rewrite <- M, <- C. rewrite (proj2 (map_eqb_eq _ _) eq_refl).
        rewrite (proj2 (children_eqb_eq _ _) eq_refl). reflexivity.
    + inversion L as [|? l ? lv ? ? HL]. reflexivity.
Qed.
