From Coq Require Import Extraction ExtrOcamlBasic.
From Common Require Import Bytes Drv.
From C08 Require Import ModelMap Model ModelSpec ModelGuards ModelCheck ModelHeap.
Extraction "model.ml" drv_b2n drv_n2b drv_z_of_n drv_n_of_z drv_nat_of_n drv_n_of_nat
  cfg_pinned cfg_fixed cfg_pre7 ts_init step run final_obs ss_init sstep srun norm_obs norm_children
  backend levels c_main c_children om_get om_next kcmp run_guards limit_guard order_guard
  model_ok agrees_b view_of hstep hrun hs_empty heap_ok heap_prop shared_root hs_lookup.
