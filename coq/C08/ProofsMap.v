(* C08/ProofsMap.v — the key order and sorted association lists: lemmas. *)
From Common Require Import Bytes.
From C08 Require Import ModelMap Model.
From Coq Require Import Sorting.Sorted.
Local Open Scope N_scope.

(* ------------------------------------------------------------------ the key order *)

Lemma kcmp_refl a : kcmp a a = Eq.
Proof. induction a as [|x a IH]; cbn; [reflexivity|]. now rewrite N.compare_refl. Qed.

Lemma kcmp_eq a b : kcmp a b = Eq -> a = b.
Proof.
  revert b; induction a as [|x a IH]; intros [|y b]; cbn; try discriminate; [reflexivity|].
  destruct (N.compare_spec (b2n x) (b2n y)) as [E|L|G]; try discriminate.
  intro H. apply b2n_inj in E. subst. f_equal. now apply IH.
Qed.

Lemma kcmp_antisym a b : kcmp b a = CompOpp (kcmp a b).
Proof.
  revert b; induction a as [|x a IH]; intros [|y b]; cbn; try reflexivity.
  rewrite (N.compare_antisym (b2n x) (b2n y)).
  destruct (b2n x ?= b2n y); cbn; [apply IH | reflexivity | reflexivity].
Qed.

Lemma kcmp_lt_trans a b c : kcmp a b = Lt -> kcmp b c = Lt -> kcmp a c = Lt.
Proof.
  revert b c; induction a as [|x a IH]; intros [|y b] [|z c]; cbn; try discriminate; try reflexivity.
  destruct (N.compare_spec (b2n x) (b2n y)) as [E1|L1|G1]; try discriminate;
  destruct (N.compare_spec (b2n y) (b2n z)) as [E2|L2|G2]; try discriminate; intros H1 H2.
  - rewrite E1, E2, N.compare_refl. eapply IH; eassumption.
  - rewrite E1. now apply N.compare_lt_iff in L2 as ->.
  - rewrite <- E2. now apply N.compare_lt_iff in L1 as ->.
  - assert (L : b2n x < b2n z) by lia. now apply N.compare_lt_iff in L as ->.
Qed.

Lemma kcmp_gt_lt a b : kcmp a b = Gt <-> kcmp b a = Lt.
Proof. rewrite (kcmp_antisym a b). destruct (kcmp a b); cbn; split; congruence. Qed.

Lemma keqb_eq a b : keqb a b = true <-> a = b.
Proof.
  unfold keqb. split.
  - destruct (kcmp a b) eqn:E; try discriminate. intros _. now apply kcmp_eq.
  - intros ->. now rewrite kcmp_refl.
Qed.
Lemma keqb_refl a : keqb a a = true.
Proof. now apply keqb_eq. Qed.
Lemma keqb_neq a b : keqb a b = false <-> a <> b.
Proof.
  split.
  - intros H E. apply keqb_eq in E. congruence.
  - intro H. destruct (keqb a b) eqn:E; [|reflexivity]. apply keqb_eq in E. contradiction.
Qed.
Lemma keqb_sym a b : keqb a b = keqb b a.
Proof.
  destruct (keqb a b) eqn:E.
  - apply keqb_eq in E. subst. now rewrite keqb_refl.
  - apply keqb_neq in E. symmetry. apply keqb_neq. congruence.
Qed.

Lemma kltb_lt a b : kltb a b = true <-> kcmp a b = Lt.
Proof. unfold kltb. destruct (kcmp a b); split; congruence. Qed.
Lemma kltb_irrefl a : kltb a a = false.
Proof. unfold kltb. now rewrite kcmp_refl. Qed.
Lemma kltb_trans a b c : kltb a b = true -> kltb b c = true -> kltb a c = true.
Proof. rewrite !kltb_lt. apply kcmp_lt_trans. Qed.
Lemma kltb_asym a b : kltb a b = true -> kltb b a = false.
Proof.
  unfold kltb. rewrite (kcmp_antisym a b). destruct (kcmp a b); cbn; congruence.
Qed.
(* trichotomy *)
Lemma k_total a b : kltb a b = true \/ a = b \/ kltb b a = true.
Proof.
  unfold kltb. destruct (kcmp a b) eqn:E.
  - right; left. now apply kcmp_eq.
  - now left.
  - right; right. apply kcmp_gt_lt in E. now rewrite E.
Qed.

Definition klt (a b : key) : Prop := kcmp a b = Lt.

(* ------------------------------------------------------------------ prefixes *)

Lemma has_prefix_refl k : has_prefix k k = true.
Proof. induction k as [|x k IH]; cbn; [reflexivity|]. now rewrite N.eqb_refl. Qed.

Lemma has_prefix_nil k : has_prefix [] k = true.
Proof. destruct k; reflexivity. Qed.

(* ------------------------------------------------------------------ sorted maps *)

Definition ksorted (l : list key) : Prop := StronglySorted klt l.
Definition wf {V} (m : omap V) : Prop := ksorted (om_keys m).

Lemma wf_nil {V} : wf (@nil (key * V)).
Proof. constructor. Qed.

Lemma wf_cons_inv {V} k (v : V) m :
  wf ((k, v) :: m) -> wf m /\ Forall (fun kv => klt k (fst kv)) m.
Proof.
  unfold wf, om_keys. cbn. intro H. inversion H as [|? ? S F]; subst. split; [exact S|].
  rewrite Forall_map in F. exact F.
Qed.

Lemma wf_cons {V} k (v : V) m :
  wf m -> Forall (fun kv => klt k (fst kv)) m -> wf ((k, v) :: m).
Proof.
  unfold wf, om_keys. cbn. intros S F. constructor; [exact S|]. now rewrite Forall_map.
Qed.

Lemma om_get_lt_none {V} k (m : omap V) :
  Forall (fun kv => klt k (fst kv)) m -> om_get k m = None.
Proof.
  destruct m as [|[k' v'] r]; [reflexivity|]. intro F. inversion F as [|? ? H _]; subst.
  cbn in *. unfold klt in H. now rewrite H.
Qed.

Lemma Forall_klt_trans {V} k k' (m : omap V) :
  klt k k' -> Forall (fun kv => klt k' (fst kv)) m -> Forall (fun kv => klt k (fst kv)) m.
Proof.
  intros L F. eapply Forall_impl; [|exact F]. intros kv H. eapply kcmp_lt_trans; eassumption.
Qed.

Section Lemmas.
  Context {V : Type}.
  Implicit Types m : omap V.

  Lemma om_get_in k v m : wf m -> (om_get k m = Some v <-> In (k, v) m).
  Proof.
    induction m as [|[k' v'] r IH]; intro W.
    - cbn. split; [discriminate | contradiction].
    - apply wf_cons_inv in W as [Wr F]. cbn [om_get In].
      destruct (kcmp k k') eqn:C.
      + apply kcmp_eq in C. subst k'. split.
        * intros [= ->]. now left.
        * intros [[= ->]|I]; [reflexivity|].
          rewrite Forall_forall in F. specialize (F _ I). cbn in F.
          unfold klt in F. rewrite kcmp_refl in F. discriminate.
      + split; [discriminate|]. intros [[= -> ->]|I].
        * rewrite kcmp_refl in C. discriminate.
        * rewrite Forall_forall in F. specialize (F _ I). cbn in F.
          pose proof (kcmp_lt_trans _ _ _ C F) as X. rewrite kcmp_refl in X. discriminate.
      + rewrite (IH Wr). split; [now right|]. intros [[= -> ->]|I]; [|exact I].
        rewrite kcmp_refl in C. discriminate.
  Qed.

  Lemma om_get_key_in k m : wf m -> (om_mem k m = true <-> In k (om_keys m)).
  Proof.
    intro W. unfold om_mem, om_keys. split.
    - destruct (om_get k m) as [v|] eqn:G; [|discriminate]. intros _.
      apply om_get_in in G; [|exact W]. apply in_map_iff. now exists (k, v).
    - intro I. apply in_map_iff in I as [[k' v] [E I]]. cbn in E. subst k'.
      apply om_get_in in I; [|exact W]. now rewrite I.
  Qed.

  Lemma wf_put k v m : wf m -> wf (om_put k v m) /\
    forall k0, Forall (fun kv => klt k0 (fst kv)) m -> klt k0 k ->
               Forall (fun kv => klt k0 (fst kv)) (om_put k v m).
  Proof.
    induction m as [|[k' v'] r IH]; intro W.
    - cbn. split; [apply wf_cons; [apply wf_nil | constructor]|].
      intros k0 _ L. now constructor.
    - pose proof (wf_cons_inv _ _ _ W) as [Wr F]. cbn [om_put].
      destruct (kcmp k k') eqn:C.
      + apply kcmp_eq in C. subst k'. split; [now apply wf_cons|].
        intros k0 F0 L. inversion F0; subst. now constructor.
      + split.
        * apply wf_cons; [exact W|]. constructor; [exact C|]. eapply Forall_klt_trans; eassumption.
        * intros k0 F0 L. now constructor.
      + destruct (IH Wr) as [Wp Fp]. apply kcmp_gt_lt in C. split.
        * apply wf_cons; [exact Wp|]. now apply Fp.
        * intros k0 F0 L. inversion F0; subst. constructor; [assumption|]. now apply Fp.
  Qed.

  Lemma wf_del k m : wf m -> wf (om_del k m) /\
    forall k0, Forall (fun kv => klt k0 (fst kv)) m ->
               Forall (fun kv => klt k0 (fst kv)) (om_del k m).
  Proof.
    induction m as [|[k' v'] r IH]; intro W.
    - cbn. split; [apply wf_nil | intros; constructor].
    - pose proof (wf_cons_inv _ _ _ W) as [Wr F]. cbn [om_del].
      destruct (kcmp k k') eqn:C.
      + split; [exact Wr|]. intros k0 F0. now inversion F0.
      + split; [exact W|]. intros k0 F0. exact F0.
      + destruct (IH Wr) as [Wd Fd]. split.
        * apply wf_cons; [exact Wd|]. now apply Fd.
        * intros k0 F0. inversion F0; subst. constructor; [assumption|]. now apply Fd.
  Qed.

  Lemma om_get_put k k' v m : wf m ->
    om_get k (om_put k' v m) = if keqb k k' then Some v else om_get k m.
  Proof.
    induction m as [|[k1 v1] r IH]; intro W.
    - cbn. unfold keqb. destruct (kcmp k k'); reflexivity.
    - pose proof (wf_cons_inv _ _ _ W) as [Wr F]. cbn [om_put].
      destruct (kcmp k' k1) eqn:C.
      + apply kcmp_eq in C. subst k1. cbn [om_get]. unfold keqb.
        destruct (kcmp k k'); reflexivity.
      + cbn [om_get]. unfold keqb. destruct (kcmp k k') eqn:C2; try reflexivity.
        (* k < k' < k1 *)
        rewrite (kcmp_lt_trans _ _ _ C2 C). reflexivity.
      + cbn [om_get]. destruct (kcmp k k1) eqn:C2.
        * apply kcmp_eq in C2. subst k1. unfold keqb.
          rewrite (kcmp_antisym k' k), C. reflexivity.
        * (* k < k1 < k' *) apply kcmp_gt_lt in C. unfold keqb.
          rewrite (kcmp_lt_trans _ _ _ C2 C). reflexivity.
        * now apply IH.
  Qed.

  Lemma om_get_del k k' m : wf m ->
    om_get k (om_del k' m) = if keqb k k' then None else om_get k m.
  Proof.
    induction m as [|[k1 v1] r IH]; intro W.
    - cbn. now destruct (keqb k k').
    - pose proof (wf_cons_inv _ _ _ W) as [Wr F]. cbn [om_del].
      destruct (kcmp k' k1) eqn:C.
      + apply kcmp_eq in C. subst k1. cbn [om_get]. unfold keqb.
        destruct (kcmp k k') eqn:C2; try reflexivity.
        * apply kcmp_eq in C2. subst k'. now apply om_get_lt_none.
        * apply om_get_lt_none. eapply Forall_klt_trans; eassumption.
      + cbn [om_get]. unfold keqb. destruct (kcmp k k') eqn:C2; try reflexivity.
        apply kcmp_eq in C2. subst k'. now rewrite C.
      + cbn [om_get]. destruct (kcmp k k1) eqn:C2.
        * apply kcmp_eq in C2. subst k1. unfold keqb.
          rewrite (kcmp_antisym k' k), C. reflexivity.
        * apply kcmp_gt_lt in C. unfold keqb.
          rewrite (kcmp_lt_trans _ _ _ C2 C). reflexivity.
        * now apply IH.
  Qed.

  (* sorted maps are determined by their lookup function *)
  Lemma om_ext m1 m2 : wf m1 -> wf m2 -> (forall k, om_get k m1 = om_get k m2) -> m1 = m2.
  Proof.
    revert m2; induction m1 as [|[k1 v1] r1 IH]; intros [|[k2 v2] r2] W1 W2 E.
    - reflexivity.
    - specialize (E k2). cbn in E. rewrite kcmp_refl in E. discriminate.
    - specialize (E k1). cbn in E. rewrite kcmp_refl in E. discriminate.
    - pose proof (wf_cons_inv _ _ _ W1) as [Wr1 F1]. pose proof (wf_cons_inv _ _ _ W2) as [Wr2 F2].
      assert (K : k1 = k2).
      { pose proof (E k1) as E1. pose proof (E k2) as E2. cbn in E1, E2.
        rewrite kcmp_refl in E1, E2.
        destruct (kcmp k1 k2) eqn:C; [now apply kcmp_eq | discriminate |].
        rewrite (kcmp_antisym k1 k2), C in E2. cbn in E2. discriminate. }
      subst k2. pose proof (E k1) as E1. cbn in E1. rewrite kcmp_refl in E1.
      injection E1 as ->. f_equal. apply IH; try assumption.
      intro k. specialize (E k). cbn in E. destruct (kcmp k k1) eqn:C.
      + apply kcmp_eq in C. subst k.
        rewrite (om_get_lt_none _ _ F1), (om_get_lt_none _ _ F2). reflexivity.
      + rewrite om_get_lt_none, om_get_lt_none; [reflexivity| |];
          eapply Forall_klt_trans; eassumption.
      + exact E.
  Qed.

  Lemma wf_filter f m : wf m -> wf (om_filter f m).
  Proof.
    induction m as [|[k v] r IH]; intro W; [exact W|].
    pose proof (wf_cons_inv _ _ _ W) as [Wr F]. unfold om_filter in *. cbn [filter fst].
    destruct (f k).
    - apply wf_cons; [now apply IH|].
      rewrite Forall_forall in *. intros kv I. apply filter_In in I as [I _]. now apply F.
    - now apply IH.
  Qed.

  Lemma om_get_filter f k m : wf m ->
    om_get k (om_filter f m) = if f k then om_get k m else None.
  Proof.
    induction m as [|[k1 v1] r IH]; intro W.
    - cbn. now destruct (f k).
    - pose proof (wf_cons_inv _ _ _ W) as [Wr F]. unfold om_filter in *. cbn [filter fst].
      destruct (f k1) eqn:F1.
      + cbn [om_get]. destruct (kcmp k k1) eqn:C.
        * apply kcmp_eq in C. subst k1. now rewrite F1.
        * now destruct (f k).
        * now apply IH.
      + rewrite IH by exact Wr. cbn [om_get]. destruct (kcmp k k1) eqn:C.
        * apply kcmp_eq in C. subst k1. now rewrite F1.
        * destruct (f k); [|reflexivity]. apply om_get_lt_none.
          eapply Forall_klt_trans; eassumption.
        * reflexivity.
  Qed.

  Lemma wf_del_list ks m : wf m -> wf (om_del_list ks m).
  Proof.
    unfold om_del_list. revert m; induction ks as [|k ks IH]; intros m W; [exact W|].
    cbn. apply IH. now apply wf_del.
  Qed.

  Lemma om_get_del_list ks k m : wf m ->
    om_get k (om_del_list ks m) = if kmem k ks then None else om_get k m.
  Proof.
    unfold om_del_list. revert m; induction ks as [|k1 ks IH]; intros m W; [reflexivity|].
    cbn [fold_left kmem]. rewrite IH by now apply wf_del. rewrite om_get_del by exact W.
    destruct (keqb k k1); cbn; [now destruct (kmem k ks) | reflexivity].
  Qed.
End Lemmas.

Lemma kmem_in k l : kmem k l = true <-> In k l.
Proof.
  induction l as [|x l IH]; cbn; [split; [discriminate|contradiction]|].
  rewrite orb_true_iff, IH, keqb_eq. split; intros [H|H]; auto.
Qed.

(* ------------------------------------------------------------------ more on maps *)

Lemma klt_irrefl a : ~ klt a a.
Proof. unfold klt. rewrite kcmp_refl. discriminate. Qed.
Lemma klt_trans a b c : klt a b -> klt b c -> klt a c.
Proof. apply kcmp_lt_trans. Qed.
Lemma klt_asym a b : klt a b -> ~ klt b a.
Proof. intros H1 H2. exact (klt_irrefl _ (klt_trans _ _ _ H1 H2)). Qed.
Lemma klt_total a b : klt a b \/ a = b \/ klt b a.
Proof. destruct (k_total a b) as [H|[H|H]]; [left|right;left|right;right]; try apply kltb_lt; auto. Qed.
Lemma kltb_klt a b : kltb a b = true <-> klt a b.
Proof. apply kltb_lt. Qed.

Section MoreLemmas.
  Context {V : Type}.
  Implicit Types m : omap V.

  Lemma om_mem_put k k' v m : wf m -> om_mem k (om_put k' v m) = keqb k k' || om_mem k m.
  Proof. intro W. unfold om_mem. rewrite om_get_put by exact W. now destruct (keqb k k'). Qed.
  Lemma om_mem_del k k' m : wf m -> om_mem k (om_del k' m) = negb (keqb k k') && om_mem k m.
  Proof. intro W. unfold om_mem. rewrite om_get_del by exact W. now destruct (keqb k k'). Qed.

  Lemma kmem_keys k m : wf m -> kmem k (om_keys m) = om_mem k m.
  Proof.
    intro W. destruct (om_mem k m) eqn:E.
    - apply kmem_in. now apply om_get_key_in.
    - destruct (kmem k (om_keys m)) eqn:E2; [|reflexivity].
      apply kmem_in in E2. apply om_get_key_in in E2; [|exact W]. congruence.
  Qed.

  (* folding puts of the entries of a sorted map *)
  Lemma wf_fold_put (l : omap V) m : wf m ->
    wf (fold_left (fun acc kv => om_put (fst kv) (snd kv) acc) l m).
  Proof. revert m; induction l as [|[k v] r IH]; intros m W; [exact W|]. cbn. apply IH. now apply wf_put. Qed.

  Lemma om_get_fold_put (l : omap V) k m : wf l -> wf m ->
    om_get k (fold_left (fun acc kv => om_put (fst kv) (snd kv) acc) l m) =
    match om_get k l with Some v => Some v | None => om_get k m end.
  Proof.
    revert m; induction l as [|[k1 v1] r IH]; intros m Wl W; [reflexivity|].
    pose proof (wf_cons_inv _ _ _ Wl) as [Wr F]. cbn [fold_left fst snd].
    rewrite IH by (try assumption; now apply wf_put). rewrite om_get_put by exact W.
    cbn [om_get]. unfold keqb. destruct (kcmp k k1) eqn:C.
    - apply kcmp_eq in C. subst k1. now rewrite (om_get_lt_none _ _ F).
    - rewrite om_get_lt_none; [reflexivity|]. eapply Forall_klt_trans; eassumption.
    - reflexivity.
  Qed.

  (* ---- least key above k *)
  Definition least_gt (P : key -> Prop) (k : key) (r : option key) : Prop :=
    match r with
    | Some k' => P k' /\ klt k k' /\ forall k'', P k'' -> klt k k'' -> ~ klt k'' k'
    | None => forall k'', P k'' -> ~ klt k k''
    end.

  Lemma least_gt_unique P k r1 r2 : least_gt P k r1 -> least_gt P k r2 -> r1 = r2.
  Proof.
    destruct r1 as [a|], r2 as [b|]; cbn; intros H1 H2; try reflexivity.
    - destruct H1 as (Pa & La & Ma), H2 as (Pb & Lb & Mb).
      destruct (klt_total a b) as [L|[E|L]]; [|now subst|].
      + exfalso. exact (Mb a Pa La L).
      + exfalso. exact (Ma b Pb Lb L).
    - destruct H1 as (Pa & La & _). exfalso. exact (H2 a Pa La).
    - destruct H2 as (Pb & Lb & _). exfalso. exact (H1 b Pb Lb).
  Qed.

  Lemma least_gt_iff P Q k r : (forall x, P x <-> Q x) -> least_gt P k r -> least_gt Q k r.
  Proof.
    intros E. destruct r as [a|]; cbn.
    - intros (Pa & La & Ma). repeat split; [now apply E | exact La |].
      intros k'' Qk. apply Ma. now apply E.
    - intros H k'' Qk. apply H. now apply E.
  Qed.

  Lemma om_next_least k m : wf m -> least_gt (fun x => om_mem x m = true) k (om_next k m).
  Proof.
    induction m as [|[k1 v1] r IH]; intro W.
    - cbn. intros k'' H. discriminate.
    - pose proof (wf_cons_inv _ _ _ W) as [Wr F]. cbn [om_next].
      destruct (kltb k k1) eqn:L.
      + cbn. apply kltb_klt in L. repeat split.
        * unfold om_mem. cbn. now rewrite kcmp_refl.
        * exact L.
        * intros k'' M _ L2. unfold om_mem in M. cbn in M.
          destruct (kcmp k'' k1) eqn:C; try discriminate.
          -- apply kcmp_eq in C. subst. exact (klt_irrefl _ L2).
          -- unfold klt in L2. congruence.
      + specialize (IH Wr).
        assert (NL : ~ klt k k1) by (intro X; apply kltb_klt in X; congruence).
        assert (Mem : forall x, om_mem x ((k1, v1) :: r) = true <-> x = k1 \/ om_mem x r = true).
        { intro x. unfold om_mem. cbn. destruct (kcmp x k1) eqn:C.
          - apply kcmp_eq in C. subst. split; auto.
          - rewrite om_get_lt_none by (eapply Forall_klt_trans; eassumption).
            split; [discriminate|]. intros [->|H]; [|discriminate].
            rewrite kcmp_refl in C. discriminate.
          - split; [auto|]. intros [->|H]; [|exact H]. rewrite kcmp_refl in C. discriminate. }
        destruct (om_next k r) as [a|]; cbn in *.
        * destruct IH as (Pa & La & Ma). repeat split; [apply Mem; now right | exact La |].
          intros k'' M L2. apply Mem in M as [->|M]; [contradiction|]. now apply Ma.
        * intros k'' M. apply Mem in M as [->|M]; [exact NL|]. now apply IH.
  Qed.
End MoreLemmas.

Lemma ks_mem_add k k' s : wf s -> ks_mem k (ks_add k' s) = keqb k k' || ks_mem k s.
Proof. intro W. unfold ks_mem, ks_add. now apply om_mem_put. Qed.

Lemma next_not_deleted_least k (m : omap val) (deleted : kset) : wf m ->
  least_gt (fun x => om_mem x m = true /\ ks_mem x deleted = false) k (next_not_deleted k m deleted).
Proof.
  induction m as [|[k1 v1] r IH]; intro W.
  - cbn. intros k'' [H _]. discriminate.
  - pose proof (wf_cons_inv _ _ _ W) as [Wr F]. cbn [next_not_deleted].
    assert (Mem : forall x, om_mem x ((k1, v1) :: r) = true <-> x = k1 \/ om_mem x r = true).
    { intro x. unfold om_mem. cbn. destruct (kcmp x k1) eqn:C.
      - apply kcmp_eq in C. subst. split; auto.
      - rewrite om_get_lt_none by (eapply Forall_klt_trans; eassumption).
        split; [discriminate|]. intros [->|H]; [|discriminate].
        rewrite kcmp_refl in C. discriminate.
      - split; [auto|]. intros [->|H]; [|exact H]. rewrite kcmp_refl in C. discriminate. }
    destruct (kltb k k1 && negb (ks_mem k1 deleted)) eqn:L.
    + apply andb_prop in L as [L D]. apply kltb_klt in L. apply negb_true_iff in D.
      cbn. repeat split; [apply Mem; now left | exact D | exact L |].
      intros k'' [M _] _ L2. apply Mem in M as [->|M]; [exact (klt_irrefl _ L2)|].
      apply om_get_key_in in M; [|exact Wr]. unfold om_keys in M. apply in_map_iff in M as [[kx vx] [E I]].
      cbn in E. subst kx. rewrite Forall_forall in F. specialize (F _ I). cbn in F.
      exact (klt_asym _ _ F L2).
    + specialize (IH Wr).
      assert (NL : ~ (klt k k1 /\ ks_mem k1 deleted = false)).
      { intros [X Y]. apply kltb_klt in X. rewrite X, Y in L. discriminate. }
      destruct (next_not_deleted k r deleted) as [a|]; cbn in *.
      * destruct IH as ((Pa & Da) & La & Ma). repeat split; [apply Mem; now right | exact Da | exact La |].
        intros k'' [M D] L2. apply Mem in M as [->|M]; [exfalso; apply NL; now split|]. apply Ma; [now split | exact L2].
      * intros k'' [M D] L2. apply Mem in M as [->|M]; [apply NL; now split|]. exact (IH k'' (conj M D) L2).
Qed.

Lemma merge_next_least P Q k a b :
  least_gt P k a -> least_gt Q k b -> least_gt (fun x => P x \/ Q x) k (merge_next a b).
Proof.
  destruct a as [a|], b as [b|]; cbn.
  - intros (Pa & La & Ma) (Qb & Lb & Mb). destruct (kltb b a) eqn:C; cbn.
    + apply kltb_klt in C. repeat split; [now right | exact Lb |].
      intros k'' [H|H] L; [|now apply Mb].
      intro X. apply (Ma k'' H L). exact (klt_trans _ _ _ X C).
    + assert (NC : ~ klt b a) by (intro X; apply kltb_klt in X; congruence).
      repeat split; [now left | exact La |].
      intros k'' [H|H] L; [now apply Ma|].
      intro X. destruct (klt_total a b) as [L2|[E|L2]].
      * apply (Mb k'' H L). exact (klt_trans _ _ _ X L2).
      * subst. exact (Mb k'' H L X).
      * contradiction.
  - intros (Pa & La & Ma) Hb. repeat split; [now left | exact La |].
    intros k'' [H|H] L; [now apply Ma|]. exfalso. exact (Hb k'' H L).
  - intros Ha (Qb & Lb & Mb). repeat split; [now right | exact Lb |].
    intros k'' [H|H] L; [|now apply Mb]. exfalso. exact (Ha k'' H L).
  - intros Ha Hb k'' [H|H]; [now apply Ha | now apply Hb].
Qed.
