(* C08/ProofsDiff.v — one storageDiff (upserts, deletes) over a committed map: its visible
   content [mview] and how the storageDiff operations act on it. *)
From Common Require Import Bytes.
From C08 Require Import ModelMap Model ProofsMap.
Local Open Scope N_scope.

(* what TrieEntries computes: committed entries, overwritten by the upserts, minus the deletes *)
Definition mview (m : omap val) (d : sdiff) : omap val :=
  om_del_list (om_keys (dels d))
              (fold_left (fun acc kv => om_put (fst kv) (snd kv) acc) (ups d) m).

Record sd_wf (d : sdiff) : Prop := {
  wf_ups : wf (ups d);
  wf_dels : wf (dels d);
  ups_dels_disjoint : forall k, om_mem k (ups d) = true -> ks_mem k (dels d) = false;
}.

Lemma sd_wf_empty : sd_wf sd_empty.
Proof. split; try apply wf_nil. intros k H. discriminate. Qed.

Lemma mview_wf m d : wf m -> sd_wf d -> wf (mview m d).
Proof. intros W [Wu Wd _]. unfold mview. apply wf_del_list. now apply wf_fold_put. Qed.

Lemma mview_get m d k : wf m -> sd_wf d ->
  om_get k (mview m d) =
  match om_get k (ups d) with
  | Some v => Some v
  | None => if ks_mem k (dels d) then None else om_get k m
  end.
Proof.
  intros W [Wu Wd Dj]. unfold mview.
  rewrite om_get_del_list by now apply wf_fold_put.
  rewrite kmem_keys by exact Wd. rewrite om_get_fold_put by assumption.
  fold (ks_mem k (dels d)). destruct (ks_mem k (dels d)) eqn:E.
  - destruct (om_get k (ups d)) eqn:G; [|reflexivity].
    assert (M : om_mem k (ups d) = true) by (unfold om_mem; now rewrite G).
    apply Dj in M. congruence.
  - reflexivity.
Qed.

Lemma mview_empty m : mview m sd_empty = m.
Proof. reflexivity. Qed.

Lemma mview_mem m d k : wf m -> sd_wf d ->
  om_mem k (mview m d) = om_mem k (ups d) || (negb (ks_mem k (dels d)) && om_mem k m).
Proof.
  intros W S. unfold om_mem at 1. rewrite mview_get by assumption. unfold om_mem.
  destruct (om_get k (ups d)); [reflexivity|]. cbn. now destruct (ks_mem k (dels d)).
Qed.

(* ---- upsert / delete *)
Lemma sd_wf_upsert d k v : sd_wf d -> sd_wf (sd_upsert d k v).
Proof.
  intros [Wu Wd Dj]. split; cbn.
  - now apply wf_put.
  - now apply wf_del.
  - intros k0. unfold ks_mem. rewrite om_mem_put, om_mem_del by assumption.
    destruct (keqb k0 k); cbn; [reflexivity|]. apply Dj.
Qed.

Lemma sd_wf_delete d k : sd_wf d -> sd_wf (sd_delete d k).
Proof.
  intros [Wu Wd Dj]. split; cbn.
  - now apply wf_del.
  - unfold ks_add. now apply wf_put.
  - intros k0. rewrite om_mem_del by assumption. rewrite ks_mem_add by assumption.
    destruct (keqb k0 k); cbn; [discriminate|]. apply Dj.
Qed.

Lemma mview_upsert m d k v : wf m -> sd_wf d ->
  mview m (sd_upsert d k v) = om_put k v (mview m d).
Proof.
  intros W S. pose proof (sd_wf_upsert d k v S) as S'. pose proof S as [Wu Wd Dj].
  pose proof (mview_wf m d W S) as Wv.
  apply om_ext; [now apply mview_wf | now apply wf_put |].
  intro k0. rewrite om_get_put by exact Wv.
  rewrite !mview_get by assumption. cbn [ups dels sd_upsert].
  rewrite om_get_put by assumption. unfold ks_mem. rewrite om_mem_del by assumption.
  destruct (keqb k0 k); reflexivity.
Qed.

Lemma mview_delete m d k : wf m -> sd_wf d ->
  mview m (sd_delete d k) = om_del k (mview m d).
Proof.
  intros W S. pose proof (sd_wf_delete d k S) as S'. pose proof S as [Wu Wd Dj].
  pose proof (mview_wf m d W S) as Wv.
  apply om_ext; [now apply mview_wf | now apply wf_del |].
  intro k0. rewrite om_get_del by exact Wv.
  rewrite !mview_get by assumption. cbn [ups dels sd_delete].
  rewrite om_get_del by assumption. rewrite ks_mem_add by assumption.
  destruct (keqb k0 k); reflexivity.
Qed.

(* keys the overlay holds an entry for *)
Definition tg (d : sdiff) (k : key) : bool := om_mem k (ups d) || ks_mem k (dels d).

Lemma tg_upsert d k v k0 : sd_wf d -> tg (sd_upsert d k v) k0 = keqb k0 k || tg d k0.
Proof.
  intros [Wu Wd _]. unfold tg. cbn. unfold ks_mem. rewrite om_mem_put, om_mem_del by assumption.
  destruct (keqb k0 k); reflexivity.
Qed.
Lemma tg_delete d k k0 : sd_wf d -> tg (sd_delete d k) k0 = keqb k0 k || tg d k0.
Proof.
  intros [Wu Wd _]. unfold tg. cbn. rewrite om_mem_del, ks_mem_add by assumption.
  destruct (keqb k0 k); cbn; reflexivity.
Qed.

(* ---- a list of deletions *)
Lemma sd_wf_delete_list l d : sd_wf d -> sd_wf (fold_left sd_delete l d).
Proof. revert d; induction l as [|k l IH]; intros d S; [exact S|]. cbn. apply IH. now apply sd_wf_delete. Qed.

Lemma mview_delete_list m l d : wf m -> sd_wf d ->
  mview m (fold_left sd_delete l d) = om_del_list l (mview m d).
Proof.
  intros W. revert d; induction l as [|k l IH]; intros d S; [reflexivity|].
  cbn [fold_left]. rewrite IH by now apply sd_wf_delete. rewrite mview_delete by assumption.
  reflexivity.
Qed.

Lemma tg_delete_list l d k0 : sd_wf d -> tg (fold_left sd_delete l d) k0 = kmem k0 l || tg d k0.
Proof.
  revert d; induction l as [|k l IH]; intros d S; [reflexivity|].
  cbn [fold_left kmem]. rewrite IH by now apply sd_wf_delete. rewrite tg_delete by exact S.
  destruct (keqb k0 k), (kmem k0 l); reflexivity.
Qed.

(* ---- NextKey *)
Lemma mview_next m d k : wf m -> sd_wf d ->
  om_next k (mview m d) = merge_next (om_next k (ups d)) (next_not_deleted k m (dels d)).
Proof.
  intros W S. pose proof S as [Wu Wd Dj].
  eapply least_gt_unique.
  - apply om_next_least. now apply mview_wf.
  - eapply least_gt_iff; [|apply merge_next_least;
                           [apply (om_next_least k (ups d) Wu) | apply (next_not_deleted_least k m (dels d) W)]].
    intro x. cbn. rewrite mview_mem by assumption. rewrite orb_true_iff, andb_true_iff, negb_true_iff.
    tauto.
Qed.

(* ---- Get *)
Lemma mview_sd_get m d k : wf m -> sd_wf d ->
  om_get k (mview m d) =
  match sd_get d k with
  | (Some v, _) => Some v
  | (None, true) => None
  | (None, false) => om_get k m
  end.
Proof.
  intros W S. rewrite mview_get by assumption. unfold sd_get.
  destruct (om_get k (ups d)); [reflexivity|]. now destruct (ks_mem k (dels d)).
Qed.
