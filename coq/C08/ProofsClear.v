(* C08/ProofsClear.v — prefix clears: the loop of storageDiff.clearPrefix (Go) and
   limit_remove_from_backend / clear_prefix (spec), characterised on the visible map. *)
From Common Require Import Bytes.
From C08 Require Import ModelMap Model ModelSpec ProofsMap ProofsDiff.
Local Open Scope N_scope.

(* ------------------------------------------------------------------ kmerge *)

Lemma kmerge_nil_l b : kmerge [] b = b.
Proof. destruct b; reflexivity. Qed.
Lemma kmerge_nil_r a : kmerge a [] = a.
Proof. destruct a; reflexivity. Qed.
Lemma kmerge_cons x a y b :
  kmerge (x :: a) (y :: b) =
  match kcmp x y with Gt => y :: kmerge (x :: a) b | _ => x :: kmerge a (y :: b) end.
Proof. cbn. destruct (kcmp x y); reflexivity. Qed.

Lemma kmerge_in k a : forall b, In k (kmerge a b) <-> In k a \/ In k b.
Proof.
  induction a as [|x a IHa]; intro b.
  - rewrite kmerge_nil_l. cbn. tauto.
  - induction b as [|y b IHb].
    + rewrite kmerge_nil_r. cbn. tauto.
    + rewrite kmerge_cons. destruct (kcmp x y); cbn [In]; rewrite ?IHa, ?IHb; cbn [In]; tauto.
Qed.

Lemma kmerge_filter_split f a : forall b,
  (forall x, In x a -> f x = false) -> (forall y, In y b -> f y = true) ->
  filter f (kmerge a b) = b.
Proof.
  induction a as [|x a IHa]; intros b Ha Hb.
  - rewrite kmerge_nil_l. induction b as [|y b IH]; [reflexivity|].
    cbn. rewrite (Hb y) by now left. f_equal. apply IH. intros; apply Hb; now right.
  - induction b as [|y b IHb].
    + rewrite kmerge_nil_r. cbn. rewrite (Ha x) by now left.
      specialize (IHa [] (fun z I => Ha z (or_intror I)) (fun _ F => match F with end)).
      now rewrite kmerge_nil_r in IHa.
    + rewrite kmerge_cons.
      assert (Fx : f x = false) by (apply Ha; now left).
      assert (Fy : f y = true) by (apply Hb; now left).
      destruct (kcmp x y); cbn [filter]; rewrite ?Fx, ?Fy.
      * apply IHa; [intros; apply Ha; now right | exact Hb].
      * apply IHa; [intros; apply Ha; now right | exact Hb].
      * f_equal. apply IHb. intros; apply Hb; now right.
Qed.

(* ------------------------------------------------------------------ the Go loop *)

Definition cnt (p : key) (nk ks : list key) : nat :=
  length (filter (fun k => has_prefix p k && negb (kmem k nk)) ks).

Lemma cp_loop_all p nk ks : forall limit acc,
  (limit < 0 \/ Z.of_nat (cnt p nk ks) < limit)%Z ->
  cp_loop p nk ks limit acc = rev (filter (has_prefix p) ks) ++ acc.
Proof.
  induction ks as [|k r IH]; intros limit acc H; [reflexivity|].
  cbn [cp_loop filter]. unfold cnt in H. cbn [filter] in H.
  assert (Z0 : (limit =? 0)%Z = false) by (apply Z.eqb_neq; lia).
  rewrite Z0. destruct (has_prefix p k) eqn:P; cbn [andb] in H.
  - cbn [rev]. rewrite <- app_assoc. cbn [app]. destruct (kmem k nk) eqn:M; cbn [negb] in H.
    + apply IH. exact H.
    + apply IH. cbn [length] in H. unfold cnt. lia.
  - apply IH. exact H.
Qed.

Lemma cp_loop_first p nk ks : forall limit acc,
  (forall k, In k ks -> has_prefix p k = true -> kmem k nk = false) -> (0 <= limit)%Z ->
  cp_loop p nk ks limit acc = rev (firstn (Z.to_nat limit) (filter (has_prefix p) ks)) ++ acc.
Proof.
  induction ks as [|k r IH]; intros limit acc H L.
  - cbn. now rewrite firstn_nil.
  - cbn [cp_loop filter]. destruct (limit =? 0)%Z eqn:Z0.
    + apply Z.eqb_eq in Z0. subst. cbn. reflexivity.
    + apply Z.eqb_neq in Z0. destruct (has_prefix p k) eqn:P.
      * rewrite (H k (or_introl eq_refl) P).
        assert (H' : forall k0, In k0 r -> has_prefix p k0 = true -> kmem k0 nk = false)
          by (intros; apply H; [now right | assumption]).
        rewrite (IH _ _ H') by lia.
        replace (Z.to_nat limit) with (S (Z.to_nat (limit - 1))) by lia.
        cbn [firstn rev]. now rewrite <- app_assoc.
      * apply IH; [|exact L]. intros; apply H; [now right | assumption].
Qed.

(* ------------------------------------------------------------------ the spec loop *)

Lemma filter_none {A} (f : A -> bool) l : (forall x, In x l -> f x = false) -> filter f l = [].
Proof.
  induction l as [|x l IH]; intro H; [reflexivity|]. cbn. rewrite (H x (or_introl eq_refl)).
  apply IH. intros; apply H; now right.
Qed.



Lemma rfb_none bkeys t : forall count loops acc,
  fst (fst (remove_from_backend bkeys t None count loops acc)) =
  rev acc ++ filter (fun k => negb (ks_mem k t)) bkeys.
Proof.
  induction bkeys as [|k r IH]; intros count loops acc.
  - cbn. now rewrite app_nil_r.
  - cbn [remove_from_backend filter]. destruct (ks_mem k t); cbn [negb].
    + apply IH.
    + rewrite IH. cbn [rev]. now rewrite <- app_assoc.
Qed.

(* with a limit: exactly the untouched keys among the first (n - loops) backend keys *)
Lemma rfb_some bkeys t n : forall count loops acc, loops <= n ->
  fst (fst (remove_from_backend bkeys t (Some n) count loops acc)) =
  rev acc ++ filter (fun k => negb (ks_mem k t)) (firstn (N.to_nat (n - loops)) bkeys).
Proof.
  induction bkeys as [|k r IH]; intros count loops acc L.
  - cbn. now rewrite firstn_nil, app_nil_r.
  - cbn [remove_from_backend]. destruct (loops =? n) eqn:E.
    + apply N.eqb_eq in E. subst. rewrite N.sub_diag. cbn. now rewrite app_nil_r.
    + apply N.eqb_neq in E.
      replace (N.to_nat (n - loops)) with (S (N.to_nat (n - (loops + 1)))) by lia.
      cbn [firstn filter]. destruct (ks_mem k t); cbn [negb].
      * apply IH. lia.
      * rewrite IH by lia. cbn [rev]. now rewrite <- app_assoc.
Qed.

(* ------------------------------------------------------------------ small list facts *)

Lemma kmem_filter k f l : (forall a b, keqb a b = true -> f a = f b) ->
  kmem k (filter f l) = f k && kmem k l.
Proof.
  intro Hf. induction l as [|x l IH]; cbn; [now rewrite andb_false_r|].
  destruct (f x) eqn:F; cbn [kmem]; rewrite IH.
  - destruct (keqb k x) eqn:E; cbn; [|reflexivity].
    rewrite (Hf k x E), F. reflexivity.
  - destruct (keqb k x) eqn:E; cbn; [|reflexivity].
    rewrite (Hf k x E), F. reflexivity.
Qed.

Lemma keqb_congr (f : key -> bool) a b : keqb a b = true -> f a = f b.
Proof. intro E. apply keqb_eq in E. now subst. Qed.

Lemma In_firstn {A} (x : A) n l : In x (firstn n l) -> In x l.
Proof. revert l; induction n as [|n IH]; intros [|y l]; cbn; try tauto. intros [->|H]; [now left | right; now apply IH]. Qed.

Lemma In_skipn' {A} (x : A) n : forall l, In x (skipn n l) -> In x l.
Proof.
  induction n as [|n IH]; intros l H; [exact H|]. destruct l as [|y l]; [exact H|].
  right. now apply IH.
Qed.
Lemma kmem_firstn_in k n l : kmem k (firstn n l) = true -> kmem k l = true.
Proof.
  intro H. apply kmem_in in H. apply kmem_in. eapply In_firstn. exact H.
Qed.

Lemma filter_all {A} (f : A -> bool) l : (forall x, In x l -> f x = true) -> filter f l = l.
Proof.
  induction l as [|x l IH]; intro H; [reflexivity|]. cbn. rewrite (H x (or_introl eq_refl)).
  f_equal. apply IH. intros; apply H; now right.
Qed.

Lemma filter_length_le {A} (f g : A -> bool) l :
  (forall x, In x l -> f x = true -> g x = true) ->
  (length (filter f l) <= length (filter g l))%nat.
Proof.
  induction l as [|x l IH]; intro H; [cbn; lia|].
  cbn. specialize (IH (fun y I => H y (or_intror I))).
  destruct (f x) eqn:F.
  - rewrite (H x (or_introl eq_refl) F). cbn. lia.
  - destruct (g x); cbn; lia.
Qed.

Lemma filter_length_le' {A} (f : A -> bool) l : (length (filter f l) <= length l)%nat.
Proof. induction l as [|x l IH]; [reflexivity|]. cbn. destruct (f x); cbn; lia. Qed.

Lemma wf_fold_add l (s : kset) : wf s -> wf (fold_left (fun acc k => ks_add k acc) l s).
Proof. revert s; induction l as [|k l IH]; intros s W; [exact W|]. cbn. apply IH. unfold ks_add. now apply wf_put. Qed.

Lemma ks_mem_fold_add l (s : kset) k : wf s ->
  ks_mem k (fold_left (fun acc k => ks_add k acc) l s) = kmem k l || ks_mem k s.
Proof.
  revert s; induction l as [|x l IH]; intros s W; [reflexivity|].
  cbn [fold_left kmem]. rewrite IH by (unfold ks_add; now apply wf_put).
  rewrite ks_mem_add by exact W. destruct (keqb k x), (kmem k l); reflexivity.
Qed.

Lemma om_del_list_noop {V} (l : list key) (m : omap V) : wf m ->
  (forall k, kmem k l = true -> om_mem k m = false) -> om_del_list l m = m.
Proof.
  intros W H. apply om_ext; [now apply wf_del_list | exact W |].
  intro k. rewrite om_get_del_list by exact W. destruct (kmem k l) eqn:E; [|reflexivity].
  apply H in E. unfold om_mem in E. now destruct (om_get k m).
Qed.

(* ------------------------------------------------------------------ spec: clear_prefix *)

Definition matching_keys {V} (p : key) (m : omap V) : list key := filter (has_prefix p) (om_keys m).

Lemma kmem_matching {V} p (m : omap V) k : wf m ->
  kmem k (matching_keys p m) = has_prefix p k && om_mem k m.
Proof.
  intro W. unfold matching_keys. rewrite kmem_filter by apply keqb_congr. now rewrite kmem_keys.
Qed.

Section SpecClear.
  Variables (cur bk : omap val) (tch : kset) (p : key).
  Hypotheses (Wc : wf cur) (Wb : wf bk) (Wt : wf tch).

  (* every visible key the overlay has no entry for is a backend key *)
  Hypothesis I2 : forall k, om_mem k cur = true -> ks_mem k tch = false -> om_mem k bk = true.

  Lemma spec_clear_all limit cur' tch' loops all :
    (limit = None \/
     exists n, limit = Some n /\
       forall k, In k (skipn (N.to_nat n) (matching_keys p bk)) -> ks_mem k tch = true) ->
    spec_clear cur bk tch p limit = (cur', tch', loops, all) ->
    cur' = om_filter (fun k => negb (has_prefix p k)) cur /\ wf tch' /\
    forall k, ks_mem k tch' = ks_mem k tch || (has_prefix p k && om_mem k bk).
  Proof.
    intros Big. unfold spec_clear. fold (matching_keys p bk). fold (matching_keys p tch).
    destruct (remove_from_backend (matching_keys p bk) tch limit 0 0 []) as [[del lp] al] eqn:R.
    intros [= <- <- _ _].
    assert (D : del = filter (fun k => negb (ks_mem k tch)) (matching_keys p bk)).
    { pose proof (f_equal (fun x => fst (fst x)) R) as R'. cbn in R'. rewrite <- R'.
      destruct Big as [->|(n & -> & L)].
      - now rewrite rfb_none.
      - rewrite rfb_some by lia. rewrite N.sub_0_r. cbn [rev app].
        rewrite <- (firstn_skipn (N.to_nat n) (matching_keys p bk)) at 2.
        rewrite filter_app.
        rewrite (filter_none _ (skipn (N.to_nat n) (matching_keys p bk))); [now rewrite app_nil_r|].
        intros k I. now rewrite (L k I). }
    assert (KD : forall k, kmem k del = has_prefix p k && om_mem k bk && negb (ks_mem k tch)).
    { intro k. rewrite D. rewrite kmem_filter by apply keqb_congr. rewrite kmem_matching by exact Wb.
      now destruct (ks_mem k tch), (has_prefix p k), (om_mem k bk). }
    split; [|split].
    - apply om_ext; [now apply wf_del_list, wf_del_list | now apply wf_filter |].
      intro k. rewrite !om_get_del_list by (try apply wf_del_list; exact Wc).
      rewrite om_get_filter by exact Wc. rewrite KD, kmem_matching by exact Wt.
      fold (ks_mem k tch). destruct (has_prefix p k) eqn:P; cbn.
      + destruct (om_get k cur) as [v|] eqn:G.
        * assert (M : om_mem k cur = true) by (unfold om_mem; now rewrite G).
          destruct (ks_mem k tch) eqn:T; cbn.
          -- now rewrite andb_false_r.
          -- rewrite (I2 k M T). reflexivity.
        * now destruct (om_mem k bk && negb (ks_mem k tch)), (ks_mem k tch).
      + reflexivity.
    - now apply wf_fold_add.
    - intro k. rewrite ks_mem_fold_add by exact Wt. rewrite KD.
      now destruct (ks_mem k tch), (has_prefix p k), (om_mem k bk).
  Qed.

  Lemma spec_clear_first n cur' tch' loops all :
    (forall k, has_prefix p k = true -> ks_mem k tch = true -> om_mem k cur = false) ->
    spec_clear cur bk tch p (Some n) = (cur', tch', loops, all) ->
    let del := firstn (N.to_nat n) (matching_keys p bk) in
    cur' = om_del_list del cur /\ wf tch' /\
    forall k, ks_mem k tch' = kmem k del || ks_mem k tch.
  Proof.
    intros A. unfold spec_clear. fold (matching_keys p bk). fold (matching_keys p tch).
    destruct (remove_from_backend (matching_keys p bk) tch (Some n) 0 0 []) as [[del lp] al] eqn:R.
    intros [= <- <- _ _].
    assert (D : del = filter (fun k => negb (ks_mem k tch)) (firstn (N.to_nat n) (matching_keys p bk))).
    { pose proof (f_equal (fun x => fst (fst x)) R) as R'. cbn in R'. rewrite <- R'.
      rewrite rfb_some by lia. now rewrite N.sub_0_r. }
    cbn zeta. set (fs := firstn (N.to_nat n) (matching_keys p bk)) in *.
    assert (FP : forall k, kmem k fs = true -> has_prefix p k = true).
    { intros k I. apply kmem_firstn_in in I. rewrite kmem_matching in I by exact Wb.
      now apply andb_prop in I as [P _]. }
    assert (KD : forall k, kmem k del = kmem k fs && negb (ks_mem k tch)).
    { intro k. rewrite D. rewrite kmem_filter by apply keqb_congr. apply andb_comm. }
    split; [|split].
    - apply om_ext; [now apply wf_del_list, wf_del_list | now apply wf_del_list |].
      intro k. rewrite !om_get_del_list by (try apply wf_del_list; exact Wc).
      rewrite KD, kmem_matching by exact Wt. fold (ks_mem k tch).
      destruct (kmem k fs) eqn:F; cbn [andb].
      + rewrite (FP k F). cbn [andb]. destruct (ks_mem k tch) eqn:T; cbn [negb]; [|reflexivity].
        specialize (A k (FP k F) T). unfold om_mem in A. now destruct (om_get k cur).
      + destruct (has_prefix p k && ks_mem k tch) eqn:PT; [|reflexivity].
        apply andb_prop in PT as [P T]. specialize (A k P T). unfold om_mem in A.
        now destruct (om_get k cur).
    - now apply wf_fold_add.
    - intro k. rewrite ks_mem_fold_add by exact Wt. rewrite KD.
      now destruct (kmem k fs), (ks_mem k tch).
  Qed.
End SpecClear.

(* ------------------------------------------------------------------ Go: clearPrefix on one diff *)

Section GoClear.
  Variables (m : omap val) (d : sdiff) (p : key).
  Hypotheses (Wm : wf m) (Sd : sd_wf d).

  Let stateKeys := matching_keys p m.
  Let S := filter (fun k => negb (om_mem k (ups d))) stateKeys.
  Let ks := keys_to_clear (ups d) stateKeys.

  Lemma ks_in k : In k ks <-> In k (om_keys (ups d)) \/ In k S.
  Proof. unfold ks, keys_to_clear. apply kmerge_in. Qed.

  Lemma cnt_ks : cnt p (om_keys (ups d)) ks = length S.
  Proof.
    unfold cnt, ks, keys_to_clear. fold S. rewrite kmerge_filter_split; [reflexivity| |].
    - intros x I. apply kmem_in in I. rewrite I. now rewrite andb_false_r.
    - intros y I. unfold S in I. apply filter_In in I as [I N].
      unfold stateKeys, matching_keys in I. apply filter_In in I as [_ P]. rewrite P. cbn.
      rewrite kmem_keys by apply Sd. exact N.
  Qed.

  Lemma go_clear_all limit :
    (limit < 0 \/ Z.of_nat (length S) < limit)%Z ->
    let del := rev (cp_loop p (om_keys (ups d)) ks limit []) in
    mview m (fold_left sd_delete del d) = om_filter (fun k => negb (has_prefix p k)) (mview m d) /\
    forall k, tg (fold_left sd_delete del d) k = tg d k || (has_prefix p k && om_mem k m).
  Proof.
    intro Big. cbn zeta.
    rewrite cp_loop_all by (rewrite cnt_ks; exact Big). rewrite app_nil_r, rev_involutive.
    set (del := filter (has_prefix p) ks).
    assert (KD : forall k, kmem k del = has_prefix p k && (om_mem k (ups d) || om_mem k m)).
    { intro k. unfold del. rewrite kmem_filter by apply keqb_congr.
      destruct (has_prefix p k) eqn:P; cbn; [|reflexivity].
      destruct (kmem k ks) eqn:E.
      - apply kmem_in, ks_in in E as [I|I].
        + apply kmem_in in I. rewrite kmem_keys in I by apply Sd. now rewrite I.
        + unfold S in I. apply filter_In in I as [I _]. apply kmem_in in I.
          unfold stateKeys in I. rewrite kmem_matching in I by exact Wm.
          apply andb_prop in I as [_ I]. rewrite I. now rewrite orb_true_r.
      - destruct (om_mem k (ups d)) eqn:U; cbn.
        + assert (I : In k ks) by (apply ks_in; left; apply kmem_in; now rewrite kmem_keys by apply Sd).
          apply kmem_in in I. congruence.
        + destruct (om_mem k m) eqn:M; [|reflexivity].
          assert (I : In k ks).
          { apply ks_in; right. unfold S. apply filter_In. split; [|now rewrite U].
            apply kmem_in. unfold stateKeys. rewrite kmem_matching by exact Wm. now rewrite P, M. }
          apply kmem_in in I. congruence. }
    pose proof (mview_wf m d Wm Sd) as Wv. split.
    - rewrite mview_delete_list by assumption.
      apply om_ext; [now apply wf_del_list | now apply wf_filter |].
      intro k. rewrite om_get_del_list, om_get_filter by exact Wv. rewrite KD.
      destruct (has_prefix p k) eqn:P; cbn; [|reflexivity].
      destruct (om_get k (mview m d)) eqn:G; [|now destruct (om_mem k (ups d) || om_mem k m)].
      assert (M : om_mem k (mview m d) = true) by (unfold om_mem; now rewrite G).
      rewrite mview_mem in M by assumption.
      destruct (om_mem k (ups d)); cbn in *; [reflexivity|].
      apply andb_prop in M as [_ ->]. reflexivity.
    - intro k. rewrite tg_delete_list by exact Sd. rewrite KD. unfold tg.
      now destruct (has_prefix p k), (om_mem k (ups d)), (om_mem k m), (ks_mem k (dels d)).
  Qed.

  Lemma go_clear_first n :
    (forall k, has_prefix p k = true -> om_mem k (ups d) = false) ->
    let del := rev (cp_loop p (om_keys (ups d)) ks (Z.of_N n) []) in
    del = firstn (N.to_nat n) stateKeys.
  Proof.
    intro A. cbn zeta.
    assert (SS : S = stateKeys).
    { unfold S. apply filter_all. intros k I.
      unfold stateKeys, matching_keys in I. apply filter_In in I as [_ P]. now rewrite (A k P). }
    rewrite cp_loop_first; [|intros k _ P; rewrite kmem_keys by apply Sd; now apply A | lia].
    rewrite app_nil_r, rev_involutive. f_equal; [lia|].
    unfold ks, keys_to_clear. fold S. rewrite SS.
    apply kmerge_filter_split.
    - intros x I. apply kmem_in in I. rewrite kmem_keys in I by apply Sd.
      destruct (has_prefix p x) eqn:P; [|reflexivity]. rewrite (A x P) in I. discriminate.
    - intros y I. unfold stateKeys, matching_keys in I. now apply filter_In in I as [_ P].
  Qed.
End GoClear.

(* ------------------------------------------------------------------ the Go loop over any key list *)

Lemma go_clear_all_gen (m : omap val) (d : sdiff) (p : key) (ks : list key) (zl : Z) :
  wf m -> sd_wf d ->
  (forall k, has_prefix p k = true -> kmem k ks = om_mem k (ups d) || om_mem k m) ->
  (zl < 0 \/ Z.of_nat (cnt p (om_keys (ups d)) ks) < zl)%Z ->
  let del := rev (cp_loop p (om_keys (ups d)) ks zl []) in
  mview m (fold_left sd_delete del d) = om_filter (fun k => negb (has_prefix p k)) (mview m d) /\
  forall k, tg (fold_left sd_delete del d) k = tg d k || (has_prefix p k && om_mem k m).
Proof.
  intros Wm Sd HK Big. cbn zeta.
  rewrite cp_loop_all by exact Big. rewrite app_nil_r, rev_involutive.
  set (del := filter (has_prefix p) ks).
  assert (KD : forall k, kmem k del = has_prefix p k && (om_mem k (ups d) || om_mem k m)).
  { intro k. unfold del. rewrite kmem_filter by apply keqb_congr.
    destruct (has_prefix p k) eqn:P; cbn; [now apply HK | reflexivity]. }
  pose proof (mview_wf m d Wm Sd) as Wv. split.
  - rewrite mview_delete_list by assumption.
    apply om_ext; [now apply wf_del_list | now apply wf_filter |].
    intro k. rewrite om_get_del_list, om_get_filter by exact Wv. rewrite KD.
    destruct (has_prefix p k) eqn:P; cbn; [|reflexivity].
    destruct (om_get k (mview m d)) eqn:G; [|now destruct (om_mem k (ups d) || om_mem k m)].
    assert (M : om_mem k (mview m d) = true) by (unfold om_mem; now rewrite G).
    rewrite mview_mem in M by assumption.
    destruct (om_mem k (ups d)); cbn in *; [reflexivity|].
    apply andb_prop in M as [_ ->]. reflexivity.
  - intro k. rewrite tg_delete_list by exact Sd. rewrite KD. unfold tg.
    now destruct (has_prefix p k), (om_mem k (ups d)), (om_mem k m), (ks_mem k (dels d)).
Qed.

Lemma kmerge_filter_length f a : forall b,
  length (filter f (kmerge a b)) = (length (filter f a) + length (filter f b))%nat.
Proof.
  induction a as [|x a IHa]; intro b.
  - now rewrite kmerge_nil_l.
  - induction b as [|y b IHb].
    + rewrite kmerge_nil_r. cbn [filter length]. lia.
    + rewrite kmerge_cons. destruct (kcmp x y); cbn [filter].
      * destruct (f x); cbn [length]; rewrite IHa; cbn [filter]; lia.
      * destruct (f x); cbn [length]; rewrite IHa; cbn [filter]; lia.
      * destruct (f y); cbn [length]; rewrite IHb; cbn [filter]; destruct (f x); cbn [length]; lia.
Qed.

Lemma kmem_kmerge k a b : kmem k (kmerge a b) = kmem k a || kmem k b.
Proof.
  destruct (kmem k (kmerge a b)) eqn:E.
  - apply kmem_in, kmerge_in in E as [I|I]; apply kmem_in in I; rewrite I; [reflexivity | now rewrite orb_true_r].
  - destruct (kmem k a) eqn:A.
    + apply kmem_in in A. assert (I : In k (kmerge a b)) by (apply kmerge_in; now left).
      apply kmem_in in I. congruence.
    + destruct (kmem k b) eqn:B; [|reflexivity].
      apply kmem_in in B. assert (I : In k (kmerge a b)) by (apply kmerge_in; now right).
      apply kmem_in in I. congruence.
Qed.
