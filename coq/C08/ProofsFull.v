(* C08/ProofsFull.v — refinement of the Substrate overlay specification by the model of the
   repaired TrieState/storageDiff: all operations (main and child storage), any nesting. *)
From Common Require Import Bytes.
From C08 Require Import ModelMap Model ModelSpec ModelGuards ProofsMap ProofsDiff ProofsClear
     ProofsTrie ProofsComp ProofsChildren ProofsMain ProofsApply.
Local Open Scope N_scope.

(* ------------------------------------------------------------------ component steps *)

Lemma matching_nil_prefix {V} (m : omap V) : matching_keys [] m = om_keys m.
Proof. unfold matching_keys. apply filter_all. intros; apply has_prefix_nil. Qed.

Lemma matching_keys_nil {V} p : matching_keys p (@nil (key * V)) = [].
Proof. reflexivity. Qed.

Lemma untouched_nil tch p : untouched_matching [] tch p = [].
Proof. reflexivity. Qed.

(* (a) no limit *)
Lemma comp_clear_a bk kl d cur tch p cur' tch' lp al : Comp bk kl d cur tch ->
  spec_clear cur bk tch p None = (cur', tch', lp, al) ->
  Comp bk kl (fold_left sd_delete
               (fst (fst (clear_prefix_keys d p (matching_keys p (cbase bk kl)) (-1)%Z))) d) cur' tch'.
Proof.
  intros C E. unfold clear_prefix_keys. cbn [fst].
  apply (Comp_clear_gen bk kl d cur tch p None (-1)%Z _ cur' tch' lp al C); try assumption.
  - now left.
  - intros k P. apply keys_to_clear_mem; [apply wf_cbase; apply C | apply C | exact P].
  - left. lia.
Qed.

(* (b) a limit, but no committed keys below the transaction: the code clears without limit *)
Lemma comp_clear_b bk kl d cur tch p n cur' tch' lp al : Comp bk kl d cur tch ->
  kl = true \/ bk = [] ->
  spec_clear cur bk tch p (Some n) = (cur', tch', lp, al) ->
  Comp bk kl (fold_left sd_delete
               (fst (fst (clear_prefix_keys d p (matching_keys p (cbase bk kl)) (-1)%Z))) d) cur' tch'.
Proof.
  intros C H E. unfold clear_prefix_keys. cbn [fst].
  apply (Comp_clear_gen bk kl d cur tch p (Some n) (-1)%Z _ cur' tch' lp al C); try assumption.
  - right. exists n. split; [reflexivity|]. intros k I. apply In_skipn' in I.
    destruct H as [->| ->]; [|destruct I].
    now apply (touched_killed bk d cur tch p C).
  - intros k P. apply keys_to_clear_mem; [apply wf_cbase; apply C | apply C | exact P].
  - left. lia.
Qed.

Lemma limit_guard_cases' (m : omap val) d p n : wf m ->
  limit_guard d p (matching_keys p m) n = false ->
  N.of_nat (length (matching_keys p m)) < n \/
  (forall k, has_prefix p k = true -> om_mem k (ups d) = false).
Proof. exact (limit_guard_cases m d p n). Qed.

Lemma go_S_le (m : omap val) d p : (length (go_S_of m d p) <= length (matching_keys p m))%nat.
Proof. apply filter_length_le'. Qed.

(* (c) a limit, committed keys present, outside the finding class *)
Lemma comp_clear_c bk d cur tch p n cur' tch' lp al : Comp bk false d cur tch ->
  limit_guard d p (matching_keys p bk) n = false ->
  spec_clear cur bk tch p (Some n) = (cur', tch', lp, al) ->
  Comp bk false (fold_left sd_delete
                  (fst (fst (clear_prefix_keys d p (matching_keys p bk) (Z.of_N n)))) d) cur' tch'.
Proof.
  intros C G E. unfold clear_prefix_keys. cbn [fst]. pose proof C as [W S Wt V TT].
  destruct (limit_guard_cases' bk d p n W G) as [Big|A1].
  - apply (Comp_clear_gen bk false d cur tch p (Some n) (Z.of_N n) _ cur' tch' lp al C); try assumption.
    + right. exists n. split; [reflexivity|]. rewrite skipn_all2 by lia. intros k [].
    + intros k P. now apply keys_to_clear_mem.
    + right. cbn [cbase]. rewrite keys_to_clear_cnt by exact S. pose proof (go_S_le bk d p). lia.
  - apply (Comp_clear_first bk d cur tch p n _ cur' tch' lp al C A1); [|exact E].
    exact (go_clear_first bk d p S n A1).
Qed.

(* DeleteChildLimit with a limit, outside the finding class *)
Lemma comp_kill_limit bk kl d cur tch n cur' tch' lp al : Comp bk kl d cur tch ->
  limit_guard d [] (om_keys (cbase bk kl)) n = false ->
  spec_clear cur bk tch [] (Some n) = (cur', tch', lp, al) ->
  Comp bk kl (fold_left sd_delete
               (rev (cp_loop [] (om_keys (ups d)) (kmerge (om_keys (cbase bk kl)) (om_keys (ups d)))
                             (Z.of_N n) [])) d) cur' tch'.
Proof.
  intros C G E. pose proof C as [W S Wt V TT].
  assert (Wb : wf (cbase bk kl)) by now apply wf_cbase.
  rewrite <- (matching_nil_prefix (cbase bk kl)) in G.
  destruct (limit_guard_cases' (cbase bk kl) d [] n Wb G) as [Big|A1].
  - apply (Comp_clear_gen bk kl d cur tch [] (Some n) (Z.of_N n) _ cur' tch' lp al C); try assumption.
    + right. exists n. split; [reflexivity|]. destruct kl.
      * intros k I. apply In_skipn' in I. now apply (touched_killed bk d cur tch [] C).
      * cbn [cbase] in Big. rewrite skipn_all2 by lia. intros k [].
    + intros k _. now apply kill_keys_mem.
    + right. rewrite kill_keys_cnt by assumption. pose proof (go_S_le (cbase bk kl) d []). lia.
  - (* no upsert at all *)
    assert (U : ups d = []).
    { destruct (ups d) as [|[k v] r] eqn:EU; [reflexivity|]. specialize (A1 k (has_prefix_nil k)).
      unfold om_mem in A1. cbn in A1. rewrite kcmp_refl in A1. discriminate. }
    rewrite U. cbn [om_keys map]. rewrite kmerge_nil_r.
    rewrite cp_loop_first; [|intros; reflexivity | lia]. rewrite app_nil_r, rev_involutive.
    rewrite (filter_all (has_prefix [])) by (intros; apply has_prefix_nil).
    replace (Z.to_nat (Z.of_N n)) with (N.to_nat n) by lia.
    destruct kl.
    + cbn [cbase om_keys map]. rewrite firstn_nil. cbn [fold_left].
      apply (Comp_clear_noop bk d cur tch [] (Some n) cur' tch' lp al C); [|exact E].
      intros k _. now rewrite U.
    + cbn [cbase] in *.
      assert (GD : rev (cp_loop [] (om_keys (ups d)) (om_keys bk) (Z.of_N n) []) =
                   firstn (N.to_nat n) (matching_keys [] bk)).
      { rewrite U. cbn [om_keys map]. rewrite cp_loop_first; [|intros; reflexivity | lia].
        rewrite app_nil_r, rev_involutive. rewrite (filter_all (has_prefix [])) by (intros; apply has_prefix_nil).
        rewrite matching_nil_prefix. f_equal. lia. }
      pose proof (Comp_clear_first bk d cur tch [] n (om_keys bk) cur' tch' lp al C A1 GD E) as R.
      rewrite GD in R. rewrite matching_nil_prefix in R. exact R.
Qed.

(* ------------------------------------------------------------------ the simulation relation *)

Record GLR (b : backing) (D : diff) (l : slevel) : Prop := {
  g_dwf : dwf D;
  g_main : Comp (bk_main b) false (d_main D) (c_main (view l)) (t_main l);
  g_vcanon : canon (c_children (view l));
  g_tcwf : wf (t_children l);
  g_comp : forall c, Comp (gch (bk_children b) c) (ks_mem c (d_killed D)) (child_changes D c)
                          (gch (c_children (view l)) c) (touched_child l c);
}.

Record GSR (s : tstate) (t : sstate) : Prop := {
  gs_bwf : bwf (ts_state s);
  gs_main : c_main (backend t) = bk_main (ts_state s);
  gs_children : c_children (backend t) = bk_children (ts_state s);
  gs_levels : Forall2 (GLR (ts_state s)) (ts_txs s) (levels t);
}.

Lemma GSR_init : GSR ts_init ss_init.
Proof.
  split; cbn; try reflexivity; [|constructor].
  split; cbn; [apply wf_nil | apply canon_nil | reflexivity].
Qed.

Lemma GLR_backend b bkd : bwf b -> c_main bkd = bk_main b -> c_children bkd = bk_children b ->
  GLR b d_empty (mk_slevel bkd [] []).
Proof.
  intros B M C. split; cbn.
  - apply dwf_empty.
  - rewrite M. apply Comp_init. apply B.
  - rewrite C. apply B.
  - apply wf_nil.
  - intro c. rewrite C. apply Comp_init. apply gch_wf. apply B.
Qed.

Lemma child_changes_put D c cd c' : wf (d_children D) ->
  child_changes (mk_diff (d_main D) (om_put c cd (d_children D)) (d_killed D)) c' =
  if keqb c' c then cd else child_changes D c'.
Proof.
  intro W. unfold child_changes. cbn. rewrite om_get_put by exact W. now destruct (keqb c' c).
Qed.

Lemma touched_child_put l v tm c t' c' : wf (t_children l) ->
  touched_child (mk_slevel v tm (om_put c t' (t_children l))) c' =
  if keqb c' c then t' else touched_child l c'.
Proof.
  intro W. unfold touched_child. cbn. rewrite om_get_put by exact W. now destruct (keqb c' c).
Qed.

Lemma GLR_main_update b D l dm' m' t' : GLR b D l ->
  Comp (bk_main b) false dm' m' t' ->
  GLR b (mk_diff dm' (d_children D) (d_killed D))
      (mk_slevel (mk_cstate m' (c_children (view l))) t' (t_children l)).
Proof.
  intros [[Sm Wc Hc Wk] Cm Cn Wt Cc] C'. split; cbn; try assumption.
  split; cbn; try assumption. apply C'.
Qed.

Lemma GLR_child_update b D l c cd' m' t' : GLR b D l ->
  Comp (gch (bk_children b) c) (ks_mem c (d_killed D)) cd' m' t' ->
  GLR b (mk_diff (d_main D) (om_put c cd' (d_children D)) (d_killed D))
      (mk_slevel (cs_set_child (view l) c m') (t_main l) (om_put c t' (t_children l))).
Proof.
  intros [[Sm Wc Hc Wk] Cm Cn Wt Cc] C'. pose proof (Comp_wf_cur _ _ _ _ _ C') as Wm'.
  split; cbn [view t_main t_children d_main d_children d_killed];
    rewrite ?cs_set_child_children; change (c_main (cs_set_child (view l) c m')) with (c_main (view l)).
  - split; cbn; try assumption; [now apply wf_put|].
    intros c0 cd0 G. rewrite om_get_put in G by exact Wc. destruct (keqb c0 c).
    + injection G as <-. apply C'.
    + now apply (Hc c0).
  - exact Cm.
  - now apply canon_set_child.
  - now apply wf_put.
  - intro c0. rewrite gch_set_child by apply Cn.
    rewrite (touched_child_put l _ _ c t' c0 Wt).
    rewrite (child_changes_put D c cd' c0 Wc).
    destruct (keqb c0 c) eqn:E; [|apply Cc]. apply keqb_eq in E. subst c0. exact C'.
Qed.

Lemma GLR_child_kill b D l c m' t' : GLR b D l ->
  Comp (gch (bk_children b) c) true sd_empty m' t' ->
  GLR b (mk_diff (d_main D) (om_del c (d_children D)) (ks_add c (d_killed D)))
      (mk_slevel (cs_set_child (view l) c m') (t_main l) (om_put c t' (t_children l))).
Proof.
  intros [[Sm Wc Hc Wk] Cm Cn Wt Cc] C'. pose proof (Comp_wf_cur _ _ _ _ _ C') as Wm'.
  split; cbn [view t_main t_children d_main d_children d_killed];
    rewrite ?cs_set_child_children; change (c_main (cs_set_child (view l) c m')) with (c_main (view l)).
  - split; cbn; try assumption; [now apply wf_del | | unfold ks_add; now apply wf_put].
    intros c0 cd0 G. rewrite om_get_del in G by exact Wc. destruct (keqb c0 c); [discriminate|].
    now apply (Hc c0).
  - exact Cm.
  - now apply canon_set_child.
  - now apply wf_put.
  - intro c0. rewrite gch_set_child by apply Cn.
    rewrite (touched_child_put l _ _ c t' c0 Wt).
    rewrite ks_mem_add by exact Wk.
    unfold child_changes. cbn [d_children]. rewrite om_get_del by exact Wc.
    destruct (keqb c0 c) eqn:E.
    + apply keqb_eq in E. subst c0. cbn. exact C'.
    + cbn. apply Cc.
Qed.

Lemma GLR_noop_child b D l c m' t' : GLR b D l -> om_get c (d_children D) = None ->
  Comp (gch (bk_children b) c) (ks_mem c (d_killed D)) sd_empty m' t' ->
  GLR b D (mk_slevel (cs_set_child (view l) c m') (t_main l) (om_put c t' (t_children l))).
Proof.
  intros [[Sm Wc Hc Wk] Cm Cn Wt Cc] EC C'. pose proof (Comp_wf_cur _ _ _ _ _ C') as Wm'.
  split; cbn [view t_main t_children];
    rewrite ?cs_set_child_children; change (c_main (cs_set_child (view l) c m')) with (c_main (view l)).
  - now split.
  - exact Cm.
  - now apply canon_set_child.
  - now apply wf_put.
  - intro c0. rewrite gch_set_child by apply Cn.
    rewrite (touched_child_put l _ _ c t' c0 Wt).
    destruct (keqb c0 c) eqn:E; [|apply Cc]. apply keqb_eq in E. subst c0.
    unfold child_changes. rewrite EC. exact C'.
Qed.

Lemma Comp_nil_kl kl1 kl2 d cur tch : Comp [] kl1 d cur tch -> Comp [] kl2 d cur tch.
Proof.
  intros [W S Wt V TT]. split; try assumption.
  - rewrite V. now destruct kl1, kl2.
  - intros k Rel. rewrite (TT k Rel). rewrite om_mem_nil. now rewrite !andb_false_r.
Qed.

(* ------------------------------------------------------------------ steps inside a transaction *)

Lemma GSR_top b bkd D' l' txs lvls : bwf b -> c_main bkd = bk_main b -> c_children bkd = bk_children b ->
  GLR b D' l' -> Forall2 (GLR b) txs lvls ->
  GSR (mk_tstate b (D' :: txs)) (mk_sstate bkd (l' :: lvls)).
Proof. intros B M C R L. split; cbn; try assumption. now constructor. Qed.

Lemma nnd_nil_deleted k (m : omap val) : next_not_deleted k m [] = om_next k m.
Proof.
  induction m as [|[k1 v1] r IH]; [reflexivity|]. cbn. rewrite IH.
  now destruct (kltb k k1).
Qed.

Lemma merge_next_none_l x : merge_next None x = x.
Proof. now destruct x. Qed.

Lemma keys_ext {V W} (m1 : omap V) : forall (m2 : omap W), wf m1 -> wf m2 ->
  (forall k, om_mem k m1 = om_mem k m2) -> om_keys m1 = om_keys m2.
Proof.
  induction m1 as [|[k1 v1] r1 IH]; intros [|[k2 v2] r2] W1 W2 E.
  - reflexivity.
  - specialize (E k2). unfold om_mem in E. cbn in E. rewrite kcmp_refl in E. discriminate.
  - specialize (E k1). unfold om_mem in E. cbn in E. rewrite kcmp_refl in E. discriminate.
  - pose proof (wf_cons_inv _ _ _ W1) as [Wr1 F1]. pose proof (wf_cons_inv _ _ _ W2) as [Wr2 F2].
    assert (K : k1 = k2).
    { pose proof (E k1) as E1. pose proof (E k2) as E2. unfold om_mem in E1, E2. cbn in E1, E2.
      rewrite kcmp_refl in E1, E2.
      destruct (kcmp k1 k2) eqn:C; [now apply kcmp_eq | discriminate |].
      rewrite (kcmp_antisym k1 k2), C in E2. cbn in E2. discriminate. }
    subst k2. cbn. f_equal. apply IH; try assumption.
    intro k. specialize (E k). unfold om_mem in *. cbn in E. destruct (kcmp k k1) eqn:C.
    + apply kcmp_eq in C. subst k.
      rewrite (om_get_lt_none _ _ F1), (om_get_lt_none _ _ F2). reflexivity.
    + rewrite om_get_lt_none, om_get_lt_none; [reflexivity| |];
        eapply Forall_klt_trans; eassumption.
    + exact E.
Qed.

(* GetKeysWithPrefixFromChild (repaired): the merged key list is the visible child's key list *)
Lemma child_keys_merge (st : omap val) (cd : sdiff) : wf st -> sd_wf cd ->
  om_keys (fold_left (fun (acc : kset) k => ks_add k acc)
                     (filter (fun k => negb (ks_mem k (dels cd))) (om_keys st) ++ om_keys (ups cd)) []) =
  om_keys (mview st cd).
Proof.
  intros W S. apply keys_ext; [apply wf_fold_add, wf_nil | now apply mview_wf |].
  intro k. fold (ks_mem k (fold_left (fun (acc : kset) k0 => ks_add k0 acc)
     (filter (fun k0 => negb (ks_mem k0 (dels cd))) (om_keys st) ++ om_keys (ups cd)) [])).
  rewrite ks_mem_fold_add by apply wf_nil. rewrite mview_mem by assumption.
  assert (KA : forall a b, kmem k (a ++ b) = kmem k a || kmem k b).
  { induction a as [|x a IH]; intro b0; [reflexivity|]. cbn. rewrite IH. now rewrite orb_assoc. }
  rewrite KA. rewrite kmem_filter by apply keqb_congr. rewrite !kmem_keys by (try exact W; apply S).
  cbn. rewrite orb_false_r. apply orb_comm.
Qed.

Lemma norm_from_state_get (ch : chmap) c k :
  norm_obs (OCGet c k) (match om_get c ch with None => RErr | Some m => RVal (om_get k m) end) =
  RVal (om_get k (gch ch c)).
Proof. unfold gch. now destruct (om_get c ch). Qed.

Lemma norm_from_state_next (ch : chmap) c k :
  norm_obs (OCNext c k) (match om_get c ch with None => RErr | Some m => RVal (om_next k m) end) =
  RVal (om_next k (gch ch c)).
Proof. unfold gch. now destruct (om_get c ch). Qed.

Lemma norm_from_state_keys (ch : chmap) c p :
  norm_obs (OCKeys c p)
    (match om_get c ch with None => RErr | Some m => RKeys (keys_with_prefix p (om_keys m)) end) =
  RKeys (keys_with_prefix p (om_keys (gch ch c))).
Proof. unfold gch. now destruct (om_get c ch). Qed.

Lemma fold_sd_delete_main_diff del D :
  fold_left (d_delete cfg_fixed) del D =
  mk_diff (fold_left sd_delete del (d_main D)) (d_children D) (d_killed D).
Proof. apply fold_d_delete_main. Qed.

Section StepTx.
  Variables (b : backing) (bkd : cstate) (D : diff) (l : slevel) (txs : list diff) (lvls : list slevel).
  Hypotheses (B : bwf b) (M : c_main bkd = bk_main b) (C : c_children bkd = bk_children b)
             (R : GLR b D l) (L : Forall2 (GLR b) txs lvls).

  Let s := mk_tstate b (D :: txs).
  Let t := mk_sstate bkd (l :: lvls).

  Ltac done_top R' := split; [reflexivity | apply GSR_top; try assumption; exact R'].

  Lemma step_tx_main o : main_op o = true -> step_guard cfg_fixed o s = None ->
    norm_obs o (fst (step cfg_fixed o s)) = norm_obs o (fst (sstep o t)) /\
    GSR (snd (step cfg_fixed o s)) (snd (sstep o t)).
  Proof.
    intros MO G. pose proof R as [Dw Cm Cn Wt Cc].
    destruct o; try discriminate; unfold s, t;
      cbn [step sstep ts_txs ts_state cur_level levels set_level backend with_top with_state fst snd].
    - (* Put *)
      split; [reflexivity|]. apply GSR_top; try assumption.
      apply (GLR_main_update b D l _ _ _ R). now apply Comp_put.
    - (* Get *)
      rewrite (Comp_get _ _ _ _ _ k Cm).
      destruct (sd_get (d_main D) k) as [[v|] [|]]; cbn;
        (split; [reflexivity | apply GSR_top; assumption]).
    - (* Del *)
      split; [reflexivity|]. apply GSR_top; try assumption.
      apply (GLR_main_update b D l _ _ _ R). now apply Comp_del.
    - (* ClearPrefix *)
      cbn [fix_child_prefix cfg_fixed andb].
      destruct (covers_child_keys p) eqn:CK; [split; [reflexivity | apply GSR_top; assumption]|].
      unfold state_keys_cp. cbn [fix_child_prefix cfg_fixed].
      rewrite state_keys_fixed. unfold d_clear_prefix.
      destruct (spec_clear_eta (c_main (view l)) (c_main bkd) (t_main l) p None) as (m' & t' & lp & al & E).
      rewrite E. rewrite M in E.
      pose proof (comp_clear_a _ _ _ _ _ p m' t' lp al Cm E) as C'. cbn [cbase] in C'.
      destruct (clear_prefix_keys (d_main D) p (matching_keys p (bk_main b)) (-1)%Z) as [[del dn] da].
      cbn [fst] in C'. rewrite fold_sd_delete_main_diff. cbn [fst snd].
      split; [reflexivity|]. apply GSR_top; try assumption.
      exact (GLR_main_update b D l _ _ _ R C').
    - (* ClearPrefixLimit *)
      cbn [fix_child_prefix cfg_fixed andb].
      destruct (covers_child_keys p) eqn:CK; [split; [reflexivity | apply GSR_top; assumption]|].
      unfold step_guard in G. cbn [ts_txs ts_state s fix_child_prefix cfg_fixed andb] in G. rewrite CK in G.
      rewrite state_keys_fixed in G.
      destruct (limit_guard (d_main D) p (matching_keys p (bk_main b)) n) eqn:LG; [discriminate|].
      unfold state_keys_cp. cbn [fix_child_prefix cfg_fixed].
      rewrite state_keys_fixed. unfold d_clear_prefix.
      destruct (spec_clear_eta (c_main (view l)) (c_main bkd) (t_main l) p (Some n)) as (m' & t' & lp & al & E).
      rewrite E. rewrite M in E.
      pose proof (comp_clear_c _ _ _ _ p n m' t' lp al Cm LG E) as C'.
      destruct (clear_prefix_keys (d_main D) p (matching_keys p (bk_main b)) (Z.of_N n)) as [[del dn] da].
      cbn [fst] in C'. rewrite fold_sd_delete_main_diff. cbn [fst snd].
      split; [reflexivity|]. apply GSR_top; try assumption.
      exact (GLR_main_update b D l _ _ _ R C').
    - (* Next *)
      rewrite (Comp_next _ _ _ _ _ k Cm). cbn.
      split; [reflexivity | apply GSR_top; assumption].
    - (* Entries *)
      rewrite (cp_view _ _ _ _ _ Cm). cbn.
      split; [reflexivity | apply GSR_top; assumption].
    - (* Start *)
      cbn. split; [reflexivity|]. split; cbn; try assumption. constructor; [exact R|]. now constructor.
    - (* Commit *)
      destruct L as [|D2 l2 txs2 lvls2 R2 L2]; cbn.
      + split; [reflexivity|].
        destruct (apply_diff_spec D b B Dw) as (E1 & B' & E2). cbn zeta in *.
        split; cbn; try assumption; try constructor.
        * rewrite E1. exact (cp_view _ _ _ _ _ Cm).
        * apply canon_ext; [exact Cn | apply B' |]. intro c. rewrite E2.
          exact (cp_view _ _ _ _ _ (Cc c)).
      + split; [reflexivity|]. split; cbn; try assumption. now constructor.
    - (* Rollback *)
      cbn. split; [reflexivity|]. split; cbn; assumption.
  Qed.
End StepTx.

Definition child_op (o : op) : bool :=
  match o with
  | OCSet _ _ _ | OCGet _ _ | OCDel _ _ | OCClearPrefix _ _ | OCClearPrefixLimit _ _ _
  | OCNext _ _ | OKill _ | OKillLimit _ _ | OCKeys _ _ => true
  | _ => false
  end.

Lemma main_or_child o : main_op o = true \/ child_op o = true.
Proof. destruct o; cbn; auto. Qed.

Section StepTxChild.
  Variables (b : backing) (bkd : cstate) (D : diff) (l : slevel) (txs : list diff) (lvls : list slevel).
  Hypotheses (B : bwf b) (M : c_main bkd = bk_main b) (C : c_children bkd = bk_children b)
             (R : GLR b D l) (L : Forall2 (GLR b) txs lvls).

  Let s := mk_tstate b (D :: txs).
  Let t := mk_sstate bkd (l :: lvls).

  (* the committed child below the transaction, as the code sees it *)
  Lemma child_on_state_base c :
    match child_on_state cfg_fixed D b c with Some m => m | None => [] end =
    cbase (gch (bk_children b) c) (ks_mem c (d_killed D)).
  Proof.
    unfold child_on_state, bk_get_child, gch. cbn [fix_child_ns cfg_fixed andb].
    destruct (ks_mem c (d_killed D)); [reflexivity|]. cbn [cbase]. now destruct (om_get c (bk_children b)).
  Qed.

  Lemma child_on_state_none c : child_on_state cfg_fixed D b c = None ->
    ks_mem c (d_killed D) = true \/ gch (bk_children b) c = [].
  Proof.
    unfold child_on_state, bk_get_child, gch. cbn [fix_child_ns cfg_fixed andb].
    destruct (ks_mem c (d_killed D)); [now left|]. destruct (om_get c (bk_children b)); [discriminate | now right].
  Qed.

  Lemma child_on_state_some c m : child_on_state cfg_fixed D b c = Some m ->
    ks_mem c (d_killed D) = false /\ gch (bk_children b) c = m.
  Proof.
    unfold child_on_state, bk_get_child, gch. cbn [fix_child_ns cfg_fixed andb].
    destruct (ks_mem c (d_killed D)); [discriminate|]. intro H. rewrite H. now split.
  Qed.

  Lemma step_tx_child o : child_op o = true -> step_guard cfg_fixed o s = None ->
    norm_obs o (fst (step cfg_fixed o s)) = norm_obs o (fst (sstep o t)) /\
    GSR (snd (step cfg_fixed o s)) (snd (sstep o t)).
  Proof.
    intros CO G. pose proof R as [Dw Cm Cn Wt Cc].
    destruct o; try discriminate; unfold s, t;
      cbn [step sstep ts_txs ts_state cur_level levels set_level backend with_top with_state fst snd].
    - (* SetChildStorage *)
      split; [reflexivity|]. apply GSR_top; try assumption.
      unfold d_upsert_child. cbn [fix_child_ns fix_child_reset cfg_fixed]. unfold touch_child.
      apply (GLR_child_update b D l c _ _ _ R). apply Comp_put. apply Cc.
    - (* GetChildStorage *)
      change (cs_child (view l) c) with (gch (c_children (view l)) c).
      rewrite (Comp_get _ _ _ _ _ k (Cc c)).
      unfold child_gone. cbn [fix_child_ns cfg_fixed andb]. unfold child_changes, bk_get_child.
      destruct (om_get c (d_children D)) as [cd|] eqn:EC.
      + cbn [andb]. destruct (sd_get cd k) as [[v|] [|]]; cbn [norm_obs];
          try (split; [reflexivity | apply GSR_top; assumption]).
        destruct (ks_mem c (d_killed D)); cbn [norm_obs].
        * split; [reflexivity | apply GSR_top; assumption].
        * unfold gch. destruct (om_get c (bk_children b)); cbn;
            (split; [reflexivity | apply GSR_top; assumption]).
      + cbn [andb sd_get sd_empty ups dels om_get ks_mem om_mem].
        destruct (ks_mem c (d_killed D)); cbn [norm_obs].
        * split; [reflexivity | apply GSR_top; assumption].
        * unfold gch. destruct (om_get c (bk_children b)); cbn;
            (split; [reflexivity | apply GSR_top; assumption]).
    - (* ClearChildStorage *)
      split; [reflexivity|]. apply GSR_top; try assumption.
      unfold d_delete_from_child, touch_child.
      apply (GLR_child_update b D l c _ _ _ R). apply Comp_del. apply Cc.
    - (* ClearPrefixInChild *)
      change (cs_child (view l) c) with (gch (c_children (view l)) c).
      change (cs_child bkd c) with (gch (c_children bkd) c). rewrite C.
      destruct (spec_clear_eta (gch (c_children (view l)) c) (gch (bk_children b) c) (touched_child l c) p None)
        as (m' & t' & lp & al & E). rewrite E.
      pose proof (comp_clear_a _ _ _ _ _ p m' t' lp al (Cc c) E) as C'.
      unfold d_clear_prefix_in_child.
      assert (KS : match child_on_state cfg_fixed D b c with
                   | Some m => state_keys_with_prefix cfg_fixed m p | None => [] end =
                   matching_keys p (cbase (gch (bk_children b) c) (ks_mem c (d_killed D)))).
      { rewrite <- child_on_state_base. destruct (child_on_state cfg_fixed D b c); [apply state_keys_fixed | reflexivity]. }
      rewrite KS.
      destruct (clear_prefix_keys (child_changes D c) p _ (-1)%Z) as [[del dn] da]. cbn [fst] in C'.
      cbn [fst snd]. split; [reflexivity|]. apply GSR_top; try assumption.
      exact (GLR_child_update b D l c _ _ _ R C').
    - (* ClearPrefixInChildWithLimit *)
      change (cs_child (view l) c) with (gch (c_children (view l)) c).
      change (cs_child bkd c) with (gch (c_children bkd) c). rewrite C.
      destruct (spec_clear_eta (gch (c_children (view l)) c) (gch (bk_children b) c) (touched_child l c) p (Some n))
        as (m' & t' & lp & al & E). rewrite E.
      unfold step_guard in G. cbn [ts_txs ts_state s] in G.
      destruct (child_on_state cfg_fixed D b c) as [m|] eqn:CS.
      + destruct (child_on_state_some c m CS) as [K Gm].
        rewrite state_keys_fixed in G. rewrite state_keys_fixed.
        destruct (limit_guard (child_changes D c) p (matching_keys p m) n) eqn:LG; [discriminate|].
        pose proof (Cc c) as Ccc. rewrite K, Gm in Ccc. rewrite Gm in E.
        pose proof (comp_clear_c _ _ _ _ p n m' t' lp al Ccc LG E) as C'.
        unfold d_clear_prefix_in_child.
        destruct (clear_prefix_keys (child_changes D c) p (matching_keys p m) (Z.of_N n)) as [[del dn] da].
        cbn [fst] in C'. cbn [fst snd]. split; [reflexivity|]. apply GSR_top; try assumption.
        apply (GLR_child_update b D l c _ _ _ R). now rewrite K, Gm.
      + pose proof (comp_clear_b _ _ _ _ _ p n m' t' lp al (Cc c) (child_on_state_none c CS) E) as C'.
        unfold d_clear_prefix_in_child.
        assert (KS : @nil key = matching_keys p (cbase (gch (bk_children b) c) (ks_mem c (d_killed D)))).
        { rewrite <- child_on_state_base, CS. reflexivity. }
        rewrite KS.
        destruct (clear_prefix_keys (child_changes D c) p _ (-1)%Z) as [[del dn] da]. cbn [fst] in C'.
        cbn [fst snd]. split; [reflexivity|]. apply GSR_top; try assumption.
        exact (GLR_child_update b D l c _ _ _ R C').
    - (* GetChildNextKey *)
      change (cs_child (view l) c) with (gch (c_children (view l)) c).
      rewrite (Comp_next _ _ _ _ _ k (Cc c)).
      unfold child_gone. cbn [fix_child_ns cfg_fixed]. unfold child_changes, bk_get_child.
      destruct (om_get c (d_children D)) as [cd|] eqn:EC.
      + cbn [andb]. destruct (child_on_state cfg_fixed D b c) as [m|] eqn:CS.
        * destruct (child_on_state_some c m CS) as [K Gm]. rewrite K, Gm. cbn.
          split; [reflexivity | apply GSR_top; assumption].
        * destruct (child_on_state_none c CS) as [K|Gm].
          -- rewrite K. cbn. split; [reflexivity | apply GSR_top; assumption].
          -- rewrite Gm. destruct (ks_mem c (d_killed D)); cbn;
               (split; [reflexivity | apply GSR_top; assumption]).
      + cbn [andb sd_empty ups dels om_next]. rewrite merge_next_none_l.
        destruct (ks_mem c (d_killed D)); cbn [norm_obs].
        * split; [reflexivity | apply GSR_top; assumption].
        * rewrite nnd_nil_deleted. unfold gch. destruct (om_get c (bk_children b)); cbn;
            (split; [reflexivity | apply GSR_top; assumption]).
    - (* DeleteChild *)
      change (cs_child (view l) c) with (gch (c_children (view l)) c).
      change (cs_child bkd c) with (gch (c_children bkd) c). rewrite C.
      destruct (spec_clear_eta (gch (c_children (view l)) c) (gch (bk_children b) c) (touched_child l c) [] None)
        as (m' & t' & lp & al & E). rewrite E.
      destruct (Comp_kill _ _ _ _ _ m' t' lp al (Cc c) E) as [_ C'].
      split; [reflexivity|]. apply GSR_top; try assumption.
      unfold d_kill. cbn [fix_child_ns cfg_fixed].
      exact (GLR_child_kill b D l c _ _ R C').
    - (* DeleteChildLimit *)
      change (cs_child (view l) c) with (gch (c_children (view l)) c).
      change (cs_child bkd c) with (gch (c_children bkd) c). rewrite C.
      destruct (spec_clear_eta (gch (c_children (view l)) c) (gch (bk_children b) c) (touched_child l c) [] lim)
        as (m' & t' & lp & al & E). rewrite E.
      assert (CUR : match child_on_state cfg_fixed D b c with Some m => om_keys m | None => [] end =
                    om_keys (cbase (gch (bk_children b) c) (ks_mem c (d_killed D)))).
      { rewrite <- child_on_state_base. now destruct (child_on_state cfg_fixed D b c). }
      (* the component after the step *)
      assert (C' : exists cd' kl',
                 Comp (gch (bk_children b) c) kl' cd' m' t' /\
                 (cd', kl') =
                 match lim with
                 | Some n => (fold_left sd_delete
                                (rev (cp_loop [] (om_keys (ups (child_changes D c)))
                                   (kmerge (match child_on_state cfg_fixed D b c with Some m => om_keys m | None => [] end)
                                           (om_keys (ups (child_changes D c)))) (Z.of_N n) []))
                                (child_changes D c), ks_mem c (d_killed D))
                 | None => (sd_empty, true)
                 end).
      { destruct lim as [n|].
        - unfold step_guard in G. cbn [ts_txs ts_state s] in G. rewrite CUR in G.
          destruct (limit_guard (child_changes D c) [] _ n) eqn:LG; [discriminate|].
          eexists; eexists; split; [|reflexivity]. rewrite CUR.
          exact (comp_kill_limit _ _ _ _ _ n m' t' lp al (Cc c) LG E).
        - eexists; eexists; split; [|reflexivity].
          now destruct (Comp_kill _ _ _ _ _ m' t' lp al (Cc c) E). }
      destruct C' as (cd' & kl' & C' & EQ).
      destruct (child_on_state cfg_fixed D b c) as [m|] eqn:CS;
        destruct (om_get c (d_children D)) as [cd|] eqn:EC.
      4: { (* no committed child and no pending change: an error, nothing changes *)
        cbn [fst snd norm_obs]. split; [reflexivity|]. apply GSR_top; try assumption.
        apply (GLR_noop_child b D l c m' t' R EC).
        assert (BE : cbase (gch (bk_children b) c) (ks_mem c (d_killed D)) = [])
          by (rewrite <- child_on_state_base, CS; reflexivity).
        destruct lim as [n|]; injection EQ as -> ->.
        - unfold child_changes in C'. rewrite EC in C'. cbn in C'. exact C'.
        - destruct (child_on_state_none c CS) as [K|Gm]; [now rewrite K|].
          rewrite Gm in *. now apply (Comp_nil_kl true). }
      all: unfold d_delete_child_limit; destruct lim as [n|]; cbn [lim_z];
        [replace (Z.of_N n =? -1)%Z with false by (symmetry; apply Z.eqb_neq; lia) | cbn [Z.eqb]];
        cbn [fst snd]; injection EQ as -> ->;
        (split; [reflexivity | apply GSR_top; try assumption]);
        try exact (GLR_child_update b D l c _ _ _ R C');
        (unfold d_kill; cbn [fix_child_ns cfg_fixed]; exact (GLR_child_kill b D l c _ _ R C')).
    - (* GetKeysWithPrefixFromChild *)
      change (cs_child (view l) c) with (gch (c_children (view l)) c).
      rewrite (cp_view _ _ _ _ _ (Cc c)).
      unfold child_gone. cbn [fix_child_ns fix_child_keys cfg_fixed]. unfold child_changes, bk_get_child.
      destruct (om_get c (d_children D)) as [cd|] eqn:EC.
      + cbn [andb].
        assert (Scd : sd_wf cd) by (apply (dwf_child D Dw c); exact EC).
        assert (Wst : wf (cbase (gch (bk_children b) c) (ks_mem c (d_killed D))))
          by (apply wf_cbase, gch_wf; apply B).
        rewrite (child_on_state_base c). rewrite (child_keys_merge _ cd Wst Scd).
        destruct (child_on_state cfg_fixed D b c);
          [cbn; split; [reflexivity | apply GSR_top; assumption]|].
        destruct (om_keys (mview _ cd)); cbn;
          (split; [reflexivity | apply GSR_top; assumption]).
      + destruct (ks_mem c (d_killed D)); cbn [andb cbase].
        * cbn. split; [reflexivity | apply GSR_top; assumption].
        * rewrite mview_empty. unfold gch. destruct (om_get c (bk_children b)); cbn;
            (split; [reflexivity | apply GSR_top; assumption]).
  Qed.
End StepTxChild.

(* ------------------------------------------------------------------ steps outside any transaction *)

Lemma del_matching_filter (m : omap val) p : wf m ->
  om_del_list (matching_keys p m) m = om_filter (fun k => negb (has_prefix p k)) m.
Proof.
  intro W. apply om_ext; [now apply wf_del_list | now apply wf_filter |]. intro k.
  rewrite om_get_del_list, om_get_filter by exact W. rewrite kmem_matching by exact W.
  destruct (has_prefix p k); cbn; [|reflexivity]. unfold om_mem. now destruct (om_get k m).
Qed.

(* the spec's clear on the backend itself (empty overlay) *)
Lemma spec_clear_direct_all (m : omap val) p m' t' lp al : wf m ->
  spec_clear m m [] p None = (m', t', lp, al) -> m' = om_filter (fun k => negb (has_prefix p k)) m.
Proof.
  intros W E.
  assert (I2 : forall k, om_mem k m = true -> ks_mem k [] = false -> om_mem k m = true) by (intros k Hk _; exact Hk).
  now destruct (spec_clear_all m m [] p W W wf_nil I2 None m' t' lp al (or_introl eq_refl) E) as (E1 & _ & _).
Qed.

Lemma spec_clear_direct_first (m : omap val) p n m' t' lp al : wf m ->
  spec_clear m m [] p (Some n) = (m', t', lp, al) ->
  m' = om_del_list (firstn (N.to_nat n) (matching_keys p m)) m.
Proof.
  intros W E.
  assert (I2 : forall k, om_mem k m = true -> ks_mem k [] = false -> om_mem k m = true) by (intros k Hk _; exact Hk).
  assert (A0 : forall k, has_prefix p k = true -> ks_mem k [] = true -> om_mem k m = false)
    by (intros k _ T; discriminate).
  now destruct (spec_clear_first m m [] p W W wf_nil I2 n m' t' lp al A0 E) as (E1 & _ & _).
Qed.

Lemma om_del_absent {V} c (ch : omap V) : wf ch -> om_get c ch = None -> om_del c ch = ch.
Proof.
  intros W G. apply om_ext; [now apply wf_del | exact W |]. intro c'.
  rewrite om_get_del by exact W. destruct (keqb c' c) eqn:K; [|reflexivity].
  apply keqb_eq in K. subst. now rewrite G.
Qed.

Lemma GSR_direct b' bkd' : bwf b' -> c_main bkd' = bk_main b' -> c_children bkd' = bk_children b' ->
  GSR (mk_tstate b' []) (mk_sstate bkd' []).
Proof. intros B M C. split; cbn; try assumption. constructor. Qed.

Lemma bwf_main b m' : bwf b -> wf m' -> bwf (mk_backing m' (bk_children b) (bk_stale b)).
Proof. intros [W C S] W'. now split. Qed.

Section StepDirect.
  Variables (b : backing) (bkd : cstate).
  Hypotheses (B : bwf b) (M : c_main bkd = bk_main b) (C : c_children bkd = bk_children b).

  Let s := mk_tstate b [].
  Let t := mk_sstate bkd [].

  Lemma step_direct o : step_guard cfg_fixed o s = None ->
    norm_obs o (fst (step cfg_fixed o s)) = norm_obs o (fst (sstep o t)) /\
    GSR (snd (step cfg_fixed o s)) (snd (sstep o t)).
  Proof.
    intros G. destruct bkd as [bm bc]. cbn in M, C. subst bm bc.
    pose proof B as [Wm Cn St]. pose proof Cn as [Wch Hch].
    destruct o; unfold s, t;
      cbn [step sstep ts_txs ts_state cur_level levels set_level backend with_top with_state fst snd
           view t_main t_children c_main c_children touch_main touch_child touched_child om_get].
    - (* Put *) split; [reflexivity|]. apply GSR_direct; try reflexivity.
      unfold bk_put. apply bwf_main; [exact B | now apply wf_put].
    - (* Get *) split; [reflexivity|]. now apply GSR_direct.
    - (* Del *) split; [reflexivity|]. apply GSR_direct; try reflexivity.
      unfold bk_del. apply bwf_main; [exact B | now apply wf_del].
    - (* ClearPrefix *)
      cbn [fix_child_prefix cfg_fixed].
      destruct (covers_child_keys p) eqn:CK; [split; [reflexivity | now apply GSR_direct]|].
      destruct (spec_clear_eta (bk_main b) (bk_main b) [] p None) as (m' & t' & lp & al & E). rewrite E.
      rewrite (spec_clear_direct_all _ p m' t' lp al Wm E). cbn [fst snd].
      split; [reflexivity|]. apply GSR_direct; try reflexivity.
      apply bwf_main; [exact B | now apply wf_filter].
    - (* ClearPrefixLimit *)
      cbn [fix_child_prefix cfg_fixed].
      destruct (covers_child_keys p) eqn:CK; [split; [reflexivity | now apply GSR_direct]|].
      destruct (spec_clear_eta (bk_main b) (bk_main b) [] p (Some n)) as (m' & t' & lp & al & E). rewrite E.
      rewrite (spec_clear_direct_first _ p n m' t' lp al Wm E).
      unfold step_guard in G. cbn [ts_txs ts_state s fix_child_prefix cfg_fixed andb] in G. rewrite CK in G.
      destruct (order_guard (bk_main b) p n) eqn:OG; [discriminate|].
      pose proof (trie_clear_limit_lex (bk_main b) p n Wm OG) as TL.
      destruct (trie_clear_prefix_limit (bk_main b) p n) as [[mg dg] ag]. cbn in TL. subst mg.
      cbn [fst snd]. split; [reflexivity|]. apply GSR_direct; try reflexivity.
      apply bwf_main; [exact B | now apply wf_del_list].
    - (* Next *) split; [reflexivity|]. now apply GSR_direct.
    - (* Entries *) split; [reflexivity|]. now apply GSR_direct.
    - (* Start *) split; [reflexivity|]. split; cbn; try assumption; try reflexivity.
      constructor; [|constructor]. now apply GLR_backend.
    - (* Commit *) split; [reflexivity|]. now apply GSR_direct.
    - (* Rollback *) split; [reflexivity|]. now apply GSR_direct.
    - (* SetChildStorage *)
      split; [reflexivity|]. rewrite bk_put_into_child_spec by exact B.
      apply GSR_direct; try reflexivity.
      apply bwf_set; [exact B|]. apply wf_put. now apply gch_wf.
    - (* GetChildStorage *)
      unfold bk_get_child, cs_child. cbn [c_children].
      destruct (om_get c (bk_children b)); cbn; (split; [reflexivity | now apply GSR_direct]).
    - (* ClearChildStorage *)
      change (cs_child {| c_main := bk_main b; c_children := bk_children b |} c) with (gch (bk_children b) c).
      pose proof (clear_or_skip_spec b c k B) as CS. unfold clear_or_skip in CS.
      destruct (bk_clear_from_child b c k) as [b'|]; cbn [fst snd norm_obs]; (split; [reflexivity|]).
      + rewrite CS. apply GSR_direct; try reflexivity.
        apply bwf_set; [exact B|]. apply wf_del. now apply gch_wf.
      + apply GSR_direct; [exact B | reflexivity |].
        apply (f_equal bk_children) in CS. cbn in CS. cbn. now symmetry.
    - (* ClearPrefixInChild *)
      change (cs_child {| c_main := bk_main b; c_children := bk_children b |} c) with (gch (bk_children b) c).
      pose proof (gch_wf _ c Cn) as Wg.
      destruct (spec_clear_eta (gch (bk_children b) c) (gch (bk_children b) c) [] p None) as (m' & t' & lp & al & E).
      rewrite E. rewrite (spec_clear_direct_all _ p m' t' lp al Wg E).
      cbn [fix_child_direct cfg_fixed]. unfold bk_get_child.
      destruct (om_get c (bk_children b)) as [m|] eqn:EG; cbn [fst snd].
      + split; [reflexivity|]. rewrite bk_clear_list_spec by exact B.
        assert (Gm : gch (bk_children b) c = m) by (unfold gch; now rewrite EG).
        rewrite Gm. unfold keys_with_prefix. fold (matching_keys p m).
        assert (Wmm : wf m) by (apply (Hch c); exact EG).
        rewrite del_matching_filter by exact Wmm.
        apply GSR_direct; try reflexivity. apply bwf_set; [exact B | now apply wf_filter].
      + split; [reflexivity|]. unfold gch. rewrite EG. cbn [om_filter filter set_child].
        apply GSR_direct; try reflexivity; [exact B|]. cbn.
        now apply om_del_absent.
    - (* ClearPrefixInChildWithLimit *)
      change (cs_child {| c_main := bk_main b; c_children := bk_children b |} c) with (gch (bk_children b) c).
      pose proof (gch_wf _ c Cn) as Wg.
      destruct (spec_clear_eta (gch (bk_children b) c) (gch (bk_children b) c) [] p (Some n)) as (m' & t' & lp & al & E).
      rewrite E. rewrite (spec_clear_direct_first _ p n m' t' lp al Wg E).
      cbn [fix_child_direct cfg_fixed]. unfold bk_get_child.
      destruct (om_get c (bk_children b)) as [m|] eqn:EG; cbn [fst snd].
      + split; [reflexivity|]. rewrite bk_clear_list_spec by exact B.
        assert (Gm : gch (bk_children b) c = m) by (unfold gch; now rewrite EG).
        rewrite Gm. unfold keys_with_prefix. fold (matching_keys p m).
        apply GSR_direct; try reflexivity. apply bwf_set; [exact B|]. apply wf_del_list.
        apply (Hch c). exact EG.
      + split; [reflexivity|]. unfold gch. rewrite EG. cbn [matching_keys om_keys map filter].
        rewrite firstn_nil. cbn.
        apply GSR_direct; try reflexivity; [exact B|]. cbn.
        now apply om_del_absent.
    - (* GetChildNextKey *)
      unfold bk_get_child, cs_child. cbn [c_children].
      destruct (om_get c (bk_children b)); cbn; (split; [reflexivity | now apply GSR_direct]).
    - (* DeleteChild *)
      change (cs_child {| c_main := bk_main b; c_children := bk_children b |} c) with (gch (bk_children b) c).
      pose proof (gch_wf _ c Cn) as Wg.
      destruct (spec_clear_eta (gch (bk_children b) c) (gch (bk_children b) c) [] [] None) as (m' & t' & lp & al & E).
      rewrite E. destruct (Comp_kill _ _ _ _ _ m' t' lp al (Comp_init _ Wg) E) as [-> _].
      split; [reflexivity|]. unfold bk_delete_child. rewrite St. cbn [om_del set_child cs_set_child c_main c_children].
      apply GSR_direct; try reflexivity. exact (bwf_set b c [] B wf_nil).
    - (* DeleteChildLimit *)
      change (cs_child {| c_main := bk_main b; c_children := bk_children b |} c) with (gch (bk_children b) c).
      pose proof (gch_wf _ c Cn) as Wg.
      destruct (spec_clear_eta (gch (bk_children b) c) (gch (bk_children b) c) [] [] lim) as (m' & t' & lp & al & E).
      rewrite E. cbn [fix_child_direct cfg_fixed]. unfold bk_get_child.
      assert (EM : m' = match lim with
                        | Some n => om_del_list (firstn (N.to_nat n) (om_keys (gch (bk_children b) c))) (gch (bk_children b) c)
                        | None => [] end).
      { destruct lim as [n|].
        - rewrite (spec_clear_direct_first _ [] n m' t' lp al Wg E). now rewrite matching_nil_prefix.
        - now destruct (Comp_kill _ _ _ _ _ m' t' lp al (Comp_init _ Wg) E) as [-> _]. }
      rewrite EM. clear EM E.
      destruct (om_get c (bk_children b)) as [m|] eqn:EG.
      + unfold gch. rewrite EG. destruct lim as [n|]; cbn [fst snd].
        * split; [reflexivity|]. rewrite bk_clear_list_spec by exact B. unfold gch. rewrite EG.
          apply GSR_direct; try reflexivity. apply bwf_set; [exact B|]. apply wf_del_list. apply (Hch c). exact EG.
        * split; [reflexivity|]. unfold bk_delete_child. rewrite St. cbn [om_del].
          apply GSR_direct; try reflexivity. exact (bwf_set b c [] B wf_nil).
      + cbn [fst snd norm_obs]. split; [reflexivity|]. unfold gch. rewrite EG.
        assert (EN : match lim with Some n => om_del_list (firstn (N.to_nat n) (om_keys (@nil (key * val)))) [] | None => [] end = @nil (key * val)).
        { destruct lim as [n|]; [|reflexivity]. cbn. now rewrite firstn_nil. }
        rewrite EN. cbn [set_child cs_set_child c_main c_children].
        apply GSR_direct; try reflexivity; [exact B|]. cbn.
        now apply om_del_absent.
    - (* GetKeysWithPrefixFromChild *)
      unfold bk_get_child, cs_child. cbn [c_children].
      destruct (om_get c (bk_children b)); cbn; (split; [reflexivity | now apply GSR_direct]).
  Qed.
End StepDirect.

(* ------------------------------------------------------------------ any step, whole histories *)

Lemma step_full o s t : GSR s t -> step_guard cfg_fixed o s = None ->
  norm_obs o (fst (step cfg_fixed o s)) = norm_obs o (fst (sstep o t)) /\
  GSR (snd (step cfg_fixed o s)) (snd (sstep o t)).
Proof.
  intros [B M C L] G. destruct s as [b txs], t as [bkd lvls]. cbn in B, M, C, L.
  destruct L as [|D l txs' lvls' R L].
  - now apply step_direct.
  - destruct (main_or_child o) as [MO|CO].
    + now apply step_tx_main.
    + now apply step_tx_child.
Qed.

Lemma run_full ops : forall s t, GSR s t -> run_guards cfg_fixed ops s = [] ->
  norm_list ops (fst (run cfg_fixed ops s)) = norm_list ops (fst (srun ops t)) /\
  GSR (snd (run cfg_fixed ops s)) (snd (srun ops t)).
Proof.
  induction ops as [|o r IH]; intros s t R G.
  - cbn. split; [reflexivity | exact R].
  - cbn [run_guards] in G.
    assert (G1 : step_guard cfg_fixed o s = None).
    { destruct (step_guard cfg_fixed o s); [|reflexivity].
      destruct (step cfg_fixed o s) as [x s']. destruct x; discriminate. }
    destruct (step_full o s t R G1) as [E R'].
    cbn [run srun]. rewrite G1 in G. cbn [app] in G.
    destruct (step cfg_fixed o s) as [x s'] eqn:ES. destruct (sstep o t) as [y t'] eqn:ET.
    cbn [fst snd] in E, R'.
    destruct (obs_is_panic x) eqn:PX.
    + assert (x = RPanic) by (destruct x; try discriminate; reflexivity). subst x.
      assert (y = RPanic).
      { apply (norm_obs_panic o). rewrite <- E. now apply norm_obs_panic. }
      subst y. cbn. split; [reflexivity | exact R'].
    + assert (NY : y <> RPanic).
      { intros ->. assert (P : norm_obs o RPanic = RPanic) by now apply norm_obs_panic.
        rewrite P in E. apply norm_obs_panic in E. subst x. discriminate. }
      assert (GR : run_guards cfg_fixed r s' = []) by (destruct x; try exact G; discriminate).
      destruct (IH s' t' R' GR) as [E2 R2].
      destruct (run cfg_fixed r s') as [xs s''], (srun r t') as [ys t''].
      cbn [fst snd] in E2, R2.
      destruct x; try discriminate; destruct y; try congruence; cbn [fst snd norm_list];
        (split; [congruence | exact R2]).
Qed.

Theorem reads_full ops : guard_free cfg_fixed ops = true ->
  agrees (run cfg_fixed ops ts_init) (srun ops ss_init) ops.
Proof.
  intros G. unfold guard_free in G.
  destruct (run_guards cfg_fixed ops ts_init) eqn:GE; [|discriminate].
  destruct (run_full ops ts_init ss_init GSR_init GE) as [E R].
  split; [exact E|]. intro Closed. destruct R as [B M C L].
  rewrite Closed in L. inversion L as [HL|]. repeat split.
  - now symmetry.
  - now rewrite C.
  - apply B.
Qed.
