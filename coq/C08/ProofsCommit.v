(* C08/ProofsCommit.v — committing the outermost transaction gives the same committed state as
   applying the committed operations directly (histories without limited clears). *)
From Common Require Import Bytes.
From C08 Require Import ModelMap Model ModelSpec ModelGuards ProofsMap ProofsDiff ProofsClear
     ProofsComp ProofsChildren ProofsMain ProofsApply ProofsFull.
Local Open Scope N_scope.

(* an operation applied directly to a complete state *)
Definition vstep (o : op) (v : cstate) : cstate := backend (snd (sstep o (mk_sstate v []))).
Definition fvs (f : list op) (v : cstate) : cstate := fold_left (fun v o => vstep o v) f v.

(* the stack of visible states of a spec state, innermost first, the backend last *)
Definition vstack (t : sstate) : list cstate := map view (levels t) ++ [backend t].

Definition is_tx (o : op) : bool := match o with OStart | OCommit | ORollback => true | _ => false end.

Definition vsstep (o : op) (vs : list cstate) : option (list cstate) :=
  match o, vs with
  | OStart, v :: r => Some (v :: v :: r)
  | OCommit, v :: _ :: r => Some (v :: r)
  | ORollback, _ :: w :: r => Some (w :: r)
  | OCommit, _ | ORollback, _ => None
  | _, v :: r => Some (vstep o v :: r)
  | _, [] => None
  end.

Fixpoint vsrun (ops : list op) (vs : list cstate) : option (list cstate) :=
  match ops with
  | [] => Some vs
  | o :: r => match vsstep o vs with Some vs' => vsrun r vs' | None => None end
  end.

(* ---- the op-list machine and the view machine commute *)
Lemma fvs_snoc f o v : fvs (f ++ [o]) v = vstep o (fvs f v).
Proof. unfold fvs. now rewrite fold_left_app. Qed.

Lemma fsstep_vsstep v o fs fs' : fsstep o fs = Some fs' ->
  vsstep o (map (fun f => fvs f v) fs) = Some (map (fun f => fvs f v) fs').
Proof.
  destruct o, fs as [|f [|g r]]; cbn; try discriminate; intros [= <-]; cbn; try reflexivity;
    now rewrite fvs_snoc.
Qed.

Lemma fsrun_vsrun v ops : forall fs fs', fsrun ops fs = Some fs' ->
  vsrun ops (map (fun f => fvs f v) fs) = Some (map (fun f => fvs f v) fs').
Proof.
  induction ops as [|o r IH]; intros fs fs' H; cbn in *.
  - now injection H as <-.
  - destruct (fsstep o fs) as [fs1|] eqn:E; [|discriminate].
    rewrite (fsstep_vsstep v o fs fs1 E). now apply IH.
Qed.

(* the lists hold no transaction markers *)
Lemma fsstep_txfree o fs fs' : Forall (fun f => forallb (fun x => negb (is_tx x)) f = true) fs ->
  fsstep o fs = Some fs' -> Forall (fun f => forallb (fun x => negb (is_tx x)) f = true) fs'.
Proof.
  intros F H. destruct o, fs as [|f [|g r]]; cbn in H; try discriminate; injection H as <-;
    repeat match goal with H : Forall _ (_ :: _) |- _ => inversion H; subst; clear H end;
    repeat constructor; try assumption; rewrite forallb_app; cbn; now rewrite andb_true_r.
Qed.

Lemma fsrun_txfree ops : forall fs fs', Forall (fun f => forallb (fun x => negb (is_tx x)) f = true) fs ->
  fsrun ops fs = Some fs' -> Forall (fun f => forallb (fun x => negb (is_tx x)) f = true) fs'.
Proof.
  induction ops as [|o r IH]; intros fs fs' F H; cbn in H.
  - now injection H as <-.
  - destruct (fsstep o fs) as [fs1|] eqn:E; [|discriminate]. eapply IH; [|exact H].
    eapply fsstep_txfree; eassumption.
Qed.

Lemma forallb_snoc {A} (P : A -> bool) f o : forallb P (f ++ [o]) = forallb P f && P o.
Proof. rewrite forallb_app. cbn. now rewrite andb_true_r. Qed.

Lemma fsstep_limit_free o fs fs' : limit_free_op o = true ->
  Forall (fun f => forallb limit_free_op f = true) fs ->
  fsstep o fs = Some fs' -> Forall (fun f => forallb limit_free_op f = true) fs'.
Proof.
  intros LF F H.
  destruct o, fs as [|f [|g r]]; cbn in H; try discriminate; injection H as <-;
    inversion F as [|? ? F1 F2]; subst; try (inversion F2 as [|? ? F3 F4]; subst);
    repeat (constructor; try assumption);
    rewrite forallb_snoc, F1; exact LF.
Qed.

Lemma fsrun_limit_free ops : forall fs fs', forallb limit_free_op ops = true ->
  Forall (fun f => forallb limit_free_op f = true) fs ->
  fsrun ops fs = Some fs' -> Forall (fun f => forallb limit_free_op f = true) fs'.
Proof.
  induction ops as [|o r IH]; intros fs fs' LF F H; cbn in H.
  - now injection H as <-.
  - cbn in LF. apply andb_prop in LF as [L1 L2].
    destruct (fsstep o fs) as [fs1|] eqn:E; [|discriminate]. eapply IH; [exact L2 | | exact H].
    eapply fsstep_limit_free; eassumption.
Qed.

(* running a marker-free list directly *)
Lemma vsrun_txfree f : forall v r, forallb (fun x => negb (is_tx x)) f = true ->
  vsrun f (v :: r) = Some (fvs f v :: r).
Proof.
  induction f as [|o f IH]; intros v r H; [reflexivity|].
  cbn in H. apply andb_prop in H as [H1 H2]. cbn [vsrun].
  assert (E : vsstep o (v :: r) = Some (vstep o v :: r)) by (destruct o; try discriminate; reflexivity).
  rewrite E. rewrite IH by exact H2. reflexivity.
Qed.
