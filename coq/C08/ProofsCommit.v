(* C08/ProofsCommit.v — committing the outermost transaction gives the same committed state as
   applying the committed operations directly (histories without limited clears). *)
From Common Require Import Bytes.
From C08 Require Import ModelMap Model ModelSpec ModelGuards ProofsMap ProofsDiff ProofsClear
     ProofsComp ProofsChildren ProofsMain ProofsApply ProofsFull.
Local Open Scope N_scope.

(* an operation applied directly to a complete state *)
Definition vstep (o : op) (v : cstate) : cstate := backend (snd (sstep o (mk_sstate v []))).
Definition fvs (f : list op) (v : cstate) : cstate := fold_left (fun v o => vstep o v) f v.

(* the stack of visible states of a spec state, innermost first, the backend last *)
Definition vstack (t : sstate) : list cstate := map view (levels t) ++ [backend t].

Definition is_tx (o : op) : bool := match o with OStart | OCommit | ORollback => true | _ => false end.

Definition vsstep (o : op) (vs : list cstate) : option (list cstate) :=
  match o, vs with
  | OStart, v :: r => Some (v :: v :: r)
  | OCommit, v :: _ :: r => Some (v :: r)
  | ORollback, _ :: w :: r => Some (w :: r)
  | OCommit, _ | ORollback, _ => None
  | _, v :: r => Some (vstep o v :: r)
  | _, [] => None
  end.

Fixpoint vsrun (ops : list op) (vs : list cstate) : option (list cstate) :=
  match ops with
  | [] => Some vs
  | o :: r => match vsstep o vs with Some vs' => vsrun r vs' | None => None end
  end.

(* ---- the op-list machine and the view machine commute *)
Lemma fvs_snoc f o v : fvs (f ++ [o]) v = vstep o (fvs f v).
Proof. unfold fvs. now rewrite fold_left_app. Qed.

Lemma fsstep_vsstep v o fs fs' : fsstep o fs = Some fs' ->
  vsstep o (map (fun f => fvs f v) fs) = Some (map (fun f => fvs f v) fs').
Proof.
  destruct o, fs as [|f [|g r]]; cbn; try discriminate; intros [= <-]; cbn; try reflexivity;
    now rewrite fvs_snoc.
Qed.

Lemma fsrun_vsrun v ops : forall fs fs', fsrun ops fs = Some fs' ->
  vsrun ops (map (fun f => fvs f v) fs) = Some (map (fun f => fvs f v) fs').
Proof.
  induction ops as [|o r IH]; intros fs fs' H; cbn in *.
  - now injection H as <-.
  - destruct (fsstep o fs) as [fs1|] eqn:E; [|discriminate].
    rewrite (fsstep_vsstep v o fs fs1 E). now apply IH.
Qed.

(* the lists hold no transaction markers *)
Lemma fsstep_txfree o fs fs' : Forall (fun f => forallb (fun x => negb (is_tx x)) f = true) fs ->
  fsstep o fs = Some fs' -> Forall (fun f => forallb (fun x => negb (is_tx x)) f = true) fs'.
Proof.
  intros F H. destruct o, fs as [|f [|g r]]; cbn in H; try discriminate; injection H as <-;
    repeat match goal with H : Forall _ (_ :: _) |- _ => inversion H; subst; clear H end;
    repeat constructor; try assumption; rewrite forallb_app; cbn; now rewrite andb_true_r.
Qed.

Lemma fsrun_txfree ops : forall fs fs', Forall (fun f => forallb (fun x => negb (is_tx x)) f = true) fs ->
  fsrun ops fs = Some fs' -> Forall (fun f => forallb (fun x => negb (is_tx x)) f = true) fs'.
Proof.
  induction ops as [|o r IH]; intros fs fs' F H; cbn in H.
  - now injection H as <-.
  - destruct (fsstep o fs) as [fs1|] eqn:E; [|discriminate]. eapply IH; [|exact H].
    eapply fsstep_txfree; eassumption.
Qed.

Lemma forallb_snoc {A} (P : A -> bool) f o : forallb P (f ++ [o]) = forallb P f && P o.
Proof. rewrite forallb_app. cbn. now rewrite andb_true_r. Qed.

Lemma fsstep_limit_free o fs fs' : limit_free_op o = true ->
  Forall (fun f => forallb limit_free_op f = true) fs ->
  fsstep o fs = Some fs' -> Forall (fun f => forallb limit_free_op f = true) fs'.
Proof.
  intros LF F H.
  destruct o, fs as [|f [|g r]]; cbn in H; try discriminate; injection H as <-;
    inversion F as [|? ? F1 F2]; subst; try (inversion F2 as [|? ? F3 F4]; subst);
    repeat (constructor; try assumption);
    rewrite forallb_snoc, F1; exact LF.
Qed.

Lemma fsrun_limit_free ops : forall fs fs', forallb limit_free_op ops = true ->
  Forall (fun f => forallb limit_free_op f = true) fs ->
  fsrun ops fs = Some fs' -> Forall (fun f => forallb limit_free_op f = true) fs'.
Proof.
  induction ops as [|o r IH]; intros fs fs' LF F H; cbn in H.
  - now injection H as <-.
  - cbn in LF. apply andb_prop in LF as [L1 L2].
    destruct (fsstep o fs) as [fs1|] eqn:E; [|discriminate]. eapply IH; [exact L2 | | exact H].
    eapply fsstep_limit_free; eassumption.
Qed.

(* running a marker-free list directly *)
Lemma vsrun_txfree f : forall v r, forallb (fun x => negb (is_tx x)) f = true ->
  vsrun f (v :: r) = Some (fvs f v :: r).
Proof.
  induction f as [|o f IH]; intros v r H; [reflexivity|].
  cbn in H. apply andb_prop in H as [H1 H2]. cbn [vsrun].
  assert (E : vsstep o (v :: r) = Some (vstep o v :: r)) by (destruct o; try discriminate; reflexivity).
  rewrite E. rewrite IH by exact H2. reflexivity.
Qed.

(* ---- an unlimited clear only depends on the visible map *)
Lemma spec_clear_view_indep bk kl d cur tch p m1 t1 l1 a1 m2 t2 l2 a2 : Comp bk kl d cur tch ->
  spec_clear cur bk tch p None = (m1, t1, l1, a1) ->
  spec_clear cur cur [] p None = (m2, t2, l2, a2) -> m1 = m2.
Proof.
  intros C E1 E2. pose proof (Comp_wf_cur _ _ _ _ _ C) as Wc. pose proof C as [W S Wt V TT].
  destruct (spec_clear_all cur bk tch p Wc W Wt (Comp_I2 _ _ _ _ _ C) None m1 t1 l1 a1 (or_introl eq_refl) E1)
    as (-> & _ & _).
  now rewrite (spec_clear_direct_all cur p m2 t2 l2 a2 Wc E2).
Qed.

Lemma levels_direct o v : is_tx o = false -> levels (snd (sstep o (mk_sstate v []))) = [].
Proof.
  intro NT. destruct o; try discriminate; cbn;
    repeat match goal with
           | |- context [if covers_child_keys ?p then _ else _] => destruct (covers_child_keys p)
           | |- context [let '(_, _) := ?e in _] => destruct e as [[[? ?] ?] ?]
           end;
    reflexivity.
Qed.

Lemma sstep_vstack s t o vs' : GSR s t -> limit_free_op o = true ->
  vsstep o (vstack t) = Some vs' ->
  vstack (snd (sstep o t)) = vs' /\ fst (sstep o t) <> RPanic.
Proof.
  intros [B M C L] LF H. destruct s as [b txs], t as [bk lvls]. cbn in B, M, C, L.
  destruct L as [|D l txs' lvls' R L]; unfold vstack in *; cbn [levels backend map app] in *.
  - (* depth 0 *)
    destruct (is_tx o) eqn:TX.
    + destruct o; try discriminate; cbn in H; try discriminate.
      injection H as <-. cbn. split; [reflexivity | discriminate].
    + assert (E : vsstep o [bk] = Some [vstep o bk]) by (destruct o; try discriminate; reflexivity).
      rewrite E in H. injection H as <-. split.
      * unfold vstep. rewrite (levels_direct o bk TX). reflexivity.
      * destruct o; try discriminate; cbn;
          repeat match goal with
                 | |- context [if covers_child_keys ?p then _ else _] => destruct (covers_child_keys p)
                 | |- context [let '(_, _) := ?e in _] => destruct e as [[[? ?] ?] ?]
                 end;
          discriminate.
  - (* inside a transaction *)
    pose proof R as [Dw Cm Cn Wt Cc].
    destruct (is_tx o) eqn:TX.
    + destruct o; try discriminate; cbn in H.
      * injection H as <-. cbn. split; [reflexivity | discriminate].
      * destruct lvls' as [|l1 r1]; cbn in H; injection H as <-; cbn; (split; [reflexivity | discriminate]).
      * destruct lvls' as [|l1 r1]; cbn in H; injection H as <-; cbn; (split; [reflexivity | discriminate]).
    + assert (E : vsstep o (view l :: map view lvls' ++ [bk]) =
                  Some (vstep o (view l) :: map view lvls' ++ [bk]))
        by (destruct o; try discriminate; reflexivity).
      rewrite E in H. injection H as <-.
      destruct o; try discriminate; unfold vstep;
        cbn [sstep cur_level levels set_level backend fst snd view t_main t_children map app
             touch_main touch_child touched_child om_get];
        try (split; [reflexivity | discriminate]).
      * (* ClearPrefix *)
        destruct (covers_child_keys p); [cbn; split; [reflexivity | discriminate]|].
        destruct (spec_clear (c_main (view l)) (c_main bk) (t_main l) p None) as [[[m1 t1] l1] a1] eqn:E1.
        destruct (spec_clear (c_main (view l)) (c_main (view l)) [] p None) as [[[m2 t2] l2] a2] eqn:E2.
        cbn. rewrite M in E1. rewrite (spec_clear_view_indep _ _ _ _ _ _ _ _ _ _ _ _ _ _ Cm E1 E2).
        split; [reflexivity | discriminate].
      * (* ClearPrefixInChild *)
        change (cs_child (view l) c) with (gch (c_children (view l)) c).
        change (cs_child bk c) with (gch (c_children bk) c). rewrite C.
        destruct (spec_clear (gch (c_children (view l)) c) (gch (bk_children b) c) (touched_child l c) p None)
          as [[[m1 t1] l1] a1] eqn:E1.
        destruct (spec_clear (gch (c_children (view l)) c) (gch (c_children (view l)) c) [] p None)
          as [[[m2 t2] l2] a2] eqn:E2.
        cbn. rewrite (spec_clear_view_indep _ _ _ _ _ _ _ _ _ _ _ _ _ _ (Cc c) E1 E2).
        split; [reflexivity | discriminate].
      * (* DeleteChild *)
        change (cs_child (view l) c) with (gch (c_children (view l)) c).
        change (cs_child bk c) with (gch (c_children bk) c). rewrite C.
        destruct (spec_clear (gch (c_children (view l)) c) (gch (bk_children b) c) (touched_child l c) [] None)
          as [[[m1 t1] l1] a1] eqn:E1.
        destruct (spec_clear (gch (c_children (view l)) c) (gch (c_children (view l)) c) [] [] None)
          as [[[m2 t2] l2] a2] eqn:E2.
        cbn. rewrite (spec_clear_view_indep _ _ _ _ _ _ _ _ _ _ _ _ _ _ (Cc c) E1 E2).
        split; [reflexivity | discriminate].
      * (* DeleteChildLimit without limit *)
        destruct lim as [n|]; [discriminate|].
        change (cs_child (view l) c) with (gch (c_children (view l)) c).
        change (cs_child bk c) with (gch (c_children bk) c). rewrite C.
        destruct (spec_clear (gch (c_children (view l)) c) (gch (bk_children b) c) (touched_child l c) [] None)
          as [[[m1 t1] l1] a1] eqn:E1.
        destruct (spec_clear (gch (c_children (view l)) c) (gch (c_children (view l)) c) [] [] None)
          as [[[m2 t2] l2] a2] eqn:E2.
        cbn. rewrite (spec_clear_view_indep _ _ _ _ _ _ _ _ _ _ _ _ _ _ (Cc c) E1 E2).
        split; [reflexivity | discriminate].
Qed.

(* ---- whole histories *)
Lemma limit_free_guard o s : limit_free_op o = true -> step_guard cfg_fixed o s = None.
Proof.
  intro LF. unfold step_guard. destruct o; try discriminate; try reflexivity;
    destruct (ts_txs s); try reflexivity; destruct lim; try discriminate; reflexivity.
Qed.

Lemma run_vs ops : forall s t vs', GSR s t -> forallb limit_free_op ops = true ->
  vsrun ops (vstack t) = Some vs' ->
  vstack (snd (srun ops t)) = vs' /\ GSR (snd (run cfg_fixed ops s)) (snd (srun ops t)).
Proof.
  induction ops as [|o r IH]; intros s t vs' R LF H.
  - cbn in *. injection H as <-. now split.
  - cbn in LF. apply andb_prop in LF as [L1 L2]. cbn [vsrun] in H.
    destruct (vsstep o (vstack t)) as [vs1|] eqn:E; [|discriminate].
    destruct (sstep_vstack s t o vs1 R L1 E) as [V NP].
    destruct (step_full o s t R (limit_free_guard o s L1)) as [EN R'].
    cbn [run srun].
    destruct (step cfg_fixed o s) as [x s'] eqn:ES. destruct (sstep o t) as [y t'] eqn:ET.
    cbn [fst snd] in *.
    assert (NX : x <> RPanic).
    { intros ->. assert (P : norm_obs o RPanic = RPanic) by now apply norm_obs_panic.
      rewrite P in EN. symmetry in EN. apply norm_obs_panic in EN. contradiction. }
    subst vs1. destruct (IH s' t' vs' R' L2 H) as [V2 R2].
    destruct (run cfg_fixed r s') as [xs s''], (srun r t') as [ys t''].
    cbn [fst snd] in *.
    destruct x; try contradiction; destruct y; try contradiction; cbn [fst snd]; now split.
Qed.

Lemma vstack_single t v : vstack t = [v] -> levels t = [] /\ backend t = v.
Proof.
  unfold vstack. destruct (levels t) as [|l r]; cbn.
  - intros [= <-]. now split.
  - intro H. injection H as _ H. destruct (map view r); discriminate.
Qed.

Lemma GSR_closed_eq s1 t1 s2 t2 : GSR s1 t1 -> GSR s2 t2 ->
  levels t1 = [] -> levels t2 = [] -> backend t1 = backend t2 -> s1 = s2.
Proof.
  intros [B1 M1 C1 L1] [B2 M2 C2 L2] E1 E2 EB.
  rewrite E1 in L1. rewrite E2 in L2. inversion L1 as [X1|]. inversion L2 as [X2|].
  destruct s1 as [[m1 c1 st1] tx1], s2 as [[m2 c2 st2] tx2]. cbn in *. subst tx1 tx2.
  destruct B1 as [_ _ S1], B2 as [_ _ S2]. cbn in *. subst st1 st2.
  rewrite EB in M1, C1. congruence.
Qed.

(* Committing the outermost transaction gives the same committed state (contents, hence root)
   as applying the committed operations directly. *)
Theorem commit_direct s t ops f : GSR s t -> ts_txs s = [] ->
  forallb limit_free_op ops = true -> flattened ops = Some f ->
  snd (run cfg_fixed ops s) = snd (run cfg_fixed f s).
Proof.
  intros R Closed LF FL. unfold flattened in FL.
  destruct (fsrun ops [[]]) as [[|f0 [|? ?]]|] eqn:FR; try discriminate. injection FL as ->.
  assert (Lt : levels t = []).
  { destruct R as [_ _ _ L]. rewrite Closed in L. now inversion L. }
  assert (VT : vstack t = [backend t]) by (unfold vstack; now rewrite Lt).
  pose proof (fsrun_vsrun (backend t) ops [[]] [f] FR) as V1. cbn [map fvs fold_left] in V1.
  rewrite <- VT in V1.
  destruct (run_vs ops s t _ R LF V1) as [E1 R1].
  assert (TF : forallb (fun x => negb (is_tx x)) f = true).
  { assert (F0 : Forall (fun f => forallb (fun x => negb (is_tx x)) f = true) [[]])
      by (constructor; [reflexivity | constructor]).
    pose proof (fsrun_txfree ops [[]] [f] F0 FR) as F. now inversion F. }
  assert (LFf : forallb limit_free_op f = true).
  { assert (F0 : Forall (fun f => forallb limit_free_op f = true) [[]])
      by (constructor; [reflexivity | constructor]).
    pose proof (fsrun_limit_free ops [[]] [f] LF F0 FR) as F. now inversion F. }
  pose proof (vsrun_txfree f (backend t) [] TF) as V2. rewrite <- VT in V2.
  destruct (run_vs f s t _ R LFf V2) as [E2 R2].
  apply vstack_single in E1 as [L1 B1]. apply vstack_single in E2 as [L2 B2].
  apply (GSR_closed_eq _ _ _ _ R1 R2 L1 L2). congruence.
Qed.

(* from any state reached by a guard-free history with all transactions closed *)
Corollary commit_direct_reachable pre ops f : guard_free cfg_fixed pre = true ->
  let s := snd (run cfg_fixed pre ts_init) in
  ts_txs s = [] -> forallb limit_free_op ops = true -> flattened ops = Some f ->
  snd (run cfg_fixed ops s) = snd (run cfg_fixed f s).
Proof.
  intros G s Closed LF FL. unfold guard_free in G.
  destruct (run_guards cfg_fixed pre ts_init) eqn:GE; [|discriminate].
  destruct (run_full pre ts_init ss_init GSR_init GE) as [_ R].
  exact (commit_direct s _ ops f R Closed LF FL).
Qed.
