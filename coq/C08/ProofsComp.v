(* C08/ProofsComp.v — one keyed component (a child trie) of a transaction level: the Go
   storageDiff of the child over the committed child map [bk] (ignored once the child trie was
   deleted in the transaction: [kl]) against the spec's visible map and overlay key set. *)
From Common Require Import Bytes.
From C08 Require Import ModelMap Model ModelSpec ModelGuards ProofsMap ProofsDiff ProofsClear.
Local Open Scope N_scope.

(* committed keys counted against the limit by the Go loop *)
Definition go_S_of (m : omap val) (d : sdiff) (p : key) : list key :=
  filter (fun k => negb (om_mem k (ups d))) (matching_keys p m).

Definition cbase (bk : omap val) (kl : bool) : omap val := if kl then [] else bk.

Record Comp (bk : omap val) (kl : bool) (d : sdiff) (cur : omap val) (tch : kset) : Prop := {
  cp_bk : wf bk;
  cp_d : sd_wf d;
  cp_t : wf tch;
  cp_view : cur = mview (cbase bk kl) d;
  cp_touched : forall k, om_mem k bk = true \/ om_mem k cur = true ->
                         ks_mem k tch = tg d k || (kl && om_mem k bk);
}.

Lemma wf_cbase bk kl : wf bk -> wf (cbase bk kl).
Proof. intro W. destruct kl; [apply wf_nil | exact W]. Qed.

Lemma Comp_wf_cur bk kl d cur tch : Comp bk kl d cur tch -> wf cur.
Proof. intros [W S _ -> _]. apply mview_wf; [now apply wf_cbase | exact S]. Qed.

Lemma Comp_init bk : wf bk -> Comp bk false sd_empty bk [].
Proof.
  intro W. split; try assumption; try apply sd_wf_empty; try apply wf_nil; [reflexivity|].
  intros k _. reflexivity.
Qed.

Lemma om_mem_nil {V} k : om_mem k (@nil (key * V)) = false.
Proof. reflexivity. Qed.

(* untouched visible keys are committed keys *)
Lemma Comp_I2 bk kl d cur tch : Comp bk kl d cur tch ->
  forall k, om_mem k cur = true -> ks_mem k tch = false -> om_mem k bk = true.
Proof.
  intros C k M T. pose proof C as [W S Wt V TT]. rewrite (TT k (or_intror M)) in T.
  apply orb_false_iff in T as [T1 T2]. unfold tg in T1. apply orb_false_iff in T1 as [U Dl].
  rewrite V in M. rewrite mview_mem in M by (try exact S; now apply wf_cbase).
  rewrite U, Dl in M. cbn in M. destruct kl; cbn in *; [discriminate | exact M].
Qed.

Lemma Comp_put bk kl d cur tch k v : Comp bk kl d cur tch ->
  Comp bk kl (sd_upsert d k v) (om_put k v cur) (ks_add k tch).
Proof.
  intros C. pose proof (Comp_wf_cur _ _ _ _ _ C) as Wc. destruct C as [W S Wt V TT].
  split; try assumption.
  - now apply sd_wf_upsert.
  - unfold ks_add. now apply wf_put.
  - rewrite V. symmetry. apply mview_upsert; [now apply wf_cbase | exact S].
  - intros k0 Rel. rewrite ks_mem_add by exact Wt. rewrite tg_upsert by exact S.
    destruct (keqb k0 k) eqn:E; [reflexivity|]. cbn. apply TT.
    destruct Rel as [Rel|Rel]; [now left | right].
    rewrite om_mem_put in Rel by exact Wc. now rewrite E in Rel.
Qed.

Lemma Comp_del bk kl d cur tch k : Comp bk kl d cur tch ->
  Comp bk kl (sd_delete d k) (om_del k cur) (ks_add k tch).
Proof.
  intros C. pose proof (Comp_wf_cur _ _ _ _ _ C) as Wc. destruct C as [W S Wt V TT].
  split; try assumption.
  - now apply sd_wf_delete.
  - unfold ks_add. now apply wf_put.
  - rewrite V. symmetry. apply mview_delete; [now apply wf_cbase | exact S].
  - intros k0 Rel. rewrite ks_mem_add by exact Wt. rewrite tg_delete by exact S.
    destruct (keqb k0 k) eqn:E; [reflexivity|]. cbn. apply TT.
    destruct Rel as [Rel|Rel]; [now left | right].
    rewrite om_mem_del in Rel by exact Wc. now apply andb_prop in Rel as [_ Rel].
Qed.

Lemma Comp_get bk kl d cur tch k : Comp bk kl d cur tch ->
  om_get k cur =
  match sd_get d k with
  | (Some v, _) => Some v
  | (None, true) => None
  | (None, false) => if kl then None else om_get k bk
  end.
Proof.
  intros [W S Wt V TT]. rewrite V. rewrite mview_sd_get by (try exact S; now apply wf_cbase).
  destruct (sd_get d k) as [[v|] [|]]; try reflexivity. now destruct kl.
Qed.

Lemma Comp_next bk kl d cur tch k : Comp bk kl d cur tch ->
  om_next k cur =
  merge_next (om_next k (ups d)) (if kl then None else next_not_deleted k bk (dels d)).
Proof.
  intros [W S Wt V TT]. rewrite V. rewrite mview_next by (try exact S; now apply wf_cbase).
  now destruct kl.
Qed.

(* ---- deleting the whole child trie *)
Lemma om_filter_none {V} (m : omap V) : om_filter (fun _ => false) m = [].
Proof. unfold om_filter. induction m as [|kv m IH]; [reflexivity|]. cbn. exact IH. Qed.

Lemma Comp_kill bk kl d cur tch cur' tch' lp al : Comp bk kl d cur tch ->
  spec_clear cur bk tch [] None = (cur', tch', lp, al) ->
  cur' = [] /\ Comp bk true sd_empty cur' tch'.
Proof.
  intros C E. pose proof (Comp_wf_cur _ _ _ _ _ C) as Wc. pose proof C as [W S Wt V TT].
  destruct (spec_clear_all cur bk tch [] Wc W Wt (Comp_I2 _ _ _ _ _ C) None cur' tch' lp al
                           (or_introl eq_refl) E) as (E1 & E2 & E3).
  assert (N : cur' = []).
  { rewrite E1. rewrite <- (om_filter_none cur). unfold om_filter. apply filter_ext.
    intros [k v]. reflexivity. }
  split; [exact N|]. split; [exact W | apply sd_wf_empty | exact E2 | rewrite N; reflexivity |].
  intros k Rel. rewrite E3, has_prefix_nil. cbn [andb].
  destruct Rel as [Rel|Rel]; [|rewrite N in Rel; discriminate].
  rewrite Rel. now rewrite !orb_true_r.
Qed.

(* ---- a clear that removes every matching key *)

Definition untouched_matching (bk : omap val) (tch : kset) (p : key) : list key :=
  filter (fun k => negb (ks_mem k tch)) (matching_keys p bk).

Lemma untouched_killed bk d cur tch p : Comp bk true d cur tch -> untouched_matching bk tch p = [].
Proof.
  intros [W S Wt V TT]. unfold untouched_matching. apply filter_none. intros k I.
  apply kmem_in in I. rewrite kmem_matching in I by exact W.
  apply andb_prop in I as [_ I]. rewrite (TT k (or_introl I)). rewrite I. cbn. now rewrite orb_true_r.
Qed.

Lemma touched_killed bk d cur tch p : Comp bk true d cur tch ->
  forall k, In k (matching_keys p bk) -> ks_mem k tch = true.
Proof.
  intros [W S Wt V TT] k I. apply kmem_in in I. rewrite kmem_matching in I by exact W.
  apply andb_prop in I as [_ I]. rewrite (TT k (or_introl I)). rewrite I. cbn. now rewrite orb_true_r.
Qed.

Lemma untouched_le bk d cur tch p : Comp bk false d cur tch ->
  (length (untouched_matching bk tch p) <= length (go_S_of bk d p))%nat.
Proof.
  intros [W S Wt V TT]. unfold untouched_matching, go_S_of. apply filter_length_le.
  intros k I T. apply kmem_in in I. rewrite kmem_matching in I by exact W.
  apply andb_prop in I as [_ I]. rewrite (TT k (or_introl I)) in T. cbn in T.
  rewrite orb_false_r in T. unfold tg in T. apply negb_true_iff in T.
  apply orb_false_iff in T as [T _]. now rewrite T.
Qed.

Lemma Comp_clear_gen bk kl d cur tch p limit zl ks cur' tch' lp al : Comp bk kl d cur tch ->
  (limit = None \/
   exists n, limit = Some n /\
     forall k, In k (skipn (N.to_nat n) (matching_keys p bk)) -> ks_mem k tch = true) ->
  (forall k, has_prefix p k = true -> kmem k ks = om_mem k (ups d) || om_mem k (cbase bk kl)) ->
  (zl < 0 \/ Z.of_nat (cnt p (om_keys (ups d)) ks) < zl)%Z ->
  spec_clear cur bk tch p limit = (cur', tch', lp, al) ->
  Comp bk kl (fold_left sd_delete (rev (cp_loop p (om_keys (ups d)) ks zl [])) d) cur' tch'.
Proof.
  intros C BigS HK BigG E. pose proof (Comp_wf_cur _ _ _ _ _ C) as Wc. pose proof C as [W S Wt V TT].
  assert (Wb : wf (cbase bk kl)) by now apply wf_cbase.
  destruct (spec_clear_all cur bk tch p Wc W Wt (Comp_I2 _ _ _ _ _ C) limit cur' tch' lp al BigS E)
    as (E1 & E2 & E3).
  destruct (go_clear_all_gen (cbase bk kl) d p ks zl Wb S HK BigG) as (G1 & G2). cbn zeta in *.
  split; try assumption.
  - now apply sd_wf_delete_list.
  - rewrite E1, G1, V. reflexivity.
  - intros k Rel. rewrite E3, G2.
    assert (Rel' : om_mem k bk = true \/ om_mem k cur = true).
    { destruct Rel as [Rel|Rel]; [now left | right]. rewrite E1 in Rel.
      unfold om_mem in *. rewrite om_get_filter in Rel by exact Wc.
      now destruct (negb (has_prefix p k)). }
    rewrite (TT k Rel'). destruct kl; cbn [cbase andb].
    + rewrite om_mem_nil, andb_false_r, orb_false_r.
      now destruct (tg d k), (om_mem k bk), (has_prefix p k).
    + now rewrite !orb_false_r.
Qed.

(* the key list of clearPrefix *)
Lemma keys_to_clear_mem (m : omap val) d p k : wf m -> sd_wf d -> has_prefix p k = true ->
  kmem k (keys_to_clear (ups d) (matching_keys p m)) = om_mem k (ups d) || om_mem k m.
Proof.
  intros W S P. unfold keys_to_clear. rewrite kmem_kmerge, kmem_keys by apply S.
  rewrite kmem_filter by apply keqb_congr. rewrite kmem_matching by exact W. rewrite P. cbn.
  now destruct (om_mem k (ups d)).
Qed.

Lemma keys_to_clear_cnt (m : omap val) d p : sd_wf d ->
  cnt p (om_keys (ups d)) (keys_to_clear (ups d) (matching_keys p m)) = length (go_S_of m d p).
Proof.
  intros S. unfold cnt, keys_to_clear. rewrite kmerge_filter_length.
  rewrite filter_none.
  - cbn. unfold go_S_of. f_equal. apply filter_all. intros k I. apply filter_In in I as [I N].
    unfold matching_keys in I. apply filter_In in I as [_ P]. rewrite P. cbn.
    rewrite kmem_keys by apply S. exact N.
  - intros k I. apply kmem_in in I. rewrite I. now rewrite andb_false_r.
Qed.

(* the key list of deleteChildLimit: committed keys and upserted keys, with duplicates *)
Lemma kill_keys_mem (m : omap val) d k : wf m -> sd_wf d ->
  kmem k (kmerge (om_keys m) (om_keys (ups d))) = om_mem k (ups d) || om_mem k m.
Proof. intros W S. rewrite kmem_kmerge, !kmem_keys by (try apply S; exact W). apply orb_comm. Qed.

Lemma kill_keys_cnt (m : omap val) d : wf m -> sd_wf d ->
  cnt [] (om_keys (ups d)) (kmerge (om_keys m) (om_keys (ups d))) = length (go_S_of m d []).
Proof.
  intros W S. unfold cnt. rewrite kmerge_filter_length.
  rewrite (filter_none _ (om_keys (ups d))).
  - rewrite Nat.add_0_r. unfold go_S_of, matching_keys.
    rewrite (filter_all (has_prefix []) (om_keys m)) by (intros; apply has_prefix_nil).
    f_equal. apply filter_ext. intro k. rewrite has_prefix_nil. cbn. now rewrite kmem_keys by apply S.
  - intros k I. apply kmem_in in I. rewrite I. now rewrite andb_false_r.
Qed.

(* ---- a limited clear in a range the transaction has not touched (child not deleted) *)
Lemma Comp_clear_first bk d cur tch p n ks cur' tch' lp al : Comp bk false d cur tch ->
  (forall k, has_prefix p k = true -> om_mem k (ups d) = false) ->
  rev (cp_loop p (om_keys (ups d)) ks (Z.of_N n) []) = firstn (N.to_nat n) (matching_keys p bk) ->
  spec_clear cur bk tch p (Some n) = (cur', tch', lp, al) ->
  Comp bk false (fold_left sd_delete (rev (cp_loop p (om_keys (ups d)) ks (Z.of_N n) [])) d) cur' tch'.
Proof.
  intros C A1 GD E. pose proof (Comp_wf_cur _ _ _ _ _ C) as Wc. pose proof C as [W S Wt V TT].
  cbn [cbase] in V.
  destruct (spec_clear_first cur bk tch p Wc W Wt (Comp_I2 _ _ _ _ _ C) n cur' tch' lp al) as (E1 & E2 & E3);
    [|exact E|].
  { (* a touched key in the range is a pending deletion: not visible *)
    intros k P T.
    destruct (om_mem k cur) eqn:Mc; [|reflexivity].
    rewrite (TT k (or_intror Mc)) in T. cbn in T. rewrite orb_false_r in T. unfold tg in T.
    rewrite (A1 k P) in T. cbn in T.
    pose proof Mc as Mc'. rewrite V, mview_mem in Mc' by assumption.
    rewrite (A1 k P), T in Mc'. cbn in Mc'. discriminate. }
  cbn zeta in *. rewrite GD. set (del := firstn (N.to_nat n) (matching_keys p bk)) in *.
  split; try assumption.
  - now apply sd_wf_delete_list.
  - rewrite E1, V. symmetry. now apply mview_delete_list.
  - intros k Rel. rewrite E3. rewrite tg_delete_list by exact S. cbn [andb]. rewrite orb_false_r.
    assert (Rel' : om_mem k bk = true \/ om_mem k cur = true).
    { destruct Rel as [Rel|Rel]; [now left | right]. rewrite E1 in Rel.
      unfold om_mem in *. rewrite om_get_del_list in Rel by exact Wc.
      now destruct (kmem k del). }
    rewrite (TT k Rel'). cbn. now rewrite orb_false_r.
Qed.

(* ---- the spec removes every matching key, the Go code does nothing: nothing matches *)
Lemma Comp_clear_noop bk d cur tch p limit cur' tch' lp al : Comp bk true d cur tch ->
  (forall k, has_prefix p k = true -> om_mem k (ups d) = false) ->
  spec_clear cur bk tch p limit = (cur', tch', lp, al) ->
  Comp bk true d cur' tch'.
Proof.
  intros C A E. pose proof (Comp_wf_cur _ _ _ _ _ C) as Wc. pose proof C as [W S Wt V TT].
  destruct (spec_clear_all cur bk tch p Wc W Wt (Comp_I2 _ _ _ _ _ C) limit cur' tch' lp al) as (E1 & E2 & E3);
    [|exact E|].
  { destruct limit as [n|]; [right | now left]. exists n. split; [reflexivity|].
    intros k I. apply In_skipn', kmem_in in I. rewrite kmem_matching in I by exact W.
    apply andb_prop in I as [_ I]. rewrite (TT k (or_introl I)). rewrite I. cbn. now rewrite orb_true_r. }
  assert (NM : forall k, has_prefix p k = true -> om_mem k cur = false).
  { intros k P. rewrite V, mview_mem by (try exact S; apply wf_nil). cbn [cbase].
    rewrite (A k P), om_mem_nil. now rewrite andb_false_r. }
  assert (EC : cur' = cur).
  { rewrite E1. apply om_ext; [now apply wf_filter | exact Wc |]. intro k.
    rewrite om_get_filter by exact Wc. destruct (has_prefix p k) eqn:P; cbn; [|reflexivity].
    specialize (NM k P). unfold om_mem in NM. now destruct (om_get k cur). }
  split; try assumption.
  - now rewrite EC.
  - intros k Rel. rewrite E3. rewrite EC in Rel. rewrite (TT k Rel).
    destruct (has_prefix p k) eqn:P; cbn [andb]; [|now rewrite orb_false_r].
    destruct (om_mem k bk) eqn:Mb; [now rewrite !orb_true_r | now rewrite orb_false_r].
Qed.
