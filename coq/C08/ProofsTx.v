(* C08/ProofsTx.v — transaction structure of the TrieState model (any configuration, all
   operations): inside a transaction an operation only changes the innermost storageDiff, so a
   rollback restores exactly the state at the matching start. *)
From Common Require Import Bytes.
From C08 Require Import ModelMap Model.
Local Open Scope N_scope.

Definition is_tx_op (o : op) : bool :=
  match o with OStart | OCommit | ORollback => true | _ => false end.

(* well-nested relative to a start at depth d: no commit/rollback of an outer transaction *)
Fixpoint balanced (d : nat) (ops : list op) : bool :=
  match ops with
  | [] => Nat.eqb d 0
  | OStart :: r => balanced (S d) r
  | OCommit :: r | ORollback :: r => match d with O => false | S d' => balanced d' r end
  | _ :: r => balanced d r
  end.

Lemma step_in_tx cf o b D rest : is_tx_op o = false ->
  exists x D', step cf o (mk_tstate b (D :: rest)) = (x, mk_tstate b (D' :: rest)) /\ x <> RPanic.
Proof.
  intro NT. destruct o; try discriminate; unfold step; cbn [ts_state ts_txs with_top];
    repeat match goal with
    | |- context [let '(_, _) := ?e in _] => destruct e as [[? ?] ?]
    | |- context [match ?e with _ => _ end] => destruct e
    end;
    (eexists; eexists; split; [reflexivity | discriminate]).
Qed.

Lemma run_app cf a : forall b s,
  (forall x, In x (fst (run cf a s)) -> x <> RPanic) ->
  snd (run cf (a ++ b) s) = snd (run cf b (snd (run cf a s))).
Proof.
  induction a as [|o r IH]; intros b s NP; [reflexivity|].
  cbn [app run] in *. destruct (step cf o s) as [x s'].
  destruct x; try (exfalso; apply (NP RPanic); [now left | reflexivity]);
    (specialize (IH b s'); destruct (run cf r s') as [xs s2] eqn:E1;
     destruct (run cf (r ++ b) s') as [ys s3] eqn:E2; cbn [fst snd] in *;
     apply IH; intros y I; apply NP; now right).
Qed.

Lemma run_balanced cf body : forall d b pre base,
  length pre = S d -> balanced d body = true ->
  exists D', snd (run cf body (mk_tstate b (pre ++ base))) = mk_tstate b (D' :: base) /\
             forall x, In x (fst (run cf body (mk_tstate b (pre ++ base)))) -> x <> RPanic.
Proof.
  induction body as [|o r IH]; intros d b pre base Len Bal.
  - cbn in Bal. apply Nat.eqb_eq in Bal. subst d.
    destruct pre as [|D [|? ?]]; try discriminate. exists D. split; [reflexivity|]. intros x [].
  - destruct pre as [|D pre]; [discriminate|]. cbn [app].
    destruct (is_tx_op o) eqn:TX.
    + destruct o; try discriminate; cbn [balanced] in Bal.
      * (* Start *)
        destruct (IH (S d) b (D :: D :: pre) base) as (D' & E & NP); [cbn in *; lia | exact Bal |].
        exists D'. cbn [run step ts_txs ts_state]. cbn [app] in E, NP.
        destruct (run cf r _) as [xs s2]. cbn [fst snd] in *. split; [exact E|].
        intros x [<-|I]; [discriminate | now apply NP].
      * (* Commit *)
        destruct d as [|d']; [discriminate|]. destruct pre as [|D2 pre2]; [discriminate|].
        destruct (IH d' b (D :: pre2) base) as (D' & E & NP); [cbn in *; lia | exact Bal |].
        exists D'. cbn [run step ts_txs ts_state app]. cbn [app] in E, NP.
        destruct (run cf r _) as [xs s2]. cbn [fst snd] in *. split; [exact E|].
        intros x [<-|I]; [discriminate | now apply NP].
      * (* Rollback *)
        destruct d as [|d']; [discriminate|]. destruct pre as [|D2 pre2]; [discriminate|].
        destruct (IH d' b (D2 :: pre2) base) as (D' & E & NP); [cbn in *; lia | exact Bal |].
        exists D'. cbn [run step ts_txs ts_state app]. cbn [app] in E, NP.
        destruct (run cf r _) as [xs s2]. cbn [fst snd] in *. split; [exact E|].
        intros x [<-|I]; [discriminate | now apply NP].
    + destruct (step_in_tx cf o b D (pre ++ base) TX) as (x & D1 & ES & NX).
      assert (Bal' : balanced d r = true) by (destruct o; try discriminate; exact Bal).
      destruct (IH d b (D1 :: pre) base) as (D' & E & NP); [cbn in *; lia | exact Bal' |].
      exists D'. cbn [run]. rewrite ES. cbn [app] in E, NP.
      destruct (run cf r _) as [xs s2]. cbn [fst snd] in *.
      destruct x; try congruence; cbn [fst snd]; (split; [exact E|]);
        intros y [<-|I]; try discriminate; now apply NP.
Qed.

(* A rollback restores exactly the state at the matching start *)
Theorem rollback_exact cf body s : balanced 0 body = true ->
  snd (run cf (OStart :: body ++ [ORollback]) s) = s.
Proof.
  intro Bal. destruct s as [b txs].
  set (D0 := match txs with [] => d_empty | D :: _ => D end).
  assert (E0 : step cf OStart (mk_tstate b txs) = (RUnit, mk_tstate b ([D0] ++ txs))).
  { unfold step, D0. cbn. destruct txs; reflexivity. }
  destruct (run_balanced cf body 0 b [D0] txs eq_refl Bal) as (D' & E & NP).
  cbn [app run]. rewrite E0.
  pose proof (run_app cf body [ORollback] (mk_tstate b ([D0] ++ txs)) NP) as RA.
  destruct (run cf (body ++ [ORollback]) _) as [xs s2]. cbn [fst snd] in *.
  rewrite RA, E. reflexivity.
Qed.
