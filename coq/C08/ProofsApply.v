(* C08/ProofsApply.v — applyToTrie (repaired): the committed state after the outermost commit
   is the visible state of the transaction. *)
From Common Require Import Bytes.
From C08 Require Import ModelMap Model ModelSpec ProofsMap ProofsDiff ProofsClear ProofsComp
     ProofsChildren ProofsMain.
Local Open Scope N_scope.

Record dwf (D : diff) : Prop := {
  dwf_main : sd_wf (d_main D);
  dwf_children : wf (d_children D);
  dwf_child : forall c cd, om_get c (d_children D) = Some cd -> sd_wf cd;
  dwf_killed : wf (d_killed D);
}.

Lemma dwf_empty : dwf d_empty.
Proof. split; cbn; try apply wf_nil; [apply sd_wf_empty | intros c cd H; discriminate]. Qed.

Lemma child_changes_wf D c : dwf D -> sd_wf (child_changes D c).
Proof.
  intros [_ _ H _]. unfold child_changes. destruct (om_get c (d_children D)) eqn:E; [now apply (H c) | apply sd_wf_empty].
Qed.

(* the visible content of child trie c inside the transaction *)
Definition cview (bch : chmap) (D : diff) (c : key) : omap val :=
  mview (cbase (gch bch c) (ks_mem c (d_killed D))) (child_changes D c).

Lemma canon_del_list ks ch : canon ch -> canon (om_del_list ks ch).
Proof.
  unfold om_del_list. revert ch; induction ks as [|c ks IH]; intros ch C; [exact C|].
  cbn. apply IH. exact (canon_set_child ch c [] C wf_nil).
Qed.

Lemma fold_bk_delete_child l b : bk_stale b = [] ->
  fold_left bk_delete_child l b = mk_backing (bk_main b) (om_del_list l (bk_children b)) [].
Proof.
  revert b; induction l as [|c l IH]; intros b St.
  - cbn. destruct b; cbn in *; now subst.
  - cbn [fold_left]. rewrite IH by (cbn; now rewrite St). cbn. reflexivity.
Qed.

Lemma fold_apply_child (l : omap sdiff) : forall b, wf l -> (forall c cd, om_get c l = Some cd -> sd_wf cd) ->
  bwf b ->
  let b' := fold_left (fun b ccd => apply_child b (fst ccd) (snd ccd)) l b in
  bk_main b' = bk_main b /\ bwf b' /\
  forall c, gch (bk_children b') c =
            match om_get c l with
            | Some cd => mview (gch (bk_children b) c) cd
            | None => gch (bk_children b) c
            end.
Proof.
  induction l as [|[c1 cd1] r IH]; intros b W H B; cbn zeta.
  - cbn. split; [reflexivity|]. split; [exact B|]. intro c. reflexivity.
  - pose proof (wf_cons_inv _ _ _ W) as [Wr F].
    assert (S1 : sd_wf cd1) by (apply (H c1); cbn; now rewrite kcmp_refl).
    assert (Hr : forall c cd, om_get c r = Some cd -> sd_wf cd).
    { intros c cd G. apply (H c). cbn. destruct (kcmp c c1) eqn:C; [| |exact G].
      - apply kcmp_eq in C. subst. rewrite (om_get_lt_none _ _ F) in G. discriminate.
      - rewrite om_get_lt_none in G; [discriminate|]. eapply Forall_klt_trans; eassumption. }
    cbn [fold_left fst snd]. rewrite apply_child_spec by assumption.
    pose proof (gch_wf _ c1 (bwf_children _ B)) as Wg.
    assert (B1 : bwf (mk_backing (bk_main b)
                 (set_child (bk_children b) c1 (mview (gch (bk_children b) c1) cd1)) []))
      by (apply bwf_set; [exact B | now apply mview_wf]).
    destruct (IH _ Wr Hr B1) as (M & B' & G). cbn zeta in *. split; [exact M|]. split; [exact B'|].
    intro c. rewrite G. cbn [bk_children om_get]. rewrite gch_set_child by apply B.
    unfold keqb. destruct (kcmp c c1) eqn:C.
    + apply kcmp_eq in C. subst. now rewrite (om_get_lt_none _ _ F).
    + rewrite om_get_lt_none; [reflexivity|]. eapply Forall_klt_trans; eassumption.
    + reflexivity.
Qed.

Lemma apply_diff_spec D b : bwf b -> dwf D ->
  let b' := apply_diff cfg_fixed D b in
  bk_main b' = mview (bk_main b) (d_main D) /\ bwf b' /\
  forall c, gch (bk_children b') c = cview (bk_children b) D c.
Proof.
  intros B [Sm Wc Hc Wk]. cbn zeta. unfold apply_diff. cbn [fix_child_ns cfg_fixed].
  rewrite fold_bk_delete_child by apply B.
  rewrite fold_bk_put_main. cbn [bk_main bk_children bk_stale].
  set (b1 := mk_backing _ _ _).
  assert (B1 : bwf b1).
  { split; cbn; [apply wf_fold_put; apply B | apply canon_del_list; apply B | reflexivity]. }
  destruct (fold_apply_child (d_children D) b1 Wc Hc B1) as (M & B2 & G). cbn zeta in *.
  change (fun b0 k => bk_del b0 k) with bk_del. rewrite fold_bk_del_main.
  set (b2 := fold_left _ (d_children D) b1) in *. cbn [bk_main bk_children bk_stale].
  split; [rewrite M; reflexivity|]. split.
  { split; cbn; [apply wf_del_list; apply B2 | apply B2 | apply B2]. }
  intro c. rewrite G. unfold b1. cbn [bk_children]. unfold cview, child_changes.
    assert (E0 : gch (om_del_list (om_keys (d_killed D)) (bk_children b)) c =
                 cbase (gch (bk_children b) c) (ks_mem c (d_killed D))).
    { unfold gch. rewrite om_get_del_list by apply B. rewrite kmem_keys by exact Wk.
      fold (ks_mem c (d_killed D)). now destruct (ks_mem c (d_killed D)). }
  rewrite E0. destruct (om_get c (d_children D)); reflexivity.
Qed.
