(* C08/ModelMap.v — ordered byte-string maps as strictly sorted association lists
   (the abstract backing store of the C08 model, and the maps of the Go storageDiff).
   Definitions only. *)
From Common Require Import Bytes.
Local Open Scope N_scope.

Definition key := list byte.
Definition val := list byte.

(* bytes.Compare / Go string comparison: lexicographic on unsigned bytes *)
Fixpoint kcmp (a b : key) : comparison :=
  match a, b with
  | [], [] => Eq
  | [], _ :: _ => Lt
  | _ :: _, [] => Gt
  | x :: a', y :: b' =>
    match N.compare (b2n x) (b2n y) with
    | Eq => kcmp a' b'
    | c => c
    end
  end.

Definition keqb (a b : key) : bool := match kcmp a b with Eq => true | _ => false end.
Definition kltb (a b : key) : bool := match kcmp a b with Lt => true | _ => false end.

(* bytes.HasPrefix(k, p) *)
Fixpoint has_prefix (p k : key) : bool :=
  match p, k with
  | [], _ => true
  | x :: p', y :: k' => (b2n x =? b2n y) && has_prefix p' k'
  | _ :: _, [] => false
  end.

Definition omap (V : Type) := list (key * V).

Section OMap.
  Context {V : Type}.

  Fixpoint om_get (k : key) (m : omap V) : option V :=
    match m with
    | [] => None
    | (k', v) :: r =>
      match kcmp k k' with
      | Eq => Some v
      | Lt => None
      | Gt => om_get k r
      end
    end.

  Fixpoint om_put (k : key) (v : V) (m : omap V) : omap V :=
    match m with
    | [] => [(k, v)]
    | (k', v') :: r =>
      match kcmp k k' with
      | Eq => (k, v) :: r
      | Lt => (k, v) :: m
      | Gt => (k', v') :: om_put k v r
      end
    end.

  Fixpoint om_del (k : key) (m : omap V) : omap V :=
    match m with
    | [] => []
    | (k', v') :: r =>
      match kcmp k k' with
      | Eq => r
      | Lt => m
      | Gt => (k', v') :: om_del k r
      end
    end.

  Definition om_mem (k : key) (m : omap V) : bool :=
    match om_get k m with Some _ => true | None => false end.

  Definition om_keys (m : omap V) : list key := map fst m.

  (* least key strictly greater than k *)
  Fixpoint om_next (k : key) (m : omap V) : option key :=
    match m with
    | [] => None
    | (k', _) :: r => if kltb k k' then Some k' else om_next k r
    end.

  Definition om_filter (f : key -> bool) (m : omap V) : omap V :=
    filter (fun kv => f (fst kv)) m.

  Definition om_del_list (ks : list key) (m : omap V) : omap V :=
    fold_left (fun acc k => om_del k acc) ks m.
End OMap.

(* key sets *)
Definition kset := omap unit.
Definition ks_add (k : key) (s : kset) : kset := om_put k tt s.
Definition ks_mem (k : key) (s : kset) : bool := om_mem k s.
Definition ks_of_list (l : list key) : kset := fold_left (fun s k => ks_add k s) l [].

Fixpoint kmem (k : key) (l : list key) : bool :=
  match l with [] => false | x :: r => keqb k x || kmem k r end.

(* sort.Strings(a ++ b) for sorted a, b: merge keeping duplicates *)
Fixpoint kmerge (a : list key) : list key -> list key :=
  fix inner (b : list key) : list key :=
    match a, b with
    | [], _ => b
    | _, [] => a
    | x :: a', y :: b' =>
      match kcmp x y with
      | Gt => y :: inner b'
      | _ => x :: kmerge a' b
      end
    end.

(* post-order of the radix tree on keys: a key comes after all its proper extensions *)
Definition post_ltb (a b : key) : bool :=
  if keqb a b then false
  else if has_prefix b a then true          (* b proper prefix of a: a first *)
  else if has_prefix a b then false
  else kltb a b.

Fixpoint post_insert (k : key) (l : list key) : list key :=
  match l with
  | [] => [k]
  | x :: r => if post_ltb k x then k :: l else x :: post_insert k r
  end.
Definition post_sort (l : list key) : list key := fold_right post_insert [] l.
