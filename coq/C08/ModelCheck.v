(* C08/ModelCheck.v — the boolean checks the driver evaluates on the IMPLEMENTATION's observables
   (definitions only; extracted, and re-evaluated inside Coq by the vm_compute cross-check).

   An implementation view is what the harness prints for one history: one observation per
   operation executed (nothing after a panic) and, when every transaction was closed and nothing
   panicked, the contents of the backing trie (main entries, child tries, "root is the root of
   exactly these contents").

   model_ok v ops : the view is exactly what the model of the repaired code produces.
   agrees_b v ops : the property predicate on the view: reads equal the Substrate specification's
                    reads, final contents equal the specification's, root flag set.  ProofsCheck.v
                    proves it equivalent to [agrees] on the model's own view. *)
From Common Require Import Bytes.
From C08 Require Import ModelMap Model ModelSpec.
Local Open Scope N_scope.

Section ListEq.
  Context {A : Type} (e : A -> A -> bool).
  Fixpoint list_eqb (a b : list A) : bool :=
    match a, b with
    | [], [] => true
    | x :: a', y :: b' => e x y && list_eqb a' b'
    | _, _ => false
    end.
  Definition opt_eqb (a b : option A) : bool :=
    match a, b with
    | None, None => true
    | Some x, Some y => e x y
    | _, _ => false
    end.
End ListEq.

Definition kv_eqb (a b : key * val) : bool := keqb (fst a) (fst b) && keqb (snd a) (snd b).
Definition map_eqb (a b : omap val) : bool := list_eqb kv_eqb a b.
Definition child_eqb (a b : key * omap val) : bool := keqb (fst a) (fst b) && map_eqb (snd a) (snd b).
Definition children_eqb (a b : omap (omap val)) : bool := list_eqb child_eqb a b.

Definition obs_eqb (x y : obs) : bool :=
  match x, y with
  | RUnit, RUnit | RErr, RErr | RPanic, RPanic => true
  | RVal a, RVal b => opt_eqb keqb a b
  | RCount n a, RCount m b => (n =? m) && Bool.eqb a b
  | REntries a, REntries b => map_eqb a b
  | RKeys a, RKeys b => list_eqb keqb a b
  | _, _ => false
  end.

Definition is_panic (x : obs) : bool := match x with RPanic => true | _ => false end.

Definition final_t := (omap val * omap (omap val) * bool)%type.
Definition impl_view := (list obs * option final_t)%type.

(* the view of a model run: what the harness would print *)
Definition view_of (r : list obs * tstate) : impl_view :=
  (fst r,
   match ts_txs (snd r) with
   | [] => if existsb is_panic (fst r) then None else Some (final_obs (snd r))
   | _ => None
   end).

Definition final_eqb (f g : final_t) : bool :=
  map_eqb (fst (fst f)) (fst (fst g)) && children_eqb (snd (fst f)) (snd (fst g)) &&
  Bool.eqb (snd f) (snd g).

Definition view_eqb (v w : impl_view) : bool :=
  list_eqb obs_eqb (fst v) (fst w) && opt_eqb final_eqb (snd v) (snd w).

Definition model_ok (v : impl_view) (ops : list op) : bool :=
  view_eqb v (view_of (run cfg_fixed ops ts_init)).

(* the property predicate on a view *)
Definition agrees_b (v : impl_view) (ops : list op) : bool :=
  let sp := srun ops ss_init in
  Nat.eqb (length (fst v)) (length (fst sp)) &&
  list_eqb obs_eqb (norm_list ops (fst v)) (norm_list ops (fst sp)) &&
  match snd v with
  | Some (m, ch, root) =>
    match levels (snd sp) with [] => true | _ => false end &&
    map_eqb m (c_main (backend (snd sp))) &&
    children_eqb (norm_children ch) (norm_children (c_children (backend (snd sp)))) &&
    root
  | None =>
    (* no final contents: a transaction is still open, or the history panicked *)
    match levels (snd sp) with [] => false | _ => true end || existsb is_panic (fst sp)
  end.
