(* C38/Properties.v — property C38: paginated key listing enumerates each matching key exactly once.
   Only statements, each closed by `exact <lemma>`, with Print Assumptions beneath.

   paging fuel t p qty [] : the client loop of the property on the model of state_getKeysPaged
       (dot/rpc/modules/state.go over InmemoryStorageState/InMemoryTrie): first page with AfterKey "",
       then AfterKey = the last key returned ("0x%x" string, compared with strings.Compare), until a
       page is shorter than qty.
   Rep t m : the trie t (canonical) holds exactly the ordered byte-string map m.
   spec_paging m p qty : the keys of m that start (byte-wise) with p, ascending, cut into pages of qty.

   FULL STATEMENT: for every state, prefix and page size the pages enumerate exactly the keys with the
   prefix, ascending, each once; getPairs returns exactly those keys with their values.
   It is refuted for prefixes whose last byte has a zero low nibble when a stored key shares only the
   high nibble (known finding prefix-trim, inherited from InMemoryTrie.GetKeysWithPrefix and pinned by
   TestTrie_ClearPrefixVsDelete): C38_prefix_refuted.  Outside guard_trim the statement is proved. *)
From Common Require Import Bytes Outcome.
From Trie Require Import Nibbles Node Encode Model Spec MapProofs SpecProofs GoSpec.
From C38 Require Import Model Proofs ProofsGo.

(* every page size > 0, every state, every prefix outside the guard: the loop ends and returns the
   keys with the prefix cut into pages ... *)
Theorem C38_paging_partial : forall t m p qty fuel,
  Rep t m -> guard_trim m p = false -> (0 < qty)%N ->
  (length (spec_keys m p) < fuel * N.to_nat qty)%nat ->
  paging fuel t p qty [] = Ok (spec_paging m p qty, true).
Proof. intros t m p qty fuel R G Q F. exact (paging_from_start t m p qty R G Q fuel F). Qed.
Print Assumptions C38_paging_partial.

(* ... and the pages concatenated are exactly those keys, ascending, each once *)
Theorem C38_paging_enumerates : forall m p qty, (0 < qty)%N ->
  concat (spec_paging m p qty) = bm_keys_with_prefix m p.
Proof. exact paging_enumerates. Qed.
Print Assumptions C38_paging_enumerates.

(* the key/value listing *)
Theorem C38_pairs_partial : forall t m,
  Rep t m ->
  pairs t None = Ok (spec_pairs m None) /\
  forall p, guard_trim m p = false -> pairs t (Some p) = Ok (spec_pairs m (Some p)).
Proof. intros t m R. split; [exact (pairs_all t m R)|intros p G; exact (pairs_prefix t m p R G)]. Qed.
Print Assumptions C38_pairs_partial.

(* states reachable through Put satisfy Rep *)
Theorem C38_states : forall es, Rep (trie_of_entries es) (bm_of_list es).
Proof.
  intros es. unfold trie_of_entries, bm_of_list.
  assert (G : forall t m, Rep t m ->
            Rep (fold_left (fun t e => trie_put t (fst e) (snd e)) es t)
                (fold_left (fun m e => bm_put m (fst e) (snd e)) es m)).
  { induction es as [|e es IH]; intros t m R; simpl; auto. apply IH. now apply Rep_put. }
  apply G, Rep_empty.
Qed.
Print Assumptions C38_states.

(* "0x%x" rendering preserves the order, so comparing the rendered keys is comparing the keys *)
Theorem C38_hex_order : forall a b, bytes_compare (hex0x a) (hex0x b) = bytes_compare a b.
Proof. exact hex0x_compare. Qed.
Print Assumptions C38_hex_order.

(* inside the guard the statement fails: 0x1001 and 0x1f02 stored, prefix 0x10 *)
Definition w_state : list (list byte * value) :=
  [([n2b 16; n2b 1], [n2b 170]); ([n2b 31; n2b 2], [n2b 187])].
Theorem C38_prefix_refuted :
  guard_trim (bm_of_list w_state) [n2b 16] = true /\
  paging 5 (trie_of_entries w_state) [n2b 16] 1 [] <> Ok (spec_paging (bm_of_list w_state) [n2b 16] 1, true) /\
  pairs (trie_of_entries w_state) (Some [n2b 16]) <> Ok (spec_pairs (bm_of_list w_state) (Some [n2b 16])).
Proof. vm_compute. repeat split; discriminate. Qed.
Print Assumptions C38_prefix_refuted.

(* non-vacuity: three pages of size 2 over five matching keys, the empty key included *)
Example C38_nonvacuous :
  let es := [([], [n2b 1]); ([n2b 0], [n2b 2]); ([n2b 0; n2b 0], [n2b 3]); ([n2b 0; n2b 1], [n2b 4]);
             ([n2b 1], [n2b 5]); ([n2b 255], [])] in
  guard_trim (bm_of_list es) [] = false /\
  paging 9 (trie_of_entries es) [] 2 [] =
    Ok ([[[]; [n2b 0]]; [[n2b 0; n2b 0]; [n2b 0; n2b 1]]; [[n2b 1]; [n2b 255]]; []], true) /\
  guard_trim (bm_of_list es) [n2b 0] = true /\
  paging 9 (trie_of_entries es) [n2b 1] 1 [] = Ok ([[[n2b 1]]; []], true).
Proof. vm_compute. repeat split; reflexivity. Qed.

(* ================================================================== audit round (aud-rpc-host) *)

(* FULL characterisation, no guard: for every state, every prefix and every page size > 0 the client
   loop terminates and its pages are go_keys_with_prefix m p — the keys whose nibbles start with the
   nibbles of the prefix minus one trailing zero nibble (what InMemoryTrie.GetKeysWithPrefix matches) —
   in ascending order, each once, cut into pages of qty. *)
Theorem C38_paging_go : forall t m p qty fuel,
  Rep t m -> (0 < qty)%N -> (length (go_keys_with_prefix m p) < fuel * N.to_nat qty)%nat ->
  paging fuel t p qty [] = Ok (pages_of (go_keys_with_prefix m p) qty, true) /\
  concat (pages_of (go_keys_with_prefix m p) qty) = go_keys_with_prefix m p /\
  bsorted (go_keys_with_prefix m p) /\ NoDup (go_keys_with_prefix m p).
Proof.
  intros t m p qty fuel R Q F. split; [exact (paging_go t m p qty R Q fuel F)|].
  split; [exact (pages_of_concat _ qty Q)|].
  split; [exact (bsorted_go_keys t m p R)|exact (bsorted_NoDup _ (bsorted_go_keys t m p R))].
Qed.
Print Assumptions C38_paging_go.

(* Hence the property's statement holds for a (state, prefix) pair EXACTLY when it lies outside the
   guard prefix-trim: the guard is not only sufficient (C38_paging_partial) but necessary. *)
Theorem C38_paging_exact : forall t m p qty fuel,
  Rep t m -> (0 < qty)%N -> (length (go_keys_with_prefix m p) < fuel * N.to_nat qty)%nat ->
  (paging fuel t p qty [] = Ok (spec_paging m p qty, true) <-> guard_trim m p = false).
Proof. intros t m p qty fuel R Q F. exact (paging_exact t m p qty R Q fuel F). Qed.
Print Assumptions C38_paging_exact.

Theorem C38_pairs_exact : forall t m p, Rep t m ->
  pairs t (Some p) = Ok (go_pairs m p) /\
  (pairs t (Some p) = Ok (spec_pairs m (Some p)) <-> guard_trim m p = false).
Proof. intros t m p R. split; [exact (pairs_go t m p R)|exact (pairs_exact t m p R)]. Qed.
Print Assumptions C38_pairs_exact.

(* One page after an arbitrary key a (AfterKey = "0x%x" of a) and the first page (AfterKey ""):
   the first qty keys with the prefix that are greater than a.  Every page size, 0 included. *)
Theorem C38_page_after : forall t m p qty a, Rep t m -> guard_trim m p = false ->
  keys_paged t p qty (hex0x a) = Ok (spec_page m p qty (Some a)) /\
  keys_paged t p qty [] = Ok (spec_page m p qty None).
Proof. exact page_after. Qed.
Print Assumptions C38_page_after.

(* What the specification lists are, in the words of the property: spec_keys m p holds exactly the
   keys of the state that start with the prefix, in strictly ascending byte order (so each once);
   spec_pairs pairs exactly those keys with their current values; with no prefix, every key. *)
Theorem C38_spec_meaning : forall t m p, Rep t m ->
  ((forall k, In k (spec_keys m p) <-> (exists v, bm_get m k = Some v) /\ bytes_prefix p k = true) /\
   bsorted (spec_keys m p) /\ NoDup (spec_keys m p)) /\
  (map fst (spec_pairs m (Some p)) = spec_keys m p /\
   (forall k ov, In (k, ov) (spec_pairs m (Some p)) -> ov = bm_get m k /\ ov <> None) /\
   (forall k ov, In (k, ov) (spec_pairs m None) -> ov = bm_get m k /\ ov <> None) /\
   map fst (spec_pairs m None) = map fst m).
Proof.
  intros t m p R. split; [exact (spec_keys_meaning t m p R)|exact (spec_pairs_meaning t m p R)].
Qed.
Print Assumptions C38_spec_meaning.

(* "every state": every sorted byte-string map is the content of a trie satisfying Rep (reached by
   Puts), and conversely Rep forces the map to be sorted; C38_states gives the Put histories. *)
Theorem C38_every_state : forall m,
  (bm_sorted m = true -> exists t, Rep t m) /\ (forall t, Rep t m -> bm_sorted m = true).
Proof.
  intros m. split; [exact (every_map_is_a_state m)|intros t R; exact (Rep_sorted_bmap t m R)].
Qed.
Print Assumptions C38_every_state.

(* non-vacuity of C38_paging_go / C38_paging_exact inside the guard: the loop still terminates and
   enumerates both keys, in order, once *)
Example C38_go_nonvacuous :
  paging 5 (trie_of_entries w_state) [n2b 16] 1 [] =
    Ok (pages_of (go_keys_with_prefix (bm_of_list w_state) [n2b 16]) 1, true) /\
  go_keys_with_prefix (bm_of_list w_state) [n2b 16] = [[n2b 16; n2b 1]; [n2b 31; n2b 2]] /\
  spec_keys (bm_of_list w_state) [n2b 16] = [[n2b 16; n2b 1]].
Proof. vm_compute. repeat split; reflexivity. Qed.
