(* C38/Properties.v — property C38 (statements only). Under construction. *)
From Common Require Import Bytes.
From Trie Require Import Nibbles Node Encode Model Spec.
From C38 Require Import Model.
