(* C38/ProofsGo.v — audit round (aud-rpc-host).
   (1) The paging loop and the single page are characterised for EVERY prefix, without the
       prefix-trim guard, in terms of go_keys_with_prefix (Trie/GoSpec.v: the keys the Go trie matches,
       i.e. the nibble prefix with one trailing zero nibble dropped): the client loop enumerates exactly
       that list, ascending, each key once.  The property (byte-wise prefix) holds exactly when
       guard_trim is false (paging_exact / pairs_exact).
   (2) One page after an arbitrary key (the K1 queries of the harness).
   (3) What the specification lists mean in the words of the property: membership, order, no
       duplicates, values. *)
From Common Require Import Bytes Outcome.
From Trie Require Import Nibbles Node Encode Model Spec NibblesProofs Sem InsertProofs DeleteProofs
     BuildProofs MapProofs QueryProofs SpecProofs GoSpec GoPrefixProofs.
From C38 Require Import Model Proofs.
From Coq Require Import Arith Lia ZifyN ZifyNat Sorting.Sorted.
Local Open Scope nat_scope.

(* ---------- sortedness of any filtered key list of a sorted map ---------- *)
Lemma bsorted_filter_keys (f : list byte * value -> bool) (m : bmap) :
  sorted (kv_of_bmap m) -> bsorted (map fst (filter f m)).
Proof.
  induction m as [|[k v] m IH]; intros S; simpl; [constructor|].
  apply sorted_inv in S as [S F]. destruct (f (k, v)); simpl; [|now apply IH].
  constructor; [now apply IH|]. apply Forall_forall. intros k' Hk'.
  apply in_map_iff in Hk' as ([k'' v''] & <- & Hk'). apply filter_In in Hk' as [Hk' _].
  rewrite Forall_forall in F. specialize (F (key_le_to_nibbles k'', v'')).
  rewrite bytes_ltb_nibbles. apply key_ltb_lt. apply F.
  unfold kv_of_bmap. apply in_map_iff. exists (k'', v''). auto.
Qed.

Lemma Rep_sorted_kv t m : Rep t m -> sorted (kv_of_bmap m).
Proof. intros [_ E]. rewrite <- E. apply sorted_entries. Qed.

Lemma bsorted_go_keys t m p : Rep t m -> bsorted (go_keys_with_prefix m p).
Proof. intros R. apply bsorted_filter_keys. eapply Rep_sorted_kv; eauto. Qed.

(* a strictly sorted list has no duplicates *)
Lemma bsorted_NoDup l : bsorted l -> NoDup l.
Proof.
  induction 1 as [|x l S IH F]; constructor; auto.
  intros Hin. rewrite Forall_forall in F. specialize (F x Hin). now rewrite bytes_ltb_irrefl in F.
Qed.

(* ---------- the fuel of chunk only needs to be large enough ---------- *)
Lemma chunk_fuel q : 0 < q -> forall f1 f2 (l : list (list byte)),
  length l <= f1 -> length l <= f2 -> chunk f1 l q = chunk f2 l q.
Proof.
  intros Q. induction f1 as [|f1 IHf]; intros f2 l H1 H2.
  - destruct l; [|simpl in H1; lia]. destruct f2; simpl; auto. destruct q; [lia|reflexivity].
  - destruct f2 as [|f2].
    + destruct l; [|simpl in H2; lia]. simpl. destruct q; [lia|reflexivity].
    + cbn [chunk]. destruct (length l <? q); auto. f_equal. apply IHf; rewrite skipn_length; lia.
Qed.

(* ---------- the paging loop over any sorted key list the trie returns ---------- *)
Theorem paging_list t p qty L : trie_keys_with_prefix t p = Ok L -> bsorted L -> (0 < qty)%N ->
  forall fuel off after,
    off <= length L ->
    filter (fun k => after_key (hex0x k) after) L = skipn off L ->
    length L - off < fuel * N.to_nat qty ->
    paging fuel t p qty after = Ok (chunk (length L - off) (skipn off L) (N.to_nat qty), true).
Proof.
  intros KL SL Q. set (q := N.to_nat qty). assert (Q' : 0 < q) by (unfold q; lia).
  induction fuel as [|fuel IH]; intros off after Loff Haf Hf; [simpl in Hf; lia|].
  cbn [paging]. unfold keys_paged. rewrite KL.
  rewrite page_loop_spec. rewrite Haf. cbn [N.to_nat]. rewrite Nat.sub_0_r. fold q.
  set (pg := firstn q (skipn off L)).
  assert (Lpg : length pg = Nat.min q (length L - off)) by (unfold pg; now rewrite firstn_length, skipn_length).
  destruct (Nat.lt_ge_cases (length L - off) q) as [Short|Full].
  - replace (N.of_nat (length pg) <? qty)%N with true by (symmetry; apply N.ltb_lt; lia).
    cbn [orb]. f_equal. f_equal.
    destruct (length L - off) as [|n] eqn:En.
    + simpl. unfold pg. rewrite skipn_all2 by lia. now destruct q.
    + cbn [chunk]. rewrite skipn_length.
      replace (length L - off <? q) with true by (symmetry; apply Nat.ltb_lt; lia).
      unfold pg. rewrite firstn_all2; auto. rewrite skipn_length. lia.
  - replace (N.of_nat (length pg) <? qty)%N with false by (symmetry; apply N.ltb_ge; lia).
    replace (length pg =? 0) with false by (symmetry; apply Nat.eqb_neq; lia).
    cbn [orb].
    assert (Elast : last pg [] = nth (off + q - 1) L []) by (apply chunk_skipn_last; lia).
    rewrite (IH (off + q) (hex0x (last pg []))).
    + f_equal. f_equal. destruct (length L - off) as [|n] eqn:En; [lia|]. cbn [chunk].
      rewrite skipn_length.
      replace (length L - off <? q) with false by (symmetry; apply Nat.ltb_ge; lia).
      fold pg. f_equal. rewrite skipn_skipn'.
      apply chunk_fuel; [exact Q'|rewrite skipn_length; lia..].
    + lia.
    + rewrite Elast.
      rewrite (filter_ext _ (fun k => bytes_ltb (nth (off + q - 1) L []) k)) by (intros k; apply hex0x_after).
      rewrite (filter_after_sorted L SL (off + q - 1)) by lia. f_equal. lia.
    + simpl in Hf. lia.
Qed.

(* the pages of a key list *)
Definition pages_of (L : list (list byte)) (qty : N) : list (list (list byte)) :=
  chunk (length L) L (N.to_nat qty).

Lemma spec_paging_pages m p qty : (0 < qty)%N -> spec_paging m p qty = pages_of (spec_keys m p) qty.
Proof.
  intros Q. unfold spec_paging, pages_of.
  now replace (qty =? 0)%N with false by (symmetry; apply N.eqb_neq; lia).
Qed.

Lemma pages_of_concat L qty : (0 < qty)%N -> concat (pages_of L qty) = L.
Proof. intros Q. unfold pages_of. apply concat_chunk; lia. Qed.

(* chunk is injective in the list (the pages determine the key list) *)
Lemma pages_of_inj L1 L2 qty : (0 < qty)%N -> pages_of L1 qty = pages_of L2 qty -> L1 = L2.
Proof.
  intros Q E. rewrite <- (pages_of_concat L1 qty Q), <- (pages_of_concat L2 qty Q). now rewrite E.
Qed.

(* FULL (no guard): the client loop enumerates the keys the Go trie matches *)
Theorem paging_go t m p qty : Rep t m -> (0 < qty)%N ->
  forall fuel, length (go_keys_with_prefix m p) < fuel * N.to_nat qty ->
  paging fuel t p qty [] = Ok (pages_of (go_keys_with_prefix m p) qty, true).
Proof.
  intros R Q fuel Hf. unfold pages_of.
  rewrite (paging_list t p qty _ (Rep_keys_go t m p R) (bsorted_go_keys t m p R) Q fuel 0 []); try lia.
  - now rewrite Nat.sub_0_r.
  - simpl. apply filter_all. intros k _. apply hex0x_after_nil.
Qed.

(* hence: the property's statement holds for (state, prefix) exactly when guard_trim is false *)
Theorem paging_exact t m p qty : Rep t m -> (0 < qty)%N ->
  forall fuel, length (go_keys_with_prefix m p) < fuel * N.to_nat qty ->
  (paging fuel t p qty [] = Ok (spec_paging m p qty, true) <-> guard_trim m p = false).
Proof.
  intros R Q fuel Hf. rewrite (paging_go t m p qty R Q fuel Hf), (spec_paging_pages m p qty Q). split.
  - intros E. destruct (guard_trim m p) eqn:G; [exfalso|reflexivity].
    injection E as E. apply pages_of_inj in E; [|exact Q].
    exact (go_keys_exact m p G E).
  - intros G. unfold spec_keys. now rewrite (go_keys_agree m p G).
Qed.

(* ---------- one page after an arbitrary key ---------- *)
Theorem page_after_go t m p qty a : Rep t m ->
  keys_paged t p qty (hex0x a) =
  Ok (firstn (N.to_nat qty) (filter (fun k => bytes_ltb a k) (go_keys_with_prefix m p))).
Proof.
  intros R. unfold keys_paged. rewrite (Rep_keys_go t m p R). f_equal.
  rewrite page_loop_spec. cbn [N.to_nat]. rewrite Nat.sub_0_r. f_equal.
  apply filter_ext. intros k. apply hex0x_after.
Qed.

Theorem page_first_go t m p qty : Rep t m ->
  keys_paged t p qty [] = Ok (firstn (N.to_nat qty) (go_keys_with_prefix m p)).
Proof.
  intros R. unfold keys_paged. rewrite (Rep_keys_go t m p R). f_equal.
  rewrite page_loop_spec. cbn [N.to_nat]. rewrite Nat.sub_0_r. f_equal.
  apply filter_all. intros k _. apply hex0x_after_nil.
Qed.

Theorem page_after t m p qty a : Rep t m -> guard_trim m p = false ->
  keys_paged t p qty (hex0x a) = Ok (spec_page m p qty (Some a)) /\
  keys_paged t p qty [] = Ok (spec_page m p qty None).
Proof.
  intros R G. rewrite (page_after_go t m p qty a R), (page_first_go t m p qty R).
  unfold spec_page, spec_keys. rewrite (go_keys_agree m p G). split; [reflexivity|].
  f_equal. f_equal. symmetry. apply filter_all. auto.
Qed.

(* ---------- state_getPairs without the guard ---------- *)
Definition go_pairs (m : bmap) (p : list byte) : list (list byte * option value) :=
  map (fun e => (fst e, Some (snd e))) (filter (gmatch p) m).

Theorem pairs_go t m p : Rep t m -> pairs t (Some p) = Ok (go_pairs m p).
Proof.
  intros R. unfold pairs, go_pairs. rewrite (Rep_keys_go t m p R). f_equal.
  unfold go_keys_with_prefix. rewrite !map_map. apply map_ext_in. intros [k v] H. cbn [fst snd].
  f_equal. apply filter_In in H as [H _].
  assert (Gk : bm_get m k = Some v).
  { apply sorted_bm_get; auto. eapply Rep_sorted_kv; eauto. }
  rewrite (Rep_get t m k R (present_not_guarded t m k v R Gk)). exact Gk.
Qed.

Lemma map_pair_inj (l1 l2 : bmap) :
  map (fun e : list byte * value => (fst e, Some (snd e))) l1 =
  map (fun e : list byte * value => (fst e, Some (snd e))) l2 -> l1 = l2.
Proof.
  revert l2; induction l1 as [|[k v] l1 IH]; intros [|[k' v'] l2] E; simpl in E; try discriminate; auto.
  injection E as -> -> E. f_equal. now apply IH.
Qed.

Theorem pairs_exact t m p : Rep t m ->
  (pairs t (Some p) = Ok (spec_pairs m (Some p)) <-> guard_trim m p = false).
Proof.
  intros R. rewrite (pairs_go t m p R). unfold go_pairs, spec_pairs. split.
  - intros E. destruct (guard_trim m p) eqn:G; [exfalso|reflexivity].
    injection E as E. apply map_pair_inj in E.
    apply (go_keys_exact m p G). unfold go_keys_with_prefix, bm_keys_with_prefix.
    cbn beta iota in E. now rewrite E.
  - intros G. f_equal. f_equal.
    pose proof (go_keys_agree m p G) as A.
    (* the two filters agree on every entry outside the guard *)
    apply filter_ext_in_iff. intros e He.
    destruct (bytes_prefix p (fst e)) eqn:B.
    + now apply bmatch_gmatch.
    + destruct (gmatch p e) eqn:Gm; [exfalso|reflexivity].
      assert (In (fst e) (go_keys_with_prefix m p)).
      { unfold go_keys_with_prefix. apply in_map. apply filter_In. auto. }
      rewrite A in H. apply bm_keys_with_prefix_in in H as [_ H]. congruence.
Qed.

(* ---------- the specification lists, in the words of the property ---------- *)
(* exactly the keys starting with the prefix, ascending, each once *)
Theorem spec_keys_meaning t m p : Rep t m ->
  (forall k, In k (spec_keys m p) <-> (exists v, bm_get m k = Some v) /\ bytes_prefix p k = true) /\
  bsorted (spec_keys m p) /\ NoDup (spec_keys m p).
Proof.
  intros R. pose proof (Rep_sorted_kv t m R) as S.
  assert (B : bsorted (spec_keys m p)) by (now apply bsorted_keys_with_prefix).
  split; [|split; [exact B|now apply bsorted_NoDup]].
  intros k. unfold spec_keys. rewrite bm_keys_with_prefix_in. unfold bm_keys. split.
  - intros [H P]. split; [|exact P]. apply in_map_iff in H as ([k0 v] & <- & H).
    exists v. now apply sorted_bm_get.
  - intros [[v Gk] P]. split; [|exact P].
    apply in_map_iff. exists (k, v). split; [reflexivity|].
    clear - Gk. induction m as [|[k' v'] m IH]; [discriminate|]. simpl in Gk.
    destruct (bytes_eqb_spec k' k) as [->|NE]; [left; congruence|right; now apply IH].
Qed.

(* the key/value listing: exactly those keys, each with its current value *)
Theorem spec_pairs_meaning t m p : Rep t m ->
  map fst (spec_pairs m (Some p)) = spec_keys m p /\
  (forall k ov, In (k, ov) (spec_pairs m (Some p)) -> ov = bm_get m k /\ ov <> None) /\
  (forall k ov, In (k, ov) (spec_pairs m None) -> ov = bm_get m k /\ ov <> None) /\
  map fst (spec_pairs m None) = map fst m.
Proof.
  intros R. pose proof (Rep_sorted_kv t m R) as S. unfold spec_pairs, spec_keys, bm_keys_with_prefix.
  repeat split.
  - rewrite map_map. reflexivity.
  - apply in_map_iff in H as ([k0 v] & E & H). apply filter_In in H as [H _].
    injection E as <- <-. symmetry. now apply sorted_bm_get.
  - apply in_map_iff in H as ([k0 v] & E & H). injection E as _ <-. discriminate.
  - apply in_map_iff in H as ([k0 v] & E & H). apply filter_In in H as [H _].
    injection E as <- <-. symmetry. now apply sorted_bm_get.
  - apply in_map_iff in H as ([k0 v] & E & H). injection E as _ <-. discriminate.
  - rewrite map_map. cbn [fst]. rewrite filter_all; auto.
Qed.

(* every sorted map is the state of some trie reachable by Puts (so "every state" = every map) *)
Theorem every_map_is_a_state m : bm_sorted m = true -> exists t, Rep t m.
Proof. intros S. exists (trie_of_bmap m). now apply Rep_trie_of_bmap. Qed.
