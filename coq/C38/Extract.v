From Coq Require Import Extraction ExtrOcamlBasic.
From Common Require Import Bytes Drv Outcome.
From Trie Require Import Nibbles Node Encode Model Spec.
From C38 Require Import Model.
Extraction "model.ml" drv_b2n drv_n2b drv_z_of_n drv_n_of_z drv_nat_of_n drv_n_of_nat
  keys_paged paging pairs spec_paging spec_page spec_pairs trie_of_entries bm_of_list guard_trim hex0x.
