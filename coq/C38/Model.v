(* C38/Model.v — state_getKeysPaged / state_getPairs over the trie model (definitions only).
   Mirrors dot/rpc/modules/state.go (GetKeysPaged, GetPairs) and the pass-through methods of
   dot/state/inmemory_storage.go (GetKeysWithPrefix, Entries, GetStorage = trie.Get). *)
From Common Require Import Bytes Outcome.
From Trie Require Import Nibbles Node Encode Model Spec.
Local Open Scope N_scope.

(* fmt.Sprintf("0x%x", k) as an ASCII string *)
Definition hex_digit (n : N) : byte := n2b (if n <? 10 then 48 + n else 87 + n).
Fixpoint hex_of (k : list byte) : list byte :=
  match k with
  | [] => []
  | b :: r => hex_digit (b2n b / 16) :: hex_digit (b2n b mod 16) :: hex_of r
  end.
Definition hex0x (k : list byte) : list byte := n2b 48 :: n2b 120 :: hex_of k.

(* strings.Compare(fKey, afterKey) == 1 *)
Definition after_key (fkey after : list byte) : bool :=
  match bytes_compare fkey after with Gt => true | _ => false end.

(* the loop of GetKeysPaged over the keys returned by GetKeysWithPrefix *)
Fixpoint page_loop (keys : list (list byte)) (after : list byte) (qty count : N) : list (list byte) :=
  match keys with
  | [] => []
  | k :: r =>
    if after_key (hex0x k) after then
      if qty <=? count then [] else k :: page_loop r after qty (count + 1)
    else page_loop r after qty count
  end.

(* one state_getKeysPaged call: the keys of the page (the response renders each with hex0x) *)
Definition keys_paged (t : trie) (prefix : list byte) (qty : N) (after : list byte)
  : outcome (list (list byte)) :=
  match trie_keys_with_prefix t prefix with
  | Ok keys => Ok (page_loop keys after qty 0)
  | Err c => Err c | Panic => Panic | OutOfFuel => OutOfFuel
  end.

(* the client loop of the property: first page from AfterKey "", then AfterKey := last key of the
   previous page, until a page is shorter than qty; None = did not finish within the fuel *)
Fixpoint paging (fuel : nat) (t : trie) (prefix : list byte) (qty : N) (after : list byte)
  : outcome (list (list (list byte)) * bool) :=
  match fuel with
  | O => Ok ([], false)
  | S f =>
    match keys_paged t prefix qty after with
    | Ok pg =>
      if (N.of_nat (length pg) <? qty) || (length pg =? 0)%nat then Ok ([pg], true)
      else match paging f t prefix qty (hex0x (last pg [])) with
           | Ok (ps, fin) => Ok (pg :: ps, fin)
           | e => e
           end
    | Err c => Err c | Panic => Panic | OutOfFuel => OutOfFuel
    end
  end.

(* state_getPairs: no prefix (nil, "" or "0x") lists Entries(); otherwise the keys with the prefix,
   each with GetStorage *)
Definition pairs (t : trie) (prefix : option (list byte)) : outcome (list (list byte * option value)) :=
  match prefix with
  | None => Ok (trie_entries t)
  | Some p =>
    match trie_keys_with_prefix t p with
    | Ok keys => Ok (map (fun k => (k, trie_get t k)) keys)
    | Err c => Err c | Panic => Panic | OutOfFuel => OutOfFuel
    end
  end.

(* ---- specification side: the same queries on the ordered map ---- *)
Definition spec_keys (m : bmap) (prefix : list byte) : list (list byte) := bm_keys_with_prefix m prefix.

(* all keys with the prefix, in ascending order, cut into pages of qty (the last one shorter) *)
Fixpoint chunk (fuel : nat) (l : list (list byte)) (qty : nat) : list (list (list byte)) :=
  match fuel with
  | O => [l]
  | S f => if (length l <? qty)%nat then [l] else firstn qty l :: chunk f (skipn qty l) qty
  end.
Definition spec_paging (m : bmap) (prefix : list byte) (qty : N) : list (list (list byte)) :=
  if qty =? 0 then [[]]
  else let ks := spec_keys m prefix in chunk (length ks) ks (N.to_nat qty).

(* one page after an arbitrary key (None: from the start) *)
Definition spec_page (m : bmap) (prefix : list byte) (qty : N) (after : option (list byte)) : list (list byte) :=
  firstn (N.to_nat qty)
         (filter (fun k => match after with None => true | Some a => bytes_ltb a k end) (spec_keys m prefix)).

Definition spec_pairs (m : bmap) (prefix : option (list byte)) : list (list byte * option value) :=
  map (fun e => (fst e, Some (snd e)))
      (filter (fun e => match prefix with None => true | Some p => bytes_prefix p (fst e) end) m).

Definition trie_of_entries (es : list (list byte * value)) : trie :=
  fold_left (fun t e => trie_put t (fst e) (snd e)) es None.

(* ---- audit round: boolean comparisons for the vm_compute cross-check of the extraction ---- *)
Fixpoint keys_eqb (a b : list (list byte)) : bool :=
  match a, b with
  | [], [] => true
  | x :: a', y :: b' => bytes_eqb x y && keys_eqb a' b'
  | _, _ => false
  end.
Fixpoint pages_eqb (a b : list (list (list byte))) : bool :=
  match a, b with
  | [], [] => true
  | x :: a', y :: b' => keys_eqb x y && pages_eqb a' b'
  | _, _ => false
  end.
Fixpoint pairs_eqb (a : list (list byte * option value)) (b : list (list byte * value)) : bool :=
  match a, b with
  | [], [] => true
  | (k, Some v) :: a', (k', v') :: b' => bytes_eqb k k' && bytes_eqb v v' && pairs_eqb a' b'
  | _, _ => false
  end.
Definition check_paging (t : trie) (p : list byte) (qty : N) (fuel : nat) (obs : list (list (list byte))) : bool :=
  match paging fuel t p qty [] with Ok (ps, true) => pages_eqb ps obs | _ => false end.
Definition check_page (t : trie) (p : list byte) (qty : N) (after : option (list byte)) (obs : list (list byte)) : bool :=
  match keys_paged t p qty (match after with None => [] | Some a => hex0x a end) with
  | Ok pg => keys_eqb pg obs | _ => false end.
Definition check_pairs (t : trie) (p : option (list byte)) (obs : list (list byte * value)) : bool :=
  match pairs t p with Ok l => pairs_eqb l obs | _ => false end.
