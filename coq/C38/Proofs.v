(* C38/Proofs.v — paging through state_getKeysPaged enumerates exactly the keys with the prefix,
   ascending, each once; state_getPairs returns exactly those keys with their values. *)
From Common Require Import Bytes Outcome.
From Trie Require Import Nibbles Node Encode Model Spec NibblesProofs Sem InsertProofs DeleteProofs
     BuildProofs MapProofs QueryProofs.
From C38 Require Import Model.
From Coq Require Import Arith Lia ZifyN ZifyNat Sorting.Sorted.
Local Open Scope nat_scope.

(* ---------- "0x%x" preserves the order of byte strings ---------- *)
Lemma hex_digit_val n : (n < 16)%N -> b2n (hex_digit n) = (if n <? 10 then 48 + n else 87 + n)%N.
Proof. intros L. unfold hex_digit. apply b2n_n2b_small. destruct (n <? 10)%N eqn:E; lia. Qed.

Lemma N_compare_eq_iff a b c d : (a ?= b)%N = (c ?= d)%N <->
  ((a < b)%N <-> (c < d)%N) /\ ((a = b) <-> (c = d)).
Proof.
  destruct (N.compare_spec a b), (N.compare_spec c d); split; try discriminate; try reflexivity; intros; try lia.
Qed.

Lemma hex_digit_compare x y : (x < 16)%N -> (y < 16)%N ->
  N.compare (b2n (hex_digit x)) (b2n (hex_digit y)) = N.compare x y.
Proof.
  intros Lx Ly. rewrite !hex_digit_val by assumption. apply N_compare_eq_iff.
  destruct (N.ltb_spec x 10), (N.ltb_spec y 10); lia.
Qed.

Lemma byte_split_compare x y :
  N.compare (b2n x) (b2n y) =
  match N.compare (b2n x / 16) (b2n y / 16) with
  | Eq => N.compare (b2n x mod 16) (b2n y mod 16)
  | c => c
  end.
Proof.
  pose proof (N.div_mod (b2n x) 16). pose proof (N.div_mod (b2n y) 16).
  pose proof (N.mod_lt (b2n x) 16). pose proof (N.mod_lt (b2n y) 16).
  destruct (N.compare_spec (b2n x / 16) (b2n y / 16));
    [destruct (N.compare_spec (b2n x mod 16) (b2n y mod 16))|..];
    destruct (N.compare_spec (b2n x) (b2n y)); auto; lia.
Qed.

Lemma hex_of_compare a b : bytes_compare (hex_of a) (hex_of b) = bytes_compare a b.
Proof.
  revert b; induction a as [|x a IH]; intros [|y b]; simpl; auto.
  pose proof (b2n_lt x). pose proof (b2n_lt y).
  assert (b2n x / 16 < 16)%N by (apply N.div_lt_upper_bound; lia).
  assert (b2n y / 16 < 16)%N by (apply N.div_lt_upper_bound; lia).
  assert (b2n x mod 16 < 16)%N by (apply N.mod_lt; lia).
  assert (b2n y mod 16 < 16)%N by (apply N.mod_lt; lia).
  rewrite !hex_digit_compare by assumption. rewrite (byte_split_compare x y), IH.
  destruct (N.compare (b2n x / 16) (b2n y / 16)); auto.
Qed.
Lemma hex0x_compare a b : bytes_compare (hex0x a) (hex0x b) = bytes_compare a b.
Proof. unfold hex0x. cbn [bytes_compare]. rewrite !N.compare_refl. apply hex_of_compare. Qed.
Lemma hex0x_after_nil k : after_key (hex0x k) [] = true.
Proof. reflexivity. Qed.
Lemma hex0x_after k a : after_key (hex0x k) (hex0x a) = bytes_ltb a k.
Proof.
  unfold after_key, bytes_ltb. rewrite hex0x_compare.
  assert (X : forall p q, bytes_compare q p = CompOpp (bytes_compare p q)).
  { induction p as [|x p IHp]; intros [|y q]; simpl; auto.
    rewrite (N.compare_antisym (b2n x) (b2n y)). destruct (b2n x ?= b2n y)%N; simpl; auto. }
  rewrite (X a k). destruct (bytes_compare a k); reflexivity.
Qed.

(* ---------- one page ---------- *)
Lemma page_loop_spec keys after qty : forall count,
  page_loop keys after qty count =
  firstn (N.to_nat qty - N.to_nat count) (filter (fun k => after_key (hex0x k) after) keys).
Proof.
  induction keys as [|k keys IH]; intros count; simpl.
  - now destruct (N.to_nat qty - N.to_nat count).
  - destruct (after_key (hex0x k) after); [|apply IH].
    destruct (N.leb_spec qty count) as [L|L].
    + replace (N.to_nat qty - N.to_nat count) with 0 by lia. reflexivity.
    + rewrite IH. replace (N.to_nat qty - N.to_nat count) with (S (N.to_nat qty - N.to_nat (count + 1))) by lia.
      reflexivity.
Qed.

(* ---------- sorted byte-key lists ---------- *)
Definition bsorted (l : list (list byte)) : Prop := StronglySorted (fun a b => bytes_ltb a b = true) l.

Lemma bytes_ltb_trans a b c : bytes_ltb a b = true -> bytes_ltb b c = true -> bytes_ltb a c = true.
Proof. rewrite !bytes_ltb_nibbles. apply key_ltb_trans. Qed.
Lemma bytes_ltb_irrefl a : bytes_ltb a a = false.
Proof. rewrite bytes_ltb_nibbles. apply key_ltb_irrefl. Qed.
Lemma bytes_ltb_asym a b : bytes_ltb a b = true -> bytes_ltb b a = false.
Proof.
  intros H. destruct (bytes_ltb b a) eqn:E; auto.
  pose proof (bytes_ltb_trans _ _ _ H E) as X. now rewrite bytes_ltb_irrefl in X.
Qed.

(* in a sorted list, the keys after the i-th key are the rest of the list *)
Lemma filter_after_sorted l : bsorted l -> forall i, i < length l ->
  filter (fun k => bytes_ltb (nth i l []) k) l = skipn (S i) l.
Proof.
  induction 1 as [|x l S IH F]; intros i Li; simpl in *; [lia|].
  rewrite Forall_forall in F. destruct i as [|i].
  - rewrite bytes_ltb_irrefl. apply filter_all. intros k Hk. now apply F.
  - assert (Hn : In (nth i l []) l) by (apply nth_In; lia).
    rewrite (bytes_ltb_asym x (nth i l []) (F _ Hn)). apply IH. lia.
Qed.

Lemma bsorted_keys_with_prefix (m : bmap) p :
  sorted (kv_of_bmap m) -> bsorted (bm_keys_with_prefix m p).
Proof.
  unfold bm_keys_with_prefix. induction m as [|[k v] m IH]; intros S; simpl; [constructor|].
  apply sorted_inv in S as [S F]. destruct (bytes_prefix p k); simpl; [|now apply IH].
  constructor; [now apply IH|]. apply Forall_forall. intros k' Hk'.
  apply in_map_iff in Hk' as ([k'' v''] & <- & Hk'). apply filter_In in Hk' as [Hk' _].
  rewrite Forall_forall in F. specialize (F (key_le_to_nibbles k'', v'')).
  rewrite bytes_ltb_nibbles. apply key_ltb_lt. apply F.
  unfold kv_of_bmap. apply in_map_iff. exists (k'', v''). auto.
Qed.

(* ---------- the paging loop ---------- *)
Lemma last_firstn_nth q : forall (R : list (list byte)), 0 < q -> q <= length R ->
  last (firstn q R) [] = nth (q - 1) R [].
Proof.
  induction q as [|q IH]; intros R Q LR; [lia|].
  destruct R as [|x R]; simpl in LR; [lia|]. destruct q as [|q].
  - reflexivity.
  - change (firstn (S (S q)) (x :: R)) with (x :: firstn (S q) R).
    replace (S (S q) - 1) with (S q) by lia. cbn [nth].
    specialize (IH R ltac:(lia) ltac:(lia)). replace (S q - 1) with q in IH by lia.
    destruct (firstn (S q) R) as [|y l'] eqn:Ef; [destruct R; simpl in *; [lia|discriminate]|].
    change (last (x :: y :: l') []) with (last (y :: l') []). exact IH.
Qed.
Lemma chunk_skipn_last (L : list (list byte)) q off :
  0 < q -> off + q <= length L -> last (firstn q (skipn off L)) [] = nth (off + q - 1) L [].
Proof.
  intros Q H. rewrite last_firstn_nth; [|exact Q|rewrite skipn_length; lia].
  rewrite <- (firstn_skipn off L) at 2.
  rewrite app_nth2 by (rewrite firstn_length; lia). rewrite firstn_length. f_equal. lia.
Qed.

Lemma skipn_skipn' {A} a b (l : list A) : skipn a (skipn b l) = skipn (b + a) l.
Proof. revert l; induction b as [|b IH]; intros l; simpl; auto. destruct l; simpl; auto. now destruct a. Qed.

Theorem paging_spec t m p qty : Rep t m -> guard_trim m p = false -> (0 < qty)%N ->
  forall fuel off after,
    off <= length (spec_keys m p) ->
    filter (fun k => after_key (hex0x k) after) (spec_keys m p) = skipn off (spec_keys m p) ->
    length (spec_keys m p) - off < fuel * N.to_nat qty ->
    paging fuel t p qty after =
    Ok (chunk (length (spec_keys m p) - off) (skipn off (spec_keys m p)) (N.to_nat qty), true).
Proof.
  intros R G Q. set (L := spec_keys m p). set (q := N.to_nat qty). assert (Q' : 0 < q) by (unfold q; lia).
  assert (SL : bsorted L).
  { apply bsorted_keys_with_prefix. destruct R as [_ E]. rewrite <- E. apply sorted_entries. }
  induction fuel as [|fuel IH]; intros off after Loff Haf Hf; [simpl in Hf; lia|].
  cbn [paging]. unfold keys_paged. rewrite (Rep_keys_with_prefix t m p R G).
  rewrite page_loop_spec. fold (spec_keys m p). fold L. rewrite Haf. cbn [N.to_nat]. rewrite Nat.sub_0_r. fold q.
  set (pg := firstn q (skipn off L)).
  assert (Lpg : length pg = Nat.min q (length L - off)) by (unfold pg; now rewrite firstn_length, skipn_length).
  destruct (Nat.lt_ge_cases (length L - off) q) as [Short|Full].
  - (* last (short, possibly empty) page *)
    replace (N.of_nat (length pg) <? qty)%N with true by (symmetry; apply N.ltb_lt; lia).
    cbn [orb]. f_equal. f_equal.
    destruct (length L - off) as [|n] eqn:En.
    + simpl. unfold pg. rewrite skipn_all2 by lia. now destruct q.
    + cbn [chunk]. rewrite skipn_length.
      replace (length L - off <? q) with true by (symmetry; apply Nat.ltb_lt; lia).
      unfold pg. rewrite firstn_all2; auto. rewrite skipn_length. lia.
  - (* a full page: continue after its last key *)
    replace (N.of_nat (length pg) <? qty)%N with false by (symmetry; apply N.ltb_ge; lia).
    replace (length pg =? 0) with false by (symmetry; apply Nat.eqb_neq; lia).
    cbn [orb].
    assert (Elast : last pg [] = nth (off + q - 1) L []) by (apply chunk_skipn_last; lia).
    rewrite (IH (off + q) (hex0x (last pg []))).
    + f_equal. f_equal. destruct (length L - off) as [|n] eqn:En; [lia|]. cbn [chunk].
      rewrite skipn_length.
      replace (length L - off <? q) with false by (symmetry; apply Nat.ltb_ge; lia).
      fold pg. f_equal. rewrite skipn_skipn'.
      (* the fuel of chunk only needs to be large enough *)
      assert (Fu : forall f1 f2 (l : list (list byte)), length l <= f1 -> length l <= f2 -> chunk f1 l q = chunk f2 l q).
      { induction f1 as [|f1 IHf]; intros f2 l H1 H2.
        - destruct l; [|simpl in H1; lia]. destruct f2; simpl; auto. now destruct q.
        - destruct f2 as [|f2].
          + destruct l; [|simpl in H2; lia]. simpl. now destruct q.
          + cbn [chunk]. destruct (length l <? q); auto. f_equal. apply IHf; rewrite skipn_length; lia. }
      apply Fu; rewrite skipn_length; lia.
    + lia.
    + rewrite Elast.
      rewrite (filter_ext _ (fun k => bytes_ltb (nth (off + q - 1) L []) k)) by (intros k; apply hex0x_after).
      rewrite (filter_after_sorted L SL (off + q - 1)) by lia. f_equal. lia.
    + simpl in Hf. lia.
Qed.

(* the pages, concatenated, are the keys with the prefix: ascending, each exactly once *)
Lemma concat_chunk (l : list (list byte)) q : 0 < q -> forall fuel, length l <= fuel -> concat (chunk fuel l q) = l.
Proof.
  intros Q fuel. revert l. induction fuel as [|fuel IH]; intros l H; simpl.
  - now rewrite app_nil_r.
  - destruct (length l <? q); simpl; [now rewrite app_nil_r|].
    rewrite IH by (rewrite skipn_length; lia). apply firstn_skipn.
Qed.

Theorem paging_from_start t m p qty : Rep t m -> guard_trim m p = false -> (0 < qty)%N ->
  forall fuel, length (spec_keys m p) < fuel * N.to_nat qty ->
  paging fuel t p qty [] = Ok (spec_paging m p qty, true).
Proof.
  intros R G Q fuel Hf. unfold spec_paging.
  replace (qty =? 0)%N with false by (symmetry; apply N.eqb_neq; lia).
  rewrite (paging_spec t m p qty R G Q fuel 0 []); try lia.
  - now rewrite Nat.sub_0_r.
  - simpl. apply filter_all. intros k _. apply hex0x_after_nil.
Qed.

Theorem paging_enumerates m p qty : (0 < qty)%N -> concat (spec_paging m p qty) = spec_keys m p.
Proof.
  intros Q. unfold spec_paging. replace (qty =? 0)%N with false by (symmetry; apply N.eqb_neq; lia).
  apply concat_chunk; lia.
Qed.

(* ---------- state_getPairs ---------- *)
Theorem pairs_all t m : Rep t m -> pairs t None = Ok (spec_pairs m None).
Proof.
  intros R. unfold pairs, spec_pairs. rewrite (Rep_entries t m R). f_equal.
  rewrite filter_all; auto.
Qed.

Theorem pairs_prefix t m p : Rep t m -> guard_trim m p = false ->
  pairs t (Some p) = Ok (spec_pairs m (Some p)).
Proof.
  intros R G. unfold pairs, spec_pairs. rewrite (Rep_keys_with_prefix t m p R G). f_equal.
  unfold bm_keys_with_prefix. rewrite !map_map. apply map_ext_in. intros [k v] H. cbn [fst snd].
  f_equal. apply filter_In in H as [H _].
  assert (Gk : bm_get m k = Some v).
  { apply sorted_bm_get; auto. destruct R as [_ E]. rewrite <- E. apply sorted_entries. }
  rewrite (Rep_get t m k R (present_not_guarded t m k v R Gk)). exact Gk.
Qed.
