(* C06/LookupProofs.v — a trie committed to the node database reads back through the lookup. *)
From Common Require Import Bytes Outcome.
From Coq Require Import Strings.Byte Arith Lia.
From TrieCodec Require Import Codec View Db ProofsBasic ProofsHeader ProofsDecode ProofsDb.
From C06 Require Import Lookup.
Local Open Scope nat_scope.

Section Proofs.
Variable H : list byte -> list byte.
Hypothesis Hlen : forall x, length (H x) = 32.
(* scale.Unmarshal turns an all-zero hash into the empty H256: the hash never is all zero *)
Hypothesis Hnz : forall x, h256_of (H x) = H x.
Variable st : bool * bool.

Notation tlook := (Lookup.tlook st).
Notation tneeds_sub := (Lookup.tneeds_sub H).

Lemma lookup_leaf pk sv mbh key :
  lookup (TN pk sv mbh []) key = if bytes_eqb pk key then sv else None.
Proof.
  simpl. destruct (bytes_eqb pk key); auto. destruct (is_prefix pk key); auto.
  destruct (skipn (length pk) key); auto.
Qed.

Lemma bytes_eqb_prefix a b : bytes_eqb a b = true -> is_prefix a b = true.
Proof. intros E. apply bytes_eqb_eq in E. subst. rewrite <- (app_nil_r b) at 2. apply is_prefix_app_true. Qed.

Lemma firstn_app_exact {A} (p r : list A) : firstn (length p) (p ++ r) = p.
Proof. induction p; simpl; auto. f_equal; auto. Qed.

(* the bindings of the child at position idx are among those of the branch *)
Lemma tneeds_child_in p pk sv mbh cs idx c :
  nth idx cs None = Some c ->
  incl (tneeds_child H tneeds_sub (p ++ pk ++ [n2b (N.of_nat idx)]) c) (tneeds_sub p (TN pk sv mbh cs)).
Proof.
  intros E. simpl. apply incl_appr.
  assert (G : forall l i j, nth j l None = Some c ->
     incl (tneeds_child H tneeds_sub (p ++ pk ++ [n2b (N.of_nat (i + j))]) c)
          ((fix go (l : list (option tnode)) (i : nat) : list binding :=
              match l with
              | [] => []
              | None :: r => go r (S i)
              | Some c :: r => tneeds_child H tneeds_sub (p ++ pk ++ [n2b (N.of_nat i)]) c ++ go r (S i)
              end) l i)).
  { induction l as [|[c'|] l IH]; intros i j Ej.
    - destruct j; discriminate.
    - destruct j; simpl in Ej.
      + inversion Ej; subst. rewrite Nat.add_0_r. apply incl_appl. apply incl_refl.
      + apply incl_appr. replace (i + S j) with (S i + j) by lia. apply IH; auto.
    - destruct j; simpl in Ej; [discriminate|].
      replace (i + S j) with (S i + j) by lia. apply IH; auto. }
  exact (G cs 0 idx E).
Qed.

Lemma tlook_node : forall n, wf_node n = true ->
  forall fuel d p partial,
    length partial < fuel -> has d (tneeds_sub p n) ->
    tlook fuel d (p ++ partial) (length p) (encode H n) = lookup n partial.
Proof.
  induction n as [pk sv mbh cs IH] using tnode_ind'. intros W fuel d p partial Hf Hh.
  destruct fuel as [|f]; [lia|].
  destruct (wf_unfold H Hlen _ _ _ _ W) as (Wpk & Wl & Wsv & Wcs & Wch).
  cbn [Lookup.tlook]. rewrite skipn_app_exact.
  rewrite <- (app_nil_r (encode H (TN pk sv mbh cs))).
  rewrite (cdecode_encode H Hlen st true _ [] W).
  (* the value binding *)
  assert (Hval : bytes_eqb pk partial = true -> forall v, sv = Some v ->
            fetch d (p ++ partial) (if mbh then DVHashed (h256_of (H v)) else DVInline (v, 0%N)) = Some v).
  { intros E v Esv. apply bytes_eqb_eq in E. subst partial sv. destruct mbh; simpl.
    - rewrite Hnz. simpl in Hh. unfold has in Hh. inversion Hh as [|? ? Hv _]; subst. simpl in Hv. exact Hv.
    - unfold zb_bytes. simpl. now rewrite app_nil_r. }
  destruct cs as [|c0 cs0].
  - (* leaf *)
    rewrite lookup_leaf. unfold cview.
    destruct sv as [v|]; [|destruct Wsv as [_ Wn]; congruence].
    destruct (bytes_eqb pk partial) eqn:E; auto.
  - remember (c0 :: cs0) as cs eqn:Ecs.
    replace (cview H (TN pk sv mbh cs)) with
      (CBranch pk (match sv with
                   | Some v => Some (if mbh then DVHashed (h256_of (H v)) else DVInline (v, 0%N))
                   | None => None end) (map (cvchild H) cs)) by (subst cs; reflexivity).
    cbn [lookup].
    destruct (bytes_eqb pk partial) eqn:E.
    + rewrite (bytes_eqb_prefix _ _ E). simpl. destruct sv as [v|]; auto.
    + destruct (is_prefix pk partial) eqn:Epre; simpl; auto.
      destruct (is_prefix_app _ _ Epre) as (r & Er). subst partial.
      rewrite skipn_app_exact. destruct r as [|i rest]; auto.
      rewrite pick_nth.
      replace (nth (N.to_nat (b2n i)) (map (cvchild H) cs) None)
        with (cvchild H (nth (N.to_nat (b2n i)) cs None)) by (symmetry; apply (map_nth (cvchild H) cs None)).
      destruct (nth (N.to_nat (b2n i)) cs None) as [c|] eqn:Ec; simpl; auto.
      (* the child c at nibble i *)
      assert (Hin : In (Some c) cs).
      { rewrite <- Ec. apply nth_In. destruct (Nat.lt_ge_cases (N.to_nat (b2n i)) (length cs)); auto.
        rewrite nth_overflow in Ec by auto. discriminate. }
      assert (Wc : wf_node c = true).
      { rewrite Forall_forall in Wch. apply (Wch (Some c) Hin). }
      assert (IHc := proj1 (Forall_forall _ _) IH (Some c) Hin). simpl in IHc.
      set (p' := p ++ pk ++ [i]).
      assert (Ekey : p ++ pk ++ i :: rest = p' ++ rest) by (unfold p'; rewrite <- !app_assoc; reflexivity).
      assert (Elen : length p + length pk + 1 = length p') by (unfold p'; rewrite !app_length; simpl; lia).
      assert (Hsub : has d (tneeds_child H tneeds_sub p' c)).
      { eapply has_incl; [|exact Hh].
        replace p' with (p ++ pk ++ [n2b (N.of_nat (N.to_nat (b2n i)))]).
        - apply tneeds_child_in; auto.
        - unfold p'. rewrite N2Nat.id, n2b_b2n. reflexivity. }
      unfold tneeds_child in Hsub. apply has_app in Hsub. destruct Hsub as (Hnode & Hrec).
      rewrite Ekey, Elen.
      assert (Hf' : length rest < f) by (rewrite app_length in Hf; simpl in Hf; lia).
      destruct (length (encode H c) <? 32) eqn:El.
      * simpl. unfold zb_bytes. simpl. rewrite app_nil_r. apply IHc; auto.
      * simpl. rewrite firstn_app_exact, Hnz.
        unfold has in Hnode. inversion Hnode as [|? ? Hb _]; subst. simpl in Hb. rewrite Hb.
        apply IHc; auto.
Qed.

Theorem tget_correct n d kb :
  wf_node n = true -> has d (Lookup.tneeds_root H n) ->
  tget st d (H (encode H n)) kb = lookup n (nibbles_of_bytes kb).
Proof.
  intros W Hh. unfold tget, tneeds_root in *.
  unfold has in Hh. inversion Hh as [|? ? Hroot Hsub]; subst. simpl in Hroot. rewrite Hroot.
  apply (tlook_node n W _ d [] (nibbles_of_bytes kb)); auto.
Qed.

End Proofs.
