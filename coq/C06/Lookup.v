(* C06/Lookup.v — reading a committed trie back through the node database.
   [tlook]/[tget] mirror TrieLookup.lookupNode / lookupValue / fetchValue of
   pkg/trie/triedb/lookup.go over the node decoder of pkg/trie/triedb/codec (TrieCodec.cdecode,
   whose round trip with the encoder is property C07): database keys are the nibble prefix of the
   node (Prefix.JoinedBytes: whole bytes, a trailing odd nibble padded to the left) followed by the
   hash, the root under its hash alone, a hashed value under the full key followed by its hash.
   [tneeds_root n] is what commit()/commitChild() of triedb.go write for the trie n.
   Theorem [tget_correct]: over any database holding those bindings, the lookup returns exactly
   the value the trie stores under the key (TrieCodec.Db.lookup). *)
From Common Require Import Bytes Outcome.
From Coq Require Import Strings.Byte Arith Lia.
From TrieCodec Require Import Codec View Db ProofsBasic ProofsHeader ProofsDecode ProofsDb.
Local Open Scope nat_scope.

(* Nibbles.Left().JoinedBytes() of a nibble prefix *)
Fixpoint pack_left (ns : list byte) : list byte :=
  match ns with
  | a :: b :: r => n2b (b2n a * 16 + b2n b) :: pack_left r
  | [a] => [n2b (b2n a * 16)]
  | [] => []
  end.

Section TLookup.
Variable H : list byte -> list byte.
Variable st : bool * bool.

(* fetchValue *)
Definition fetch (d : db) (key : list byte) (v : dval) : option (list byte) :=
  match v with
  | DVInline z => Some (zb_bytes z)
  | DVHashed h => db_get d (pack_left key ++ h)
  end.

(* lookupNode + lookupValue; [consumed] nibbles of [key] lead to the node encoded by [data].
   Every error path of TrieDB.Get returns nil. *)
Fixpoint tlook (fuel : nat) (d : db) (key : list byte) (consumed : nat) (data : list byte)
  : option (list byte) :=
  match fuel with
  | O => None
  | S f =>
    let partial := skipn consumed key in
    match cdecode st true data with
    | Ok CEmpty => None
    | Ok (CLeaf pk v) => if bytes_eqb pk partial then fetch d key v else None
    | Ok (CBranch pk ov cs) =>
      if negb (is_prefix pk partial) then None
      else if bytes_eqb pk partial then (match ov with Some v => fetch d key v | None => None end)
      else
        match skipn (length pk) partial with
        | [] => None
        | i :: _ =>
          let consumed' := consumed + length pk + 1 in
          match nth (N.to_nat (b2n i)) cs None with
          | None => None
          | Some (CInline z) => tlook f d key consumed' (zb_bytes z)
          | Some (CHashed h) =>
            match db_get d (pack_left (firstn consumed' key) ++ h) with
            | Some data' => tlook f d key consumed' data'
            | None => None
            end
          end
        end
    | _ => None
    end
  end.

(* a fresh TrieDB at [root]: Get(key bytes) *)
Definition tget (d : db) (root : list byte) (kb : list byte) : option (list byte) :=
  let key := nibbles_of_bytes kb in
  match db_get d root with
  | Some data => tlook (S (length key)) d key 0 data
  | None => None
  end.

(* ---------- what commit writes ---------- *)
Definition tneeds_child (rec : list byte -> tnode -> list binding) (p : list byte) (c : tnode) : list binding :=
  (if (length (encode H c) <? 32) then [] else [(pack_left p ++ H (encode H c), encode H c)]) ++ rec p c.

Fixpoint tneeds_sub (p : list byte) (n : tnode) : list binding :=
  match n with
  | TN pk sv mbh cs =>
    (match sv with Some v => if mbh then [(pack_left (p ++ pk) ++ H v, v)] else [] | None => [] end)
    ++ (fix go (l : list (option tnode)) (i : nat) : list binding :=
          match l with
          | [] => []
          | None :: r => go r (S i)
          | Some c :: r => tneeds_child tneeds_sub (p ++ pk ++ [n2b (N.of_nat i)]) c ++ go r (S i)
          end) cs 0
  end.

Definition tneeds_root (n : tnode) : list binding := (H (encode H n), encode H n) :: tneeds_sub [] n.

End TLookup.
