(* C06/Model.v — observational model of the database-backed trie engine pkg/trie/triedb
   (definitions only).  Tier B (DESIGN.md §5 C06): the insert/remove/fix inspectors of triedb.go
   are not mirrored; the model says WHAT the engine must compute:
     - a TrieDB handle denotes a byte-keyed map (Put/Delete are bm_put/bm_del of Trie/Spec.v),
     - Hash() is the spec root of that map for the handle's state version,
     - commit() stores the nodes of the canonical trie (and the values that are hashed) in a
       key/value database under the keys triedb.go uses (nibble prefix ++ hash; the root under
       its hash alone),
     - a fresh handle opened at a root reads through TrieLookup.lookupValue (lookup.go), which IS
       mirrored algorithmically here together with the node decoder it relies on
       (pkg/trie/triedb/codec: decodeHeader, decodeKey, decodeLeaf, decodeBranch).
   NewValue's inline/hashed threshold is [value_hashed]; [value_hashed_pinned] is the comparison
   of the pinned tree (len >= 32), kept for the refutation witness. *)
From Common Require Import Bytes.
From Trie Require Import Nibbles Node Encode Spec.
From Coq Require Import Arith.
Local Open Scope nat_scope.

(* ---------- operations and the map they denote ---------- *)
Inductive op :=
| OPut (k : list byte) (v : value)
| ODel (k : list byte)
| OHash.                                   (* Hash(): commits and returns the root *)

Definition apply_op (m : bmap) (o : op) : bmap :=
  match o with
  | OPut k v => bm_put m k v
  | ODel k => bm_del m k
  | OHash => m
  end.
Definition map_of (ops : list op) : bmap := fold_left apply_op ops [].

(* NewValue(data, threshold): is the value stored by hash?  threshold = version.MaxInlineValue() *)
Definition value_hashed (ver : version) (v : value) : bool := must_be_hashed ver v.
Definition value_hashed_pinned (ver : version) (v : value) : bool :=
  match ver with V0 => false | V1 => 32 <=? length v end.

Section Engine.
Variable H : list byte -> list byte.
Variable ver : version.

(* TrieDB.Hash after the operations [ops] *)
Definition engine_root (ops : list op) : list byte := spec_root_bytes H ver (map_of ops).

(* the roots returned by every Hash() of a history, in order *)
Fixpoint roots_from (m : bmap) (ops : list op) : list (list byte) :=
  match ops with
  | [] => []
  | OHash :: r => spec_root_bytes H ver m :: roots_from m r
  | o :: r => roots_from (apply_op m o) r
  end.
Definition roots (ops : list op) : list (list byte) := roots_from [] ops.

(* ---------- encoding with an explicit hashed-value predicate (for the pinned threshold) ---------- *)
Variable hashed : value -> bool.
Definition enc_value_with (v : value) : list byte := if hashed v then H v else scale_bytes v.
Fixpoint enc_with (t : tnode) : list byte :=
  match t with
  | Leaf pk v =>
    node_header false true (hashed v) (N.of_nat (length pk)) ++ nibbles_to_key_le pk ++ enc_value_with v
  | Branch pk ov cs =>
    node_header true (match ov with Some _ => true | None => false end)
                (match ov with Some v => hashed v | None => false end) (N.of_nat (length pk))
      ++ nibbles_to_key_le pk ++ children_bitmap cs
      ++ (match ov with Some v => enc_value_with v | None => [] end)
      ++ (fix go (l : list (option tnode)) : list byte :=
            match l with
            | [] => []
            | None :: r => go r
            | Some c :: r => scale_bytes (merkle_of_encoding H (enc_with c)) ++ go r
            end) cs
  end.
Definition root_with (m : bmap) : list byte :=
  match build_trie (kv_of_bmap m) with
  | None => H [n2b 0]
  | Some t => H (enc_with t)
  end.
End Engine.

(* the root the pinned engine computes (threshold >= 32) *)
Definition engine_root_pinned (H : list byte -> list byte) (ver : version) (ops : list op) : list byte :=
  root_with H (value_hashed_pinned ver) (map_of ops).

(* ---------- reading back after reopening at a root ---------- *)
(* what a fresh NewTrieDB(root).Get(k) must return *)
Definition reopen_get (ops : list op) (k : list byte) : option value := bm_get (map_of ops) k.
