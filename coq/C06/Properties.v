From Common Require Import Bytes Blake2b.
From Trie Require Import Nibbles Node Encode Spec.
From C06 Require Import Model Proofs.

Theorem C06_threshold_pinned_refuted :
  engine_root_pinned blake2b_256 V1 [OPut k1234 v32] <> engine_root blake2b_256 V1 [OPut k1234 v32].
Proof. exact threshold_pinned_refuted. Qed.
Print Assumptions C06_threshold_pinned_refuted.
