(* C06/Properties.v — property C06: the database-backed trie engine agrees with the spec.
   Tier B (DESIGN.md §5 C06): the model (Model.v) is the observational specification of
   pkg/trie/triedb — Hash() is the spec root (Trie/Spec.v: canonical trie by longest common prefix,
   spec node encoding) of the byte-keyed map the history denotes, a reopened instance returns that
   map's values — and the engine is tied to it on every run by the correspondence check.
   The theorems below state what that specification is, independently of the order of operations. *)
From Common Require Import Bytes Blake2b.
From Trie Require Import Nibbles Node Encode Spec.
From TrieCodec Require Codec View Db ProofsDb.
From Trie Require Sem InsertProofs.
From TrieCodec Require ProofsWrite.
From C06 Require Import Model MapSem Proofs Gen Lookup LookupProofs Bridge BridgeProofs Commit CommitProofs.

(* Hash() after any history is the spec root of the last-write-wins map of that history. *)
Theorem C06_root_spec :
  forall (H : list byte -> list byte) (ver : version) (ops : list op),
  engine_root H ver ops = spec_root_bytes H ver (map_of ops)
  /\ forall k, bm_get (map_of ops) k = last_write ops k.
Proof. intros. split; [apply root_spec | apply map_of_last_write]. Qed.
Print Assumptions C06_root_spec.

(* Two histories that leave the same key/value map (whatever their order, overwrites, deletions
   and commits) have the same root. *)
Theorem C06_root_order_independent :
  forall (H : list byte -> list byte) (ver : version) (ops1 ops2 : list op),
  (forall k, last_write ops1 k = last_write ops2 k) -> engine_root H ver ops1 = engine_root H ver ops2.
Proof. exact root_order_independent. Qed.
Print Assumptions C06_root_order_independent.

(* A fresh instance opened at the committed root returns the last value written to each key and
   nothing for every other key. *)
Theorem C06_reopen_spec :
  forall (ops : list op) (k : list byte), reopen_get ops k = last_write ops k.
Proof. exact reopen_last_write. Qed.
Print Assumptions C06_reopen_spec.

(* Reading back through the node database.  [tget] mirrors TrieLookup.lookupValue of lookup.go
   over the decoder of pkg/trie/triedb/codec (TrieCodec.cdecode, whose round trip with the encoder
   is C07_roundtrip); [tneeds_root H n] are the bindings commit()/commitChild() write for the trie
   n (node under nibble-prefix ++ hash, root under its hash, hashed value under key ++ hash).
   Over ANY database that holds those bindings, a fresh instance opened at the root hash of n
   returns exactly the value n stores under the key, and nothing for every other key.
   H is any hash with 32-byte, never all-zero output (an all-zero H256 decodes to the empty hash). *)
Theorem C06_reopen_lookup :
  forall (H : list byte -> list byte),
  (forall x, length (H x) = 32%nat) -> (forall x, Codec.h256_of (H x) = H x) ->
  forall (st : bool * bool) (n : Codec.tnode) (d : Db.db) (key : list byte),
  View.wf_node n = true -> ProofsDb.has d (tneeds_root H n) ->
  tget st d (H (Codec.encode H n)) key = Db.lookup n (Codec.nibbles_of_bytes key).
Proof. exact tget_correct. Qed.
Print Assumptions C06_reopen_lookup.

(* The canonical trie of the specification and its image in the codec's node type (Bridge.to_ct:
   byte nibbles, explicit MustBeHashed computed from the version) have the same root hash — the two
   independently written encoders (Trie/Encode.v for C01, TrieCodec/Codec.v for C07) agree on every
   canonical trie — and the same value under every key. *)
Theorem C06_bridge :
  forall (H : list byte -> list byte) (ver : version) (t : tnode),
  InsertProofs.Canon t ->
  Codec.root_hash H (Bridge.to_ct ver t) = trie_root H ver (Some t)
  /\ forall k, nibbles_ok k -> Db.lookup (Bridge.to_ct ver t) (Bridge.nb k) = Sem.lookup t k.
Proof. intros H ver t C. split; [apply root_to_ct; auto | intros; apply lookup_to_ct; auto]. Qed.
Print Assumptions C06_bridge.

(* End to end, for every history of Puts, Deletes and commits and every state version: if the
   database holds the bindings commit()/commitChild() write for the canonical trie of the map the
   history denotes (and that trie respects the codec's size limits: partial keys of at most 65535
   nibbles, values below 4 GiB), then that trie's root hash is the root the engine has to return
   and a fresh instance opened at this root reads, for EVERY key, exactly the last value written to
   it — nothing for keys never written or deleted last.  (Hypotheses on H as in C06_reopen_lookup.) *)
Theorem C06_reopen_end_to_end :
  forall (H : list byte -> list byte),
  (forall x, length (H x) = 32%nat) -> (forall x, Codec.h256_of (H x) = H x) ->
  forall (st : bool * bool) (ver : version) (ops : list op) (d : Db.db),
  match Bridge.committed ver (map_of ops) with
  | Some n =>
    View.wf_node n = true -> ProofsDb.has d (tneeds_root H n) ->
    Codec.root_hash H n = engine_root H ver ops
    /\ forall key, tget st d (engine_root H ver ops) key = last_write ops key
  | None =>
    engine_root H ver ops = H [n2b 0] /\ forall key, last_write ops key = None
  end.
Proof. exact reopen_end_to_end. Qed.
Print Assumptions C06_reopen_end_to_end.

(* ---- commit (Commit.v: a model of TrieDB.commit / commitChild on the node database) ----
   The node storage at commit time is a tree of NEW nodes (encoded and written by commit, with their
   new hashed values) and OLD subtrees / old hashed values (only referenced by hash); commit first
   deletes the death row, then Puts.  If what commit does not write is in the database and survives
   the pruning, and the needed bindings are consistent (no two different contents under one key),
   then after commit the database holds EVERY binding of the denoted trie — the hypothesis of
   C06_reopen_lookup / C06_reopen_end_to_end — whatever is on the death row: a node or value that is
   written again under a key on the death row is not lost. *)
Theorem C06_commit_writes :
  forall (H : list byte -> list byte) (d : Db.db) (death_row : list (list byte)) (m : mtree),
  ProofsDb.has (db_dels d death_row) (commit_olds H m) -> ProofsWrite.compat (tneeds_root H (mer m)) ->
  ProofsDb.has (commit H d death_row m) (tneeds_root H (mer m)).
Proof. exact commit_has. Qed.
Print Assumptions C06_commit_writes.

(* ... and a fresh instance opened at the committed root reads the committed trie, for every key *)
Theorem C06_commit_then_reopen :
  forall (H : list byte -> list byte),
  (forall x, length (H x) = 32%nat) -> (forall x, Codec.h256_of (H x) = H x) ->
  forall (st : bool * bool) (d : Db.db) (death_row : list (list byte)) (m : mtree) (key : list byte),
  View.wf_node (mer m) = true ->
  ProofsDb.has (db_dels d death_row) (commit_olds H m) -> ProofsWrite.compat (tneeds_root H (mer m)) ->
  tget st (commit H d death_row m) (H (Codec.encode H (mer m))) key
  = Db.lookup (mer m) (Codec.nibbles_of_bytes key).
Proof. exact commit_then_reopen. Qed.
Print Assumptions C06_commit_then_reopen.

(* the order matters: pruning the death row AFTER the Puts (the change of seeded defect C06-m2) loses
   a leaf that was deleted and re-inserted with the same value since the last commit; the order of
   the code keeps it (non-vacuity of the two theorems above on the same state) *)
Theorem C06_commit_late_prune_refuted :
  Bridge.has_b (commit_late_prune blake2b_256 w_db w_death_row w_leaf) w_needs = false
  /\ tget (true, true) (commit_late_prune blake2b_256 w_db w_death_row w_leaf)
          (Codec.root_hash blake2b_256 (mer w_leaf)) [n2b 18] = None.
Proof. exact late_prune_loses_recreated. Qed.
Print Assumptions C06_commit_late_prune_refuted.

Example C06_commit_nonvacuous :
  length w_needs = 2%nat
  /\ Bridge.has_b (commit blake2b_256 w_db w_death_row w_leaf) w_needs = true
  /\ tget (true, true) (commit blake2b_256 w_db w_death_row w_leaf)
          (Codec.root_hash blake2b_256 (mer w_leaf)) [n2b 18] = Some w_v40.
Proof. exact commit_keeps_recreated. Qed.

Example C06_reopen_nonvacuous :
  match Bridge.committed V1 demo_map with
  | Some n =>
    let d := tneeds_root blake2b_256 n in
    View.wf_node n = true /\ Bridge.has_b d (tneeds_root blake2b_256 n) = true /\ (4 <= length d)%nat
    /\ tget (true, true) d (Codec.root_hash blake2b_256 n) k1234 = Some (repeat (n2b 7) 40)
    /\ tget (true, true) d (Codec.root_hash blake2b_256 n) [n2b 18] = Some v32
    /\ tget (true, true) d (Codec.root_hash blake2b_256 n) [n2b 18; n2b 54] = None
    /\ Codec.root_hash blake2b_256 n = spec_root_bytes blake2b_256 V1 demo_map
  | None => False
  end.
Proof. exact reopen_nonvacuous. Qed.

(* A value is stored by hash exactly under V1 and when it is longer than the regenerated
   constant trie.V1MaxInlineValueSize (32). *)
Theorem C06_threshold :
  forall ver v, value_hashed ver v = true <-> ver = V1 /\ (Z.to_nat Gen.v1_max_inline_value_size < length v)%nat.
Proof. exact threshold. Qed.
Print Assumptions C06_threshold.

(* The pinned engine hashed values of exactly 32 bytes as well: a different root. *)
Theorem C06_threshold_pinned_refuted :
  engine_root_pinned blake2b_256 V1 [OPut k1234 v32] <> engine_root blake2b_256 V1 [OPut k1234 v32].
Proof. exact threshold_pinned_refuted. Qed.
Print Assumptions C06_threshold_pinned_refuted.

(* non-vacuity: a history with an overwrite, a deletion and two commits *)
Example C06_nonvacuous :
  let ops := [OPut k1234 v32; OHash; OPut [n2b 18] [n2b 1]; ODel k1234; OPut k1234 [n2b 7]; OHash] in
  last_write ops k1234 = Some [n2b 7] /\ last_write ops [n2b 18] = Some [n2b 1]
  /\ last_write ops [n2b 19] = None
  /\ length (roots blake2b_256 V1 ops) = 2%nat
  /\ nth 0 (roots blake2b_256 V1 ops) [] <> nth 1 (roots blake2b_256 V1 ops) [].
Proof. vm_compute. repeat split; try reflexivity. intro E; discriminate E. Qed.
