(* C06/VmCheck.v — replay of a traced triedb history inside Coq (definitions only): bin/check
   evaluates [vm_run] with vm_compute on a sample of the traced cases (meta.json "vm_sample"),
   which guards the extraction and the OCaml driver. *)
From Common Require Import Bytes.
From Trie Require Import Nibbles Node Encode Spec.
From C06 Require Import Model.

Inductive tok :=
| TP (k v : list byte)                    (* Put *)
| TD (k : list byte)                      (* Delete *)
| TH (root : list byte)                   (* Hash() / commit: the root the engine returned *)
| TG (k : list byte) (got : option (list byte)).   (* Get on the reopened instance *)

Definition opt_eqb (a b : option (list byte)) : bool :=
  match a, b with
  | None, None => true
  | Some x, Some y => bytes_eqb x y
  | _, _ => false
  end.

Fixpoint vm_run (H : list byte -> list byte) (ver : version) (m : bmap) (l : list tok) : bool :=
  match l with
  | [] => true
  | TP k v :: r => vm_run H ver (apply_op m (OPut k v)) r
  | TD k :: r => vm_run H ver (apply_op m (ODel k)) r
  | TH root :: r => bytes_eqb (spec_root_bytes H ver m) root && vm_run H ver m r
  | TG k got :: r => opt_eqb (bm_get m k) got && vm_run H ver m r
  end.
