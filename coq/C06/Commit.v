(* C06/Commit.v — a model of TrieDB.commit / commitChild (pkg/trie/triedb/triedb.go) at the level
   of what it does to the node database, and the theorem that it leaves every binding a reopened
   instance needs.

   At commit time the trie in the node storage is a tree of
   - NEW nodes (NewStoredNode: created or changed since the last commit; commit encodes them,
     writes children first, and Puts every node whose encoding has at least 32 bytes under
     nibble prefix ++ hash, the root under its hash alone, and every NEW hashed value under
     key ++ hash) and
   - OLD subtrees (persisted / CachedStoredNode handles: only their hash is used, nothing is
     written for them; a new node may also keep an OLD hashed value, a valueRef).
   Before the Puts, commit deletes every key on the death row (database keys of nodes and values the
   inspectors replaced).  [commit] is that function; [commit_late_prune] is the variant that
   deletes the death row AFTER the Puts (the class of seeded defect C06-m2). *)
From Common Require Import Bytes Outcome.
From Coq Require Import Strings.Byte Arith Lia List.
From TrieCodec Require Import Codec View Db ProofsBasic ProofsDb ProofsWrite.
From C06 Require Import Lookup LookupProofs.
Import ListNotations.
Local Open Scope nat_scope.

Inductive mtree :=
| MNew (pk : list byte) (sv : option (list byte)) (mbh vnew : bool) (cs : list (option mtree))
| MOld (n : tnode).

Definition is_new (m : mtree) : bool := match m with MNew _ _ _ _ _ => true | MOld _ => false end.

(* the trie the node storage denotes *)
Fixpoint mer (m : mtree) : tnode :=
  match m with
  | MNew pk sv mbh _ cs =>
    TN pk sv mbh ((fix go (l : list (option mtree)) : list (option tnode) :=
                     match l with
                     | [] => []
                     | None :: r => None :: go r
                     | Some c :: r => Some (mer c) :: go r
                     end) cs)
  | MOld n => n
  end.

Definition db_del (d : db) (k : list byte) : db := filter (fun kv => negb (bytes_eqb (fst kv) k)) d.
Definition db_dels (d : db) (ks : list (list byte)) : db := fold_left db_del ks d.

Section Commit.
Variable H : list byte -> list byte.

(* every binding the committed trie needs, tagged: true = commit writes it, false = it must be in
   the database already *)
Definition tag_child (rec : list byte -> mtree -> list (bool * binding)) (p : list byte) (c : mtree)
  : list (bool * binding) :=
  (if length (encode H (mer c)) <? 32 then []
   else [(is_new c, (pack_left p ++ H (encode H (mer c)), encode H (mer c)))]) ++ rec p c.

Fixpoint tag_sub (p : list byte) (m : mtree) : list (bool * binding) :=
  match m with
  | MOld n => map (pair false) (tneeds_sub H p n)
  | MNew pk sv mbh vnew cs =>
    (match sv with Some v => if mbh then [(vnew, (pack_left (p ++ pk) ++ H v, v))] else [] | None => [] end)
    ++ (fix go (l : list (option mtree)) (i : nat) : list (bool * binding) :=
          match l with
          | [] => []
          | None :: r => go r (S i)
          | Some c :: r => tag_child tag_sub (p ++ pk ++ [n2b (N.of_nat i)]) c ++ go r (S i)
          end) cs 0
  end.

Definition tag_root (m : mtree) : list (bool * binding) :=
  (is_new m, (H (encode H (mer m)), encode H (mer m))) :: tag_sub [] m.

Definition commit_puts (m : mtree) : list binding := map snd (filter fst (tag_root m)).
Definition commit_olds (m : mtree) : list binding := map snd (filter (fun x => negb (fst x)) (tag_root m)).

(* TrieDB.commit: death row first, then the Puts *)
Definition commit (d : db) (death_row : list (list byte)) (m : mtree) : db :=
  db_puts (db_dels d death_row) (commit_puts m).
(* the order of the seeded defect: Puts, then the death row *)
Definition commit_late_prune (d : db) (death_row : list (list byte)) (m : mtree) : db :=
  db_dels (db_puts d (commit_puts m)) death_row.

(* ---------- the tagged bindings are exactly the bindings of the denoted trie ---------- *)
Definition mopt (P : mtree -> Prop) (o : option mtree) : Prop := match o with Some c => P c | None => True end.
Section MInd.
  Variable P : mtree -> Prop.
  Hypothesis HO : forall n, P (MOld n).
  Hypothesis HN : forall pk sv mbh vnew cs, Forall (mopt P) cs -> P (MNew pk sv mbh vnew cs).
  Fixpoint mtree_ind' (m : mtree) : P m :=
    match m with
    | MOld n => HO n
    | MNew pk sv mbh vnew cs =>
      HN pk sv mbh vnew cs
         ((fix go (l : list (option mtree)) : Forall (mopt P) l :=
             match l with
             | [] => Forall_nil _
             | o :: r => @Forall_cons _ (mopt P) o r
                           (match o as o0 return mopt P o0 with Some c => mtree_ind' c | None => I end) (go r)
             end) cs)
    end.
End MInd.

Lemma map_snd_pair_false (l : list binding) : map snd (map (pair false) l) = l.
Proof. rewrite map_map. simpl. apply map_id. Qed.

Lemma tag_sub_needs : forall m p, map snd (tag_sub p m) = tneeds_sub H p (mer m).
Proof.
  induction m as [n|pk sv mbh vnew cs IH] using mtree_ind'; intros p.
  - simpl. apply map_snd_pair_false.
  - cbn [tag_sub mer tneeds_sub]. rewrite map_app. f_equal.
    + destruct sv as [v|]; [destruct mbh|]; reflexivity.
    + generalize 0 as i. induction cs as [|[c|] cs IHc]; intros i; cbn -[Nat.ltb encode tag_child tneeds_child]; auto.
      * inversion IH as [|? ? Hc Hr]; subst. rewrite map_app. f_equal; [|apply IHc; auto].
        unfold tag_child, tneeds_child. rewrite map_app. f_equal; [|apply Hc].
        destruct (length (encode H (mer c)) <? 32); reflexivity.
      * inversion IH; subst. apply IHc; auto.
Qed.

Lemma tag_root_needs m : map snd (tag_root m) = tneeds_root H (mer m).
Proof. unfold tag_root, tneeds_root. cbn [map snd]. now rewrite tag_sub_needs. Qed.

Lemma partition_incl {A} (f : bool * A -> bool) (l : list (bool * A)) :
  incl (map snd l) (map snd (filter f l) ++ map snd (filter (fun x => negb (f x)) l)).
Proof.
  intros b Hb. apply in_map_iff in Hb. destruct Hb as (x & <- & Hx). apply in_or_app.
  destruct (f x) eqn:E; [left | right]; apply in_map; apply filter_In; split; auto. now rewrite E.
Qed.

Lemma filter_incl_map {A} (f : bool * A -> bool) (l : list (bool * A)) : incl (map snd (filter f l)) (map snd l).
Proof. intros b Hb. apply in_map_iff in Hb. destruct Hb as (x & <- & Hx). apply filter_In in Hx. apply in_map. tauto. Qed.

(* After commit the database holds every binding of the denoted trie, provided the bindings commit
   does not write (old subtrees, old hashed values) are in the database and survive the pruning of
   the death row, and no two needed bindings put different contents under one key. *)
Theorem commit_has d death_row m :
  has (db_dels d death_row) (commit_olds m) -> compat (tneeds_root H (mer m)) ->
  has (commit d death_row m) (tneeds_root H (mer m)).
Proof.
  intros Hold Hc. unfold commit. apply (puts_has _ (commit_puts m) (commit_olds m)); auto.
  - rewrite <- tag_root_needs. unfold commit_puts, commit_olds. apply partition_incl.
  - intros k c1 c2 H1 H2. apply (Hc k c1 c2); rewrite <- tag_root_needs.
    + apply in_app_or in H1. destruct H1 as [H1|H1]; eapply filter_incl_map; eauto.
    + apply in_app_or in H2. destruct H2 as [H2|H2]; eapply filter_incl_map; eauto.
Qed.

End Commit.
