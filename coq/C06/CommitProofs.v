(* C06/CommitProofs.v — commit followed by a reopen, and the computed witnesses: the same trie
   re-created after the death row was filled survives commit, and does not survive the variant that
   prunes the death row after the Puts (seeded defect C06-m2). *)
From Common Require Import Bytes Outcome Blake2b.
From Coq Require Import Strings.Byte Arith Lia List.
From TrieCodec Require Import Codec View Db ProofsBasic ProofsDb ProofsWrite.
From C06 Require Import Lookup LookupProofs Bridge Commit.
Import ListNotations.
Local Open Scope nat_scope.

Section Reopen.
Variable H : list byte -> list byte.
Hypothesis Hlen : forall x, length (H x) = 32.
Hypothesis Hh : forall x, h256_of (H x) = H x.
Variable st : bool * bool.

(* commit, then a fresh instance at the new root: every key reads what the committed trie holds *)
Theorem commit_then_reopen d death_row m key :
  wf_node (mer m) = true ->
  has (db_dels d death_row) (commit_olds H m) -> compat (tneeds_root H (mer m)) ->
  tget st (commit H d death_row m) (H (encode H (mer m))) key = Db.lookup (mer m) (nibbles_of_bytes key).
Proof.
  intros W Hold Hc. apply (tget_correct H Hlen Hh st); auto. apply commit_has; auto.
Qed.
End Reopen.

(* a V1 leaf with a 40-byte (hashed) value under key 0x12; it was committed, deleted (node key and
   value key went to the death row) and inserted again with the same value: the new node and value
   have the database keys that are on the death row *)
Definition w_v40 : list byte := repeat (n2b 7) 40.
Definition w_leaf : mtree := MNew [n2b 1; n2b 2] (Some w_v40) true true [].
Definition w_needs : list binding := tneeds_root blake2b_256 (mer w_leaf).
Definition w_db : db := w_needs.                         (* the database after the first commit *)
Definition w_death_row : list (list byte) := map fst w_needs.

Lemma commit_keeps_recreated :
  length w_needs = 2
  /\ has_b (commit blake2b_256 w_db w_death_row w_leaf) w_needs = true
  /\ tget (true, true) (commit blake2b_256 w_db w_death_row w_leaf)
          (root_hash blake2b_256 (mer w_leaf)) [n2b 18] = Some w_v40.
Proof. vm_compute. repeat split; reflexivity. Qed.

Lemma late_prune_loses_recreated :
  has_b (commit_late_prune blake2b_256 w_db w_death_row w_leaf) w_needs = false
  /\ tget (true, true) (commit_late_prune blake2b_256 w_db w_death_row w_leaf)
          (root_hash blake2b_256 (mer w_leaf)) [n2b 18] = None.
Proof. vm_compute. split; reflexivity. Qed.
