From Coq Require Import Extraction ExtrOcamlBasic.
From Common Require Import Bytes Drv Blake2b.
From Trie Require Import Nibbles Node Encode Spec.
From TrieCodec Require Codec View Db.
From C06 Require Import Model Lookup Bridge.
Extraction "model.ml" drv_b2n drv_n2b drv_z_of_n drv_n_of_z drv_nat_of_n drv_n_of_nat
  blake2b_256 apply_op map_of spec_root_bytes bm_get value_hashed engine_root engine_root_pinned
  committed has_b tneeds_root tget Codec.root_hash Db.lookup View.wf_node.
