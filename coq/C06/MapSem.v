(* C06/MapSem.v — the byte-keyed map a history denotes is the last-write-wins map:
   bm_get (map_of ops) k is the value of the last Put of k not followed by a Delete of k. *)
From Common Require Import Bytes.
From Trie Require Import Nibbles Node Encode Spec.
From C06 Require Import Model.
From Coq Require Import Arith Lia Sorted.
Local Open Scope nat_scope.

(* ---------- bytes_compare is a strict total order ---------- *)
Lemma bytes_compare_eq a b : bytes_compare a b = Eq <-> a = b.
Proof.
  revert b. induction a as [|x a IH]; destruct b as [|y b]; simpl.
  - split; auto.
  - split; discriminate.
  - split; discriminate.
  - destruct (N.compare_spec (b2n x) (b2n y)) as [E|L|G].
    + apply b2n_inj in E. subst y. rewrite IH. split; [intros ->; auto | intros E; inversion E; auto].
    + split; [discriminate|]. intros E; inversion E; subst. lia.
    + split; [discriminate|]. intros E; inversion E; subst. lia.
Qed.

Lemma bytes_compare_refl a : bytes_compare a a = Eq.
Proof. apply bytes_compare_eq; auto. Qed.

Lemma bytes_compare_antisym a b : bytes_compare b a = CompOpp (bytes_compare a b).
Proof.
  revert b. induction a as [|x a IH]; destruct b as [|y b]; simpl; auto.
  rewrite (N.compare_antisym (b2n x) (b2n y)).
  destruct (N.compare (b2n x) (b2n y)); simpl; auto.
Qed.

Lemma bytes_compare_trans a b c :
  bytes_compare a b = Lt -> bytes_compare b c = Lt -> bytes_compare a c = Lt.
Proof.
  revert b c. induction a as [|x a IH]; destruct b as [|y b]; destruct c as [|z c]; simpl; try discriminate; auto.
  destruct (N.compare_spec (b2n x) (b2n y)) as [E1|L1|G1]; try discriminate;
  destruct (N.compare_spec (b2n y) (b2n z)) as [E2|L2|G2]; try discriminate; intros H1 H2.
  - rewrite E1, E2. rewrite N.compare_refl. eapply IH; eauto.
  - rewrite E1. destruct (N.compare_spec (b2n y) (b2n z)); auto; lia.
  - rewrite <- E2. destruct (N.compare_spec (b2n x) (b2n y)); auto; lia.
  - destruct (N.compare_spec (b2n x) (b2n z)); auto; lia.
Qed.

Lemma bytes_eqb_compare a b : bytes_eqb a b = true <-> bytes_compare a b = Eq.
Proof. rewrite bytes_compare_eq. destruct (bytes_eqb_spec a b); split; auto; discriminate. Qed.

Lemma bytes_eqb_false_compare a b : bytes_compare a b <> Eq -> bytes_eqb a b = false.
Proof. intros Hn. destruct (bytes_eqb a b) eqn:E; auto. apply bytes_eqb_compare in E. congruence. Qed.

(* ---------- maps without duplicate keys, in key order ---------- *)
Definition blt (a b : list byte * value) : Prop := bytes_compare (fst a) (fst b) = Lt.
Definition bsorted (m : bmap) : Prop := StronglySorted blt m.

Lemma bm_get_none_below m k :
  Forall (fun e => bytes_compare k (fst e) = Lt) m -> bm_get m k = None.
Proof.
  induction m as [|[k' v'] m IH]; simpl; auto. intros Hf. inversion Hf; subst. simpl in *.
  rewrite bytes_eqb_false_compare; auto.
  rewrite bytes_compare_antisym. destruct (bytes_compare k k'); simpl; congruence.
Qed.

Lemma bm_get_put m k v k' :
  bm_get (bm_put m k v) k' = if bytes_eqb k k' then Some v else bm_get m k'.
Proof.
  induction m as [|[k0 v0] m IH]; simpl.
  - reflexivity.
  - destruct (bytes_compare k k0) eqn:C; simpl.
    + apply bytes_compare_eq in C. subst k0. destruct (bytes_eqb k k'); auto.
    + destruct (bytes_eqb k k'); auto.
    + rewrite IH. destruct (bytes_eqb k0 k') eqn:E0; auto.
      destruct (bytes_eqb_spec k0 k'); [|discriminate]. subst k'.
      rewrite bytes_eqb_false_compare; auto. congruence.
Qed.

Lemma forall_put (P : list byte * value -> Prop) m k v :
  Forall P m -> P (k, v) -> Forall P (bm_put m k v).
Proof.
  induction m as [|[k1 v1] m IH]; simpl; intros Hf Hp; [constructor; auto|].
  inversion Hf; subst. destruct (bytes_compare k k1); constructor; auto.
Qed.

Lemma forall_del (P : list byte * value -> Prop) m k : Forall P m -> Forall P (bm_del m k).
Proof.
  induction m as [|[k1 v1] m IH]; simpl; intros Hf; auto.
  inversion Hf; subst. destruct (bytes_eqb k1 k); auto.
Qed.

Lemma bsorted_put m k v : bsorted m -> bsorted (bm_put m k v).
Proof.
  induction m as [|[k0 v0] m IH]; simpl; intros Hs.
  - repeat constructor.
  - inversion Hs as [|? ? Hs' Hf]; subst.
    destruct (bytes_compare k k0) eqn:C.
    + apply bytes_compare_eq in C. subst k0. constructor; auto.
    + constructor; auto. constructor; auto.
      eapply Forall_impl; [|exact Hf]. intros e He. unfold blt in *. simpl in *. eapply bytes_compare_trans; eauto.
    + assert (Hk : blt (k0, v0) (k, v)).
      { unfold blt; simpl. rewrite bytes_compare_antisym, C. reflexivity. }
      constructor; [apply IH; auto | apply forall_put; auto].
Qed.

Lemma bm_get_del m k k' :
  bsorted m -> bm_get (bm_del m k) k' = if bytes_eqb k k' then None else bm_get m k'.
Proof.
  induction m as [|[k0 v0] m IH]; simpl; intros Hs.
  - destruct (bytes_eqb k k'); auto.
  - inversion Hs as [|? ? Hs' Hf]; subst.
    destruct (bytes_eqb k0 k) eqn:E0.
    + destruct (bytes_eqb_spec k0 k); [|discriminate]. subst k0.
      destruct (bytes_eqb k k') eqn:E; auto.
      destruct (bytes_eqb_spec k k'); [|discriminate]. subst k'.
      apply bm_get_none_below. eapply Forall_impl; [|exact Hf]. intros e He. exact He.
    + simpl. rewrite IH; auto. destruct (bytes_eqb k0 k') eqn:E1; auto.
      destruct (bytes_eqb_spec k0 k'); [|discriminate]. subst k'.
      rewrite bytes_eqb_false_compare; auto. intros C. apply bytes_compare_eq in C. subst k0.
      rewrite (proj2 (bytes_eqb_compare k k) (bytes_compare_refl k)) in E0. discriminate.
Qed.

Lemma bsorted_del m k : bsorted m -> bsorted (bm_del m k).
Proof.
  induction m as [|[k0 v0] m IH]; simpl; intros Hs; auto.
  inversion Hs as [|? ? Hs' Hf]; subst. destruct (bytes_eqb k0 k); auto.
  constructor; [apply IH; auto | apply forall_del; auto].
Qed.

Lemma bsorted_map_of_from m ops : bsorted m -> bsorted (fold_left apply_op ops m).
Proof.
  revert m. induction ops as [|o ops IH]; simpl; intros m Hs; auto.
  apply IH. destruct o; simpl; auto using bsorted_put, bsorted_del.
Qed.

Lemma bsorted_map_of ops : bsorted (map_of ops).
Proof. apply bsorted_map_of_from. constructor. Qed.

(* ---------- last write wins ---------- *)
Definition lw_step (k : list byte) (cur : option value) (o : op) : option value :=
  match o with
  | OPut k' v => if bytes_eqb k' k then Some v else cur
  | ODel k' => if bytes_eqb k' k then None else cur
  | OHash => cur
  end.
Definition last_write (ops : list op) (k : list byte) : option value :=
  fold_left (lw_step k) ops None.

Lemma map_of_last_write_from m ops k :
  bsorted m -> bm_get (fold_left apply_op ops m) k = fold_left (lw_step k) ops (bm_get m k).
Proof.
  revert m. induction ops as [|o ops IH]; simpl; intros m Hs; auto.
  rewrite IH.
  - f_equal. destruct o; simpl; auto using bm_get_put, bm_get_del.
  - destruct o; simpl; auto using bsorted_put, bsorted_del.
Qed.

Lemma map_of_last_write ops k : bm_get (map_of ops) k = last_write ops k.
Proof. unfold map_of, last_write. rewrite map_of_last_write_from; [reflexivity | constructor]. Qed.
