(* C06/BridgeProofs.v — the canonical trie of the specification (Trie/Spec.v: nibbles as nat,
   MustBeHashed recomputed from the version) and its image in the node type of the codec library
   (Bridge.to_ct: nibbles as bytes, explicit MustBeHashed) have the same encoding, hence the same
   root hash, and the same lookups.  With C06_reopen_lookup this closes the chain
     history -> last-write-wins map -> canonical trie -> committed database -> reads of a fresh
     instance. *)
From Common Require Import Bytes Outcome.
From Coq Require Import Strings.Byte Arith Lia List NArith.
From Trie Require Nibbles Node Encode Spec Sem InsertProofs NibblesProofs MapProofs QueryProofs SpecProofs.
From TrieCodec Require Import Codec View Db ProofsBasic ProofsDb.
From C06 Require Import Model MapSem Lookup LookupProofs Bridge.
Import ListNotations.
Local Open Scope N_scope.

(* ---------- arithmetic ---------- *)
Lemma land_pow2_mul i q : N.land (2 ^ i) (2 ^ (i + 1) * q) = 0.
Proof.
  apply N.bits_inj. intros n. rewrite N.land_spec, N.bits_0, N.pow2_bits_eqb.
  destruct (N.eqb_spec i n) as [<-|]; auto. simpl.
  rewrite N.mul_comm. apply N.mul_pow2_bits_low. lia.
Qed.

Lemma lor_pow2_mul i q : N.lor (2 ^ i) (2 ^ (i + 1) * q) = 2 ^ i + 2 ^ (i + 1) * q.
Proof.
  rewrite <- N.lxor_lor by apply land_pow2_mul. symmetry. apply N.add_nocarry_lxor, land_pow2_mul.
Qed.

Lemma land_mul_pow2_small c k b : b < 2 ^ k -> N.land (c * 2 ^ k) b = 0.
Proof.
  intros Hb. apply N.bits_inj. intros n. rewrite N.land_spec, N.bits_0.
  destruct (N.lt_ge_cases n k).
  - rewrite N.mul_pow2_bits_low; auto.
  - destruct (N.eq_dec b 0) as [->|Hnz]; [rewrite N.bits_0; apply andb_false_r|].
    rewrite (N.bits_above_log2 b n); [apply andb_false_r|].
    apply N.log2_lt_pow2; [lia|]. apply N.lt_le_trans with (2 ^ k); auto. apply N.pow_le_mono_r; lia.
Qed.

Lemma lor_mul_pow2_small c k b : b < 2 ^ k -> N.lor (c * 2 ^ k) b = c * 2 ^ k + b.
Proof.
  intros Hb. rewrite <- N.lxor_lor by (apply land_mul_pow2_small; auto).
  symmetry. apply N.add_nocarry_lxor, land_mul_pow2_small; auto.
Qed.

(* the header byte: variant bits | partial key length *)
Lemma header_lor v l : l <= v_pkmask v -> v <> VEmpty -> v <> VCompact -> N.lor (v_bits v) l = v_bits v + l.
Proof.
  intros Hl H1 H2. destruct v; try congruence.
  - change (l <= 63) in Hl. change (N.lor (1 * 2 ^ 6) l = 1 * 2 ^ 6 + l). apply lor_mul_pow2_small. change (2 ^ 6) with 64. lia.
  - change (l <= 63) in Hl. change (N.lor (2 * 2 ^ 6) l = 2 * 2 ^ 6 + l). apply lor_mul_pow2_small. change (2 ^ 6) with 64. lia.
  - change (l <= 63) in Hl. change (N.lor (3 * 2 ^ 6) l = 3 * 2 ^ 6 + l). apply lor_mul_pow2_small. change (2 ^ 6) with 64. lia.
  - change (l <= 31) in Hl. change (N.lor (1 * 2 ^ 5) l = 1 * 2 ^ 5 + l). apply lor_mul_pow2_small. change (2 ^ 5) with 32. lia.
  - change (l <= 15) in Hl. change (N.lor (1 * 2 ^ 4) l = 1 * 2 ^ 4 + l). apply lor_mul_pow2_small. change (2 ^ 4) with 16. lia.
Qed.

Lemma enc_pklen_rest : forall f r, (N.to_nat (r / 255) < f)%nat -> enc_pklen f r = Encode.pk_len_rest r.
Proof.
  induction f as [|f IH]; intros r Hf; [lia|]. cbn [enc_pklen]. unfold Encode.pk_len_rest.
  destruct (N.ltb_spec r 255) as [Hs|Hs].
  - rewrite N.div_small, N.mod_small by auto. reflexivity.
  - assert (E1 : r / 255 = N.succ ((r - 255) / 255)).
    { replace r with ((r - 255) + 1 * 255) at 1 by lia. rewrite N.div_add by lia. lia. }
    assert (E2 : r mod 255 = (r - 255) mod 255).
    { replace r with ((r - 255) + 1 * 255) at 1 by lia. rewrite N.mod_add by lia. reflexivity. }
    rewrite IH by (rewrite E1 in Hf; lia).
    unfold Encode.pk_len_rest. rewrite E1, E2, N2Nat.inj_succ. reflexivity.
Qed.

Lemma header_eq v bits mask l :
  v_bits v = bits -> v_pkmask v = mask -> v <> VEmpty -> v <> VCompact ->
  encode_header v l = Encode.header bits mask l.
Proof.
  intros <- <- H1 H2. unfold encode_header, Encode.header.
  destruct (N.ltb_spec l (v_pkmask v)).
  - rewrite header_lor by (auto; lia). reflexivity.
  - rewrite header_lor by (auto; lia). f_equal. apply enc_pklen_rest. lia.
Qed.

Lemma node_header_eq isb sv mbh l :
  (sv = None -> mbh = false /\ isb = true) ->
  encode_header (variant_of isb sv mbh) l
  = Encode.node_header isb (match sv with Some _ => true | None => false end) mbh l.
Proof.
  intros Hn. unfold variant_of, Encode.node_header.
  destruct isb; simpl.
  - destruct sv as [v|]; simpl.
    + destruct mbh; apply header_eq; try reflexivity; discriminate.
    + apply header_eq; try reflexivity; discriminate.
  - destruct sv as [v|]; [|destruct (Hn eq_refl); discriminate].
    destruct mbh; apply header_eq; try reflexivity; discriminate.
Qed.

(* ---------- nibbles: nat nibbles (Trie) vs byte nibbles (TrieCodec) ---------- *)
Local Open Scope nat_scope.

Lemma nb_length k : length (nb k) = length k.
Proof. apply map_length. Qed.
Lemma nb_app a b : nb (a ++ b) = nb a ++ nb b.
Proof. apply map_app. Qed.
Lemma nb_skipn n k : nb (skipn n k) = skipn n (nb k).
Proof. unfold nb. now rewrite skipn_map. Qed.

Lemma b2n_nb x : x < 16 -> b2n (n2b (N.of_nat x)) = N.of_nat x.
Proof. intros. apply b2n_n2b_lt. lia. Qed.

Lemma nb_byte_inj x y : x < 16 -> y < 16 -> n2b (N.of_nat x) = n2b (N.of_nat y) -> x = y.
Proof.
  intros Hx Hy E. apply (f_equal b2n) in E. rewrite !b2n_nb in E by auto. lia.
Qed.

Lemma byte_eqb_nb x y : x < 16 -> y < 16 -> byte_eqb (n2b (N.of_nat x)) (n2b (N.of_nat y)) = (x =? y).
Proof.
  intros Hx Hy. unfold byte_eqb. rewrite !b2n_nb by auto.
  destruct (Nat.eqb_spec x y) as [->|Hne]; [apply N.eqb_refl|]. apply N.eqb_neq. lia.
Qed.

Lemma bytes_eqb_nb a b : Nibbles.nibbles_ok a -> Nibbles.nibbles_ok b -> bytes_eqb (nb a) (nb b) = Nibbles.key_eqb a b.
Proof.
  revert b. induction a as [|x a IH]; intros [|y b] Ha Hb; simpl; auto.
  inversion Ha; inversion Hb; subst. rewrite byte_eqb_nb by auto. rewrite IH by auto. reflexivity.
Qed.

Lemma is_prefix_nb a b : Nibbles.nibbles_ok a -> Nibbles.nibbles_ok b -> is_prefix (nb a) (nb b) = Nibbles.is_prefix a b.
Proof.
  revert b. induction a as [|x a IH]; intros [|y b] Ha Hb; simpl; auto.
  inversion Ha; inversion Hb; subst. rewrite byte_eqb_nb by auto. rewrite IH by auto. reflexivity.
Qed.

Lemma nibbles_of_bytes_nb kb : nibbles_of_bytes kb = nb (Nibbles.key_le_to_nibbles kb).
Proof.
  induction kb as [|b kb IH]; simpl; auto. rewrite IH. unfold Nibbles.hi_nib, Nibbles.lo_nib.
  rewrite !N2Nat.id. reflexivity.
Qed.

(* (a << 4 & 0xf0) | (b & 0xf) on nibbles *)
Lemma nib_pack_table :
  forallb (fun x => forallb (fun y => (N.lor (N.land (N.shiftl x 4) 240) (N.land y 15) =? x * 16 + y)%N)
                            (map N.of_nat (seq 0 16))) (map N.of_nat (seq 0 16)) = true.
Proof. vm_compute. reflexivity. Qed.

Lemma nib_pack x y : x < 16 -> y < 16 ->
  (N.lor (N.land (N.shiftl (N.of_nat x) 4) 240) (N.land (N.of_nat y) 15) = N.of_nat x * 16 + N.of_nat y)%N.
Proof.
  intros Hx Hy. pose proof nib_pack_table as T. rewrite forallb_forall in T.
  assert (Ix : In (N.of_nat x) (map N.of_nat (seq 0 16))) by (apply in_map, in_seq; lia).
  assert (Iy : In (N.of_nat y) (map N.of_nat (seq 0 16))) by (apply in_map, in_seq; lia).
  specialize (T _ Ix). rewrite forallb_forall in T. specialize (T _ Iy). now apply N.eqb_eq in T.
Qed.

Lemma pack_pairs_nb k : Nibbles.nibbles_ok k -> Codec.pack_pairs (nb k) = Nibbles.pack_pairs k.
Proof.
  revert k. fix IH 1. intros [|x [|y r]] Hk; simpl; auto.
  inversion Hk as [|? ? Hx Hk1]; subst. inversion Hk1 as [|? ? Hy Hk2]; subst.
  rewrite IH by auto. f_equal. unfold Nibbles.nib_byte.
  rewrite !b2n_nb by auto. rewrite nib_pack by auto. rewrite !Nat.mod_small by auto. reflexivity.
Qed.

Lemma nibbles_to_key_le_nb k : Nibbles.nibbles_ok k -> Codec.nibbles_to_key_le (nb k) = Nibbles.nibbles_to_key_le k.
Proof.
  intros Hk. unfold Codec.nibbles_to_key_le, Nibbles.nibbles_to_key_le. rewrite nb_length.
  destruct (Nat.even (length k)); [apply pack_pairs_nb; auto|].
  destruct k as [|x r]; simpl; auto. inversion Hk; subst. f_equal. apply pack_pairs_nb; auto.
Qed.

(* ---------- children bitmap ---------- *)
Local Open Scope N_scope.
Lemma bitmap_from_mul : forall (cs : list (option Node.tnode)) i, exists q, Encode.bitmap_from i cs = 2 ^ i * q.
Proof.
  induction cs as [|[c|] cs IH]; intros i; simpl.
  - exists 0. ring.
  - destruct (IH (i + 1)) as (q & ->). exists (1 + 2 * q). rewrite N.pow_add_r, N.pow_1_r. ring.
  - destruct (IH (i + 1)) as (q & ->). exists (2 * q). rewrite N.pow_add_r, N.pow_1_r. ring.
Qed.

Lemma bitmap_eq (f : Node.tnode -> Codec.tnode) : forall cs i,
  bitmap_of (map (option_map f) cs) i = Encode.bitmap_from i cs.
Proof.
  induction cs as [|[c|] cs IH]; intros i; cbn [map option_map bitmap_of Encode.bitmap_from]; auto.
  rewrite IH. destruct (bitmap_from_mul cs (i + 1)) as (q & ->).
  rewrite N.shiftl_1_l. apply lor_pow2_mul.
Qed.

Lemma skipn_S_cons {A} n (l : list A) x r : skipn n l = x :: r -> skipn (S n) l = r.
Proof.
  revert l. induction n as [|n IH]; intros [|y l] E; simpl in *; try discriminate.
  - inversion E; auto.
  - apply IH; auto.
Qed.

(* ---------- the two encoders agree on canonical tries ---------- *)
Section Enc.
Variable H : list byte -> list byte.
Variable ver : Encode.version.

Lemma enc_compact_eq n : enc_compact n = Encode.compact n.
Proof. reflexivity. Qed.
Lemma enc_bytes_eq v : enc_bytes v = Encode.scale_bytes v.
Proof. reflexivity. Qed.
Lemma lenN_nb k : lenN (nb k) = N.of_nat (length k).
Proof. unfold lenN. now rewrite nb_length. Qed.

Lemma children_eq (cs : list (option Node.tnode)) :
  Forall (Node.opt_all (fun c => InsertProofs.Canon c -> encode H (to_ct ver c) = Encode.enc H ver c)) cs ->
  Forall (Node.opt_all InsertProofs.Canon) cs ->
  flat_map (fun oc => match oc with
                      | None => []
                      | Some c => enc_bytes (merkle_value H (encode H c))
                      end)
           (map (fun o => match o with Some c => Some (to_ct ver c) | None => None end) cs)
  = (fix enc_children (l : list (option Node.tnode)) : list byte :=
       match l with
       | [] => []
       | None :: r => enc_children r
       | Some c :: r => Encode.scale_bytes (Encode.merkle_of_encoding H (Encode.enc H ver c)) ++ enc_children r
       end) cs.
Proof.
  induction cs as [|[c|] cs IH]; intros HI HC; simpl; auto.
  - inversion HI; inversion HC; subst. simpl in *. rewrite IH by auto. f_equal.
    rewrite H2 by auto. reflexivity.
  - inversion HI; inversion HC; subst. apply IH; auto.
Qed.

Lemma encode_to_ct : forall t, InsertProofs.Canon t -> encode H (to_ct ver t) = Encode.enc H ver t.
Proof.
  induction t as [pk v|pk ov cs IH] using Node.tnode_ind'; intros C.
  - inversion C as [? ? Hpk|]; subst. cbn [to_ct encode Encode.enc].
    rewrite (node_header_eq false (Some v)) by (intros; discriminate).
    rewrite lenN_nb, nibbles_to_key_le_nb by auto.
    unfold Encode.enc_value. rewrite enc_bytes_eq. cbn [flat_map]. rewrite app_nil_r.
    destruct (Encode.must_be_hashed ver v); reflexivity.
  - destruct (InsertProofs.Canon_branch_inv _ _ _ C) as (Hpk & Hlen & HC & _ & _).
    cbn [to_ct encode Encode.enc].
    assert (Hne : map (fun o => match o with Some c => Some (to_ct ver c) | None => None end) cs <> []).
    { destruct cs; simpl in *; [discriminate | congruence]. }
    destruct (map (fun o => match o with Some c => Some (to_ct ver c) | None => None end) cs) as [|o1 rest] eqn:Em;
      [congruence|]. rewrite <- Em. clear Hne.
    rewrite (node_header_eq true ov) by (intros ->; auto).
    rewrite lenN_nb, nibbles_to_key_le_nb by auto.
    unfold Encode.children_bitmap.
    change (map (fun o => match o with Some c => Some (to_ct ver c) | None => None end) cs)
      with (map (option_map (to_ct ver)) cs) at 1.
    rewrite bitmap_eq.
    rewrite children_eq by auto.
    f_equal. f_equal. f_equal. f_equal.
    destruct ov as [v|]; reflexivity.
Qed.

Lemma root_to_ct t : InsertProofs.Canon t -> root_hash H (to_ct ver t) = Encode.trie_root H ver (Some t).
Proof. intros C. unfold root_hash. rewrite encode_to_ct by auto. reflexivity. Qed.

(* ---------- the lookups agree ---------- *)
Lemma pick_nth (f : Codec.tnode -> option (list byte)) (cs : list (option Node.tnode)) i :
  pick f None (map (fun o => match o with Some c => Some (to_ct ver c) | None => None end) cs) i
  = match nth i cs None with Some c => f (to_ct ver c) | None => None end.
Proof.
  revert i. induction cs as [|o cs IH]; intros [|i]; simpl; auto. destruct o; auto.
Qed.

Lemma go_nth (g : Node.tnode -> option (list byte)) (cs : list (option Node.tnode)) i :
  (fix go (l : list (option Node.tnode)) (i : nat) {struct l} : option (list byte) :=
     match l with
     | [] => None
     | oc :: r => match i with
                  | O => match oc with None => None | Some c => g c end
                  | S j => go r j
                  end
     end) cs i
  = match nth i cs None with Some c => g c | None => None end.
Proof.
  revert i. induction cs as [|o cs IH]; intros [|i]; simpl; auto.
Qed.

Lemma lookup_to_ct : forall t k, InsertProofs.Canon t -> Nibbles.nibbles_ok k ->
  Db.lookup (to_ct ver t) (nb k) = Sem.lookup t k.
Proof.
  induction t as [pk v|pk ov cs IH] using Node.tnode_ind'; intros k C Hk.
  - inversion C as [? ? Hpk|]; subst. cbn [to_ct Db.lookup Sem.lookup].
    rewrite bytes_eqb_nb by auto. destruct (Nibbles.key_eqb pk k) eqn:E; auto.
    rewrite is_prefix_nb by auto. destruct (Nibbles.is_prefix pk k) eqn:P; auto.
    rewrite <- nb_skipn. rewrite nb_length.
    destruct (skipn (length pk) k) as [|i rest]; simpl; auto.
  - destruct (InsertProofs.Canon_branch_inv _ _ _ C) as (Hpk & Hlen & HC & _ & _).
    cbn [to_ct Db.lookup Sem.lookup].
    rewrite bytes_eqb_nb by auto. destruct (Nibbles.key_eqb pk k) eqn:E; auto.
    rewrite is_prefix_nb by auto. destruct (Nibbles.is_prefix pk k) eqn:P; auto.
    rewrite go_nth. rewrite <- nb_skipn, nb_length.
    assert (Hsk : Nibbles.nibbles_ok (skipn (length pk) k)).
    { unfold Nibbles.nibbles_ok in *. rewrite Forall_forall in *. intros x Hx. apply Hk.
      rewrite <- (firstn_skipn (length pk) k). apply in_or_app; auto. }
    destruct (skipn (length pk) k) as [|i rest] eqn:Es.
    + (* the key ends at the partial key: impossible, the keys differ *)
      exfalso. apply NibblesProofs.is_prefix_spec in P. destruct P as (r & ->).
      rewrite skipn_app, skipn_all, Nat.sub_diag in Es. simpl in Es. subst r. rewrite app_nil_r in E.
      destruct (NibblesProofs.key_eqb_spec pk pk); [discriminate | congruence].
    + cbn [nb map]. inversion Hsk as [|? ? Hi Hrest]; subst.
      rewrite pick_nth. rewrite b2n_nb by auto. rewrite Nat2N.id.
      assert (Enth : nth (length pk) k 0%nat = i).
      { rewrite <- (firstn_skipn (length pk) k), Es. rewrite app_nth2 by (rewrite firstn_length; lia).
        rewrite firstn_length. apply NibblesProofs.is_prefix_spec in P. destruct P as (r & ->).
        rewrite app_length. replace (Nat.min (length pk) (length pk + length r)) with (length pk) by lia.
        rewrite Nat.sub_diag. reflexivity. }
      rewrite Enth.
      assert (Erest : skipn (S (length pk)) k = rest).
      { eapply skipn_S_cons; eauto. }
      rewrite Erest.
      destruct (nth i cs None) as [c|] eqn:Ec; auto.
      assert (Hin : In (Some c) cs).
      { rewrite <- Ec. apply nth_In. destruct (Nat.lt_ge_cases i (length cs)); auto.
        rewrite nth_overflow in Ec by auto. discriminate. }
      rewrite Forall_forall in IH, HC. apply (IH _ Hin); auto. apply (HC _ Hin).
Qed.

End Enc.

(* ---------- sortedness of the denoted map, in the boolean form of Trie/Spec.v ---------- *)
Lemma bsorted_bm_sorted m : bsorted m -> Spec.bm_sorted m = true.
Proof.
  induction m as [|[k v] r IH]; intros S; auto.
  inversion S as [|? ? Sr Hall]; subst. destruct r as [|[k' v'] r']; auto.
  change (Nibbles.bytes_ltb k k' && Spec.bm_sorted ((k', v') :: r') = true).
  rewrite IH by auto. rewrite andb_true_r.
  inversion Hall as [|? ? Hlt _]; subst. unfold blt in Hlt. simpl in Hlt.
  unfold Nibbles.bytes_ltb. now rewrite Hlt.
Qed.

(* ---------- end to end ---------- *)
Section EndToEnd.
Variable H : list byte -> list byte.
Hypothesis Hlen : forall x, length (H x) = 32%nat.
Hypothesis Hh : forall x, h256_of (H x) = H x.
Variable st : bool * bool.
Variable ver : Encode.version.

(* For every history: if the database holds what commit writes for the canonical trie of the
   denoted map (and that trie is within the codec's size limits: partial keys of at most 65535
   nibbles, values below 4 GiB), then the root hash of that trie is the root the engine must return,
   and a fresh instance opened at that root reads, for EVERY key, the last value written to it
   (nothing when it was never written or deleted last). *)
Theorem reopen_end_to_end (ops : list op) (d : db) :
  match committed ver (map_of ops) with
  | Some n =>
    wf_node n = true -> has d (tneeds_root H n) ->
    root_hash H n = engine_root H ver ops
    /\ forall key, tget st d (engine_root H ver ops) key = last_write ops key
  | None =>
    engine_root H ver ops = H [n2b 0] /\ forall key, last_write ops key = None
  end.
Proof.
  set (m := map_of ops).
  assert (Sm : Spec.bm_sorted m = true) by (apply bsorted_bm_sorted, bsorted_map_of).
  pose proof (SpecProofs.build_trie_adequate m Sm) as R.
  pose proof (fun k => SpecProofs.build_trie_lookup m k Sm) as L.
  unfold committed. fold m.
  assert (Er : engine_root H ver ops = Encode.trie_root H ver (Spec.build_trie (Spec.kv_of_bmap m))) by reflexivity.
  destruct (Spec.build_trie (Spec.kv_of_bmap m)) as [t|] eqn:Eb; cbn [option_map].
  - destruct R as (C & _). simpl in C.
    intros Hwf Hhas.
    assert (Eroot : root_hash H (to_ct ver t) = engine_root H ver ops) by (rewrite Er; apply root_to_ct; auto).
    split; [exact Eroot|]. intros key.
    rewrite <- Eroot. unfold root_hash.
    rewrite (tget_correct H Hlen Hh st (to_ct ver t) d key Hwf Hhas).
    rewrite nibbles_of_bytes_nb.
    rewrite lookup_to_ct by (auto; apply NibblesProofs.key_le_to_nibbles_ok).
    specialize (L key). simpl in L. rewrite L. apply map_of_last_write.
  - split; [rewrite Er; reflexivity|]. intros key.
    specialize (L key). simpl in L. rewrite <- map_of_last_write. fold m. congruence.
Qed.

End EndToEnd.
