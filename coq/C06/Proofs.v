From Common Require Import Bytes Blake2b.
From Trie Require Import Nibbles Node Encode Spec.
From C06 Require Import Model.

Definition k1234 : list byte := [n2b 18; n2b 52].
Definition v32 : list byte := repeat (n2b 171) 32.

(* the pinned engine (NewValue hashes when len >= 32) disagrees with the spec on one 32-byte value *)
Lemma threshold_pinned_refuted :
  engine_root_pinned blake2b_256 V1 [OPut k1234 v32] <> engine_root blake2b_256 V1 [OPut k1234 v32].
Proof. vm_compute. intro E; discriminate E. Qed.
