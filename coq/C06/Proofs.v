(* C06/Proofs.v — lemmas behind Properties.v. *)
From Common Require Import Bytes Blake2b.
From Trie Require Import Nibbles Node Encode Spec.
From TrieCodec Require Codec View Db ProofsDb.
From C06 Require Import Model MapSem Gen Lookup Bridge.
From Coq Require Import Arith Lia.
Local Open Scope nat_scope.

(* constants read from the Go source on every run *)
Example gen_v1_max_inline : Gen.v1_max_inline_value_size = 32%Z.
Proof. reflexivity. Qed.
Example gen_children_capacity : Gen.children_capacity = 16%Z.
Proof. reflexivity. Qed.

Definition k1234 : list byte := [n2b 18; n2b 52].
Definition v32 : list byte := repeat (n2b 171) 32.

(* the pinned engine (NewValue hashes when len >= 32) disagrees with the spec on one 32-byte value *)
Lemma threshold_pinned_refuted :
  engine_root_pinned blake2b_256 V1 [OPut k1234 v32] <> engine_root blake2b_256 V1 [OPut k1234 v32].
Proof. vm_compute. intro E; discriminate E. Qed.

(* a value is stored by hash exactly when the version is V1 and it is longer than 32 bytes *)
Lemma threshold ver v :
  value_hashed ver v = true <-> ver = V1 /\ (Z.to_nat Gen.v1_max_inline_value_size < length v).
Proof.
  unfold value_hashed, must_be_hashed. destruct ver; simpl.
  - split; [discriminate | intros [E _]; discriminate].
  - change (Z.to_nat Gen.v1_max_inline_value_size) with 32. unfold v1_max_inline_value.
    destruct (Nat.ltb_spec 32 (length v)); split; auto; try discriminate. intros [_ ?]. lia.
Qed.

Lemma root_spec H ver ops : engine_root H ver ops = spec_root_bytes H ver (map_of ops).
Proof. reflexivity. Qed.

(* the root depends on the denoted map only, not on the order or number of operations *)
Lemma root_order_independent H ver ops1 ops2 :
  (forall k, last_write ops1 k = last_write ops2 k) -> engine_root H ver ops1 = engine_root H ver ops2.
Proof.
  intros Heq. unfold engine_root. f_equal.
  (* two sorted duplicate-free maps with the same lookups are equal *)
  assert (Hext : forall m1 m2, bsorted m1 -> bsorted m2 -> (forall k, bm_get m1 k = bm_get m2 k) -> m1 = m2).
  { induction m1 as [|[k1 v1] m1 IH]; intros [|[k2 v2] m2] S1 S2 E; auto.
    - specialize (E k2). simpl in E. rewrite (proj2 (bytes_eqb_compare k2 k2) (bytes_compare_refl _)) in E. discriminate.
    - specialize (E k1). simpl in E. rewrite (proj2 (bytes_eqb_compare k1 k1) (bytes_compare_refl _)) in E. discriminate.
    - inversion S1 as [|? ? S1' F1]; inversion S2 as [|? ? S2' F2]; subst.
      assert (Ek : k1 = k2).
      { destruct (bytes_compare k1 k2) eqn:C.
        - apply bytes_compare_eq; auto.
        - exfalso. pose proof (E k1) as E1. simpl in E1.
          rewrite (proj2 (bytes_eqb_compare k1 k1) (bytes_compare_refl _)) in E1.
          rewrite bytes_eqb_false_compare in E1.
          + rewrite bm_get_none_below in E1; [discriminate|].
            eapply Forall_impl; [|exact F2]. intros e He. unfold blt in He; simpl in He. eapply bytes_compare_trans; eauto.
          + rewrite bytes_compare_antisym, C. discriminate.
        - exfalso. pose proof (E k2) as E2. simpl in E2.
          rewrite (proj2 (bytes_eqb_compare k2 k2) (bytes_compare_refl _)) in E2.
          assert (C' : bytes_compare k2 k1 = Lt) by (rewrite bytes_compare_antisym, C; reflexivity).
          rewrite bytes_eqb_false_compare in E2.
          + rewrite bm_get_none_below in E2; [discriminate|].
            eapply Forall_impl; [|exact F1]. intros e He. unfold blt in He; simpl in He. eapply bytes_compare_trans; eauto.
          + rewrite C. discriminate. }
      subst k2. pose proof (E k1) as E1. simpl in E1.
      rewrite (proj2 (bytes_eqb_compare k1 k1) (bytes_compare_refl _)) in E1. inversion E1; subst v2.
      f_equal. apply IH; auto. intros k. specialize (E k). simpl in E.
      destruct (bytes_eqb k1 k) eqn:Ek; auto.
      destruct (bytes_eqb_spec k1 k); [|discriminate]. subst k.
      rewrite (bm_get_none_below m1 k1) by (eapply Forall_impl; [|exact F1]; auto).
      rewrite (bm_get_none_below m2 k1) by (eapply Forall_impl; [|exact F2]; auto). reflexivity. }
  apply Hext; auto using bsorted_map_of. intros k. rewrite !map_of_last_write. auto.
Qed.

(* what a reopened instance must return: the last value written to the key *)
Lemma reopen_last_write ops k : reopen_get ops k = last_write ops k.
Proof. apply map_of_last_write. Qed.

(* non-vacuity of the reopen theorem: a V1 trie with a branch, an inlined leaf, a leaf referenced by
   hash and a hashed 40-byte value; the database holding exactly what commit writes satisfies the
   hypothesis, and the lookup finds present keys and rejects absent ones *)
Definition demo_map : bmap :=
  map_of [OPut k1234 (repeat (n2b 7) 40); OPut [n2b 18; n2b 53] [n2b 1]; OPut [n2b 18] v32; OPut [n2b 32] (repeat (n2b 9) 33)].
Lemma reopen_nonvacuous :
  match committed V1 demo_map with
  | Some n =>
    let d := tneeds_root blake2b_256 n in
    View.wf_node n = true /\ has_b d (tneeds_root blake2b_256 n) = true /\ (4 <= length d)%nat
    /\ tget (true, true) d (Codec.root_hash blake2b_256 n) k1234 = Some (repeat (n2b 7) 40)
    /\ tget (true, true) d (Codec.root_hash blake2b_256 n) [n2b 18] = Some v32
    /\ tget (true, true) d (Codec.root_hash blake2b_256 n) [n2b 18; n2b 54] = None
    /\ Codec.root_hash blake2b_256 n = spec_root_bytes blake2b_256 V1 demo_map
  | None => False
  end.
Proof. vm_compute. repeat split; try reflexivity; lia. Qed.
