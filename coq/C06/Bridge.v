(* C06/Bridge.v — from the canonical trie of the specification (Trie/Spec.v, nibbles as nat, no
   MustBeHashed field) to the node type of the codec library (TrieCodec.Codec.tnode, nibbles as
   bytes, explicit MustBeHashed), and the executable checks the driver runs against the database
   the Go engine wrote (definitions only). *)
From Common Require Import Bytes Outcome.
From Trie Require Nibbles Node Encode Spec.
From TrieCodec Require Import Codec View Db ProofsDb.
From C06 Require Import Lookup.
From Coq Require Import Arith.
Local Open Scope nat_scope.

Definition nb (k : Nibbles.key) : list byte := map (fun x => n2b (N.of_nat x)) k.

Fixpoint to_ct (ver : Encode.version) (t : Node.tnode) : Codec.tnode :=
  match t with
  | Node.Leaf pk v => TN (nb pk) (Some v) (Encode.must_be_hashed ver v) []
  | Node.Branch pk ov cs =>
    TN (nb pk) ov (match ov with Some v => Encode.must_be_hashed ver v | None => false end)
       (map (fun o => match o with Some c => Some (to_ct ver c) | None => None end) cs)
  end.

(* the canonical committed trie of a byte-keyed map *)
Definition committed (ver : Encode.version) (m : Spec.bmap) : option Codec.tnode :=
  option_map (to_ct ver) (Spec.build_trie (Spec.kv_of_bmap m)).

(* every binding commit must have written is in the database [d] *)
Definition has_b (d : db) (l : list binding) : bool :=
  forallb (fun kc => match db_get d (fst kc) with Some v => bytes_eqb v (snd kc) | None => false end) l.
