(* Conc/Cert.v — checking a linearization CERTIFICATE.

   Finding a linearization is a search (Lin.v proves a sound and complete one, and a memoized
   one sound for positive answers); on histories in which many calls that cannot fail (a Put
   into a cache) are pending at once these searches are exponential when the hint order is off
   by one transposition.  Checking a proposed linearization is linear/quadratic.  So the driver
   may search with any heuristic it likes (hash tables, limited-discrepancy orders: untrusted
   OCaml) and hand the result — the positions of the records of the history in linearization
   order — to [cert_ok], which is proved sound here: a certificate that passes makes the history
   linearizable.  A history for which no certificate is found is still decided by the proved
   searches of Lin.v. *)
From Coq Require Import List NArith Bool Lia Permutation Arith.
From Conc Require Import Lin.
Import ListNotations.
Local Open Scope N_scope.

Section Cert.
  Variables St Op Res : Type.
  Variable step : St -> Op -> St * Res.
  Variable res_eqb : Res -> Res -> bool.
  Hypothesis res_eqb_spec : forall a b, res_eqb a b = true <-> a = b.

  Notation orec := (@orec Op Res).
  Notation fspec := (fspec St Op Res step).

  (* the sequence is a legal sequential execution from s *)
  Fixpoint legal_b (s : St) (l : list orec) : bool :=
    match l with
    | [] => true
    | e :: r => let (s', x) := step s (o_op e) in res_eqb x (o_res e) && legal_b s' r
    end.

  Lemma legal_b_sound : forall l s, legal_b s l = true -> exists s', legal fspec s l s'.
  Proof.
    induction l as [|e l IH]; intros s H; simpl in H.
    - exists s. constructor.
    - destruct (step s (o_op e)) as [s1 x] eqn:Es. apply andb_true_iff in H. destruct H as [H1 H2].
      apply res_eqb_spec in H1. subst x. destruct (IH _ H2) as [s' Hl].
      exists s'. econstructor; [|exact Hl]. exact Es.
  Qed.

  (* no record is placed before one that returned before it was called *)
  Fixpoint rt_b (l : list orec) : bool :=
    match l with
    | [] => true
    | a :: r => forallb (fun b => negb (o_ret b <? o_call a)) r && rt_b r
    end.

  Lemma rt_b_sound l : rt_b l = true -> rt_ordered l.
  Proof.
    induction l as [|a l IH]; intros H; simpl in H; [constructor|].
    apply andb_true_iff in H. destruct H as [H1 H2]. constructor; [|apply IH; exact H2].
    rewrite forallb_forall in H1. apply Forall_forall. intros b Hb. specialize (H1 b Hb).
    apply negb_true_iff, N.ltb_ge in H1. unfold rt_ok. lia.
  Qed.

  (* the certificate is a permutation of the positions 0 .. n-1 *)
  Fixpoint nodup_b (l : list nat) : bool :=
    match l with
    | [] => true
    | x :: r => negb (existsb (Nat.eqb x) r) && nodup_b r
    end.

  Lemma nodup_b_sound l : nodup_b l = true -> NoDup l.
  Proof.
    induction l as [|x l IH]; intros H; simpl in H; [constructor|].
    apply andb_true_iff in H. destruct H as [H1 H2]. constructor; [|apply IH; exact H2].
    intros Hin. apply negb_true_iff in H1.
    assert (existsb (Nat.eqb x) l = true); [|congruence].
    apply existsb_exists. exists x. split; [exact Hin|apply Nat.eqb_refl].
  Qed.

  Lemma map_nth_seq_gen (d : orec) : forall h pre,
    map (fun i => nth i (pre ++ h) d) (seq (length pre) (length h)) = h.
  Proof.
    induction h as [|a h IH]; intros pre; simpl; [reflexivity|]. f_equal.
    - rewrite app_nth2 by lia. rewrite Nat.sub_diag. reflexivity.
    - specialize (IH (pre ++ [a])). rewrite <- app_assoc in IH. simpl in IH.
      rewrite app_length in IH. simpl in IH. rewrite Nat.add_1_r in IH. exact IH.
  Qed.

  Lemma map_nth_seq (d : orec) h : map (fun i => nth i h d) (seq 0 (length h)) = h.
  Proof. exact (map_nth_seq_gen d h []). Qed.

  Lemma select_perm (d : orec) h p :
    NoDup p -> length p = length h -> (forall i, In i p -> (i < length h)%nat) ->
    Permutation (map (fun i => nth i h d) p) h.
  Proof.
    intros Hn Hl Hb.
    assert (Hp : Permutation p (seq 0 (length h))).
    { apply NoDup_Permutation_bis; [exact Hn|rewrite seq_length; lia|].
      intros i Hi. apply in_seq. specialize (Hb i Hi). lia. }
    eapply Permutation_trans; [apply Permutation_map; exact Hp|]. rewrite map_nth_seq. apply Permutation_refl.
  Qed.

  Definition cert_ok (s0 : St) (h : list orec) (p : list nat) : bool :=
    match h with
    | [] => match p with [] => true | _ :: _ => false end
    | d :: _ =>
      let l := map (fun i => nth i h d) p in
      nodup_b p && Nat.eqb (length p) (length h) && forallb (fun i => Nat.ltb i (length h)) p &&
      legal_b s0 l && rt_b l
    end.

  Theorem cert_ok_sound s0 h p : cert_ok s0 h p = true -> linearizable fspec s0 h.
  Proof.
    unfold cert_ok. destruct h as [|d h'] eqn:Eh.
    - intros _. exists [], s0. repeat split; constructor.
    - rewrite <- Eh. intros H.
      repeat (apply andb_true_iff in H; destruct H as [H ?]).
      match goal with H : rt_b _ = true |- _ => apply rt_b_sound in H; rename H into Hrt end.
      match goal with H : legal_b _ _ = true |- _ => apply legal_b_sound in H; destruct H as [s' Hl] end.
      match goal with H : forallb _ _ = true |- _ => rename H into Hb end.
      match goal with H : Nat.eqb _ _ = true |- _ => apply Nat.eqb_eq in H; rename H into Hlen end.
      apply nodup_b_sound in H.
      exists (map (fun i => nth i h d) p), s'. repeat split; [|exact Hl|exact Hrt].
      apply select_perm; [exact H|exact Hlen|].
      intros i Hi. rewrite forallb_forall in Hb. specialize (Hb i Hi). apply Nat.ltb_lt in Hb. exact Hb.
  Qed.

  (* ---------------------------------------------------------------------------------- *)
  (* histories with pending calls.  [h] holds the completed calls, [pend] the calls that have
     been invoked but have not returned.  The history is linearizable when SOME of the pending
     calls can be completed (given a result, returning at a time [inf] later than every stamp)
     and the others dropped such that the complete history is linearizable. *)
  Record pcall := mkpc { pc_call : N; pc_op : Op }.

  Definition completes (inf : N) (pend : list pcall) (compl : list orec) : Prop :=
    exists idx : list nat, NoDup idx /\
      Forall2 (fun i e => exists p, nth_error pend i = Some p /\
                           o_call e = pc_call p /\ o_op e = pc_op p /\ o_ret e = inf) idx compl.

  Definition later (inf : N) (h : list orec) (pend : list pcall) : Prop :=
    (forall e, In e h -> o_call e < inf /\ o_ret e < inf) /\ (forall p, In p pend -> pc_call p < inf).

  Definition linearizable_pending (s0 : St) (h : list orec) (pend : list pcall) : Prop :=
    exists inf compl, later inf h pend /\ completes inf pend compl /\ linearizable fspec s0 (h ++ compl).

  (* certificate: which pending calls are completed and with which result ([chosen]: position in
     [pend], result), the time [inf], and the positions of the records of [h ++ completions] in
     linearization order *)
  Definition completion_of (inf : N) (pend : list pcall) (chosen : list (nat * Res)) : option (list orec) :=
    fold_right (fun (c : nat * Res) acc =>
                  match nth_error pend (fst c), acc with
                  | Some p, Some l => Some (mkrec (pc_call p) inf (pc_op p) (snd c) :: l)
                  | _, _ => None
                  end) (Some []) chosen.

  Definition later_b (inf : N) (h : list orec) (pend : list pcall) : bool :=
    forallb (fun e => (o_call e <? inf) && (o_ret e <? inf)) h && forallb (fun p => pc_call p <? inf) pend.

  Definition pcert_ok (s0 : St) (h : list orec) (pend : list pcall) (inf : N)
             (chosen : list (nat * Res)) (p : list nat) : bool :=
    match completion_of inf pend chosen with
    | Some compl => later_b inf h pend && nodup_b (map fst chosen) && cert_ok s0 (h ++ compl) p
    | None => false
    end.

  Lemma completion_of_sound inf pend : forall chosen compl,
    completion_of inf pend chosen = Some compl ->
    Forall2 (fun i e => exists p, nth_error pend i = Some p /\
                         o_call e = pc_call p /\ o_op e = pc_op p /\ o_ret e = inf) (map fst chosen) compl.
  Proof.
    induction chosen as [|[i r] chosen IH]; intros compl H; simpl in H.
    - inversion H. constructor.
    - destruct (nth_error pend i) as [p|] eqn:Ep; [|discriminate].
      destruct (completion_of inf pend chosen) as [l|] eqn:El; [|discriminate].
      inversion H; subst. simpl. constructor; [|apply IH; reflexivity].
      exists p. repeat split; auto.
  Qed.

  Theorem pcert_ok_sound s0 h pend inf chosen p :
    pcert_ok s0 h pend inf chosen p = true -> linearizable_pending s0 h pend.
  Proof.
    unfold pcert_ok. destruct (completion_of inf pend chosen) as [compl|] eqn:Ec; [|discriminate].
    intros H. apply andb_true_iff in H. destruct H as [H Hc]. apply andb_true_iff in H. destruct H as [Hl Hn].
    exists inf, compl. split; [|split].
    - unfold later_b in Hl. apply andb_true_iff in Hl. destruct Hl as [H1 H2].
      rewrite forallb_forall in H1, H2. split.
      + intros e He. specialize (H1 e He). apply andb_true_iff in H1. destruct H1 as [A B].
        apply N.ltb_lt in A, B. split; assumption.
      + intros q Hq. specialize (H2 q Hq). apply N.ltb_lt in H2. exact H2.
    - exists (map fst chosen). split; [apply nodup_b_sound; exact Hn|].
      apply completion_of_sound. exact Ec.
    - eapply cert_ok_sound. exact Hc.
  Qed.
End Cert.
