(* Conc/LockedObject.v — a shared object whose methods run under a lock.

   A method body is a little state machine over ATOMIC MICRO-STEPS on the shared state
   (one read or write of shared memory each): [init op] is the initial local state,
   [fin l = Some r] says the body is finished with result r, otherwise [mstep l s] performs
   one micro-step.  Each call goes through  Call -> Acquire -> micro-steps -> Release -> Return.
   [mode op] is the lock mode of the method (read from the Go source by the translator):
     LockExclusive  sync.Mutex.Lock / RWMutex.Lock   (no other holder)
     LockShared     RWMutex.RLock                    (other shared holders may interleave)
     LockNone       no lock                          (interleaves with everything)
   Any number of threads, each with a program (list of operations), interleave step by step.
   Every step ticks a global clock; call and return stamps are recorded exactly as the Go
   harness records them with an atomic counter.

   Main theorem [exclusive_linearizable]: if every method is LockExclusive then the records of
   every reachable quiescent configuration are linearizable w.r.t. the sequential execution of
   the bodies (the order of lock releases is a linearization), and the shared state is the
   state reached by that sequential execution. *)
From Coq Require Import List NArith Bool Lia Permutation Sorted Arith.
From Common Require Import Lock.
From Conc Require Import Lin.
Import ListNotations.
Local Open Scope N_scope.

Section LockedObject.
  Variables St Loc Op Res : Type.
  Variable init : Op -> Loc.
  Variable fin : Loc -> option Res.
  Variable mstep : Loc -> St -> Loc * St.
  Variable mode : Op -> lockmode.

  (* sequential execution of one body (big step) *)
  Inductive runs : Loc -> St -> Res -> St -> Prop :=
  | runs_fin l s r : fin l = Some r -> runs l s r s
  | runs_step l s l' s' r s'' :
      fin l = None -> mstep l s = (l', s') -> runs l' s' r s'' -> runs l s r s''.

  Definition seq_spec (s : St) (op : Op) (r : Res) (s' : St) : Prop := runs (init op) s r s'.

  Lemma runs_det l s r1 s1 r2 s2 : runs l s r1 s1 -> runs l s r2 s2 -> r1 = r2 /\ s1 = s2.
  Proof.
    intros H; revert r2 s2; induction H; intros r2 s2 H2; inversion H2; subst; try congruence.
    - split; congruence.
    - rewrite H0 in H4. inversion H4; subst. auto.
  Qed.

  (* executable big step with fuel *)
  Fixpoint run_body (fuel : nat) (l : Loc) (s : St) : option (Res * St) :=
    match fin l with
    | Some r => Some (r, s)
    | None => match fuel with
              | O => None
              | S f => let (l', s') := mstep l s in run_body f l' s'
              end
    end.

  Lemma run_body_runs fuel : forall l s r s', run_body fuel l s = Some (r, s') -> runs l s r s'.
  Proof.
    induction fuel as [|f IH]; intros l s r s' H; simpl in H; destruct (fin l) eqn:Ef.
    - inversion H; subst. constructor; assumption.
    - discriminate.
    - inversion H; subst. constructor; assumption.
    - destruct (mstep l s) as [l1 s1] eqn:Em. eapply runs_step; eauto.
  Qed.

  Inductive tstate :=
  | Idle
  | Waiting (k : N) (op : Op)                (* called at stamp k, waiting for the lock *)
  | Running (k : N) (op : Op) (l : Loc)      (* holds the lock (in its mode) *)
  | Finished (k : N) (op : Op) (r : Res).    (* lock released, about to return *)

  Inductive lockst := Free | Excl (t : nat) | Shr (n : nat).

  Record cfg := mkcfg {
    shared : St; clk : N; lock : lockst;
    th : nat -> tstate; progs : nat -> list Op;
    done : list (@orec Op Res) }.

  Definition upd {A} (f : nat -> A) (t : nat) (v : A) : nat -> A :=
    fun x => if Nat.eqb x t then v else f x.

  Lemma upd_same {A} (f : nat -> A) t v : upd f t v t = v.
  Proof. unfold upd. rewrite Nat.eqb_refl. reflexivity. Qed.
  Lemma upd_other {A} (f : nat -> A) t v x : x <> t -> upd f t v x = f x.
  Proof. unfold upd. intros H. apply Nat.eqb_neq in H. rewrite H. reflexivity. Qed.

  Definition acquire (md : lockmode) (t : nat) (lk : lockst) : option lockst :=
    match md, lk with
    | LockNone, _ => Some lk
    | LockExclusive, Free => Some (Excl t)
    | LockShared, Free => Some (Shr 1)
    | LockShared, Shr n => Some (Shr (S n))
    | _, _ => None
    end.

  Definition release (md : lockmode) (lk : lockst) : lockst :=
    match md, lk with
    | LockNone, _ => lk
    | LockShared, Shr (S (S n)) => Shr (S n)
    | _, _ => Free
    end.

  (* one step of thread t (None: t cannot move — blocked on the lock or program finished) *)
  Definition tstep (t : nat) (c : cfg) : option cfg :=
    match th c t with
    | Idle =>
      match progs c t with
      | [] => None
      | op :: rest =>
        Some (mkcfg (shared c) (N.succ (clk c)) (lock c)
                    (upd (th c) t (Waiting (clk c) op)) (upd (progs c) t rest) (done c))
      end
    | Waiting k op =>
      match acquire (mode op) t (lock c) with
      | None => None
      | Some lk =>
        Some (mkcfg (shared c) (N.succ (clk c)) lk
                    (upd (th c) t (Running k op (init op))) (progs c) (done c))
      end
    | Running k op l =>
      match fin l with
      | None =>
        let (l', s') := mstep l (shared c) in
        Some (mkcfg s' (N.succ (clk c)) (lock c) (upd (th c) t (Running k op l')) (progs c) (done c))
      | Some r =>
        Some (mkcfg (shared c) (N.succ (clk c)) (release (mode op) (lock c))
                    (upd (th c) t (Finished k op r)) (progs c) (done c))
      end
    | Finished k op r =>
      Some (mkcfg (shared c) (N.succ (clk c)) (lock c) (upd (th c) t Idle) (progs c)
                  (mkrec k (clk c) op r :: done c))
    end.

  Inductive reach (c0 : cfg) : cfg -> Prop :=
  | reach_refl : reach c0 c0
  | reach_step c t c' : reach c0 c -> tstep t c = Some c' -> reach c0 c'.

  (* executable scheduler: the schedule names the thread that moves next (a blocked or
     finished thread's turn is skipped) *)
  Fixpoint run_sched (sch : list nat) (c : cfg) : cfg :=
    match sch with
    | [] => c
    | t :: r => match tstep t c with Some c' => run_sched r c' | None => run_sched r c end
    end.

  Lemma run_sched_reach sch : forall c0 c, reach c0 c -> reach c0 (run_sched sch c).
  Proof.
    induction sch as [|t r IH]; intros c0 c H; simpl; [exact H|].
    destruct (tstep t c) eqn:E; [|apply IH; exact H].
    apply IH. eapply reach_step; eauto.
  Qed.

  Definition init_cfg (s0 : St) (P : nat -> list Op) : cfg :=
    mkcfg s0 0 Free (fun _ => Idle) P [].

  Definition quiescent (c : cfg) : Prop := forall t, th c t = Idle.

  (* ---------------------------------------------------------------------------------- *)
  (* proof of the main theorem: ghost linearization log *)

  Record gent := mkg { g_t : nat; g_lin : N; g_call : N; g_op : Op; g_res : Res; g_ret : option N }.
  Definition g_rec (g : gent) : @orec Op Res :=
    mkrec (g_call g) (match g_ret g with Some r => r | None => 0 end) (g_op g) (g_res g).
  Definition pending (g : gent) : bool := match g_ret g with None => true | Some _ => false end.

  Definition not_running (ts : tstate) : Prop := match ts with Running _ _ _ => False | _ => True end.

  Definition lock_inv (c : cfg) (sb : St) : Prop :=
    match lock c with
    | Free => shared c = sb /\ forall t, not_running (th c t)
    | Excl t => (exists k op l, th c t = Running k op l /\
                   forall r s', runs l (shared c) r s' -> runs (init op) sb r s')
                /\ forall t', t' <> t -> not_running (th c t')
    | Shr _ => False
    end.

  Definition stamps_ok (c : cfg) : Prop :=
    forall t, match th c t with
              | Idle => True
              | Waiting k _ | Running k _ _ | Finished k _ _ => k < clk c
              end.

  Definition glog_ok (c : cfg) (L : list gent) : Prop :=
    (forall g, In g L -> pending g = true -> th c (g_t g) = Finished (g_call g) (g_op g) (g_res g)) /\
    (forall t k op r, th c t = Finished k op r -> exists g, In g L /\ pending g = true /\ g_t g = t) /\
    NoDup (map g_t (filter pending L)) /\
    Permutation (map g_rec (filter (fun g => negb (pending g)) L)) (done c) /\
    StronglySorted (fun a b => g_lin a < g_lin b) L /\
    (forall g, In g L -> g_call g < g_lin g /\ g_lin g < clk c /\
                         match g_ret g with Some r => g_lin g < r | None => True end).

  Definition Inv (s0 : St) (c : cfg) : Prop :=
    exists L sb, legal seq_spec s0 (map g_rec L) sb /\ lock_inv c sb /\ stamps_ok c /\ glog_ok c L.

  Hypothesis all_exclusive : forall op, mode op = LockExclusive.

  Lemma Inv_init s0 P : Inv s0 (init_cfg s0 P).
  Proof.
    exists [], s0. split; [constructor|]. split; [|split].
    - simpl. split; [reflexivity|]. intros t. exact I.
    - intros t. exact I.
    - unfold glog_ok. simpl. split; [intros g []|]. split; [intros; discriminate|].
      split; [constructor|]. split; [constructor|]. split; [constructor|]. intros g [].
  Qed.

  Lemma legal_map_snoc s0 L sb g s2 :
    legal seq_spec s0 (map g_rec L) sb -> seq_spec sb (g_op g) (g_res g) s2 ->
    legal seq_spec s0 (map g_rec (L ++ [g])) s2.
  Proof. intros H1 H2. rewrite map_app. simpl. eapply legal_snoc; eauto. Qed.

  Lemma sorted_snoc (L : list gent) g :
    StronglySorted (fun a b => g_lin a < g_lin b) L ->
    (forall x, In x L -> g_lin x < g_lin g) ->
    StronglySorted (fun a b => g_lin a < g_lin b) (L ++ [g]).
  Proof.
    induction 1 as [|a l Hs IH Ha]; intros Hall; simpl.
    - constructor; constructor.
    - constructor.
      + apply IH. intros x Hx. apply Hall. right; exact Hx.
      + apply Forall_app. split; [exact Ha|]. constructor; [|constructor].
        apply Hall. left; reflexivity.
  Qed.

  (* replacing one element by one with the same g_lin keeps sortedness *)
  Lemma sorted_replace (L1 L2 : list gent) g g' :
    g_lin g' = g_lin g ->
    StronglySorted (fun a b => g_lin a < g_lin b) (L1 ++ g :: L2) ->
    StronglySorted (fun a b => g_lin a < g_lin b) (L1 ++ g' :: L2).
  Proof.
    intros E. induction L1 as [|a L1 IH]; simpl; intros H; inversion H; subst.
    - constructor; [assumption|]. rewrite E. assumption.
    - constructor; [apply IH; assumption|].
      rewrite Forall_app in *. destruct H3 as [Ha Hb]. split; [exact Ha|].
      inversion Hb; subst. constructor; [rewrite E; assumption|assumption].
  Qed.

  Lemma NoDup_snoc {A} (l : list A) a : NoDup l -> ~ In a l -> NoDup (l ++ [a]).
  Proof.
    intros H1 H2. eapply Permutation_NoDup; [apply Permutation_cons_append|].
    constructor; assumption.
  Qed.

  Lemma Inv_step s0 c t c' : Inv s0 c -> tstep t c = Some c' -> Inv s0 c'.
  Proof.
    intros [L [sb [Hleg [Hlock [Hst Hg]]]]] Hstep.
    destruct Hg as [Gfwd [Gbwd [Gnd [Gperm [Gsort Gtime]]]]].
    unfold tstep in Hstep.
    destruct (th c t) as [|k op|k op l|k op r] eqn:Et.
    - (* Call *)
      destruct (progs c t) as [|op rest] eqn:Ep; [discriminate|]. inversion Hstep; subst c'; clear Hstep.
      exists L, sb. split; [exact Hleg|]. split; [|split].
      + unfold lock_inv in *. simpl. destruct (lock c) as [|t0|n]; [| |exact Hlock].
        * destruct Hlock as [Hs Hn]. split; [exact Hs|]. intros x. unfold upd.
          destruct (Nat.eqb x t); [exact I|apply Hn].
        * destruct Hlock as [[k0 [op0 [l0 [Hr Hruns]]]] Hn]. split.
          -- exists k0, op0, l0. split; [|exact Hruns].
             assert (t0 <> t) by (intros ->; rewrite Et in Hr; discriminate).
             rewrite upd_other by assumption. exact Hr.
          -- intros x Hx. unfold upd. destruct (Nat.eqb x t); [exact I|apply Hn; exact Hx].
      + intros x. simpl. unfold upd. destruct (Nat.eqb x t) eqn:Ex.
        * lia.
        * specialize (Hst x). destruct (th c x); try exact I; lia.
      + repeat split; simpl.
        * intros g Hin Hp. specialize (Gfwd g Hin Hp).
          assert (g_t g <> t) by (intros E; rewrite E in Gfwd; rewrite Et in Gfwd; discriminate).
          rewrite upd_other by assumption. exact Gfwd.
        * intros x k0 op0 r0 Hx. unfold upd in Hx. destruct (Nat.eqb x t); [discriminate|].
          eapply Gbwd; eauto.
        * exact Gnd.
        * exact Gperm.
        * exact Gsort.
        * apply Gtime; assumption.
        * destruct (Gtime g H) as [_ [H2 _]]. lia.
        * destruct (Gtime g H) as [_ [_ H3]]. exact H3.
    - (* Acquire *)
      rewrite all_exclusive in Hstep. unfold acquire in Hstep.
      destruct (lock c) as [|t0|n] eqn:El; try discriminate. inversion Hstep; subst c'; clear Hstep.
      unfold lock_inv in Hlock. rewrite El in Hlock. destruct Hlock as [Hs Hn].
      exists L, sb. split; [exact Hleg|]. split; [|split].
      + unfold lock_inv. simpl. split.
        * exists k, op, (init op). rewrite upd_same. split; [reflexivity|]. rewrite Hs. auto.
        * intros x Hx. rewrite upd_other by assumption. apply Hn.
      + intros x. simpl. unfold upd. destruct (Nat.eqb x t) eqn:Ex.
        * specialize (Hst t). rewrite Et in Hst. lia.
        * specialize (Hst x). destruct (th c x); try exact I; lia.
      + repeat split; simpl.
        * intros g Hin Hp. specialize (Gfwd g Hin Hp).
          assert (g_t g <> t) by (intros E; rewrite E in Gfwd; rewrite Et in Gfwd; discriminate).
          rewrite upd_other by assumption. exact Gfwd.
        * intros x k0 op0 r0 Hx. unfold upd in Hx. destruct (Nat.eqb x t); [discriminate|].
          eapply Gbwd; eauto.
        * exact Gnd.
        * exact Gperm.
        * exact Gsort.
        * apply Gtime; assumption.
        * destruct (Gtime g H) as [_ [H2 _]]. lia.
        * destruct (Gtime g H) as [_ [_ H3]]. exact H3.
    - (* Running: micro-step or release *)
      assert (Hlk : lock c = Excl t).
      { unfold lock_inv in Hlock. destruct (lock c) as [|t0|n] eqn:El.
        - destruct Hlock as [_ Hn]. specialize (Hn t). rewrite Et in Hn. destruct Hn.
        - destruct Hlock as [_ Hn]. destruct (Nat.eq_dec t t0) as [->|Hne]; [reflexivity|].
          specialize (Hn t Hne). rewrite Et in Hn. destruct Hn.
        - destruct Hlock. }
      unfold lock_inv in Hlock. rewrite Hlk in Hlock.
      destruct Hlock as [[k0 [op0 [l0 [Hr Hruns]]]] Hn].
      rewrite Et in Hr. inversion Hr; subst k0 op0 l0; clear Hr.
      destruct (fin l) as [r|] eqn:Ef.
      + (* Release: the linearization point *)
        inversion Hstep; subst c'; clear Hstep.
        set (g := mkg t (clk c) k op r None).
        exists (L ++ [g]), (shared c).
        assert (Hnopend : forall x, In x L -> pending x = true -> g_t x <> t).
        { intros x Hx Hp E. specialize (Gfwd x Hx Hp). rewrite E, Et in Gfwd. discriminate. }
        split; [|split; [|split]].
        * eapply legal_map_snoc; [exact Hleg|]. unfold seq_spec. simpl.
          apply Hruns. constructor. exact Ef.
        * unfold lock_inv. simpl. rewrite all_exclusive. simpl. split; [reflexivity|].
          intros x. unfold upd. destruct (Nat.eqb x t) eqn:Ex; [exact I|].
          apply Hn. apply Nat.eqb_neq. exact Ex.
        * intros x. simpl. unfold upd. destruct (Nat.eqb x t) eqn:Ex.
          -- specialize (Hst t). rewrite Et in Hst. lia.
          -- specialize (Hst x). destruct (th c x); try exact I; lia.
        * repeat split; simpl.
          -- intros g0 Hin Hp. apply in_app_iff in Hin. destruct Hin as [Hin|[<-|[]]].
             ++ rewrite upd_other by (apply Hnopend; assumption). apply Gfwd; assumption.
             ++ simpl. rewrite upd_same. reflexivity.
          -- intros x k0 op0 r0 Hx. unfold upd in Hx. destruct (Nat.eqb x t) eqn:Ex.
             ++ apply Nat.eqb_eq in Ex. subst x. exists g. split; [apply in_app_iff; right; left; reflexivity|].
                split; reflexivity.
             ++ destruct (Gbwd _ _ _ _ Hx) as [g0 [Hi [Hp Ht]]]. exists g0.
                split; [apply in_app_iff; left; exact Hi|]. split; assumption.
          -- rewrite filter_app, map_app. simpl.
             apply NoDup_snoc; [exact Gnd|].
             intros Hin. apply in_map_iff in Hin. destruct Hin as [x [Ex Hx]].
             apply filter_In in Hx. destruct Hx as [Hx Hp]. exact (Hnopend x Hx Hp Ex).
          -- rewrite filter_app, map_app. simpl. rewrite app_nil_r. exact Gperm.
          -- apply sorted_snoc; [exact Gsort|]. intros x Hx. simpl. apply (Gtime x Hx).
          -- apply in_app_iff in H. destruct H as [H|[<-|[]]]; [apply (Gtime g0 H)|].
             simpl. specialize (Hst t). rewrite Et in Hst. exact Hst.
          -- apply in_app_iff in H. destruct H as [H|[<-|[]]]; simpl; [|lia].
             destruct (Gtime g0 H) as [_ [H2 _]]. lia.
          -- apply in_app_iff in H. destruct H as [H|[<-|[]]]; simpl; [|exact I].
             apply (Gtime g0 H).
      + (* micro-step *)
        destruct (mstep l (shared c)) as [l' s1] eqn:Em.
        inversion Hstep; subst c'; clear Hstep.
        exists L, sb. split; [exact Hleg|]. split; [|split].
        * unfold lock_inv. simpl. rewrite Hlk. split.
          -- exists k, op, l'. rewrite upd_same. split; [reflexivity|].
             intros r s' Hr. apply Hruns. eapply runs_step; eauto.
          -- intros x Hx. rewrite upd_other by assumption. apply Hn; assumption.
        * intros x. simpl. unfold upd. destruct (Nat.eqb x t) eqn:Ex.
          -- specialize (Hst t). rewrite Et in Hst. lia.
          -- specialize (Hst x). destruct (th c x); try exact I; lia.
        * repeat split; simpl.
          -- intros g Hin Hp. specialize (Gfwd g Hin Hp).
             assert (g_t g <> t) by (intros E; rewrite E in Gfwd; rewrite Et in Gfwd; discriminate).
             rewrite upd_other by assumption. exact Gfwd.
          -- intros x k0 op0 r0 Hx. unfold upd in Hx. destruct (Nat.eqb x t); [discriminate|].
             eapply Gbwd; eauto.
          -- exact Gnd.
          -- exact Gperm.
          -- exact Gsort.
          -- apply Gtime; assumption.
          -- destruct (Gtime g H) as [_ [H2 _]]. lia.
          -- destruct (Gtime g H) as [_ [_ H3]]. exact H3.
    - (* Return *)
      inversion Hstep; subst c'; clear Hstep.
      destruct (Gbwd _ _ _ _ Et) as [g [Hin [Hp Hgt]]].
      destruct (in_split _ _ Hin) as [L1 [L2 EL]]. subst L.
      pose proof (Gfwd g Hin Hp) as Hg. rewrite Hgt, Et in Hg. inversion Hg; clear Hg.
      set (g' := mkg (g_t g) (g_lin g) (g_call g) (g_op g) (g_res g) (Some (clk c))).
      assert (Hrec' : g_rec g' = mkrec k (clk c) op r).
      { unfold g_rec, g'. simpl. congruence. }
      (* no other pending entry of t *)
      rewrite filter_app in Gnd. simpl in Gnd. rewrite Hp in Gnd. rewrite map_app in Gnd. simpl in Gnd.
      assert (Hno : forall x, In x (L1 ++ L2) -> pending x = true -> g_t x <> t).
      { intros x Hx Hpx E. apply NoDup_remove_2 in Gnd. apply Gnd.
        rewrite <- map_app, <- filter_app. apply in_map_iff. exists x. split; [congruence|].
        apply filter_In. split; assumption. }
      exists (L1 ++ g' :: L2), sb. split; [|split; [|split]].
      + (* legality does not look at the return stamp *)
        clear - Hleg. revert Hleg. generalize s0.
        induction L1 as [|a L1 IH]; simpl; intros s Hl; inversion Hl; subst.
        * econstructor; eauto.
        * econstructor; eauto.
      + unfold lock_inv in *. simpl. destruct (lock c) as [|t0|n]; [| |exact Hlock].
        * destruct Hlock as [Hs Hn]. split; [exact Hs|]. intros x. unfold upd.
          destruct (Nat.eqb x t); [exact I|apply Hn].
        * destruct Hlock as [[k0 [op0 [l0 [Hr Hruns]]]] Hn]. split.
          -- exists k0, op0, l0. split; [|exact Hruns].
             assert (t0 <> t) by (intros ->; rewrite Et in Hr; discriminate).
             rewrite upd_other by assumption. exact Hr.
          -- intros x Hx. unfold upd. destruct (Nat.eqb x t); [exact I|apply Hn; exact Hx].
      + intros x. simpl. unfold upd. destruct (Nat.eqb x t) eqn:Ex; [exact I|].
        specialize (Hst x). destruct (th c x); try exact I; lia.
      + repeat split; simpl.
        * intros g0 Hi0 Hp0.
          assert (Hi1 : In g0 (L1 ++ L2)).
          { apply in_app_iff in Hi0. apply in_app_iff.
            destruct Hi0 as [?|[<-|?]]; [left; assumption|discriminate|right; assumption]. }
          rewrite upd_other by (apply Hno; assumption).
          apply Gfwd; [|exact Hp0]. apply in_app_iff in Hi1. apply in_app_iff.
          destruct Hi1; [left|right; right]; assumption.
        * intros x k0 op0 r0 Hx. unfold upd in Hx. destruct (Nat.eqb x t) eqn:Ex; [discriminate|].
          destruct (Gbwd _ _ _ _ Hx) as [g0 [Hi0 [Hp0 Ht0]]]. exists g0.
          split; [|split; assumption].
          apply in_app_iff in Hi0. apply in_app_iff.
          destruct Hi0 as [?|[E|?]]; [left; assumption| |right; right; assumption].
          subst g0. apply Nat.eqb_neq in Ex. congruence.
        * rewrite filter_app. simpl. rewrite map_app.
          apply NoDup_remove_1 in Gnd. exact Gnd.
        * rewrite filter_app in Gperm. cbn [filter] in Gperm. rewrite Hp in Gperm.
          cbn [negb] in Gperm. rewrite map_app in Gperm.
          rewrite filter_app. cbn [filter]. change (pending g') with false. cbn [negb].
          rewrite map_app. cbn [map]. change (g_rec g') with (mkrec (g_call g) (clk c) (g_op g) (g_res g)).
          rewrite <- Gperm. symmetry. apply Permutation_middle.
        * eapply sorted_replace; [|exact Gsort]. reflexivity.
        * apply in_app_iff in H. destruct H as [H|[<-|H]].
          -- apply (Gtime g0). apply in_app_iff. left; exact H.
          -- simpl. apply (Gtime g Hin).
          -- apply (Gtime g0). apply in_app_iff. right; right; exact H.
        * assert (g_lin g0 < clk c); [|lia].
          apply in_app_iff in H. destruct H as [H|[<-|H]].
          -- apply (Gtime g0). apply in_app_iff. left; exact H.
          -- simpl. apply (Gtime g Hin).
          -- apply (Gtime g0). apply in_app_iff. right; right; exact H.
        * apply in_app_iff in H. destruct H as [H|[<-|H]].
          -- apply (Gtime g0). apply in_app_iff. left; exact H.
          -- simpl. apply (Gtime g Hin).
          -- apply (Gtime g0). apply in_app_iff. right; right; exact H.
  Qed.

  Lemma Inv_reach s0 c0 c : Inv s0 c0 -> reach c0 c -> Inv s0 c.
  Proof. intros H0; induction 1; eauto using Inv_step. Qed.

  Lemma sorted_rt (L : list gent) :
    StronglySorted (fun a b => g_lin a < g_lin b) L ->
    (forall g, In g L -> g_call g < g_lin g /\ exists r, g_ret g = Some r /\ g_lin g < r) ->
    rt_ordered (map g_rec L).
  Proof.
    induction 1 as [|a l Hs IH Ha]; intros Hall; simpl; [constructor|].
    constructor.
    - apply Forall_forall. intros x Hx. apply in_map_iff in Hx. destruct Hx as [b [<- Hb]].
      rewrite Forall_forall in Ha. specialize (Ha b Hb).
      destruct (Hall a (or_introl eq_refl)) as [Hca _].
      destruct (Hall b (or_intror Hb)) as [_ [r [Er Hr]]].
      unfold rt_ok, g_rec. simpl. rewrite Er. lia.
    - apply IH. intros g Hg. apply Hall. right; exact Hg.
  Qed.

  Theorem exclusive_linearizable s0 P c :
    reach (init_cfg s0 P) c -> quiescent c ->
    exists l, linearization seq_spec s0 (done c) l (shared c).
  Proof.
    intros Hr Hq.
    destruct (Inv_reach s0 _ _ (Inv_init s0 P) Hr) as [L [sb [Hleg [Hlock [Hst Hg]]]]].
    destruct Hg as [Gfwd [Gbwd [Gnd [Gperm [Gsort Gtime]]]]].
    assert (Hnp : forall g, In g L -> pending g = false).
    { intros g Hg. destruct (pending g) eqn:Ep; [|reflexivity].
      specialize (Gfwd g Hg Ep). rewrite Hq in Gfwd. discriminate. }
    assert (Hsb : shared c = sb).
    { unfold lock_inv in Hlock. destruct (lock c) as [|t0|n].
      - apply Hlock.
      - destruct Hlock as [[k [op [l [Hr' _]]]] _]. rewrite Hq in Hr'. discriminate.
      - destruct Hlock. }
    exists (map g_rec L). split; [|split].
    - rewrite <- Gperm. apply Permutation_map.
      assert (E : filter (fun g => negb (pending g)) L = L); [|rewrite E; reflexivity].
      clear - Hnp. induction L as [|a L IH]; simpl; [reflexivity|].
      rewrite (Hnp a (or_introl eq_refl)). simpl. f_equal. apply IH. intros g Hg. apply Hnp. right; exact Hg.
    - rewrite Hsb. exact Hleg.
    - apply sorted_rt; [exact Gsort|]. intros g Hg. destruct (Gtime g Hg) as [H1 [_ H3]].
      split; [exact H1|]. specialize (Hnp g Hg). unfold pending in Hnp.
      destruct (g_ret g) as [r|]; [|discriminate]. exists r. split; [reflexivity|exact H3].
  Qed.

  (* ---------------------------------------------------------------------------------- *)
  (* histories with PENDING calls: every reachable configuration, not only quiescent ones.
     A call that has released the lock but not yet returned (Finished) has taken effect: it is
     completed with the result it computed and a return stamp "now"; calls that are still
     waiting for the lock or running their body are omitted.  The completed history is
     linearizable.  (This is linearizability of an incomplete history: some completion of the
     pending calls, and the omission of the others, yields a linearizable complete history.) *)
  Definition g_rec_at (now : N) (g : gent) : @orec Op Res :=
    mkrec (g_call g) (match g_ret g with Some r => r | None => now end) (g_op g) (g_res g).

  Lemma legal_ext (f1 f2 : gent -> @orec Op Res) :
    (forall g, o_op (f1 g) = o_op (f2 g) /\ o_res (f1 g) = o_res (f2 g)) ->
    forall L s s', legal seq_spec s (map f1 L) s' -> legal seq_spec s (map f2 L) s'.
  Proof.
    intros E L. induction L as [|g L IH]; intros s s' H; simpl in *; inversion H; subst.
    - constructor.
    - destruct (E g) as [E1 E2]. econstructor; [rewrite <- E1, <- E2; eassumption|]. apply IH. assumption.
  Qed.

  Lemma filter_partition {A} (p : A -> bool) (l : list A) :
    Permutation l (filter (fun x => negb (p x)) l ++ filter p l).
  Proof.
    induction l as [|a l IH]; simpl; [constructor|]. destruct (p a); simpl.
    - eapply Permutation_trans; [apply perm_skip; exact IH|]. apply Permutation_middle.
    - apply perm_skip. exact IH.
  Qed.

  Lemma sorted_rt_at now (L : list gent) :
    StronglySorted (fun a b => g_lin a < g_lin b) L ->
    (forall g, In g L -> g_call g < g_lin g /\ g_lin g < now /\
                         match g_ret g with Some r => g_lin g < r | None => True end) ->
    rt_ordered (map (g_rec_at now) L).
  Proof.
    induction 1 as [|a l Hs IH Ha]; intros Hall; simpl; [constructor|].
    constructor.
    - apply Forall_forall. intros x Hx. apply in_map_iff in Hx. destruct Hx as [b [<- Hb]].
      rewrite Forall_forall in Ha. specialize (Ha b Hb).
      destruct (Hall a (or_introl eq_refl)) as [Hca _].
      destruct (Hall b (or_intror Hb)) as [_ [Hn Hr]].
      unfold rt_ok, g_rec_at. simpl. destruct (g_ret b); lia.
    - apply IH. intros g Hg. apply Hall. right; exact Hg.
  Qed.

  Theorem exclusive_linearizable_pending s0 P c :
    reach (init_cfg s0 P) c ->
    exists (ts : list nat) (compl : list (@orec Op Res)) l sb,
      NoDup ts /\
      Forall2 (fun t e => th c t = Finished (o_call e) (o_op e) (o_res e) /\ o_ret e = clk c) ts compl /\
      linearization seq_spec s0 (done c ++ compl) l sb.
  Proof.
    intros Hr.
    destruct (Inv_reach s0 _ _ (Inv_init s0 P) Hr) as [L [sb [Hleg [Hlock [Hst Hg]]]]].
    destruct Hg as [Gfwd [Gbwd [Gnd [Gperm [Gsort Gtime]]]]].
    set (now := clk c).
    exists (map g_t (filter pending L)), (map (g_rec_at now) (filter pending L)),
           (map (g_rec_at now) L), sb.
    split; [exact Gnd|]. split; [|split; [|split]].
    - assert (HF : forall F : list gent, (forall g, In g F -> In g L /\ pending g = true) ->
                   Forall2 (fun t e => th c t = Finished (o_call e) (o_op e) (o_res e) /\ o_ret e = clk c)
                           (map g_t F) (map (g_rec_at now) F)).
      { induction F as [|g F IH]; intros Hin; simpl; [constructor|].
        constructor; [|apply IH; intros x Hx; apply Hin; right; exact Hx].
        destruct (Hin g (or_introl eq_refl)) as [Hi Hp]. split.
        - unfold g_rec_at. simpl. apply Gfwd; assumption.
        - unfold g_rec_at, pending in *. simpl. destruct (g_ret g); [discriminate|reflexivity]. }
      apply HF. intros g Hg. apply filter_In in Hg. exact Hg.
    - eapply Permutation_trans; [apply Permutation_map; apply (filter_partition pending L)|].
      rewrite map_app. apply Permutation_app_tail. rewrite <- Gperm.
      assert (E : forall F : list gent, (forall g, In g F -> pending g = false) ->
                  map (g_rec_at now) F = map g_rec F).
      { induction F as [|g F IH]; intros HF; simpl; [reflexivity|]. f_equal.
        - specialize (HF g (or_introl eq_refl)). unfold g_rec_at, g_rec, pending in *.
          destruct (g_ret g); [reflexivity|discriminate].
        - apply IH. intros x Hx. apply HF. right; exact Hx. }
      rewrite E; [reflexivity|]. intros g Hg. apply filter_In in Hg. destruct Hg as [_ Hg].
      apply negb_true_iff in Hg. exact Hg.
    - eapply legal_ext; [|exact Hleg]. intros g. split; reflexivity.
    - apply sorted_rt_at; [exact Gsort|]. intros g Hg. destruct (Gtime g Hg) as [H1 [H2 H3]].
      split; [exact H1|]. split; [exact H2|exact H3].
  Qed.
End LockedObject.
