(* Conc/Lin.v — linearizability of complete histories given as stamped operation records,
   and an executable checker (Wing-Gong search) proved sound and complete.

   A recorded history is a list of [orec]: the operation, its result, and two stamps taken
   from one global atomic counter: [o_call] just before the call, [o_ret] just after the
   return.  The history is linearizable w.r.t. a sequential specification when the records
   can be arranged in a sequence that (i) is a legal sequential execution and (ii) never puts
   [a] before [b] when [b] returned before [a] was called (real-time order). *)
From Coq Require Import List NArith Bool Lia Permutation.
Import ListNotations.
Local Open Scope N_scope.

Section Lin.
  Variables St Op Res : Type.

  Record orec := mkrec { o_call : N; o_ret : N; o_op : Op; o_res : Res }.

  (* sequential specification as a relation: in state s, op may return r and leave s' *)
  Variable spec : St -> Op -> Res -> St -> Prop.

  Inductive legal : St -> list orec -> St -> Prop :=
  | legal_nil s : legal s [] s
  | legal_cons s e s' l s'' : spec s (o_op e) (o_res e) s' -> legal s' l s'' -> legal s (e :: l) s''.

  (* a may be placed before b *)
  Definition rt_ok (a b : orec) : Prop := ~ (o_ret b < o_call a).
  Definition rt_ordered (l : list orec) : Prop := ForallOrdPairs rt_ok l.

  Definition linearization (s0 : St) (h l : list orec) (s' : St) : Prop :=
    Permutation l h /\ legal s0 l s' /\ rt_ordered l.
  Definition linearizable (s0 : St) (h : list orec) : Prop := exists l s', linearization s0 h l s'.

  Lemma legal_app s l1 s1 l2 s2 : legal s l1 s1 -> legal s1 l2 s2 -> legal s (l1 ++ l2) s2.
  Proof. induction 1; simpl; intros; eauto using legal. Qed.

  Lemma legal_snoc s l s1 e s2 :
    legal s l s1 -> spec s1 (o_op e) (o_res e) s2 -> legal s (l ++ [e]) s2.
  Proof. intros. eapply legal_app; eauto. econstructor; eauto. constructor. Qed.

  (* widening the intervals (earlier call stamp, later return stamp) keeps a linearization *)
  Lemma rt_ok_widen a b a' b' :
    rt_ok a b -> o_call a' <= o_call a -> o_ret b <= o_ret b' -> rt_ok a' b'.
  Proof. unfold rt_ok. lia. Qed.
End Lin.

Arguments mkrec {Op Res}.
Arguments o_call {Op Res}.
Arguments o_ret {Op Res}.
Arguments o_op {Op Res}.
Arguments o_res {Op Res}.
Arguments legal {St Op Res}.
Arguments rt_ok {Op Res}.
Arguments rt_ordered {Op Res}.
Arguments linearization {St Op Res}.
Arguments linearizable {St Op Res}.

(* legality is monotone in the specification and is transported along a simulation *)
Lemma legal_mono {St Op Res} (spec1 spec2 : St -> Op -> Res -> St -> Prop) :
  (forall s o r s', spec1 s o r s' -> spec2 s o r s') ->
  forall s l s', legal spec1 s l s' -> legal spec2 s l s'.
Proof. intros H s l s' HL. induction HL; econstructor; eauto. Qed.

Lemma legal_sim {St1 St2 Op Res} (spec1 : St1 -> Op -> Res -> St1 -> Prop)
      (spec2 : St2 -> Op -> Res -> St2 -> Prop) (R : St1 -> St2 -> Prop) :
  (forall s a o r s', R s a -> spec1 s o r s' -> exists a', spec2 a o r a' /\ R s' a') ->
  forall s l s', legal spec1 s l s' -> forall a, R s a -> exists a', legal spec2 a l a' /\ R s' a'.
Proof.
  intros H s l s' HL. induction HL; intros a Ha.
  - exists a. split; [constructor|exact Ha].
  - destruct (H _ _ _ _ _ Ha H0) as [a1 [Hs Hr]]. destruct (IHHL _ Hr) as [a2 [Hl Hr2]].
    exists a2. split; [econstructor; eauto|exact Hr2].
Qed.

Lemma linearizable_sim {St1 St2 Op Res} (spec1 : St1 -> Op -> Res -> St1 -> Prop)
      (spec2 : St2 -> Op -> Res -> St2 -> Prop) (R : St1 -> St2 -> Prop) :
  (forall s a o r s', R s a -> spec1 s o r s' -> exists a', spec2 a o r a' /\ R s' a') ->
  forall s a h l s', R s a -> linearization spec1 s h l s' ->
  exists a', linearization spec2 a h l a' /\ R s' a'.
Proof.
  intros H s a h l s' Ha [Hp [Hl Ho]]. destruct (legal_sim _ _ _ H _ _ _ Hl _ Ha) as [a' [Hl' Hr]].
  exists a'. split; [|exact Hr]. repeat split; assumption.
Qed.

(* ------------------------------------------------------------------------------------- *)
(* the checker, for a functional specification *)
Section Check.
  Variables St Op Res : Type.
  Variable step : St -> Op -> St * Res.
  Variable res_eqb : Res -> Res -> bool.
  Hypothesis res_eqb_spec : forall a b, res_eqb a b = true <-> a = b.

  Definition fspec (s : St) (op : Op) (r : Res) (s' : St) : Prop := step s op = (s', r).

  Notation orec := (@orec Op Res).

  (* all ways to pick one element out of a list *)
  Fixpoint picks {A} (l : list A) : list (A * list A) :=
    match l with
    | [] => []
    | x :: r => (x, r) :: map (fun p => (fst p, x :: snd p)) (picks r)
    end.

  Lemma picks_perm {A} (l : list A) x r : In (x, r) (picks l) -> Permutation (x :: r) l.
  Proof.
    revert x r; induction l as [|a l IH]; simpl; intros x r H; [tauto|].
    destruct H as [H|H].
    - inversion H; subst; reflexivity.
    - apply in_map_iff in H. destruct H as [[y r'] [E H]]. simpl in E. inversion E; subst.
      apply IH in H. rewrite perm_swap. constructor. exact H.
  Qed.

  Lemma picks_complete {A} (l : list A) x r :
    Permutation (x :: r) l -> exists r', In (x, r') (picks l) /\ Permutation r r'.
  Proof.
    revert x r; induction l as [|a l IH]; intros x r H.
    - apply Permutation_sym, Permutation_nil in H. discriminate.
    - assert (Hin : In x (a :: l)) by (eapply Permutation_in; [exact H|left; reflexivity]).
      destruct Hin as [->|Hin].
      + exists l. split; [left; reflexivity|]. eapply Permutation_cons_inv; exact H.
      + destruct (in_split _ _ Hin) as [l1 [l2 ->]].
        assert (Hp : Permutation (x :: l1 ++ l2) (l1 ++ x :: l2)) by apply Permutation_middle.
        destruct (IH x (l1 ++ l2) Hp) as [r' [Hi Hr]].
        exists (a :: r'). split.
        * right. apply in_map_iff. exists (x, r'). split; [reflexivity|exact Hi].
        * assert (Permutation (x :: r) (x :: a :: l1 ++ l2)).
          { rewrite H. rewrite perm_swap. constructor. symmetry. exact Hp. }
          apply Permutation_cons_inv in H0. rewrite H0. constructor. exact Hr.
  Qed.

  Definition minimal (e : orec) (rest : list orec) : bool :=
    forallb (fun e' => negb (o_ret e' <? o_call e)) rest.

  Lemma minimal_spec e rest : minimal e rest = true <-> Forall (rt_ok e) rest.
  Proof.
    unfold minimal, rt_ok. rewrite forallb_forall, Forall_forall.
    split; intros H x Hx; specialize (H x Hx).
    - apply negb_true_iff, N.ltb_ge in H. lia.
    - apply negb_true_iff, N.ltb_ge. lia.
  Qed.

  (* plain search; fuel = number of pending records *)
  Fixpoint lin_search (fuel : nat) (s : St) (pending : list orec) : bool :=
    match pending with
    | [] => true
    | _ :: _ =>
      match fuel with
      | O => false
      | S f =>
        existsb (fun p : orec * list orec =>
                   let (e, rest) := p in
                   minimal e rest &&
                   (let (s', r) := step s (o_op e) in res_eqb r (o_res e) && lin_search f s' rest))
                (picks pending)
      end
    end.

  Lemma lin_search_sound fuel : forall s pending,
    lin_search fuel s pending = true ->
    exists l s', Permutation l pending /\ legal fspec s l s' /\ rt_ordered l.
  Proof.
    induction fuel as [|f IH]; intros s pending H.
    - destruct pending; [|discriminate]. exists [], s. repeat split; constructor.
    - destruct pending as [|e0 p0].
      { exists [], s. repeat split; constructor. }
      cbn [lin_search] in H. apply existsb_exists in H. destruct H as [[e rest] [Hin H]].
      apply andb_true_iff in H. destruct H as [Hmin H].
      destruct (step s (o_op e)) as [s1 r] eqn:Es.
      apply andb_true_iff in H. destruct H as [Hr Hrec].
      apply res_eqb_spec in Hr. subst r.
      destruct (IH _ _ Hrec) as [l [s' [Hp [Hl Ho]]]].
      exists (e :: l), s'. repeat split.
      + apply picks_perm in Hin. rewrite <- Hin. constructor. exact Hp.
      + econstructor; [exact Es|exact Hl].
      + constructor; [|exact Ho].
        apply minimal_spec in Hmin. rewrite Forall_forall in Hmin. apply Forall_forall.
        intros x Hx. apply Hmin. eapply Permutation_in; [exact Hp|exact Hx].
  Qed.

  Lemma lin_search_complete : forall l s s' fuel pending,
    Permutation l pending -> legal fspec s l s' -> rt_ordered l -> (length pending <= fuel)%nat ->
    lin_search fuel s pending = true.
  Proof.
    induction l as [|e l IH]; intros s s' fuel pending Hp Hl Ho Hf.
    - apply Permutation_nil in Hp. subst. destruct fuel; reflexivity.
    - destruct pending as [|e0 p0].
      { apply Permutation_sym, Permutation_nil in Hp. discriminate. }
      destruct fuel as [|f]; [simpl in Hf; lia|].
      cbn [lin_search]. apply existsb_exists.
      destruct (picks_complete _ _ _ Hp) as [rest [Hin Hr]].
      exists (e, rest). split; [exact Hin|].
      inversion Hl; subst. inversion Ho; subst.
      apply andb_true_iff. split.
      + apply minimal_spec. apply Forall_forall. intros x Hx.
        match goal with HF : Forall (rt_ok e) l |- _ => rewrite Forall_forall in HF; apply HF end.
        eapply Permutation_in; [symmetry; exact Hr|exact Hx].
      + match goal with HS : fspec _ _ _ _ |- _ => unfold fspec in HS; rewrite HS end.
        apply andb_true_iff. split.
        * apply res_eqb_spec. reflexivity.
        * eapply IH; eauto.
          apply picks_perm in Hin. apply Permutation_length in Hin. simpl in Hin, Hf. lia.
  Qed.

  Definition lin_check (s0 : St) (h : list orec) : bool := lin_search (length h) s0 h.

  Theorem lin_check_sound s0 h : lin_check s0 h = true -> linearizable fspec s0 h.
  Proof.
    intros H. destruct (lin_search_sound _ _ _ H) as [l [s' [Hp [Hl Ho]]]].
    exists l, s'. repeat split; assumption.
  Qed.

  Theorem lin_check_complete s0 h : linearizable fspec s0 h -> lin_check s0 h = true.
  Proof.
    intros [l [s' [Hp [Hl Ho]]]]. eapply lin_search_complete; eauto.
  Qed.

  (* ---- the same search with a node budget (what the driver runs): the answer is
     [Some true] (linearizable), [Some false] (not linearizable) or [None] (budget exhausted) *)
  Fixpoint lin_b (fuel : nat) (s : St) (pending : list orec) (bud : N) : option bool * N :=
    match pending with
    | [] => (Some true, bud)
    | _ :: _ =>
      match fuel with
      | O => (Some false, bud)
      | S f =>
        (fix try (ps : list (orec * list orec)) (bud : N) : option bool * N :=
           match ps with
           | [] => (Some false, bud)
           | (e, rest) :: ps' =>
             if bud =? 0 then (None, 0) else
             let bud := N.pred bud in
             if minimal e rest then
               let (s', r) := step s (o_op e) in
               if res_eqb r (o_res e) then
                 match lin_b f s' rest bud with
                 | (Some true, b) => (Some true, b)
                 | (Some false, b) => try ps' b
                 | (None, b) => (None, b)
                 end
               else try ps' bud
             else try ps' bud
           end) (picks pending) bud
      end
    end.

  Lemma lin_b_agrees fuel : forall s pending bud b bud',
    lin_b fuel s pending bud = (Some b, bud') -> lin_search fuel s pending = b.
  Proof.
    induction fuel as [|f IH]; intros s pending bud b bud' H.
    - destruct pending; simpl in *; inversion H; reflexivity.
    - destruct pending as [|e0 p0]; [simpl in H; inversion H; reflexivity|].
      cbn [lin_b lin_search] in *.
      revert bud H. generalize (picks (e0 :: p0)) as ps.
      induction ps as [|[e rest] ps IHps]; intros bud H.
      + inversion H. reflexivity.
      + cbn [existsb]. destruct (bud =? 0); [discriminate|].
        destruct (minimal e rest); cbn [andb]; [|apply (IHps _ H)].
        destruct (step s (o_op e)) as [s1 r].
        destruct (res_eqb r (o_res e)); cbn [andb]; [|apply (IHps _ H)].
        destruct (lin_b f s1 rest (N.pred bud)) as [[[|]|] b1] eqn:E.
        * inversion H; subst. rewrite (IH _ _ _ _ _ E). reflexivity.
        * rewrite (IH _ _ _ _ _ E). cbn [orb]. apply (IHps _ H).
        * discriminate.
  Qed.

  Definition lin_check_b (bud : N) (s0 : St) (h : list orec) : option bool :=
    fst (lin_b (length h) s0 h bud).

  Theorem lin_check_b_true bud s0 h : lin_check_b bud s0 h = Some true -> linearizable fspec s0 h.
  Proof.
    unfold lin_check_b. destruct (lin_b (length h) s0 h bud) as [o b] eqn:E. simpl. intros ->.
    apply lin_check_sound. unfold lin_check. eapply lin_b_agrees; eauto.
  Qed.

  Theorem lin_check_b_false bud s0 h : lin_check_b bud s0 h = Some false -> ~ linearizable fspec s0 h.
  Proof.
    unfold lin_check_b. destruct (lin_b (length h) s0 h bud) as [o b] eqn:E. simpl. intros -> HL.
    apply lin_check_complete in HL. unfold lin_check in HL.
    rewrite (lin_b_agrees _ _ _ _ _ _ E) in HL. discriminate.
  Qed.

  (* ---- memoized search (Lowe's refinement of Wing-Gong): configurations (set of records
     still to be linearized, state) already found hopeless are not explored again.  The set is
     a bit mask over the positions of the records in the history.  [Some true] is proved sound
     ([lin_check_m_true]); a [Some false] of this variant is confirmed by the driver with the
     complete search above when it matters. *)
  Variable st_eqb : St -> St -> bool.

  Definition irec := (N * orec)%type.
  Definition mask_of (p : list irec) : N := fold_right (fun x a => N.lor (N.shiftl 1 (fst x)) a) 0 p.
  Fixpoint seen (k : N) (s : St) (vis : list (N * St)) : bool :=
    match vis with
    | [] => false
    | (k', s') :: r => ((k' =? k) && st_eqb s' s) || seen k s r
    end.
  Definition iminimal (e : irec) (rest : list irec) : bool :=
    forallb (fun e' : irec => negb (o_ret (snd e') <? o_call (snd e))) rest.

  Definition mres := (option bool * list (N * St) * N)%type.
  Fixpoint try_picks (rec : St -> list irec -> list (N * St) -> N -> mres) (s : St)
           (ps : list (irec * list irec)) (vis : list (N * St)) (bud : N) : mres :=
    match ps with
    | [] => (Some false, vis, bud)
    | (e, rest) :: ps' =>
      if bud =? 0 then (None, vis, 0) else
      let bud := N.pred bud in
      if iminimal e rest then
        let (s', r) := step s (o_op (snd e)) in
        if res_eqb r (o_res (snd e)) then
          match rec s' rest vis bud with
          | (Some true, v, b) => (Some true, v, b)
          | (Some false, v, b) => try_picks rec s ps' v b
          | (None, v, b) => (None, v, b)
          end
        else try_picks rec s ps' vis bud
      else try_picks rec s ps' vis bud
    end.

  Fixpoint lin_m (fuel : nat) (s : St) (pending : list irec) (vis : list (N * St)) (bud : N) : mres :=
    match pending with
    | [] => (Some true, vis, bud)
    | _ :: _ =>
      match fuel with
      | O => (Some false, vis, bud)
      | S f =>
        let key := mask_of pending in
        if seen key s vis then (Some false, vis, bud) else
        match try_picks (lin_m f) s (picks pending) vis bud with
        | (Some false, vis', bud') => (Some false, (key, s) :: vis', bud')
        | x => x
        end
      end
    end.

  Lemma iminimal_spec e rest : iminimal e rest = true -> Forall (rt_ok (snd e)) (map snd rest).
  Proof.
    unfold iminimal, rt_ok. rewrite forallb_forall. intros H. apply Forall_forall.
    intros x Hx. apply in_map_iff in Hx. destruct Hx as [y [<- Hy]]. specialize (H y Hy).
    apply negb_true_iff, N.ltb_ge in H. lia.
  Qed.

  Definition sound_at (s : St) (p : list irec) : Prop :=
    exists l s', Permutation l (map snd p) /\ legal fspec s l s' /\ rt_ordered l.

  Lemma try_picks_sound rec
        (Hrec : forall s p vis bud vis' bud', rec s p vis bud = (Some true, vis', bud') -> sound_at s p)
        s : forall ps vis bud vis' bud',
    try_picks rec s ps vis bud = (Some true, vis', bud') ->
    exists e rest, In (e, rest) ps /\ iminimal e rest = true /\
                   exists s1, step s (o_op (snd e)) = (s1, o_res (snd e)) /\ sound_at s1 rest.
  Proof.
    induction ps as [|[e rest] ps IHps]; intros vis bud vis' bud' H; simpl in H; [discriminate|].
    destruct (bud =? 0); [discriminate|].
    assert (Hnext : forall v b, try_picks rec s ps v b = (Some true, vis', bud') ->
              exists e0 rest0, In (e0, rest0) ((e, rest) :: ps) /\ iminimal e0 rest0 = true /\
                exists s1, step s (o_op (snd e0)) = (s1, o_res (snd e0)) /\ sound_at s1 rest0).
    { intros v b Hn. destruct (IHps _ _ _ _ Hn) as [e1 [r1 [Hi Hx]]]. exists e1, r1. split; [right; exact Hi|exact Hx]. }
    destruct (iminimal e rest) eqn:Emin; [|eapply Hnext; exact H].
    destruct (step s (o_op (snd e))) as [s1 r1] eqn:Es.
    destruct (res_eqb r1 (o_res (snd e))) eqn:Er; [|eapply Hnext; exact H].
    destruct (rec s1 rest vis (N.pred bud)) as [[[[|]|] v1] b1] eqn:Erec.
    - apply res_eqb_spec in Er. subst r1. exists e, rest. split; [left; reflexivity|]. split; [exact Emin|].
      exists s1. split; [exact Es|]. eapply Hrec; exact Erec.
    - eapply Hnext; exact H.
    - discriminate.
  Qed.

  Lemma lin_m_sound fuel : forall s pending vis bud vis' bud',
    lin_m fuel s pending vis bud = (Some true, vis', bud') -> sound_at s pending.
  Proof.
    induction fuel as [|f IH]; intros s pending vis bud vis' bud' H.
    - destruct pending; [|discriminate]. exists [], s. repeat split; constructor.
    - destruct pending as [|e0 p0].
      { exists [], s. repeat split; constructor. }
      cbn [lin_m] in H. destruct (seen (mask_of (e0 :: p0)) s vis); [discriminate|].
      destruct (try_picks (lin_m f) s (picks (e0 :: p0)) vis bud) as [[r v] b] eqn:ET.
      assert (Hr : r = Some true) by (destruct r as [[|]|]; congruence). subst r. clear H.
      destruct (try_picks_sound (lin_m f) IH s _ _ _ _ _ ET) as [e [rest [Hin [Emin [s1 [Es [l [s' [Hp [Hl Ho]]]]]]]]]].
      exists (snd e :: l), s'. repeat split.
      + apply picks_perm in Hin. rewrite <- Hin. simpl. constructor. exact Hp.
      + econstructor; [exact Es|exact Hl].
      + constructor; [|exact Ho]. apply iminimal_spec in Emin.
        rewrite Forall_forall in Emin. apply Forall_forall. intros x Hx. apply Emin.
        eapply Permutation_in; [exact Hp|exact Hx].
  Qed.

  Fixpoint index_from (i : N) (h : list orec) : list irec :=
    match h with [] => [] | e :: r => (i, e) :: index_from (N.succ i) r end.
  Lemma index_from_snd h : forall i, map snd (index_from i h) = h.
  Proof. induction h; intros; simpl; [reflexivity|]. f_equal. apply IHh. Qed.

  Definition lin_check_m (bud : N) (s0 : St) (h : list orec) : option bool :=
    fst (fst (lin_m (length h) s0 (index_from 0 h) [] bud)).

  Theorem lin_check_m_true bud s0 h : lin_check_m bud s0 h = Some true -> linearizable fspec s0 h.
  Proof.
    unfold lin_check_m. destruct (lin_m (length h) s0 (index_from 0 h) [] bud) as [[o v] b] eqn:E.
    simpl. intros ->. destruct (lin_m_sound _ _ _ _ _ _ _ E) as [l [s' [Hp [Hl Ho]]]].
    rewrite index_from_snd in Hp. exists l, s'. repeat split; assumption.
  Qed.
End Check.
