(* Conc/Composite.v — composite operations.  A method that takes no lock itself but only calls
   locked methods (PriorityQueue.PopWithTimer: a loop of Pop calls) appears in a history as ONE
   record spanning its sub-calls.  If the history with the sub-call records is linearizable, all
   sub-calls but the last leave the state unchanged (failed Pops), and the composite returns what
   its last sub-call returned, then the history with the single composite record is linearizable:
   the composite takes effect at the linearization point of its last sub-call. *)
From Coq Require Import List NArith Bool Lia Permutation.
From Conc Require Import Lin.
Import ListNotations.
Local Open Scope N_scope.

Section Composite.
  Variables St Op Res : Type.
  Variable spec : St -> Op -> Res -> St -> Prop.
  Notation orec := (@orec Op Res).

  Definition noop (e : orec) : Prop := forall s1 s2, spec s1 (o_op e) (o_res e) s2 -> s2 = s1.

  Lemma legal_split s l1 : forall l2 s', legal spec s (l1 ++ l2) s' ->
    exists sm, legal spec s l1 sm /\ legal spec sm l2 s'.
  Proof.
    revert s. induction l1 as [|a l1 IH]; intros s l2 s' H; simpl in *.
    - exists s. split; [constructor|exact H].
    - inversion H; subst. destruct (IH _ _ _ H5) as [sm [A B]].
      exists sm. split; [econstructor; eauto|exact B].
  Qed.

  Lemma legal_remove_noop s l1 e l2 s' :
    legal spec s (l1 ++ e :: l2) s' -> noop e -> legal spec s (l1 ++ l2) s'.
  Proof.
    intros H Hn. destruct (legal_split _ _ _ _ H) as [sm [A B]]. inversion B; subst.
    rewrite (Hn _ _ H3) in H5. eapply legal_app; eauto.
  Qed.

  Lemma legal_replace s l1 e e' l2 s' :
    legal spec s (l1 ++ e :: l2) s' ->
    (forall s1 s2, spec s1 (o_op e) (o_res e) s2 -> spec s1 (o_op e') (o_res e') s2) ->
    legal spec s (l1 ++ e' :: l2) s'.
  Proof.
    intros H Hr. destruct (legal_split _ _ _ _ H) as [sm [A B]]. inversion B; subst.
    eapply legal_app; [exact A|]. econstructor; [apply Hr; exact H3|exact H5].
  Qed.

  Lemma fop_app_inv {T} (R : T -> T -> Prop) l1 l2 :
    ForallOrdPairs R (l1 ++ l2) <->
    ForallOrdPairs R l1 /\ ForallOrdPairs R l2 /\ (forall a b, In a l1 -> In b l2 -> R a b).
  Proof.
    induction l1 as [|x l1 IH]; simpl.
    - split; [intros H; repeat split; [constructor|exact H|intros a b []]|intros [_ [H _]]; exact H].
    - split.
      + intros H. inversion H; subst. apply IH in H3. destruct H3 as [A [B C]].
        rewrite Forall_app in H2. destruct H2 as [H2a H2b]. repeat split.
        * constructor; assumption.
        * exact B.
        * intros a b [<-|Ha] Hb; [rewrite Forall_forall in H2b; apply H2b; exact Hb|apply C; assumption].
      + intros [A [B C]]. inversion A; subst. constructor.
        * apply Forall_app. split; [assumption|]. apply Forall_forall. intros b Hb. apply C; [left; reflexivity|exact Hb].
        * apply IH. repeat split; try assumption. intros a b Ha Hb. apply C; [right; exact Ha|exact Hb].
  Qed.

  Lemma rt_remove (l1 : list orec) e l2 : rt_ordered (l1 ++ e :: l2) -> rt_ordered (l1 ++ l2).
  Proof.
    unfold rt_ordered. rewrite !fop_app_inv. intros [A [B C]]. inversion B; subst.
    repeat split; try assumption. intros a b Ha Hb. apply C; [exact Ha|right; exact Hb].
  Qed.

  Lemma rt_replace (l1 : list orec) e e' l2 :
    rt_ordered (l1 ++ e :: l2) -> o_call e' <= o_call e -> o_ret e <= o_ret e' ->
    rt_ordered (l1 ++ e' :: l2).
  Proof.
    unfold rt_ordered. rewrite !fop_app_inv. intros [A [B C]] Hc Hr. inversion B; subst.
    repeat split; try assumption.
    - constructor; [|assumption]. rewrite Forall_forall in *. intros b Hb.
      specialize (H1 b Hb). unfold rt_ok in *. lia.
    - intros a b Ha [<-|Hb].
      + specialize (C a e Ha (or_introl eq_refl)). unfold rt_ok in *. lia.
      + apply C; [exact Ha|right; exact Hb].
  Qed.

  (* dropping no-op records *)
  Lemma linearization_drop_noops s0 subs : forall h l s',
    linearization spec s0 (h ++ subs) l s' -> Forall noop subs ->
    exists l', linearization spec s0 h l' s'.
  Proof.
    induction subs as [|e subs IH]; intros h l s' [Hp [Hl Ho]] Hn.
    - rewrite app_nil_r in Hp. exists l. repeat split; assumption.
    - inversion Hn; subst.
      assert (Hin : In e l).
      { eapply Permutation_in; [symmetry; exact Hp|]. apply in_or_app. right. left. reflexivity. }
      destruct (in_split _ _ Hin) as [l1 [l2 ->]].
      apply (IH h (l1 ++ l2) s'); [|assumption]. repeat split.
      + apply Permutation_app_inv with (a := e) (l1 := l1) (l2 := l2) (l3 := h) (l4 := subs). exact Hp.
      + eapply legal_remove_noop; eauto.
      + eapply rt_remove; eauto.
  Qed.

  Theorem composite_linearizable s0 h subs last c :
    linearizable spec s0 (h ++ last :: subs) ->
    Forall noop subs ->
    (forall s1 s2, spec s1 (o_op last) (o_res last) s2 -> spec s1 (o_op c) (o_res c) s2) ->
    o_call c <= o_call last -> o_ret last <= o_ret c ->
    linearizable spec s0 (h ++ [c]).
  Proof.
    intros [l [s' HL]] Hn Hsame Hc Hr.
    assert (HL1 : linearization spec s0 ((h ++ [last]) ++ subs) l s').
    { rewrite <- app_assoc. exact HL. }
    destruct (linearization_drop_noops _ _ _ _ _ HL1 Hn) as [l' [Hp [Hl Ho]]].
    assert (Hin : In last l').
    { eapply Permutation_in; [symmetry; exact Hp|]. apply in_or_app. right. left. reflexivity. }
    destruct (in_split _ _ Hin) as [l1 [l2 ->]].
    exists (l1 ++ c :: l2), s'. repeat split.
    - assert (P : Permutation (l1 ++ l2) h).
      { rewrite <- (app_nil_r h) at 1.
        apply Permutation_app_inv with (a := last) (l1 := l1) (l2 := l2) (l3 := h) (l4 := []).
        rewrite Hp. reflexivity. }
      rewrite <- Permutation_middle. rewrite P. apply Permutation_cons_append.
    - eapply legal_replace; eauto.
    - eapply rt_replace; eauto.
  Qed.
End Composite.
