From Coq Require Import Extraction ExtrOcamlBasic.
From Common Require Import Bytes Drv Blake2b Outcome.
From Trie Require Import Nibbles Node Encode Model Spec.
From C10 Require Import Model.
Extraction "model.ml" drv_b2n drv_n2b drv_z_of_n drv_n_of_z drv_nat_of_n drv_n_of_nat
  host_root host_ordered_root spec_host_root spec_host_ordered_root parse_version dec_entries dec_values guard_entries_overrun guard_values_overrun
  blake2b_256 dec_len dec_len_go dec_entries_go dec_values_go.
