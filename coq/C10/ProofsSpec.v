(* C10/ProofsSpec.v — audit round (aud-rpc-host): what the specification side of C10 denotes.
   bm_of_list es is the finite map "later duplicates win", sorted by key; index_entries 0 vs keys the
   i-th value by the compact encoding of i, all keys distinct. *)
From Common Require Import Bytes.
From Trie Require Import Nibbles Node Encode Model Spec NibblesProofs Sem InsertProofs DeleteProofs BuildProofs
     MapProofs QueryProofs SpecProofs.
From C10 Require Import ScaleCompact ScaleCompactProofs.
From C10 Require Import Model Proofs.
From Coq Require Import Lia ZifyN ZifyNat.
Local Open Scope N_scope.

(* the value the entry list gives to k: the last one *)
Definition last_value (es : list (list byte * value)) (k : list byte) : option value :=
  fold_left (fun acc e => if bytes_eqb (fst e) k then Some (snd e) else acc) es None.

Lemma bytes_eqb_refl' a : bytes_eqb a a = true.
Proof. destruct (bytes_eqb_spec a a); congruence. Qed.

Lemma bm_get_put m k v k' :
  bm_get (bm_put m k v) k' = if bytes_eqb k k' then Some v else bm_get m k'.
Proof.
  induction m as [|[k0 v0] m IH]; [reflexivity|]. cbn [bm_put].
  destruct (bytes_compare k k0) eqn:C.
  - apply bytes_compare_eq in C. subst k0. cbn [bm_get].
    destruct (bytes_eqb k k'); reflexivity.
  - cbn [bm_get]. reflexivity.
  - cbn [bm_get]. rewrite IH.
    destruct (bytes_eqb_spec k0 k') as [->|N0]; [|reflexivity].
    destruct (bytes_eqb_spec k k') as [->|N1]; [|reflexivity].
    exfalso. assert (E : bytes_compare k' k' = Eq) by (now apply bytes_compare_eq). congruence.
Qed.

Theorem bm_of_list_get es k : bm_get (bm_of_list es) k = last_value es k.
Proof.
  unfold bm_of_list, last_value.
  assert (G : forall m acc, bm_get m k = acc ->
            bm_get (fold_left (fun m e => bm_put m (fst e) (snd e)) es m) k =
            fold_left (fun acc e => if bytes_eqb (fst e) k then Some (snd e) else acc) es acc).
  { induction es as [|e es IH]; intros m acc E; [exact E|]. cbn [fold_left]. apply IH.
    rewrite bm_get_put, E. reflexivity. }
  now apply G.
Qed.

Lemma Rep_of_list es : Rep (fold_left (fun t e => trie_put t (fst e) (snd e)) es None) (bm_of_list es).
Proof.
  unfold bm_of_list.
  assert (G : forall t m, Rep t m ->
            Rep (fold_left (fun t e => trie_put t (fst e) (snd e)) es t)
                (fold_left (fun m e => bm_put m (fst e) (snd e)) es m)).
  { induction es as [|e es IH]; intros t m R; simpl; auto. apply IH. now apply Rep_put. }
  apply G, Rep_empty.
Qed.

Theorem bm_of_list_sorted es : bm_sorted (bm_of_list es) = true.
Proof. exact (Rep_sorted_bmap _ _ (Rep_of_list es)). Qed.

(* ---- the keys of the ordered root ---- *)
Lemma index_entries_length s vs : length (index_entries s vs) = length vs.
Proof. revert s; induction vs as [|v vs IH]; intros s; simpl; auto. Qed.

Lemma index_entries_nth vs : forall s i v, nth_error vs i = Some v ->
  nth_error (index_entries s vs) i = Some (compact_encode (s + N.of_nat i), v).
Proof.
  induction vs as [|v0 vs IH]; intros s i v E; [destruct i; discriminate|].
  destruct i as [|i]; simpl in *.
  - injection E as <-. now rewrite N.add_0_r.
  - rewrite (IH (s + 1) i v E). do 3 f_equal. lia.
Qed.

Lemma compact_encode_inj a b : a < 2 ^ 536 -> b < 2 ^ 536 -> compact_encode a = compact_encode b -> a = b.
Proof.
  intros A B E. destruct (compact_encode_prefix_free a b [] [] A B) as [-> _]; [|reflexivity].
  now rewrite !app_nil_r.
Qed.

Theorem index_entries_keys_distinct vs i j ki vi kj vj :
  N.of_nat (length vs) < 2 ^ 536 ->
  nth_error (index_entries 0 vs) i = Some (ki, vi) -> nth_error (index_entries 0 vs) j = Some (kj, vj) ->
  i <> j -> ki <> kj.
Proof.
  intros S Ei Ej NE.
  assert (Li : (i < length vs)%nat).
  { rewrite <- (index_entries_length 0 vs). apply nth_error_Some. congruence. }
  assert (Lj : (j < length vs)%nat).
  { rewrite <- (index_entries_length 0 vs). apply nth_error_Some. congruence. }
  destruct (nth_error vs i) as [v1|] eqn:N1; [|apply nth_error_None in N1; lia].
  destruct (nth_error vs j) as [v2|] eqn:N2; [|apply nth_error_None in N2; lia].
  rewrite (index_entries_nth vs 0 i v1 N1) in Ei. rewrite (index_entries_nth vs 0 j v2 N2) in Ej.
  injection Ei as <- _. injection Ej as <- _. intro E.
  apply compact_encode_inj in E; lia.
Qed.
