(* C10/ScaleCompact.v — verbatim copy of coq/Scale/Compact.v (owner: agent scale), kept here so that
   the C10 check does not depend on the build time of the whole Scale library. *)
(* Scale/Compact.v — SCALE compact integers, written from the specification (definitions only).
   Stable names for other libraries:
     compact_encode : N -> list byte                      canonical encoding (defined for n < 2^536)
     compact_decode : list byte -> option (N * list byte)  spec decoder: accepts canonical encodings
                                                          only, returns the value and the rest
     compact_ok n   : bool                                n < 2^536 (the encodable range)
   Lemmas (round trip, canonicity, length) are in Scale/CompactProofs.v.

   Specification (Polkadot spec, "compact / general integers"):
     0      <= n < 2^6    one byte   4n            (mode 0b00)
     2^6    <= n < 2^14   two bytes  LE(4n+1)      (mode 0b01)
     2^14   <= n < 2^30   four bytes LE(4n+2)      (mode 0b10)
     2^30   <= n < 2^536  byte 4(k-4)+3 followed by the k-byte LE form of n, k minimal (mode 0b11) *)
From Common Require Import Bytes.
Local Open Scope N_scope.

(* minimal number of bytes of n (0 for n = 0) *)
Definition byte_len (n : N) : N := (N.size n + 7) / 8.

Definition compact_ok (n : N) : bool := n <? 2 ^ 536.

Definition compact_encode (n : N) : list byte :=
  if n <? 64 then [n2b (4 * n)]
  else if n <? 16384 then le_bytes 2 (4 * n + 1)
  else if n <? 1073741824 then le_bytes 4 (4 * n + 2)
  else let k := byte_len n in n2b (4 * (k - 4) + 3) :: le_bytes (N.to_nat k) n.

(* split off exactly k bytes *)
Definition take (k : nat) (l : list byte) : option (list byte * list byte) :=
  if (length l <? k)%nat then None else Some (firstn k l, skipn k l).

Definition compact_decode (bs : list byte) : option (N * list byte) :=
  match bs with
  | [] => None
  | b0 :: r =>
    let p := b2n b0 in
    let m := p mod 4 in
    if m =? 0 then Some (p / 4, r)
    else if m =? 1 then
      match take 1 r with
      | Some (x, r') => let v := (p + 256 * le_val x) / 4 in
                        if 64 <=? v then Some (v, r') else None
      | None => None
      end
    else if m =? 2 then
      match take 3 r with
      | Some (x, r') => let v := (p + 256 * le_val x) / 4 in
                        if 16384 <=? v then Some (v, r') else None
      | None => None
      end
    else
      let k := p / 4 + 4 in
      match take (N.to_nat k) r with
      | Some (x, r') => let v := le_val x in
                        (* minimal length (top byte non-zero) and not representable in a shorter mode *)
                        if (byte_len v =? k) && (1073741824 <=? v) then Some (v, r') else None
      | None => None
      end
  end.

(* number of bytes compact_encode produces *)
Definition compact_len (n : N) : N :=
  if n <? 64 then 1 else if n <? 16384 then 2 else if n <? 1073741824 then 4 else 1 + byte_len n.
