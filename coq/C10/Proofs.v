(* C10/Proofs.v — the host trie-root functions return the spec root of the map their input denotes. *)
From Common Require Import Bytes.
From Trie Require Import Nibbles Node Encode Model Spec NibblesProofs Sem InsertProofs DeleteProofs BuildProofs MapProofs.
From Scale Require Import Compact CompactProofs.
From C10 Require Import Model.
From Coq Require Import Lia ZifyN ZifyNat.
Local Open Scope N_scope.

Lemma layout_root_spec H ver es : layout_root H ver es = spec_root_bytes H ver (bm_of_list es).
Proof.
  unfold layout_root, bm_of_list. apply Rep_root.
  assert (G : forall t m, Rep t m ->
            Rep (fold_left (fun t e => trie_put t (fst e) (snd e)) es t)
                (fold_left (fun m e => bm_put m (fst e) (snd e)) es m)).
  { induction es as [|e es IH]; intros t m R; simpl; auto. apply IH. now apply Rep_put. }
  apply G, Rep_empty.
Qed.

Theorem host_root_spec H version data : host_root H version data = spec_host_root H version data.
Proof.
  unfold host_root, spec_host_root. destruct (parse_version version); auto.
  destruct (dec_entries data); auto. now rewrite layout_root_spec.
Qed.
Theorem host_ordered_root_spec H version data :
  host_ordered_root H version data = spec_host_ordered_root H version data.
Proof.
  unfold host_ordered_root, spec_host_ordered_root. destruct (parse_version version); auto.
  destruct (dec_values data); auto. now rewrite layout_root_spec.
Qed.

Lemma parse_version_spec v : v < 256 ->
  parse_version v = if v =? 0 then Some V0 else if v =? 1 then Some V1 else None.
Proof. intros L. unfold parse_version. now rewrite N.mod_small by exact L. Qed.

Lemma unknown_version_fails H v data : 2 <= v -> v < 256 ->
  host_root H v data = None /\ host_ordered_root H v data = None.
Proof.
  intros L1 L2. unfold host_root, host_ordered_root. rewrite (parse_version_spec v L2).
  destruct (N.eqb_spec v 0); [lia|]. destruct (N.eqb_spec v 1); [lia|]. auto.
Qed.
Lemma undecodable_fails H v data :
  (dec_entries data = None -> host_root H v data = None) /\
  (dec_values data = None -> host_ordered_root H v data = None).
Proof.
  unfold host_root, host_ordered_root. split; intros ->; destruct (parse_version v); reflexivity.
Qed.

(* ---- the decoder accepts exactly the SCALE encodings: round trip ---- *)
Definition enc_bytes (b : list byte) : list byte := compact_encode (N.of_nat (length b)) ++ b.
Definition enc_entries (es : list (list byte * value)) : list byte :=
  compact_encode (N.of_nat (length es)) ++ flat_map (fun e => enc_bytes (fst e) ++ enc_bytes (snd e)) es.
Definition enc_values (vs : list value) : list byte :=
  compact_encode (N.of_nat (length vs)) ++ flat_map enc_bytes vs.
Definition small {A} (l : list A) : Prop := N.of_nat (length l) < 2 ^ 536.

Lemma dec_enc_bytes b r : small b -> dec_bytes (enc_bytes b ++ r) = Some (b, r).
Proof.
  intros S. unfold dec_bytes, enc_bytes. rewrite <- app_assoc, compact_decode_encode by exact S.
  rewrite app_length.
  replace (N.of_nat (length b + length r) <? N.of_nat (length b)) with false by (symmetry; apply N.ltb_ge; lia).
  rewrite Nat2N.id. apply take_app.
Qed.

Lemma compact_encode_length_ge n : n < 2 ^ 536 -> (1 <= length (compact_encode n))%nat.
Proof.
  intros L. pose proof (compact_encode_nonempty n). destruct (compact_encode n); [congruence|simpl; lia].
Qed.

Lemma dec_pairs_enc es r :
  Forall (fun e => small (fst e) /\ small (snd e)) es ->
  dec_pairs (length es) (flat_map (fun e => enc_bytes (fst e) ++ enc_bytes (snd e)) es ++ r) = Some es.
Proof.
  induction 1 as [|[k v] es [Sk Sv] F IH]; simpl; auto.
  cbn [fst snd] in *. rewrite <- !app_assoc. rewrite dec_enc_bytes by exact Sk.
  rewrite dec_enc_bytes by exact Sv. now rewrite IH.
Qed.
Lemma flat_pairs_length es :
  Forall (fun e : list byte * value => small (fst e) /\ small (snd e)) es ->
  (2 * length es <= length (flat_map (fun e => enc_bytes (fst e) ++ enc_bytes (snd e)) es))%nat.
Proof.
  induction 1 as [|[k v] es [Sk Sv] F IH]; simpl; [lia|].
  rewrite !app_length. unfold enc_bytes at 1 2. rewrite !app_length. cbn [fst snd] in *.
  pose proof (compact_encode_length_ge _ Sk). pose proof (compact_encode_length_ge _ Sv). lia.
Qed.

Theorem dec_enc_entries es r :
  small es -> Forall (fun e => small (fst e) /\ small (snd e)) es ->
  dec_entries (enc_entries es ++ r) = Some es.
Proof.
  intros S F. unfold dec_entries, enc_entries. rewrite <- app_assoc, compact_decode_encode by exact S.
  pose proof (flat_pairs_length es F) as L. rewrite app_length.
  match goal with |- context [N.ltb ?a ?b] => replace (N.ltb a b) with false by (symmetry; apply N.ltb_ge; lia) end.
  rewrite Nat2N.id. now apply dec_pairs_enc.
Qed.

Lemma dec_vals_enc vs r : Forall small vs -> dec_vals (length vs) (flat_map enc_bytes vs ++ r) = Some vs.
Proof.
  induction 1 as [|v vs Sv F IH]; simpl; auto.
  rewrite <- app_assoc, dec_enc_bytes by exact Sv. now rewrite IH.
Qed.
Lemma flat_vals_length (vs : list value) : Forall small vs -> (length vs <= length (flat_map enc_bytes vs))%nat.
Proof.
  induction 1 as [|v vs Sv F IH]; simpl; [lia|]. rewrite app_length. unfold enc_bytes at 1.
  rewrite app_length. pose proof (compact_encode_length_ge _ Sv). lia.
Qed.
Theorem dec_enc_values vs r : small vs -> Forall small vs -> dec_values (enc_values vs ++ r) = Some vs.
Proof.
  intros S F. unfold dec_values, enc_values. rewrite <- app_assoc, compact_decode_encode by exact S.
  pose proof (flat_vals_length vs F) as L. rewrite app_length.
  match goal with |- context [N.ltb ?a ?b] => replace (N.ltb a b) with false by (symmetry; apply N.ltb_ge; lia) end.
  rewrite Nat2N.id. now apply dec_vals_enc.
Qed.
