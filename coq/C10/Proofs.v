(* C10/Proofs.v — the host trie-root functions return the spec root of the map their input denotes. *)
From Common Require Import Bytes.
From Trie Require Import Nibbles Node Encode Model Spec NibblesProofs Sem InsertProofs DeleteProofs BuildProofs MapProofs.
From C10 Require Import ScaleCompact ScaleCompactProofs.
From C10 Require Import Model.
From Coq Require Import Lia ZifyN ZifyNat.
Local Open Scope N_scope.

Lemma layout_root_spec H ver es : layout_root H ver es = spec_root_bytes H ver (bm_of_list es).
Proof.
  unfold layout_root, bm_of_list. apply Rep_root.
  assert (G : forall t m, Rep t m ->
            Rep (fold_left (fun t e => trie_put t (fst e) (snd e)) es t)
                (fold_left (fun m e => bm_put m (fst e) (snd e)) es m)).
  { induction es as [|e es IH]; intros t m R; simpl; auto. apply IH. now apply Rep_put. }
  apply G, Rep_empty.
Qed.

(* the Go decoder agrees with the specification decoder wherever the latter succeeds *)
Lemma pad_zero_0 b : pad_zero b 0 = b.
Proof. unfold pad_zero. simpl. apply app_nil_r. Qed.

Lemma byte_len_u32 v : v < two32 -> byte_len v <= 4.
Proof.
  intro L. change 4 with (byte_len 4294967295). apply byte_len_mono. unfold two32 in L. lia.
Qed.

(* a canonical length below 2^32 passes decodeUint's restriction of the big-integer mode to 4 or 8
   payload bytes: its payload has exactly 4 *)
Lemma dec_len_go_agrees d n r : dec_len d = Some (n, r) -> dec_len_go d = Some (n, r) /\ n < two32.
Proof.
  unfold dec_len. destruct (compact_decode d) as [[n0 r0]|] eqn:D; [|discriminate].
  destruct (N.ltb_spec n0 two32) as [L|L]; [|discriminate].
  intro E; injection E as <- <-. split; [|exact L].
  unfold dec_len_go. destruct d as [|b0 t]; [discriminate|].
  destruct (N.eqb_spec (b2n b0 mod 4) 3) as [M3|M3]; [|exact D].
  cbn [andb].
  assert (K : b2n b0 / 4 = 0).
  { unfold compact_decode in D. rewrite M3 in D. cbn [N.eqb Pos.eqb] in D.
    destruct (take (N.to_nat (b2n b0 / 4 + 4)) t) as [[x r']|]; [|discriminate].
    destruct (N.eqb_spec (byte_len (le_val x)) (b2n b0 / 4 + 4)) as [B|B]; [|discriminate].
    cbn [andb] in D. destruct (1073741824 <=? le_val x); [|discriminate].
    injection D as Dn _. rewrite Dn in B. pose proof (byte_len_u32 n0 L). lia. }
  rewrite K. exact D.
Qed.

Lemma dec_bytes_go_agrees d x r : dec_bytes d = Some (x, r) -> dec_bytes_go d = Some (x, 0, r).
Proof.
  unfold dec_bytes, dec_bytes_go. destruct (dec_len d) as [[n r0]|] eqn:DL; [|discriminate].
  destruct (dec_len_go_agrees _ _ _ DL) as [-> L32].
  replace (two32 <=? n) with false by (symmetry; apply N.leb_gt; exact L32).
  destruct (N.ltb_spec (N.of_nat (length r0)) n) as [L|L]; [discriminate|].
  destruct (N.eqb_spec n 0) as [->|Z].
  - unfold take. simpl. intros E; inversion E; subst. reflexivity.
  - destruct r0 as [|b r0]; [simpl in L; lia|]. intros ->. reflexivity.
Qed.
Lemma dec_pairs_go_agrees n : forall d es, dec_pairs n d = Some es -> dec_pairs_go n d = Some es.
Proof.
  induction n as [|n IH]; intros d es; simpl; auto.
  destruct (dec_bytes d) as [[k r]|] eqn:E1; [|discriminate]. rewrite (dec_bytes_go_agrees _ _ _ E1).
  destruct (dec_bytes r) as [[v r']|] eqn:E2; [|discriminate]. rewrite (dec_bytes_go_agrees _ _ _ E2).
  destruct (dec_pairs n r') as [l|] eqn:E3; [|discriminate]. rewrite (IH _ _ E3).
  now rewrite !pad_zero_0.
Qed.
Lemma dec_entries_go_agrees d es : dec_entries d = Some es -> dec_entries_go d = Some es.
Proof.
  unfold dec_entries, dec_entries_go. destruct (dec_len d) as [[n r]|] eqn:DL; [|discriminate].
  destruct (dec_len_go_agrees _ _ _ DL) as [-> _].
  destruct (N.of_nat (length r) <? 2 * n); [discriminate|]. apply dec_pairs_go_agrees.
Qed.
Lemma dec_vals_go_agrees n : forall d vs, dec_vals n d = Some vs -> dec_vals_go n d = Some vs.
Proof.
  induction n as [|n IH]; intros d vs; simpl; auto.
  destruct (dec_bytes d) as [[v r]|] eqn:E1; [|discriminate]. rewrite (dec_bytes_go_agrees _ _ _ E1).
  destruct (dec_vals n r) as [l|] eqn:E3; [|discriminate]. rewrite (IH _ _ E3). now rewrite pad_zero_0.
Qed.
Lemma dec_values_go_agrees d vs : dec_values d = Some vs -> dec_values_go d = Some vs.
Proof.
  unfold dec_values, dec_values_go. destruct (dec_len d) as [[n r]|] eqn:DL; [|discriminate].
  destruct (dec_len_go_agrees _ _ _ DL) as [-> _].
  destruct (N.of_nat (length r) <? n); [discriminate|]. apply dec_vals_go_agrees.
Qed.

Theorem host_root_spec H version data : guard_entries_overrun data = false ->
  host_root H version data = spec_host_root H version data.
Proof.
  unfold host_root, spec_host_root, guard_entries_overrun. intros G. destruct (parse_version version); auto.
  destruct (dec_entries data) as [es|] eqn:E.
  - rewrite (dec_entries_go_agrees _ _ E). now rewrite layout_root_spec.
  - destruct (dec_entries_go data); [discriminate|reflexivity].
Qed.
Theorem host_ordered_root_spec H version data : guard_values_overrun data = false ->
  host_ordered_root H version data = spec_host_ordered_root H version data.
Proof.
  unfold host_ordered_root, spec_host_ordered_root, guard_values_overrun. intros G. destruct (parse_version version); auto.
  destruct (dec_values data) as [vs|] eqn:E.
  - rewrite (dec_values_go_agrees _ _ E). now rewrite layout_root_spec.
  - destruct (dec_values_go data); [discriminate|reflexivity].
Qed.

(* inside the guard: a truncated final value is zero-filled and a root is returned *)
Definition w_overrun : list byte := map n2b [4; 4; 1; 8; 2].
Lemma overrun_refuted H : host_root H 0 w_overrun <> spec_host_root H 0 w_overrun.
Proof. vm_compute. discriminate. Qed.
Definition w_overrun_ordered : list byte := map n2b [4; 8; 2].
Lemma overrun_ordered_refuted H : host_ordered_root H 0 w_overrun_ordered <> spec_host_ordered_root H 0 w_overrun_ordered.
Proof. vm_compute. discriminate. Qed.

Lemma parse_version_spec v : v < 256 ->
  parse_version v = if v =? 0 then Some V0 else if v =? 1 then Some V1 else None.
Proof. intros L. unfold parse_version. now rewrite N.mod_small by exact L. Qed.

Lemma unknown_version_fails H v data : 2 <= v -> v < 256 ->
  host_root H v data = None /\ host_ordered_root H v data = None.
Proof.
  intros L1 L2. unfold host_root, host_ordered_root. rewrite (parse_version_spec v L2).
  destruct (N.eqb_spec v 0); [lia|]. destruct (N.eqb_spec v 1); [lia|]. auto.
Qed.
Lemma undecodable_fails H v data :
  (dec_entries_go data = None -> host_root H v data = None) /\
  (dec_values_go data = None -> host_ordered_root H v data = None) /\
  (guard_entries_overrun data = false -> dec_entries data = None -> host_root H v data = None) /\
  (guard_values_overrun data = false -> dec_values data = None -> host_ordered_root H v data = None).
Proof.
  unfold host_root, host_ordered_root, guard_entries_overrun, guard_values_overrun. repeat split.
  - intros ->. destruct (parse_version v); reflexivity.
  - intros ->. destruct (parse_version v); reflexivity.
  - intros G E. rewrite E in G. destruct (dec_entries_go data); [discriminate|]. destruct (parse_version v); reflexivity.
  - intros G E. rewrite E in G. destruct (dec_values_go data); [discriminate|]. destruct (parse_version v); reflexivity.
Qed.

(* ---- the decoder accepts exactly the SCALE encodings: round trip ---- *)
Definition enc_bytes (b : list byte) : list byte := compact_encode (N.of_nat (length b)) ++ b.
Definition enc_entries (es : list (list byte * value)) : list byte :=
  compact_encode (N.of_nat (length es)) ++ flat_map (fun e => enc_bytes (fst e) ++ enc_bytes (snd e)) es.
Definition enc_values (vs : list value) : list byte :=
  compact_encode (N.of_nat (length vs)) ++ flat_map enc_bytes vs.
Definition small {A} (l : list A) : Prop := N.of_nat (length l) < two32.
Lemma small_536 n : n < two32 -> n < 2 ^ 536.
Proof. intro L. apply N.lt_trans with two32; [exact L|reflexivity]. Qed.
Lemma dec_len_encode n r : n < two32 -> dec_len (compact_encode n ++ r) = Some (n, r).
Proof.
  intro L. unfold dec_len. rewrite compact_decode_encode by (now apply small_536).
  now rewrite (proj2 (N.ltb_lt _ _) L).
Qed.

Lemma dec_enc_bytes b r : small b -> dec_bytes (enc_bytes b ++ r) = Some (b, r).
Proof.
  intros S. unfold dec_bytes, enc_bytes. rewrite <- app_assoc, dec_len_encode by exact S.
  rewrite app_length.
  replace (N.of_nat (length b + length r) <? N.of_nat (length b)) with false by (symmetry; apply N.ltb_ge; lia).
  rewrite Nat2N.id. apply take_app.
Qed.

Lemma compact_encode_length_ge n : n < two32 -> (1 <= length (compact_encode n))%nat.
Proof.
  intros L. pose proof (compact_encode_nonempty n). destruct (compact_encode n); [congruence|simpl; lia].
Qed.

Lemma dec_pairs_enc es r :
  Forall (fun e => small (fst e) /\ small (snd e)) es ->
  dec_pairs (length es) (flat_map (fun e => enc_bytes (fst e) ++ enc_bytes (snd e)) es ++ r) = Some es.
Proof.
  induction 1 as [|[k v] es [Sk Sv] F IH]; simpl; auto.
  cbn [fst snd] in *. rewrite <- !app_assoc. rewrite dec_enc_bytes by exact Sk.
  rewrite dec_enc_bytes by exact Sv. now rewrite IH.
Qed.
Lemma flat_pairs_length es :
  Forall (fun e : list byte * value => small (fst e) /\ small (snd e)) es ->
  (2 * length es <= length (flat_map (fun e => enc_bytes (fst e) ++ enc_bytes (snd e)) es))%nat.
Proof.
  induction 1 as [|[k v] es [Sk Sv] F IH]; simpl; [lia|].
  rewrite !app_length. unfold enc_bytes at 1 2. rewrite !app_length. cbn [fst snd] in *.
  pose proof (compact_encode_length_ge _ Sk). pose proof (compact_encode_length_ge _ Sv). lia.
Qed.

Theorem dec_enc_entries es r :
  small es -> Forall (fun e => small (fst e) /\ small (snd e)) es ->
  dec_entries (enc_entries es ++ r) = Some es.
Proof.
  intros S F. unfold dec_entries, enc_entries. rewrite <- app_assoc, dec_len_encode by exact S.
  pose proof (flat_pairs_length es F) as L. rewrite app_length.
  match goal with |- context [N.ltb ?a ?b] => replace (N.ltb a b) with false by (symmetry; apply N.ltb_ge; lia) end.
  rewrite Nat2N.id. now apply dec_pairs_enc.
Qed.

Lemma dec_vals_enc vs r : Forall small vs -> dec_vals (length vs) (flat_map enc_bytes vs ++ r) = Some vs.
Proof.
  induction 1 as [|v vs Sv F IH]; simpl; auto.
  rewrite <- app_assoc, dec_enc_bytes by exact Sv. now rewrite IH.
Qed.
Lemma flat_vals_length (vs : list value) : Forall small vs -> (length vs <= length (flat_map enc_bytes vs))%nat.
Proof.
  induction 1 as [|v vs Sv F IH]; simpl; [lia|]. rewrite app_length. unfold enc_bytes at 1.
  rewrite app_length. pose proof (compact_encode_length_ge _ Sv). lia.
Qed.
Theorem dec_enc_values vs r : small vs -> Forall small vs -> dec_values (enc_values vs ++ r) = Some vs.
Proof.
  intros S F. unfold dec_values, enc_values. rewrite <- app_assoc, dec_len_encode by exact S.
  pose proof (flat_vals_length vs F) as L. rewrite app_length.
  match goal with |- context [N.ltb ?a ?b] => replace (N.ltb a b) with false by (symmetry; apply N.ltb_ge; lia) end.
  rewrite Nat2N.id. now apply dec_vals_enc.
Qed.
