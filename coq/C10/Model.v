(* C10/Model.v — the host functions ext_trie_blake2_256_root_version_1/2 and
   ext_trie_blake2_256_ordered_root_version_1/2 of lib/runtime/wazero/imports.go (definitions only).
   Each function: trie.ParseVersion(uint8(version)) (only 0 and 1 parse), SCALE-decode the guest
   bytes (a Vec<(Vec<u8>, Vec<u8>)>, resp. a Vec<Vec<u8>> whose i-th value is keyed by the compact
   encoding of i), TrieLayout.Root: Put every entry in order into an empty trie, Hash.
   Result None = the null pointer (failure), Some r = the 32 bytes written to guest memory.
   The decoder is the SCALE specification decoder of Scale.Compact (canonical compact lengths,
   no truncation, trailing bytes ignored); pkg/scale's own deviations are the subject of C12. *)
From Common Require Import Bytes.
From Trie Require Import Nibbles Node Encode Model Spec.
From Scale Require Import Compact.
Local Open Scope N_scope.

Definition parse_version (v : N) : option version :=
  let b := v mod 256 in                       (* uint8(version) *)
  if b =? 0 then Some V0 else if b =? 1 then Some V1 else None.

(* a SCALE byte vector: compact length, then that many bytes *)
Definition dec_bytes (d : list byte) : option (list byte * list byte) :=
  match compact_decode d with
  | Some (n, r) => if N.of_nat (length r) <? n then None else take (N.to_nat n) r
  | None => None
  end.

Fixpoint dec_pairs (n : nat) (d : list byte) : option (list (list byte * value)) :=
  match n with
  | O => Some []
  | S n' =>
    match dec_bytes d with
    | Some (k, r) =>
      match dec_bytes r with
      | Some (v, r') => match dec_pairs n' r' with Some l => Some ((k, v) :: l) | None => None end
      | None => None
      end
    | None => None
    end
  end.
Definition dec_entries (d : list byte) : option (list (list byte * value)) :=
  match compact_decode d with
  | Some (n, r) => if N.of_nat (length r) <? 2 * n then None else dec_pairs (N.to_nat n) r
  | None => None
  end.

Fixpoint dec_vals (n : nat) (d : list byte) : option (list value) :=
  match n with
  | O => Some []
  | S n' =>
    match dec_bytes d with
    | Some (v, r) => match dec_vals n' r with Some l => Some (v :: l) | None => None end
    | None => None
    end
  end.
Definition dec_values (d : list byte) : option (list value) :=
  match compact_decode d with
  | Some (n, r) => if N.of_nat (length r) <? n then None else dec_vals (N.to_nat n) r
  | None => None
  end.

(* keys of the ordered root: scale.Marshal(big.NewInt(i)) = compact encoding of the index *)
Fixpoint index_entries (i : N) (vs : list value) : list (list byte * value) :=
  match vs with
  | [] => []
  | v :: r => (compact_encode i, v) :: index_entries (i + 1) r
  end.

(* TrieLayout.Root(NewEmptyTrie(), entries) *)
Definition layout_root (H : list byte -> list byte) (ver : version) (es : list (list byte * value)) : list byte :=
  trie_root H ver (fold_left (fun t e => trie_put t (fst e) (snd e)) es None).

Definition host_root (H : list byte -> list byte) (version : N) (data : list byte) : option (list byte) :=
  match parse_version version with
  | None => None
  | Some ver => match dec_entries data with
                | None => None
                | Some es => Some (layout_root H ver es)
                end
  end.

Definition host_ordered_root (H : list byte -> list byte) (version : N) (data : list byte) : option (list byte) :=
  match parse_version version with
  | None => None
  | Some ver => match dec_values data with
                | None => None
                | Some vs => Some (layout_root H ver (index_entries 0 vs))
                end
  end.

(* ---- specification: the spec root of the map the entry list denotes (later entries win) ---- *)
Definition spec_host_root (H : list byte -> list byte) (version : N) (data : list byte) : option (list byte) :=
  match parse_version version, dec_entries data with
  | Some ver, Some es => Some (spec_root_bytes H ver (bm_of_list es))
  | _, _ => None
  end.
Definition spec_host_ordered_root (H : list byte -> list byte) (version : N) (data : list byte) : option (list byte) :=
  match parse_version version, dec_values data with
  | Some ver, Some vs => Some (spec_root_bytes H ver (bm_of_list (index_entries 0 vs)))
  | _, _ => None
  end.
