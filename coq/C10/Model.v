(* C10/Model.v — the host functions ext_trie_blake2_256_root_version_1/2 and
   ext_trie_blake2_256_ordered_root_version_1/2 of lib/runtime/wazero/imports.go (definitions only).
   Each function: trie.ParseVersion(uint8(version)) (only 0 and 1 parse), SCALE-decode the guest
   bytes (a Vec<(Vec<u8>, Vec<u8>)>, resp. a Vec<Vec<u8>> whose i-th value is keyed by the compact
   encoding of i), TrieLayout.Root: Put every entry in order into an empty trie, Hash.
   Result None = the null pointer (failure), Some r = the 32 bytes written to guest memory.
   Two decoders: dec_entries / dec_values are the SCALE specification decoder (canonical compact
   lengths, exact lengths, trailing bytes ignored) used by the specification; dec_entries_go /
   dec_values_go mirror pkg/scale as the host functions use it: decodeBytes allocates the declared
   length and accepts a short read (bytes.Buffer returns what is left without an error), so a
   truncated final byte vector with at least one byte present is zero-filled and accepted
   (known finding bytes-overrun, shared with C12). *)
(* Audit round (aud-rpc-host): lengths are Compact<u32> on the specification side (dec_len: a Vec
   length of 2^32 or more is not decodable), and the Go side models decodeLength/decodeUint as it
   is (dec_len_go: canonical encodings, in the big-integer mode only 4- or 8-byte payloads) and
   decodeBytes' check `length > math.MaxUint32`.  Before, both sides used the general compact decoder,
   which made the Go model accept (and zero-fill) byte vectors declaring 2^32.. bytes that the Go
   code rejects. *)
From Common Require Import Bytes.
From Trie Require Import Nibbles Node Encode Model Spec.
From C10 Require Import ScaleCompact.
Local Open Scope N_scope.

Definition two32 : N := 4294967296.

(* specification: the length of a SCALE Vec is a Compact<u32> *)
Definition dec_len (d : list byte) : option (N * list byte) :=
  match compact_decode d with
  | Some (n, r) => if n <? two32 then Some (n, r) else None
  | None => None
  end.

(* Go: decodeLength = decodeUint into a uint (64 bit).  Modes 0..2 and the canonicity checks are those of
   compact_decode; in the big-integer mode byteLen = (prefix>>2)+4 must be 4 or 8
   (ErrCompactUintPrefixUnknown otherwise). *)
Definition dec_len_go (d : list byte) : option (N * list byte) :=
  match d with
  | [] => None
  | b0 :: _ =>
    if (b2n b0 mod 4 =? 3) && negb ((b2n b0 / 4 =? 0) || (b2n b0 / 4 =? 4)) then None
    else compact_decode d
  end.

Definition parse_version (v : N) : option version :=
  let b := v mod 256 in                       (* uint8(version) *)
  if b =? 0 then Some V0 else if b =? 1 then Some V1 else None.

(* a SCALE byte vector: compact length, then that many bytes *)
Definition dec_bytes (d : list byte) : option (list byte * list byte) :=
  match dec_len d with
  | Some (n, r) => if N.of_nat (length r) <? n then None else take (N.to_nat n) r
  | None => None
  end.

Fixpoint dec_pairs (n : nat) (d : list byte) : option (list (list byte * value)) :=
  match n with
  | O => Some []
  | S n' =>
    match dec_bytes d with
    | Some (k, r) =>
      match dec_bytes r with
      | Some (v, r') => match dec_pairs n' r' with Some l => Some ((k, v) :: l) | None => None end
      | None => None
      end
    | None => None
    end
  end.
Definition dec_entries (d : list byte) : option (list (list byte * value)) :=
  match dec_len d with
  | Some (n, r) => if N.of_nat (length r) <? 2 * n then None else dec_pairs (N.to_nat n) r
  | None => None
  end.

Fixpoint dec_vals (n : nat) (d : list byte) : option (list value) :=
  match n with
  | O => Some []
  | S n' =>
    match dec_bytes d with
    | Some (v, r) => match dec_vals n' r with Some l => Some (v :: l) | None => None end
    | None => None
    end
  end.
Definition dec_values (d : list byte) : option (list value) :=
  match dec_len d with
  | Some (n, r) => if N.of_nat (length r) <? n then None else dec_vals (N.to_nat n) r
  | None => None
  end.

(* keys of the ordered root: scale.Marshal(big.NewInt(i)) = compact encoding of the index *)
Fixpoint index_entries (i : N) (vs : list value) : list (list byte * value) :=
  match vs with
  | [] => []
  | v :: r => (compact_encode i, v) :: index_entries (i + 1) r
  end.

(* ---- pkg/scale as used here: decodeBytes = length, make([]byte, length), one Read ---- *)
(* result: the bytes read, the number of zero bytes the short read leaves behind them, the rest.
   The zero filling is only materialised (pad_zero) once the whole input has been accepted: after a
   short read the buffer is empty, so any further element fails with io.EOF whatever was filled in. *)
Definition dec_bytes_go (d : list byte) : option (list byte * N * list byte) :=
  match dec_len_go d with
  | Some (n, r) =>
    if two32 <=? n then None                                 (* length > math.MaxUint32 *)
    else if n =? 0 then Some ([], 0, r)
    else match r with
         | [] => None                                       (* Read on an empty buffer: io.EOF *)
         | _ => if N.of_nat (length r) <? n
                then Some (r, n - N.of_nat (length r), [])  (* short read, zero-filled *)
                else match take (N.to_nat n) r with
                     | Some (x, r') => Some (x, 0, r')
                     | None => None
                     end
         end
  | None => None
  end.
Definition pad_zero (b : list byte) (z : N) : list byte := b ++ repeat (n2b 0) (N.to_nat z).

Fixpoint dec_pairs_go (n : nat) (d : list byte) : option (list (list byte * value)) :=
  match n with
  | O => Some []
  | S n' =>
    match dec_bytes_go d with
    | Some (k, zk, r) =>
      match dec_bytes_go r with
      | Some (v, zv, r') =>
        match dec_pairs_go n' r' with
        | Some l => Some ((pad_zero k zk, pad_zero v zv) :: l)
        | None => None
        end
      | None => None
      end
    | None => None
    end
  end.
(* every element consumes at least two bytes, so a count above the input length fails; the bound keeps
   the model from unfolding an absurd declared count *)
Definition dec_entries_go (d : list byte) : option (list (list byte * value)) :=
  match dec_len_go d with
  | Some (n, r) => if N.of_nat (length r) <? 2 * n then None else dec_pairs_go (N.to_nat n) r
  | None => None
  end.

Fixpoint dec_vals_go (n : nat) (d : list byte) : option (list value) :=
  match n with
  | O => Some []
  | S n' =>
    match dec_bytes_go d with
    | Some (v, zv, r) => match dec_vals_go n' r with Some l => Some (pad_zero v zv :: l) | None => None end
    | None => None
    end
  end.
Definition dec_values_go (d : list byte) : option (list value) :=
  match dec_len_go d with
  | Some (n, r) => if N.of_nat (length r) <? n then None else dec_vals_go (N.to_nat n) r
  | None => None
  end.

(* known finding bytes-overrun: exactly the inputs on which the two decoders differ *)
Definition guard_entries_overrun (d : list byte) : bool :=
  match dec_entries d, dec_entries_go d with None, Some _ => true | _, _ => false end.
Definition guard_values_overrun (d : list byte) : bool :=
  match dec_values d, dec_values_go d with None, Some _ => true | _, _ => false end.

(* TrieLayout.Root(NewEmptyTrie(), entries) *)
Definition layout_root (H : list byte -> list byte) (ver : version) (es : list (list byte * value)) : list byte :=
  trie_root H ver (fold_left (fun t e => trie_put t (fst e) (snd e)) es None).

Definition host_root (H : list byte -> list byte) (version : N) (data : list byte) : option (list byte) :=
  match parse_version version with
  | None => None
  | Some ver => match dec_entries_go data with
                | None => None
                | Some es => Some (layout_root H ver es)
                end
  end.

Definition host_ordered_root (H : list byte -> list byte) (version : N) (data : list byte) : option (list byte) :=
  match parse_version version with
  | None => None
  | Some ver => match dec_values_go data with
                | None => None
                | Some vs => Some (layout_root H ver (index_entries 0 vs))
                end
  end.

(* ---- specification: the spec root of the map the entry list denotes (later entries win) ---- *)
Definition spec_host_root (H : list byte -> list byte) (version : N) (data : list byte) : option (list byte) :=
  match parse_version version, dec_entries data with
  | Some ver, Some es => Some (spec_root_bytes H ver (bm_of_list es))
  | _, _ => None
  end.
Definition spec_host_ordered_root (H : list byte -> list byte) (version : N) (data : list byte) : option (list byte) :=
  match parse_version version, dec_values data with
  | Some ver, Some vs => Some (spec_root_bytes H ver (bm_of_list (index_entries 0 vs)))
  | _, _ => None
  end.
