(* C10/Properties.v — property C10 (statements only). Under construction. *)
From Common Require Import Bytes.
From Trie Require Import Nibbles Node Encode Model Spec.
From C10 Require Import Model.
