(* C10/Properties.v — property C10: host trie-root functions compute spec roots.
   Only statements, each closed by `exact <lemma>`, with Print Assumptions beneath.

   host_root H version data / host_ordered_root H version data : model of
       ext_trie_blake2_256_root_version_2 / ext_trie_blake2_256_ordered_root_version_2 (version_1 is the
       same with version 0) on the guest bytes `data`: None = null pointer, Some r = the 32 bytes written.
   spec_host_root / spec_host_ordered_root : failure for a version other than 0/1 or for input that is
       not a SCALE Vec<(Vec<u8>,Vec<u8>)> (resp. Vec<Vec<u8>>); otherwise the spec root
       (canonical trie by LCP/bucketing, hashed encoding) of the finite map the entry list denotes
       (later duplicates win; the i-th value of the ordered root is keyed by compact(i)). *)
From Common Require Import Bytes.
From Trie Require Import Nibbles Node Encode Model Spec.
From C10 Require Import ScaleCompact.
From C10 Require Import Model Proofs ProofsSpec.
Local Open Scope N_scope.

(* FULL STATEMENT: forall H version data, host_root H version data = spec_host_root H version data
   (and the same for the ordered root).  It is refuted when the final byte vector of the input is
   truncated but not empty: pkg/scale's decodeBytes zero-fills the short read (known finding
   bytes-overrun, shared with C12 and pinned by dot/rpc/modules TestSystemModule_AccountNextIndex):
   C10_overrun_refuted.  Outside that guard — exactly the inputs on which the Go decoder and the
   specification decoder differ — the statement is proved. *)
Theorem C10_root_spec_partial : forall H version data,
  guard_entries_overrun data = false -> host_root H version data = spec_host_root H version data.
Proof. exact host_root_spec. Qed.
Print Assumptions C10_root_spec_partial.

Theorem C10_ordered_root_spec_partial : forall H version data,
  guard_values_overrun data = false ->
  host_ordered_root H version data = spec_host_ordered_root H version data.
Proof. exact host_ordered_root_spec. Qed.
Print Assumptions C10_ordered_root_spec_partial.

(* failure for an unknown version (2..255) and for undecodable input *)
Theorem C10_failure : forall H v data,
  (2 <= v -> v < 256 -> host_root H v data = None /\ host_ordered_root H v data = None) /\
  (guard_entries_overrun data = false -> dec_entries data = None -> host_root H v data = None) /\
  (guard_values_overrun data = false -> dec_values data = None -> host_ordered_root H v data = None).
Proof.
  intros H v data. split; [exact (unknown_version_fails H v data)|].
  destruct (undecodable_fails H v data) as (_ & _ & A & B). split; assumption.
Qed.
Print Assumptions C10_failure.

Theorem C10_overrun_refuted : forall H,
  (exists data, host_root H 0 data <> spec_host_root H 0 data) /\
  (exists data, host_ordered_root H 0 data <> spec_host_ordered_root H 0 data).
Proof.
  intros H. split; [exists w_overrun; exact (overrun_refuted H)|exists w_overrun_ordered; exact (overrun_ordered_refuted H)].
Qed.
Print Assumptions C10_overrun_refuted.

(* every entry list (lengths < 2^32, the range of a SCALE Vec length) is decodable from its SCALE
   encoding (whatever follows it), so the functions
   return the spec root for every entry list, with duplicates and empty values *)
Theorem C10_total_on_encodings : forall H ver es vs r,
  small es -> Forall (fun e => small (fst e) /\ small (snd e)) es ->
  small vs -> Forall small vs ->
  host_root H (match ver with V0 => 0 | V1 => 1 end) (enc_entries es ++ r)
    = Some (spec_root_bytes H ver (bm_of_list es)) /\
  host_ordered_root H (match ver with V0 => 0 | V1 => 1 end) (enc_values vs ++ r)
    = Some (spec_root_bytes H ver (bm_of_list (index_entries 0 vs))).
Proof.
  intros H ver es vs r S1 F1 S2 F2.
  pose proof (dec_enc_entries es r S1 F1) as D1. pose proof (dec_enc_values vs r S2 F2) as D2.
  rewrite host_root_spec by (unfold guard_entries_overrun; now rewrite D1).
  rewrite host_ordered_root_spec by (unfold guard_values_overrun; now rewrite D2).
  unfold spec_host_root, spec_host_ordered_root. rewrite D1, D2. destruct ver; split; reflexivity.
Qed.
Print Assumptions C10_total_on_encodings.

(* non-vacuity: duplicates (the later value wins), an empty value, index keys crossing the
   one-byte compact mode, an unknown version, a truncated input *)
Example C10_nonvacuous :
  let es := [([n2b 1], [n2b 170]); ([n2b 1; n2b 2], []); ([n2b 1], [n2b 187; n2b 188])] in
  dec_entries (enc_entries es) = Some es /\
  bm_of_list es = [([n2b 1], [n2b 187; n2b 188]); ([n2b 1; n2b 2], [])] /\
  dec_entries (removelast (enc_entries es)) = None /\
  guard_entries_overrun (removelast (enc_entries es)) = true /\
  guard_entries_overrun (removelast (removelast (enc_entries es))) = false /\
  parse_version 2 = None /\ parse_version 1 = Some V1 /\
  fst (nth 64 (index_entries 0 (repeat [n2b 7] 70)) ([], [])) = [n2b 1; n2b 1].
Proof. vm_compute. repeat split; reflexivity. Qed.

(* ================================================================== audit round (aud-rpc-host) *)

(* What the specification side denotes.  bm_of_list es is the sorted finite map in which every key has
   the LAST value the entry list gives it (duplicates: later entries win; empty values are kept): *)
Theorem C10_map_semantics : forall es,
  (forall k, bm_get (bm_of_list es) k = last_value es k) /\ bm_sorted (bm_of_list es) = true.
Proof. intros es. split; [exact (bm_of_list_get es)|exact (bm_of_list_sorted es)]. Qed.
Print Assumptions C10_map_semantics.

(* the ordered root keys the i-th value by the compact encoding of i, and these keys are pairwise
   distinct (so the map has exactly one entry per value) *)
Theorem C10_index_keys : forall vs,
  length (index_entries 0 vs) = length vs /\
  (forall i v, nth_error vs i = Some v ->
     nth_error (index_entries 0 vs) i = Some (compact_encode (N.of_nat i), v)) /\
  (N.of_nat (length vs) < 2 ^ 536 ->
   forall i j ki vi kj vj, nth_error (index_entries 0 vs) i = Some (ki, vi) ->
     nth_error (index_entries 0 vs) j = Some (kj, vj) -> i <> j -> ki <> kj).
Proof.
  intros vs. split; [exact (index_entries_length 0 vs)|]. split.
  - intros i v E. exact (index_entries_nth vs 0 i v E).
  - intros S i j ki vi kj vj. exact (index_entries_keys_distinct vs i j ki vi kj vj S).
Qed.
Print Assumptions C10_index_keys.

(* the Go length decoder (decodeUint) agrees with the Compact<u32> specification decoder wherever the
   latter succeeds, and rejects big-integer-mode prefixes with a payload other than 4 or 8 bytes *)
Theorem C10_length_decoder : forall d,
  (forall n r, dec_len d = Some (n, r) -> dec_len_go d = Some (n, r) /\ n < two32) /\
  (forall b0 t, d = b0 :: t -> b2n b0 mod 4 = 3 -> b2n b0 / 4 <> 0 -> b2n b0 / 4 <> 4 -> dec_len_go d = None).
Proof.
  intros d. split; [exact (dec_len_go_agrees d)|].
  intros b0 t -> M K0 K4. unfold dec_len_go. rewrite M. cbn [N.eqb Pos.eqb andb].
  destruct (N.eqb_spec (b2n b0 / 4) 0); [contradiction|].
  destruct (N.eqb_spec (b2n b0 / 4) 4); [contradiction|]. reflexivity.
Qed.
Print Assumptions C10_length_decoder.

(* non-vacuity: last value wins, empty value kept; 5-byte big-integer count rejected by Go and by the
   specification; a value declaring 2^56 bytes rejected by both (no zero filling) *)
Example C10_audit_nonvacuous :
  last_value [([n2b 1], [n2b 170]); ([n2b 1; n2b 2], []); ([n2b 1], [n2b 187])] [n2b 1] = Some [n2b 187] /\
  last_value [([n2b 1], [n2b 170]); ([n2b 1; n2b 2], []); ([n2b 1], [n2b 187])] [n2b 1; n2b 2] = Some [] /\
  dec_entries_go (map n2b [7; 1; 0; 0; 0; 0; 4; 1; 4; 2]) = None /\
  dec_entries (map n2b [7; 1; 0; 0; 0; 0; 4; 1; 4; 2]) = None /\
  dec_values_go (map n2b [4; 19; 0; 0; 0; 0; 0; 0; 0; 1; 17]) = None /\
  guard_values_overrun (map n2b [4; 19; 0; 0; 0; 0; 0; 0; 0; 1; 17]) = false /\
  guard_values_overrun (map n2b [4; 8; 2]) = true.
Proof. vm_compute. repeat split; reflexivity. Qed.
