(* C10/Properties.v — property C10: host trie-root functions compute spec roots.
   Only statements, each closed by `exact <lemma>`, with Print Assumptions beneath.

   host_root H version data / host_ordered_root H version data : model of
       ext_trie_blake2_256_root_version_2 / ext_trie_blake2_256_ordered_root_version_2 (version_1 is the
       same with version 0) on the guest bytes `data`: None = null pointer, Some r = the 32 bytes written.
   spec_host_root / spec_host_ordered_root : failure for a version other than 0/1 or for input that is
       not a SCALE Vec<(Vec<u8>,Vec<u8>)> (resp. Vec<Vec<u8>>); otherwise the spec root
       (canonical trie by LCP/bucketing, hashed encoding) of the finite map the entry list denotes
       (later duplicates win; the i-th value of the ordered root is keyed by compact(i)). *)
From Common Require Import Bytes.
From Trie Require Import Nibbles Node Encode Model Spec.
From C10 Require Import ScaleCompact.
From C10 Require Import Model Proofs.
Local Open Scope N_scope.

(* FULL STATEMENT: forall H version data, host_root H version data = spec_host_root H version data
   (and the same for the ordered root).  It is refuted when the final byte vector of the input is
   truncated but not empty: pkg/scale's decodeBytes zero-fills the short read (known finding
   bytes-overrun, shared with C12 and pinned by dot/rpc/modules TestSystemModule_AccountNextIndex):
   C10_overrun_refuted.  Outside that guard — exactly the inputs on which the Go decoder and the
   specification decoder differ — the statement is proved. *)
Theorem C10_root_spec_partial : forall H version data,
  guard_entries_overrun data = false -> host_root H version data = spec_host_root H version data.
Proof. exact host_root_spec. Qed.
Print Assumptions C10_root_spec_partial.

Theorem C10_ordered_root_spec_partial : forall H version data,
  guard_values_overrun data = false ->
  host_ordered_root H version data = spec_host_ordered_root H version data.
Proof. exact host_ordered_root_spec. Qed.
Print Assumptions C10_ordered_root_spec_partial.

(* failure for an unknown version (2..255) and for undecodable input *)
Theorem C10_failure : forall H v data,
  (2 <= v -> v < 256 -> host_root H v data = None /\ host_ordered_root H v data = None) /\
  (guard_entries_overrun data = false -> dec_entries data = None -> host_root H v data = None) /\
  (guard_values_overrun data = false -> dec_values data = None -> host_ordered_root H v data = None).
Proof.
  intros H v data. split; [exact (unknown_version_fails H v data)|].
  destruct (undecodable_fails H v data) as (_ & _ & A & B). split; assumption.
Qed.
Print Assumptions C10_failure.

Theorem C10_overrun_refuted : forall H,
  (exists data, host_root H 0 data <> spec_host_root H 0 data) /\
  (exists data, host_ordered_root H 0 data <> spec_host_ordered_root H 0 data).
Proof.
  intros H. split; [exists w_overrun; exact (overrun_refuted H)|exists w_overrun_ordered; exact (overrun_ordered_refuted H)].
Qed.
Print Assumptions C10_overrun_refuted.

(* every entry list is decodable from its SCALE encoding (whatever follows it), so the functions
   return the spec root for every entry list, with duplicates and empty values *)
Theorem C10_total_on_encodings : forall H ver es vs r,
  small es -> Forall (fun e => small (fst e) /\ small (snd e)) es ->
  small vs -> Forall small vs ->
  host_root H (match ver with V0 => 0 | V1 => 1 end) (enc_entries es ++ r)
    = Some (spec_root_bytes H ver (bm_of_list es)) /\
  host_ordered_root H (match ver with V0 => 0 | V1 => 1 end) (enc_values vs ++ r)
    = Some (spec_root_bytes H ver (bm_of_list (index_entries 0 vs))).
Proof.
  intros H ver es vs r S1 F1 S2 F2.
  pose proof (dec_enc_entries es r S1 F1) as D1. pose proof (dec_enc_values vs r S2 F2) as D2.
  rewrite host_root_spec by (unfold guard_entries_overrun; now rewrite D1).
  rewrite host_ordered_root_spec by (unfold guard_values_overrun; now rewrite D2).
  unfold spec_host_root, spec_host_ordered_root. rewrite D1, D2. destruct ver; split; reflexivity.
Qed.
Print Assumptions C10_total_on_encodings.

(* non-vacuity: duplicates (the later value wins), an empty value, index keys crossing the
   one-byte compact mode, an unknown version, a truncated input *)
Example C10_nonvacuous :
  let es := [([n2b 1], [n2b 170]); ([n2b 1; n2b 2], []); ([n2b 1], [n2b 187; n2b 188])] in
  dec_entries (enc_entries es) = Some es /\
  bm_of_list es = [([n2b 1], [n2b 187; n2b 188]); ([n2b 1; n2b 2], [])] /\
  dec_entries (removelast (enc_entries es)) = None /\
  guard_entries_overrun (removelast (enc_entries es)) = true /\
  guard_entries_overrun (removelast (removelast (enc_entries es))) = false /\
  parse_version 2 = None /\ parse_version 1 = Some V1 /\
  fst (nth 64 (index_entries 0 (repeat [n2b 7] 70)) ([], [])) = [n2b 1; n2b 1].
Proof. vm_compute. repeat split; reflexivity. Qed.
