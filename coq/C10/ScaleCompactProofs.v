(* C10/ScaleCompactProofs.v — verbatim copy of coq/Scale/CompactProofs.v (owner: agent scale) with the
   import redirected to C10.ScaleCompact. *)
(* Scale/CompactProofs.v — lemmas about Scale/Compact.v.  All proved (no admits):
     byte_len_bounds, byte_len_unique, compact_decode_encode, compact_encode_decode,
     compact_encode_length, compact_encode_nonempty. *)
From Coq Require Import ZifyN ZifyNat ZifyBool.
From Common Require Import Bytes.
From C10 Require Import ScaleCompact.
Local Open Scope N_scope.
Ltac Zify.zify_post_hook ::= Z.div_mod_to_equations.

Lemma pow256 k : 256 ^ k = 2 ^ (8 * k).
Proof. change 256 with (2 ^ 8). now rewrite <- N.pow_mul_r. Qed.

Lemma byte_len_0 : byte_len 0 = 0.
Proof. reflexivity. Qed.

Lemma byte_len_upper n : n < 256 ^ byte_len n.
Proof.
  unfold byte_len. rewrite pow256.
  apply N.lt_le_trans with (2 ^ N.size n); [apply N.size_gt|].
  apply N.pow_le_mono_r; lia.
Qed.

Lemma byte_len_lower n : n <> 0 -> 256 ^ (byte_len n - 1) <= n.
Proof.
  intro H. unfold byte_len. rewrite pow256.
  rewrite N.size_log2 by assumption.
  assert (P : 0 < n) by lia. pose proof (N.log2_spec n P) as [L _].
  apply N.le_trans with (2 ^ N.log2 n); [|assumption].
  apply N.pow_le_mono_r; lia.
Qed.

Lemma byte_len_pos n : n <> 0 -> 1 <= byte_len n.
Proof.
  intro H. unfold byte_len.
  assert (S1 : 1 <= N.size n) by (rewrite N.size_log2 by assumption; lia). lia.
Qed.

Lemma byte_len_unique n k : 1 <= k -> 256 ^ (k - 1) <= n -> n < 256 ^ k -> byte_len n = k.
Proof.
  intros K L U.
  assert (n <> 0) as NZ.
  { intro E; subst. assert (256 ^ (k - 1) <> 0) by (apply N.pow_nonzero; lia). lia. }
  pose proof (byte_len_upper n) as U'. pose proof (byte_len_lower n NZ) as L'.
  pose proof (byte_len_pos n NZ) as P.
  destruct (N.lt_trichotomy (byte_len n) k) as [C|[C|C]]; [exfalso| assumption | exfalso].
  - assert (256 ^ byte_len n <= 256 ^ (k - 1)) by (apply N.pow_le_mono_r; lia). lia.
  - assert (256 ^ k <= 256 ^ (byte_len n - 1)) by (apply N.pow_le_mono_r; lia). lia.
Qed.

Lemma byte_len_mono a b : a <= b -> byte_len a <= byte_len b.
Proof.
  intro H. unfold byte_len.
  assert (N.size a <= N.size b).
  { destruct (N.eq_dec a 0) as [->|NZ]; [cbn; lia|].
    assert (b <> 0) by lia. rewrite !N.size_log2 by assumption.
    pose proof (N.log2_le_mono a b H). lia. }
  apply N.div_le_mono; lia.
Qed.

Lemma byte_len_ge_4 n : 1073741824 <= n -> 4 <= byte_len n.
Proof.
  intro H. change 4 with (byte_len 1073741824). now apply byte_len_mono.
Qed.

Lemma byte_len_le_67 n : n < 2 ^ 536 -> byte_len n <= 67.
Proof.
  intro H. destruct (N.eq_dec n 0) as [->|NZ]; [cbn; lia|].
  pose proof (byte_len_lower n NZ) as L.
  destruct (N.le_gt_cases (byte_len n) 67) as [C|C]; [assumption|exfalso].
  assert (256 ^ 67 <= 256 ^ (byte_len n - 1)) by (apply N.pow_le_mono_r; lia).
  rewrite (pow256 67) in H0. change (8 * 67) with 536 in H0. lia.
Qed.

Lemma take_app (x r : list byte) : take (length x) (x ++ r) = Some (x, r).
Proof.
  unfold take. rewrite app_length.
  destruct (Nat.ltb_spec (length x + length r) (length x)); [lia|].
  rewrite firstn_app, Nat.sub_diag, firstn_all, firstn_O, app_nil_r.
  rewrite skipn_app, Nat.sub_diag, skipn_all. reflexivity.
Qed.

Lemma take_le_bytes k n r : take k (le_bytes k n ++ r) = Some (le_bytes k n, r).
Proof. pose proof (take_app (le_bytes k n) r) as H. now rewrite le_bytes_length in H. Qed.

Lemma take_spec k l x r : take k l = Some (x, r) -> l = x ++ r /\ length x = k.
Proof.
  unfold take. destruct (Nat.ltb_spec (length l) k); [discriminate|].
  intro E. injection E as <- <-. split.
  - symmetry; apply firstn_skipn.
  - apply firstn_length_le. assumption.
Qed.

Lemma b2n_n2b_lt n : n < 256 -> b2n (n2b n) = n.
Proof. apply b2n_n2b_small. Qed.

(* the first byte of a k-byte little-endian form *)
Lemma le_bytes_S k n : le_bytes (S k) n = n2b n :: le_bytes k (N.shiftr n 8).
Proof. reflexivity. Qed.

Lemma le_val_single b : le_val [b] = b2n b.
Proof. cbn. lia. Qed.

Theorem compact_decode_encode n r :
  n < 2 ^ 536 -> compact_decode (compact_encode n ++ r) = Some (n, r).
Proof.
  intro H. unfold compact_encode.
  destruct (N.ltb_spec n 64) as [C0|C0].
  { cbn [app]. unfold compact_decode. rewrite b2n_n2b_lt by lia.
    replace ((4 * n) mod 4) with 0 by (rewrite N.mul_comm, N.mod_mul; lia).
    cbn [N.eqb]. rewrite N.mul_comm, N.div_mul by lia. reflexivity. }
  destruct (N.ltb_spec n 16384) as [C1|C1].
  { cbn [le_bytes app]. unfold compact_decode.
    rewrite b2n_n2b. change (take 1 (?a :: r)) with (take (length [a]) ([a] ++ r)).
    rewrite take_app. rewrite le_val_single, b2n_n2b, N.shiftr_div_pow2. change (2 ^ 8) with 256.
    assert (M : ((4 * n + 1) mod 256) mod 4 = 1) by lia.
    rewrite M. cbn [N.eqb Pos.eqb].
    replace (((4 * n + 1) mod 256 + 256 * ((4 * n + 1) / 256 mod 256)) / 4) with n by lia.
    destruct (N.leb_spec 64 n); [reflexivity | lia]. }
  destruct (N.ltb_spec n 1073741824) as [C2|C2].
  { unfold compact_decode. remember (4 * n + 2) as w eqn:W.
    rewrite le_bytes_S. cbn [app]. rewrite b2n_n2b.
    rewrite take_le_bytes. rewrite le_val_le_bytes_small.
    2:{ rewrite N.shiftr_div_pow2. change (2 ^ 8) with 256. change (256 ^ N.of_nat 3) with 16777216.
        lia. }
    rewrite N.shiftr_div_pow2. change (2 ^ 8) with 256.
    assert (M : (w mod 256) mod 4 = 2) by lia.
    rewrite M. cbn [N.eqb Pos.eqb].
    replace ((w mod 256 + 256 * (w / 256)) / 4) with n by lia.
    destruct (N.leb_spec 16384 n); [reflexivity | lia]. }
  pose proof (byte_len_ge_4 n C2) as K4. pose proof (byte_len_le_67 n H) as K67.
  set (k := byte_len n) in *.
  cbn [app]. unfold compact_decode. rewrite b2n_n2b_lt by lia.
  replace ((4 * (k - 4) + 3) mod 4) with 3
    by (rewrite N.add_comm, N.mul_comm, N.mod_add by lia; reflexivity).
  cbn [N.eqb Pos.eqb].
  replace ((4 * (k - 4) + 3) / 4 + 4) with k
    by (rewrite N.mul_comm, N.div_add_l by lia; cbn; lia).
  rewrite take_le_bytes.
  rewrite le_val_le_bytes_small by (rewrite N2Nat.id; apply byte_len_upper).
  fold k. rewrite N.eqb_refl. destruct (N.leb_spec 1073741824 n); [reflexivity | lia].
Qed.

Lemma le_val_lt_len (x : list byte) k : length x = k -> le_val x < 256 ^ N.of_nat k.
Proof. intros <-. apply le_val_lt. Qed.

Lemma le_bytes_cons_val b x :
  le_bytes (S (length x)) (b2n b + 256 * le_val x) = b :: x.
Proof. exact (le_bytes_le_val (b :: x)). Qed.

(* converse: whatever the spec decoder accepts is the canonical encoding of the value it returns *)
Theorem compact_encode_decode bs n r :
  compact_decode bs = Some (n, r) -> bs = compact_encode n ++ r /\ n < 2 ^ 536.
Proof.
  unfold compact_decode. destruct bs as [|b0 t]; [discriminate|].
  pose proof (b2n_lt b0) as B0. set (p := b2n b0) in *.
  destruct (N.eqb_spec (p mod 4) 0) as [M0|M0].
  { intro E; injection E as <- <-. split; [|assert (p / 4 < 64) by lia; apply N.lt_trans with 64; [lia|reflexivity]].
    unfold compact_encode. destruct (N.ltb_spec (p / 4) 64); [|lia].
    replace (4 * (p / 4)) with p by lia. subst p. now rewrite n2b_b2n. }
  destruct (N.eqb_spec (p mod 4) 1) as [M1|M1].
  { destruct (take 1 t) as [[x r']|] eqn:T; [|discriminate].
    apply take_spec in T as [-> L]. destruct x as [|b1 [|? ?]]; try discriminate.
    rewrite le_val_single. pose proof (b2n_lt b1) as B1.
    remember ((p + 256 * b2n b1) / 4) as v eqn:Ev.
    destruct (N.leb_spec 64 v) as [G|G]; [|discriminate].
    intro E; injection E as <- <-.
    assert (V : v < 16384) by lia.
    split; [|apply N.lt_trans with 16384; [assumption|reflexivity]].
    unfold compact_encode. destruct (N.ltb_spec v 64); [lia|].
    destruct (N.ltb_spec v 16384); [|lia].
    replace (4 * v + 1) with (le_val [b0; b1]) by (cbn [le_val]; fold p; lia).
    change 2%nat with (length [b0; b1]). rewrite le_bytes_le_val. reflexivity. }
  destruct (N.eqb_spec (p mod 4) 2) as [M2|M2].
  { destruct (take 3 t) as [[x r']|] eqn:T; [|discriminate].
    apply take_spec in T as [-> L].
    pose proof (le_val_lt_len x 3 L) as X. change (256 ^ N.of_nat 3) with 16777216 in X.
    remember ((p + 256 * le_val x) / 4) as v eqn:Ev.
    destruct (N.leb_spec 16384 v) as [G|G]; [|discriminate].
    intro E; injection E as <- <-.
    assert (V : v < 1073741824) by lia.
    split; [|apply N.lt_trans with 1073741824; [assumption|reflexivity]].
    unfold compact_encode. destruct (N.ltb_spec v 64); [lia|].
    destruct (N.ltb_spec v 16384); [lia|].
    destruct (N.ltb_spec v 1073741824); [|lia].
    replace (4 * v + 2) with (le_val (b0 :: x)) by (cbn [le_val]; fold p; lia).
    replace 4%nat with (length (b0 :: x)) by (cbn [length]; lia).
    rewrite le_bytes_le_val. reflexivity. }
  assert (M3 : p mod 4 = 3) by lia.
  destruct (take (N.to_nat (p / 4 + 4)) t) as [[x r']|] eqn:T; [|discriminate].
  apply take_spec in T as [-> L].
  remember (le_val x) as v eqn:Ev.
  destruct (N.eqb_spec (byte_len v) (p / 4 + 4)) as [K|K]; [|discriminate].
  destruct (N.leb_spec 1073741824 v) as [G|G]; [|discriminate].
  cbn [andb]. intro E; injection E as <- <-.
  split.
  - unfold compact_encode.
    destruct (N.ltb_spec v 64); [lia|].
    destruct (N.ltb_spec v 16384); [lia|].
    destruct (N.ltb_spec v 1073741824); [lia|].
    rewrite K. replace (4 * (p / 4 + 4 - 4) + 3) with p by lia.
    subst p. rewrite n2b_b2n. rewrite <- L, Ev, le_bytes_le_val. reflexivity.
  - pose proof (le_val_lt x) as U. rewrite L, N2Nat.id, <- Ev in U.
    apply N.lt_le_trans with (256 ^ (p / 4 + 4)); [assumption|].
    rewrite pow256. apply N.pow_le_mono_r; lia.
Qed.

Theorem compact_encode_length n :
  n < 2 ^ 536 -> N.of_nat (length (compact_encode n)) = compact_len n.
Proof.
  intro H. unfold compact_encode, compact_len.
  destruct (N.ltb_spec n 64); [reflexivity|].
  destruct (N.ltb_spec n 16384); [reflexivity|].
  destruct (N.ltb_spec n 1073741824); [reflexivity|].
  cbn [length]. rewrite le_bytes_length. lia.
Qed.

Lemma compact_encode_nonempty n : compact_encode n <> [].
Proof.
  unfold compact_encode.
  destruct (n <? 64); [discriminate|]. destruct (n <? 16384); [discriminate|].
  destruct (n <? 1073741824); discriminate.
Qed.

(* two canonical encodings that are prefixes of the same string are equal: prefix-freeness *)
Lemma compact_encode_prefix_free a b r s :
  a < 2 ^ 536 -> b < 2 ^ 536 -> compact_encode a ++ r = compact_encode b ++ s -> a = b /\ r = s.
Proof.
  intros A B E. pose proof (compact_decode_encode a r A) as D.
  rewrite E, (compact_decode_encode b s B) in D. injection D as -> ->. now split.
Qed.
