(* C35/ProofsTop.v — putting the refinements together: the pointer-level model (the bodies the
   concurrent theorem interleaves) refines the recency-list specification, hence every complete
   concurrent history under the exclusive discipline is linearizable w.r.t. that specification. *)
From Coq Require Import List NArith Bool Arith Lia Permutation.
From Common Require Import Lock.
From Conc Require Import Lin Cert LockedObject.
From C35 Require Import Model Gen Checker Proofs ProofsT ProofsPtr ProofsConc.
Import ListNotations.
Local Open Scope N_scope.

Definition r_fspec : rspec -> op -> res -> rspec -> Prop := fspec rspec op res r_step.

(* the pointer state represents the recency list q *)
Definition RP (p : pst) (q : rspec) : Prop := exists m, Repr p m /\ minv m /\ abs m = q.

Lemma RP_new c : RP (p_new c) (r_new c).
Proof. exists (m_new c). split; [apply Repr_new|]. split; [apply minv_new|apply abs_new]. Qed.

Lemma RP_step p q o r p' : RP p q -> p_fspec p o r p' -> exists q', r_fspec q o r q' /\ RP p' q'.
Proof.
  intros [m [HR [Hi Ha]]] Hs. unfold p_fspec, fspec in Hs.
  destruct (p_step_refines p m o HR Hi) as [HR' Hres].
  destruct (m_step_refines m o Hi) as [Hi' [Ha' Hres']].
  rewrite Hs in HR', Hres. simpl in HR', Hres.
  exists (fst (r_step q o)). split.
  - unfold r_fspec, fspec. subst q. rewrite Hres, Hres'. destruct (r_step (abs m) o); reflexivity.
  - exists (fst (m_step m o)). subst q. auto.
Qed.

Theorem p_run_r_run c ops : p_run (p_new c) ops = r_run (r_new c) ops.
Proof. rewrite p_run_new. rewrite <- abs_new. apply m_run_refines. apply minv_new. Qed.

Theorem lru_linearizable_rspec (tbl : list (String.string * lockmode * bool)) :
  (forall o, mode_of tbl o = LockExclusive) ->
  forall (cap : N) (P : nat -> list op) (c : cfg pst loc op res),
    reach pst loc op res p_init p_fin p_mstep (mode_of tbl) (init_cfg pst loc op res (p_new cap) P) c ->
    quiescent pst loc op res c ->
    exists l q, linearization r_fspec (r_new cap) (done pst loc op res c) l q /\
                RP (shared pst loc op res c) q.
Proof.
  intros Hx cap P c Hr Hq.
  destruct (lru_linearizable tbl Hx cap P c Hr Hq) as [l Hl].
  destruct (linearizable_sim p_fspec r_fspec RP RP_step _ _ _ _ _ (RP_new cap) Hl) as [q [Hl' HR]].
  exists l, q. split; assumption.
Qed.

(* what RP says about the final state: dumping it gives the items of q *)
Lemma RP_dump p q : RP p q -> snd (p_step p Dump) = RList (r_items q).
Proof.
  intros [m [HR [Hi Ha]]]. destruct (p_step_refines p m Dump HR Hi) as [_ H]. rewrite H.
  subst q. reflexivity.
Qed.

(* ---- statements used by Properties.v ---- *)
Theorem seq_refines (c : N) (ops : list op) :
  p_run (p_new c) ops = r_run (r_new c) ops /\ m_run (m_new c) ops = r_run (r_new c) ops.
Proof.
  split; [apply p_run_r_run|]. rewrite <- abs_new. apply m_run_refines. apply minv_new.
Qed.

Theorem lru_lin_sound bud c h :
  lru_lin bud c h = Some true -> linearizable (fspec rspec op res r_step) (r_new c) h.
Proof. apply lin_check_m_true. exact res_eqb_spec. Qed.

Theorem lru_lin_complete_false bud c h :
  lru_lin_complete bud c h = Some false -> ~ linearizable (fspec rspec op res r_step) (r_new c) h.
Proof. apply lin_check_b_false. exact res_eqb_spec. Qed.

Theorem lru_cert_sound c h p :
  lru_cert c h p = true -> linearizable (fspec rspec op res r_step) (r_new c) h.
Proof. apply cert_ok_sound. exact res_eqb_spec. Qed.

Theorem lru_by_time (c : N) (ops : list op) :
  forallb getput ops = true -> r_run (r_new c) ops = t_run (t_new c) ops.
Proof. apply r_run_t_run. apply RT_new. Qed.

Theorem concurrent_get_refuted :
  exists cf : cfg pst loc op res,
    reach pst loc op res p_init p_fin p_mstep (mode_of prefix_locks) (init_cfg pst loc op res s321 two_gets) cf /\
    length (done pst loc op res cf) = 2%nat /\
    p_wf (shared pst loc op res cf) = false.
Proof.
  exists bad_final. destruct concurrent_get_corrupts as [A [B [_ [D _]]]]. exact (conj A (conj B D)).
Qed.

(* ---- histories with pending calls: every reachable configuration ---- *)
Theorem lru_linearizable_pending (tbl : list (String.string * lockmode * bool)) :
  (forall o, mode_of tbl o = LockExclusive) ->
  forall (cap : N) (P : nat -> list op) (c : cfg pst loc op res),
    reach pst loc op res p_init p_fin p_mstep (mode_of tbl) (init_cfg pst loc op res (p_new cap) P) c ->
    exists (ts : list nat) (compl : list (@orec op res)) l q,
      NoDup ts /\
      Forall2 (fun t e => th pst loc op res c t = Finished loc op res (o_call e) (o_op e) (o_res e) /\
                          o_ret e = clk pst loc op res c) ts compl /\
      linearization r_fspec (r_new cap) (done pst loc op res c ++ compl) l q.
Proof.
  intros Hx cap P c Hr.
  destruct (exclusive_linearizable_pending pst loc op res p_init p_fin p_mstep (mode_of tbl) Hx _ _ _ Hr)
    as [ts [compl [l [sb [Hn [Hf [Hp [Hl Ho]]]]]]]].
  assert (Hl' : linearization p_fspec (p_new cap) (done pst loc op res c ++ compl) l sb).
  { repeat split; try assumption. eapply legal_mono; [|exact Hl].
    intros s o r s' H. apply seq_spec_p_step. exact H. }
  destruct (linearizable_sim p_fspec r_fspec RP RP_step _ _ _ _ _ (RP_new cap) Hl') as [q [Hq _]].
  exists ts, compl, l, q. split; [exact Hn|split; [exact Hf|exact Hq]].
Qed.

Theorem lru_pcert_sound c h pend inf chosen p :
  lru_pcert c h pend inf chosen p = true ->
  linearizable_pending rspec op res r_step (r_new c) h pend.
Proof. apply pcert_ok_sound. exact res_eqb_spec. Qed.
