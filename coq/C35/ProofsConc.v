(* C35/ProofsConc.v — the LRU cache as a Conc.LockedObject: every method body terminates, its
   sequential execution is [p_step], and when every method is exclusive every complete
   concurrent history is linearizable w.r.t. [p_step].  With Get under the read lock (the
   pinned source before the fix) two Gets corrupt the list: an explicit schedule. *)
From Coq Require Import List NArith Bool Arith Lia Permutation.
From Common Require Import Lock.
From Conc Require Import Lin LockedObject.
From C35 Require Import Model.
Import ListNotations.
Local Open Scope N_scope.

Notation lruns := (runs pst loc res p_fin p_mstep).
Notation lreach tbl := (reach pst loc op res p_init p_fin p_mstep (mode_of tbl)).
Notation lcfg := (cfg pst loc op res).
Notation linit := (init_cfg pst loc op res).

(* ---- termination of the bodies: a rank that every micro-step decreases ---- *)
Definition rank6 (i : nat) (base : nat) : nat :=
  match i with
  | 1 => base + 5 | 2 => base + 4 | 3 => base + 3 | 4 => base + 2 | 5 => base + 1 | _ => base
  end%nat.

Definition rank (l : loc) : nat :=
  match l with
  | LDone _ => 0
  | LGetRet _ => 1
  | LDump => 1
  | LMv i _ _ => rank6 i 2
  | LMtf _ _ => 8
  | LPutW _ _ => 9
  | LGet0 _ => 9
  | LMapSet _ _ _ => 1
  | LIns i _ _ _ => rank6 i 2
  | LAlloc _ _ => 8
  | LRm i _ _ _ => rank6 i 9
  | LRmChk _ _ _ => 15
  | LDel _ _ _ => 16
  | LBack _ _ => 17
  | LFull _ _ => 18
  | LPut0 _ _ => 19
  end%nat.

Lemma after_mtf_rank e a : (rank (after_mtf e a) <= 1)%nat.
Proof. destruct a; simpl; lia. Qed.

Lemma rank_decreases l s : p_fin l = None -> (rank (fst (p_mstep l s)) < rank l)%nat.
Proof.
  intros Hf. destruct l; simpl in *; try discriminate;
    repeat match goal with
           | |- context [match ?i with O => _ | S _ => _ end] => destruct i
           | |- context [if ?c then _ else _] => destruct c
           | |- context [match mget ?k ?m with _ => _ end] => destruct (mget k m)
           end; simpl; try lia;
    try (match goal with |- context [after_mtf ?e ?a] => pose proof (after_mtf_rank e a); lia end).
Qed.

Lemma rank_zero l : (rank l <= 0)%nat -> exists r, l = LDone r.
Proof.
  destruct l; simpl; try lia; eauto;
    destruct i as [|[|[|[|[|[|]]]]]]; simpl; lia.
Qed.

Lemma p_body_total n : forall l s, (rank l <= n)%nat -> exists r s', p_body n l s = Some (r, s').
Proof.
  induction n as [|n IH]; intros l s Hr.
  - destruct (rank_zero l Hr) as [r ->]. simpl. eauto.
  - simpl. destruct (p_fin l) as [r|] eqn:Ef; [eauto|].
    pose proof (rank_decreases l s Ef) as Hd. destruct (p_mstep l s) as [l' s'] eqn:Em. simpl in Hd.
    apply IH. lia.
Qed.

Lemma p_body_runs n : forall l s r s', p_body n l s = Some (r, s') -> lruns l s r s'.
Proof.
  induction n as [|n IH]; intros l s r s' H; simpl in H; destruct (p_fin l) eqn:Ef.
  - inversion H; subst. constructor; assumption.
  - discriminate.
  - inversion H; subst. constructor; assumption.
  - destruct (p_mstep l s) as [l1 s1] eqn:Em. eapply runs_step; eauto.
Qed.

Lemma init_rank o : (rank (p_init o) <= 32)%nat.
Proof. destruct o; simpl; lia. Qed.

(* the sequential specification of the locked object is the function p_step *)
Theorem seq_spec_p_step s o r s' :
  seq_spec pst loc op res p_init p_fin p_mstep s o r s' <-> p_step s o = (s', r).
Proof.
  unfold seq_spec, p_step.
  destruct (p_body_total 32 (p_init o) s (init_rank o)) as [r0 [s0 Hb]]. rewrite Hb.
  pose proof (p_body_runs _ _ _ _ _ Hb) as Hr. split.
  - intros H. destruct (runs_det pst loc res p_fin p_mstep _ _ _ _ _ _ H Hr) as [-> ->]. reflexivity.
  - intros H. inversion H; subst. exact Hr.
Qed.

Definition p_fspec : pst -> op -> res -> pst -> Prop := fspec pst op res p_step.

Theorem lru_linearizable (tbl : list (String.string * lockmode * bool)) :
  (forall o, mode_of tbl o = LockExclusive) ->
  forall (cap : N) (P : nat -> list op) (c : lcfg),
    lreach tbl (linit (p_new cap) P) c -> quiescent pst loc op res c ->
    exists l, linearization p_fspec (p_new cap) (done pst loc op res c) l (shared pst loc op res c).
Proof.
  intros Hx cap P c Hr Hq.
  destruct (exclusive_linearizable pst loc op res p_init p_fin p_mstep (mode_of tbl) Hx _ _ _ Hr Hq)
    as [l [Hp [Hl Ho]]].
  exists l. repeat split; try assumption.
  eapply legal_mono; [|exact Hl]. intros s o r s' H. apply seq_spec_p_step. exact H.
Qed.

(* ---- the pre-fix discipline: Get under the read lock ---- *)
Import String.
Definition prefix_locks : list (string * lockmode * bool) :=
  [("Get", LockShared, true); ("Put", LockExclusive, true)]%string.

(* a cache of capacity 3 holding 3,2,1 (most recent first) *)
Definition s321 : pst :=
  fst (p_step (fst (p_step (fst (p_step (p_new 3) (Put 1 10))) (Put 2 20))) (Put 3 30)).
Definition two_gets (t : nat) : list op :=
  match t with 0%nat => [Get 1] | 1%nat => [Get 2] | _ => [] end.
(* thread 0 makes 8 steps (call, RLock, lookup, test, the first four assignments of List.move),
   then thread 1 runs its Get to the end, then thread 0 finishes *)
Definition bad_schedule : list nat := repeat 0%nat 8 ++ repeat 1%nat 20 ++ repeat 0%nat 20.
Definition bad_final : lcfg :=
  run_sched pst loc op res p_init p_fin p_mstep (mode_of prefix_locks) bad_schedule (linit s321 two_gets).

(* well-formedness the harness also checks: walking the list from the front visits len cells *)
Definition p_wf (s : pst) : bool :=
  Nat.eqb (List.length (p_dump s)) (p_len s) && Nat.eqb (List.length (p_map s)) (p_len s).

Lemma s321_wf : p_wf s321 = true /\ p_dump s321 = [(3, 30); (2, 20); (1, 10)].
Proof. vm_compute. split; reflexivity. Qed.

Theorem concurrent_get_corrupts :
  lreach prefix_locks (linit s321 two_gets) bad_final /\
  List.length (done pst loc op res bad_final) = 2%nat /\
  (forall t, (t < 2)%nat -> th pst loc op res bad_final t = Idle loc op res) /\
  p_wf (shared pst loc op res bad_final) = false /\
  p_dump (shared pst loc op res bad_final) = [(1, 10); (3, 30)].
Proof.
  split; [apply run_sched_reach; constructor|].
  split; [vm_compute; reflexivity|].
  split; [intros t Ht; destruct t as [|[|t]]; [vm_compute; reflexivity|vm_compute; reflexivity|lia]|].
  split; vm_compute; reflexivity.
Qed.
