(* C35/Checker.v — executable entry points for the driver (definitions only). *)
From Coq Require Import List NArith Bool.
From Common Require Import Lock.
From Conc Require Import Lin Cert.
From C35 Require Import Model Gen.
Import ListNotations.
Local Open Scope N_scope.

(* the linearizability checker instantiated with the recency-list specification *)
Definition rspec_eqb (a b : rspec) : bool := (r_cap a =? r_cap b) && pairs_eqb (r_items a) (r_items b).
(* memoized search: Some true is proved sound *)
Definition lru_lin (bud cap : N) (h : list (@orec op res)) : option bool :=
  lin_check_m rspec op res r_step res_eqb rspec_eqb bud (r_new cap) h.
(* plain search: Some true and Some false are both proved *)
Definition lru_lin_complete (bud cap : N) (h : list (@orec op res)) : option bool :=
  lin_check_b rspec op res r_step res_eqb bud (r_new cap) h.

(* certificate check (Conc/Cert.v): the positions of the records in linearization order, found by
   an untrusted search in the driver, are checked here; a passing certificate is proved to make
   the history linearizable *)
Definition lru_cert (cap : N) (h : list (@orec op res)) (p : list nat) : bool :=
  cert_ok rspec op res r_step res_eqb (r_new cap) h p.

(* the same for a history with pending calls: which of them are completed and with which result *)
Definition lru_pcert (cap : N) (h : list (@orec op res)) (pend : list (pcall op)) (inf : N)
           (chosen : list (nat * res)) (p : list nat) : bool :=
  pcert_ok rspec op res r_step res_eqb (r_new cap) h pend inf chosen p.

(* lock modes as read from the Go source *)
Definition lru_mode (o : op) : lockmode := mode_of lru_locks o.
(* evaluated here so that the extracted code does not drag Coq strings along *)
Definition lru_mode_get : lockmode := Eval vm_compute in lru_mode (Get 0).
Definition lru_mode_put : lockmode := Eval vm_compute in lru_mode (Put 0 0).
Definition lru_discipline_ok : bool := Eval vm_compute in forallb exclusive_entry lru_locks.

(* prediction for the lock probe: does a call of the method finish while the harness holds the
   lock exclusively (hold_x = true) or shared (hold_x = false)? *)
Definition probe_runs (m : lockmode) (hold_x : bool) : bool :=
  match m, hold_x with
  | LockNone, _ => true
  | LockShared, false => true
  | _, _ => false
  end.
