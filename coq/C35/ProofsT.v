(* C35/ProofsT.v — the recency list implements "least recently used" as said with time stamps:
   for every sequence of gets and puts RSpec and TSpec return the same results. *)
From Coq Require Import List NArith Bool Arith Lia Permutation Sorted.
From C35 Require Import Model.
Import ListNotations.
Local Open Scope N_scope.

Definition tent := (N * (N * N))%type.          (* key, (value, last use) *)
Definition tkey (e : tent) : N := fst e.
Definition tval (e : tent) : N := fst (snd e).
Definition ttime (e : tent) : N := snd (snd e).
Definition strip (L : list tent) : list (N * N) := map (fun e => (tkey e, tval e)) L.
Definition newer (a b : tent) : Prop := ttime b < ttime a.

(* ---- association lists with unique keys, up to permutation ---- *)
Lemma tfind_in l k x : tfind k l = Some x -> In (k, x) l.
Proof.
  induction l as [|[k' y] l IH]; simpl; [discriminate|].
  destruct (k' =? k) eqn:E; intros H.
  - apply N.eqb_eq in E. inversion H; subst. left; reflexivity.
  - right. apply IH. exact H.
Qed.

Lemma in_tfind l k x : NoDup (map fst l) -> In (k, x) l -> tfind k l = Some x.
Proof.
  induction l as [|[k' y] l IH]; simpl; intros Hnd Hin; [tauto|].
  inversion Hnd; subst. destruct Hin as [Hin|Hin].
  - inversion Hin; subst. rewrite N.eqb_refl. reflexivity.
  - destruct (k' =? k) eqn:E; [|apply IH; assumption].
    apply N.eqb_eq in E. subst. exfalso. apply H1. apply in_map_iff. exists (k, x). auto.
Qed.

Lemma tfind_none l k : tfind k l = None <-> ~ In k (map fst l).
Proof.
  induction l as [|[k' y] l IH]; simpl; [tauto|].
  destruct (k' =? k) eqn:E.
  - apply N.eqb_eq in E. subst. split; [discriminate|]. intros H. exfalso. apply H. left; reflexivity.
  - apply N.eqb_neq in E. rewrite IH. tauto.
Qed.

Lemma tfind_perm l l' k : NoDup (map fst l) -> Permutation l l' -> tfind k l = tfind k l'.
Proof.
  intros Hnd Hp.
  assert (Hnd' : NoDup (map fst l')) by (eapply Permutation_NoDup; [apply Permutation_map; exact Hp|exact Hnd]).
  destruct (tfind k l) as [x|] eqn:E.
  - symmetry. apply in_tfind; [exact Hnd'|]. eapply Permutation_in; [exact Hp|]. apply tfind_in. exact E.
  - symmetry. apply tfind_none. apply tfind_none in E. intros H. apply E.
    eapply Permutation_in; [apply Permutation_map; symmetry; exact Hp|exact H].
Qed.

Lemma tdel_absent l k : ~ In k (map fst l) -> tdel k l = l.
Proof.
  induction l as [|[k' y] l IH]; simpl; intros H; [reflexivity|].
  destruct (k' =? k) eqn:E.
  - apply N.eqb_eq in E. subst. exfalso. apply H. left; reflexivity.
  - f_equal. apply IH. tauto.
Qed.

Lemma tdel_present l k x : NoDup (map fst l) -> In (k, x) l -> Permutation l ((k, x) :: tdel k l).
Proof.
  induction l as [|[k' y] l IH]; simpl; intros Hnd Hin; [tauto|].
  inversion Hnd; subst. destruct Hin as [Hin|Hin].
  - inversion Hin; subst. rewrite N.eqb_refl. reflexivity.
  - destruct (k' =? k) eqn:E.
    + apply N.eqb_eq in E. subst. exfalso. apply H1. apply in_map_iff. exists (k, x). auto.
    + rewrite perm_swap. constructor. apply IH; assumption.
Qed.

Lemma tdel_perm l l' k : NoDup (map fst l) -> Permutation l l' -> Permutation (tdel k l) (tdel k l').
Proof.
  intros Hnd Hp.
  assert (Hnd' : NoDup (map fst l')) by (eapply Permutation_NoDup; [apply Permutation_map; exact Hp|exact Hnd]).
  destruct (tfind k l) as [x|] eqn:E.
  - pose proof (tfind_in _ _ _ E) as Hin.
    pose proof (Permutation_in _ Hp Hin) as Hin'.
    pose proof (tdel_present _ _ _ Hnd Hin) as P1. pose proof (tdel_present _ _ _ Hnd' Hin') as P2.
    apply Permutation_cons_inv with (a := (k, x)). rewrite <- P1, <- P2. exact Hp.
  - apply tfind_none in E. rewrite (tdel_absent _ _ E).
    assert (E' : ~ In k (map fst l')).
    { intros H. apply E. eapply Permutation_in; [apply Permutation_map; symmetry; exact Hp|exact H]. }
    rewrite (tdel_absent _ _ E'). exact Hp.
Qed.

Lemma tset_perm l k x : Permutation (tset k x l) ((k, x) :: tdel k l).
Proof.
  induction l as [|[k' y] l IH]; simpl; [reflexivity|].
  destruct (k' =? k); [reflexivity|]. rewrite perm_swap. constructor. exact IH.
Qed.

Lemma tdel_keys l k : forall z, In z (map fst (tdel k l)) -> In z (map fst l).
Proof.
  induction l as [|[k' y] l IH]; simpl; intros z H; [tauto|].
  destruct (k' =? k); simpl in *; [right; exact H|]. destruct H; [left; assumption|right; apply IH; assumption].
Qed.

Lemma tdel_nodup l k : NoDup (map fst l) -> NoDup (map fst (tdel k l)) /\ ~ In k (map fst (tdel k l)).
Proof.
  induction l as [|[k' y] l IH]; simpl; intros Hnd; [split; [constructor|tauto]|].
  inversion Hnd; subst. destruct (k' =? k) eqn:E.
  - apply N.eqb_eq in E. subst. split; assumption.
  - destruct (IH H2) as [A B]. simpl. split.
    + constructor; [|exact A]. intros H. apply H1. eapply tdel_keys; exact H.
    + apply N.eqb_neq in E. intros [H|H]; [contradiction|]. apply B. exact H.
Qed.

(* ---- the recency list as a time-sorted list ---- *)
Lemma rfind_strip L k : rfind k (strip L) = option_map fst (tfind k L).
Proof.
  induction L as [|[k' [v t]] L IH]; simpl; [reflexivity|].
  unfold tkey, tval. simpl. destruct (k' =? k); [reflexivity|exact IH].
Qed.

Lemma rremove_strip L k : rremove k (strip L) = strip (tdel k L).
Proof.
  induction L as [|[k' [v t]] L IH]; simpl; [reflexivity|].
  unfold tkey, tval. simpl. destruct (k' =? k); [reflexivity|]. simpl. f_equal. exact IH.
Qed.

Lemma strip_length L : length (strip L) = length L.
Proof. apply map_length. Qed.

Lemma removelast_strip L : removelast (strip L) = strip (removelast L).
Proof.
  induction L as [|a L IH]; [reflexivity|]. destruct L as [|b L]; [reflexivity|].
  change (strip (a :: b :: L)) with ((tkey a, tval a) :: strip (b :: L)).
  change (removelast ((tkey a, tval a) :: strip (b :: L))) with ((tkey a, tval a) :: removelast (strip (b :: L))).
  rewrite IH. reflexivity.
Qed.

Lemma sorted_tdel L k : StronglySorted newer L -> StronglySorted newer (tdel k L).
Proof.
  induction 1 as [|a l Hs IH Ha]; simpl; [constructor|].
  destruct a as [k' y]. destruct (k' =? k); [exact Hs|].
  constructor; [exact IH|]. rewrite Forall_forall in *. intros z Hz. apply Ha.
  clear - Hz. induction l as [|[k2 y2] l IH]; simpl in *; [tauto|].
  destruct (k2 =? k); [right; exact Hz|]. destruct Hz; [left; assumption|right; apply IH; assumption].
Qed.

Lemma tdel_in L k z : In z (tdel k L) -> In z L.
Proof.
  induction L as [|[k2 y2] l IH]; simpl; [tauto|].
  destruct (k2 =? k); [intros H; right; exact H|]. intros [H|H]; [left; assumption|right; apply IH; assumption].
Qed.

(* the oldest entry *)
Lemma toldest_spec l k t : toldest l = Some (k, t) ->
  (exists v, In (k, (v, t)) l) /\ forall e, In e l -> t <= ttime e.
Proof.
  revert k t. induction l as [|[k0 [v0 t0]] l IH]; simpl; intros k t H; [discriminate|].
  destruct (toldest l) as [[k' t']|] eqn:E.
  - destruct (IH _ _ eq_refl) as [[v' Hin'] Hmin'].
    destruct (t' <? t0) eqn:Et; inversion H; subst.
    + apply N.ltb_lt in Et. split; [exists v'; right; exact Hin'|].
      intros e [<-|He]; [unfold ttime; simpl; lia|apply Hmin'; exact He].
    + apply N.ltb_ge in Et. split; [exists v0; left; reflexivity|].
      intros e [<-|He]; [unfold ttime; simpl; lia|]. specialize (Hmin' e He). lia.
  - inversion H; subst. split; [exists v0; left; reflexivity|].
    destruct l as [|[k1 [v1 t1]] l]; [|simpl in E; destruct (toldest l) as [[? ?]|]; [destruct (_ <? _)|]; discriminate].
    intros e [<-|[]]. unfold ttime. simpl. lia.
Qed.

Lemma toldest_none l : toldest l = None -> l = [].
Proof.
  destruct l as [|[k0 [v0 t0]] l]; [reflexivity|]. simpl.
  destruct (toldest l) as [[? ?]|]; [destruct (_ <? _)|]; discriminate.
Qed.

(* in a list sorted newest first, the last element is strictly the oldest *)
Lemma sorted_last_oldest L a : StronglySorted newer (L ++ [a]) -> forall e, In e L -> ttime a < ttime e.
Proof.
  induction L as [|b L IH]; simpl; intros Hs e Hin; [destruct Hin|].
  inversion Hs; subst. destruct Hin as [<-|Hin].
  - rewrite Forall_forall in H2. apply (H2 a). apply in_or_app. right. left. reflexivity.
  - apply IH; assumption.
Qed.

Lemma tdel_last L a : NoDup (map fst (L ++ [a])) -> tdel (fst a) (L ++ [a]) = L.
Proof.
  induction L as [|[k y] L IH]; simpl; intros Hnd.
  - destruct a as [k y]. simpl. rewrite N.eqb_refl. reflexivity.
  - inversion Hnd; subst. destruct (k =? fst a) eqn:E.
    + apply N.eqb_eq in E. exfalso. apply H1. rewrite map_app. apply in_or_app. right. left. symmetry. exact E.
    + f_equal. apply IH. exact H2.
Qed.

(* ---- the simulation ---- *)
Definition RT (r : rspec) (t : tspec) : Prop :=
  r_cap r = t_cap t /\
  exists L, r_items r = strip L /\ Permutation (t_ents t) L /\ StronglySorted newer L /\
            Forall (fun e => ttime e < t_now t) L /\ NoDup (map fst L).

Lemma RT_new c : RT (r_new c) (t_new c).
Proof. split; [reflexivity|]. exists []. repeat split; constructor. Qed.

Lemma front_sorted (k v now : N) L :
  StronglySorted newer L -> Forall (fun e => ttime e < now) L -> StronglySorted newer ((k, (v, now)) :: L).
Proof.
  intros Hs Hf. constructor; [exact Hs|]. rewrite Forall_forall in *. intros e He. unfold newer, ttime. simpl.
  apply (Hf e He).
Qed.

Lemma Forall_succ now L : Forall (fun e => ttime e < now) L -> Forall (fun e => ttime e < now + 1) L.
Proof. intros H. rewrite Forall_forall in *. intros e He. specialize (H e He). lia. Qed.

Theorem r_step_t_step r t o : RT r t ->
  RT (fst (r_step r o)) (fst (t_step t o)) /\ (o <> Dump -> snd (r_step r o) = snd (t_step t o)).
Proof.
  intros [Hcap [L [Hit [Hperm [Hs [Hnow Hnd]]]]]].
  assert (HndT : NoDup (map fst (t_ents t))).
  { eapply Permutation_NoDup; [apply Permutation_map; symmetry; exact Hperm|exact Hnd]. }
  assert (Hlen : length (t_ents t) = length (r_items r)).
  { rewrite Hit, strip_length. apply Permutation_length. exact Hperm. }
  (* the common "touch" step: entry k becomes (v, now) at the front *)
  assert (Touch : forall k v,
    RT (mkr (r_cap r) ((k, v) :: rremove k (r_items r)))
       (mkt (t_cap t) (t_now t + 1) (tset k (v, t_now t) (t_ents t)))).
  { intros k v. split; [exact Hcap|]. exists ((k, (v, t_now t)) :: tdel k L). simpl.
    destruct (tdel_nodup L k Hnd) as [Hnd1 Hnd2].
    repeat split.
    - unfold tkey, tval. simpl. f_equal. rewrite Hit. apply rremove_strip.
    - rewrite tset_perm. constructor. apply tdel_perm; assumption.
    - apply front_sorted; [apply sorted_tdel; exact Hs|].
      rewrite Forall_forall in *. intros e He. apply Hnow. eapply tdel_in; exact He.
    - constructor; [unfold ttime; simpl; lia|]. apply Forall_succ.
      rewrite Forall_forall in *. intros e He. apply Hnow. eapply tdel_in; exact He.
    - constructor; assumption. }
  destruct o as [k|k v|]; simpl.
  - (* Get *)
    rewrite Hit, rfind_strip, <- (tfind_perm _ _ k HndT Hperm).
    destruct (tfind k (t_ents t)) as [[v tm]|] eqn:E; simpl.
    + split; [|reflexivity]. rewrite <- Hit. apply Touch.
    + split; [|reflexivity]. split; [exact Hcap|]. exists L. simpl. repeat split; auto. apply Forall_succ. exact Hnow.
  - (* Put *)
    rewrite Hit, rfind_strip, <- (tfind_perm _ _ k HndT Hperm).
    destruct (tfind k (t_ents t)) as [[v0 tm]|] eqn:E; simpl.
    + split; [|reflexivity]. rewrite <- Hit. apply Touch.
    + split; [|reflexivity]. rewrite <- Hit. rewrite Hcap, <- Hlen.
      assert (Hk : ~ In k (map fst L)).
      { apply tfind_none in E. intros H. apply E.
        eapply Permutation_in; [apply Permutation_map; symmetry; exact Hperm|exact H]. }
      destruct (t_cap t <=? N.of_nat (length (t_ents t))) eqn:Efull.
      * (* full: evict *)
        destruct (toldest (t_ents t)) as [[k' t']|] eqn:Eo.
        -- destruct (toldest_spec _ _ _ Eo) as [[v' Hin'] Hmin].
           assert (HinL : In (k', (v', t')) L) by (eapply Permutation_in; eauto).
           assert (HneL : L <> []) by (intros ->; destruct HinL).
           destruct (exists_last HneL) as [L0 [a EL]]. subst L.
           (* the oldest is the last of the recency list *)
           assert (Ea : (k', (v', t')) = a).
           { apply in_app_iff in HinL. destruct HinL as [HinL|[HinL|[]]]; [|symmetry; exact HinL].
             pose proof (sorted_last_oldest _ _ Hs _ HinL) as Hlt.
             assert (Hle : t' <= ttime a).
             { apply Hmin. eapply Permutation_in; [symmetry; exact Hperm|]. apply in_or_app. right. left. reflexivity. }
             unfold ttime in Hlt at 2. simpl in Hlt. lia. }
           assert (Hk' : k' = fst a) by (rewrite <- Ea; reflexivity).
           split; [simpl; congruence|]. exists ((k, (v, t_now t)) :: L0). simpl.
           assert (HsL0 : StronglySorted newer L0).
           { clear - Hs. induction L0 as [|b L0 IH]; simpl in *; [constructor|].
             inversion Hs; subst. constructor; [apply IH; assumption|].
             rewrite Forall_app in H2. apply H2. }
           assert (HnowL0 : Forall (fun e => ttime e < t_now t) L0).
           { rewrite Forall_app in Hnow. apply Hnow. }
           assert (HndL0 : NoDup (map fst L0)).
           { rewrite map_app in Hnd. apply NoDup_remove_1 in Hnd. rewrite app_nil_r in Hnd. exact Hnd. }
           assert (HkL0 : ~ In k (map fst L0)).
           { intros H. apply Hk. rewrite map_app. apply in_or_app. left. exact H. }
           repeat split.
           ++ unfold tkey, tval. simpl. f_equal. rewrite Hit, removelast_strip, removelast_last. reflexivity.
           ++ rewrite tset_perm.
              assert (Hd : Permutation (tdel k' (t_ents t)) L0).
              { rewrite (tdel_perm _ _ k' HndT Hperm). rewrite Hk'. rewrite tdel_last; [reflexivity|exact Hnd]. }
              rewrite (tdel_absent (tdel k' (t_ents t)) k).
              ** constructor. exact Hd.
              ** intros H. apply HkL0. eapply Permutation_in; [apply Permutation_map; exact Hd|exact H].
           ++ apply front_sorted; assumption.
           ++ constructor; [unfold ttime; simpl; lia|apply Forall_succ; exact HnowL0].
           ++ constructor; assumption.
        -- (* nothing to evict: the list is empty *)
           apply toldest_none in Eo. rewrite Eo in *. apply Permutation_nil in Hperm. subst L.
           simpl in Hit. rewrite Hit. simpl.
           split; [simpl; congruence|]. exists [(k, (v, t_now t))]. simpl.
           split; [reflexivity|]. split; [reflexivity|]. split; [repeat constructor|].
           split; [constructor; [unfold ttime; simpl; lia|constructor]|].
           constructor; [intros []|constructor].
      * (* room *)
        split; [simpl; congruence|]. exists ((k, (v, t_now t)) :: L). simpl. repeat split.
        -- unfold tkey, tval. simpl. rewrite Hit. reflexivity.
        -- rewrite tset_perm. rewrite tdel_absent; [constructor; exact Hperm|]. apply tfind_none. exact E.
        -- apply front_sorted; assumption.
        -- constructor; [unfold ttime; simpl; lia|apply Forall_succ; exact Hnow].
        -- constructor; assumption.
  - (* Dump *)
    split; [|intros H; contradiction]. split; [simpl; congruence|]. exists L. repeat split; auto.
Qed.

(* results of Get/Put along any sequence (Dump is not an operation of the cache: it has no
   counterpart in TSpec and is left out) *)
Definition getput (o : op) : bool := match o with Dump => false | _ => true end.

Theorem r_run_t_run ops : forall r t, RT r t -> forallb getput ops = true -> r_run r ops = t_run t ops.
Proof.
  induction ops as [|o ops IH]; intros r t HR Hall; simpl; [reflexivity|].
  simpl in Hall. apply andb_true_iff in Hall. destruct Hall as [Ho Hall].
  destruct (r_step_t_step r t o HR) as [HR' Hres].
  destruct (r_step r o) as [r' x]. destruct (t_step t o) as [t' y]. simpl in *.
  rewrite Hres by (intros ->; discriminate). f_equal. apply IH; assumption.
Qed.
