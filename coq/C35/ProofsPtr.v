(* C35/ProofsPtr.v — the pointer-level model (container/list cells, one Go statement per
   micro-step) refines the map+list model.

   Repr p m: the cells reachable from the sentinel along next pointers are exactly the
   elements of (lst m), front to back, the prev pointers run the same ring backwards, and
   every element of the list owns its cell (list pointer, key, value).  Cells outside the
   ring (evicted elements, unallocated addresses) are unconstrained. *)
From Coq Require Import List NArith Bool Arith Lia Permutation.
From C35 Require Import Model Proofs.
Import ListNotations.
Local Open Scope nat_scope.

(* ------------------------------------------------------------------------------------ *)
(* heap updates *)
Lemma upd_same {A} (f : nat -> A) a v : upd f a v a = v.
Proof. unfold upd. rewrite Nat.eqb_refl. reflexivity. Qed.

Lemma upd_other {A} (f : nat -> A) a v x : x <> a -> upd f a v x = f x.
Proof. unfold upd. intros H. apply Nat.eqb_neq in H. rewrite H. reflexivity. Qed.

Lemma isnil_ROOT : isnil ROOT = false.
Proof. reflexivity. Qed.

Lemma isnil_ge2 a : 2 <= a -> isnil a = false.
Proof. intros H. unfold isnil, NIL. apply Nat.eqb_neq. lia. Qed.

(* ------------------------------------------------------------------------------------ *)
(* chains of next pointers x -> l1 -> ... -> ln -> y, and of prev pointers backwards *)
Fixpoint chain (nx : nat -> nat) (x : nat) (l : list nat) (y : nat) : Prop :=
  match l with
  | [] => nx x = y
  | z :: l' => nx x = z /\ chain nx z l' y
  end.

Fixpoint pchain (pv : nat -> nat) (x : nat) (l : list nat) (y : nat) : Prop :=
  match l with
  | [] => pv y = x
  | z :: l' => pv z = x /\ pchain pv z l' y
  end.

Lemma chain_app nx l1 : forall x z l2 y,
  chain nx x (l1 ++ z :: l2) y <-> chain nx x l1 z /\ chain nx z l2 y.
Proof.
  induction l1 as [|c l1 IH]; intros x z l2 y; simpl; [tauto|]. rewrite IH. tauto.
Qed.

Lemma pchain_app pv l1 : forall x z l2 y,
  pchain pv x (l1 ++ z :: l2) y <-> pchain pv x l1 z /\ pchain pv z l2 y.
Proof.
  induction l1 as [|c l1 IH]; intros x z l2 y; simpl; [tauto|]. rewrite IH. tauto.
Qed.

Lemma chain_frame nx a v l : forall x y, a <> x -> ~ In a l ->
  (chain (upd nx a v) x l y <-> chain nx x l y).
Proof.
  induction l as [|c l IH]; intros x y Hx Hl; simpl.
  - rewrite upd_other by congruence. tauto.
  - assert (Hc : a <> c) by (intros ->; apply Hl; left; reflexivity).
    assert (Hl' : ~ In a l) by (intros H; apply Hl; right; exact H).
    rewrite upd_other by congruence. rewrite (IH c y Hc Hl'). tauto.
Qed.

Lemma pchain_frame pv a v l : forall x y, a <> y -> ~ In a l ->
  (pchain (upd pv a v) x l y <-> pchain pv x l y).
Proof.
  induction l as [|c l IH]; intros x y Hy Hl; simpl.
  - rewrite upd_other by congruence. tauto.
  - assert (Hc : a <> c) by (intros ->; apply Hl; left; reflexivity).
    assert (Hl' : ~ In a l) by (intros H; apply Hl; right; exact H).
    rewrite upd_other by congruence. rewrite (IH c y Hy Hl'). tauto.
Qed.

(* the neighbours of a cell of the chain *)
Lemma chain_next_in nx l1 : forall x e l2 y,
  chain nx x (l1 ++ e :: l2) y -> In (nx e) (l2 ++ [y]).
Proof.
  induction l1 as [|c l1 IH]; intros x e l2 y H; simpl in H.
  - destruct H as [_ H]. destruct l2 as [|z l2]; simpl in *.
    + left. symmetry. exact H.
    + left. symmetry. apply H.
  - destruct H as [_ H]. eapply IH. exact H.
Qed.

Lemma pchain_prev_in pv l1 : forall x e l2 y,
  pchain pv x (l1 ++ e :: l2) y -> In (pv e) (x :: l1).
Proof.
  induction l1 as [|c l1 IH]; intros x e l2 y H; simpl in H.
  - destruct H as [H _]. left. symmetry. exact H.
  - destruct H as [_ H]. right. eapply IH. exact H.
Qed.

Lemma NoDup_mid {A} (l1 : list A) e l2 : NoDup (l1 ++ e :: l2) ->
  ~ In e l1 /\ ~ In e l2 /\ NoDup (l1 ++ l2).
Proof.
  intros H. pose proof (NoDup_remove_2 _ _ _ H) as H2. pose proof (NoDup_remove_1 _ _ _ H) as H1.
  split; [|split; [|exact H1]]; intros Hin; apply H2; apply in_or_app; [left|right]; exact Hin.
Qed.

(* unlinking a cell: e.prev.next = e.next ; e.next.prev = e.prev *)
Lemma chain_unlink nx pv l1 : forall x e l2 y,
  NoDup (x :: l1 ++ e :: l2) ->
  chain nx x (l1 ++ e :: l2) y -> pchain pv x (l1 ++ e :: l2) y ->
  chain (upd nx (pv e) (nx e)) x (l1 ++ l2) y.
Proof.
  induction l1 as [|c l1 IH]; intros x e l2 y Hnd Hc Hp.
  - simpl in *. destruct Hc as [_ Hc]. destruct Hp as [Hp _]. rewrite Hp.
    apply NoDup_cons_iff in Hnd. destruct Hnd as [Hx _].
    destruct l2 as [|z l2]; simpl in *.
    + rewrite Hc. apply upd_same.
    + destruct Hc as [Hc1 Hc2]. rewrite Hc1. split; [apply upd_same|].
      apply chain_frame; [| |exact Hc2].
      * intros E. apply Hx. right. left. symmetry. exact E.
      * intros Hin. apply Hx. right. right. exact Hin.
  - simpl in Hc, Hp. destruct Hc as [Hc1 Hc2]. destruct Hp as [Hp1 Hp2].
    apply NoDup_cons_iff in Hnd. destruct Hnd as [Hx Hnd'].
    change ((c :: l1) ++ l2) with (c :: (l1 ++ l2)). simpl. split.
    + rewrite upd_other; [exact Hc1|].
      pose proof (pchain_prev_in _ _ _ _ _ _ Hp2) as Hin. intros E. apply Hx.
      rewrite E. simpl in Hin. destruct Hin as [Hin|Hin]; [left; exact Hin|].
      right. apply in_or_app. left. exact Hin.
    + apply IH; assumption.
Qed.

Lemma pchain_unlink nx pv l1 : forall x e l2 y,
  NoDup (l1 ++ e :: l2 ++ [y]) ->
  chain nx x (l1 ++ e :: l2) y -> pchain pv x (l1 ++ e :: l2) y ->
  pchain (upd pv (nx e) (pv e)) x (l1 ++ l2) y.
Proof.
  induction l1 as [|c l1 IH]; intros x e l2 y Hnd Hc Hp.
  - simpl in *. destruct Hc as [_ Hc]. destruct Hp as [Hp1 Hp2]. rewrite Hp1.
    apply NoDup_cons_iff in Hnd. destruct Hnd as [He Hnd'].
    destruct l2 as [|z l2]; simpl in *.
    + rewrite Hc. apply upd_same.
    + destruct Hc as [Hc1 Hc2]. destruct Hp2 as [Hp2 Hp3]. rewrite Hc1. split; [apply upd_same|].
      apply NoDup_cons_iff in Hnd'. destruct Hnd' as [Hz Hnd''].
      apply pchain_frame; [| |exact Hp3].
      * intros E. apply Hz. apply in_or_app. right. left. symmetry. exact E.
      * intros Hin. apply Hz. apply in_or_app. left. exact Hin.
  - simpl in Hc, Hp. destruct Hc as [Hc1 Hc2]. destruct Hp as [Hp1 Hp2].
    simpl in Hnd. apply NoDup_cons_iff in Hnd. destruct Hnd as [Hx Hnd'].
    change ((c :: l1) ++ l2) with (c :: (l1 ++ l2)). simpl. split.
    + rewrite upd_other; [exact Hp1|].
      pose proof (chain_next_in _ _ _ _ _ _ Hc2) as Hin. intros E. apply Hx.
      rewrite E. apply in_or_app. right. right. exact Hin.
    + apply IH; assumption.
Qed.

(* ------------------------------------------------------------------------------------ *)
(* running the micro-step machine a given number of steps *)
Fixpoint iter (n : nat) (l : loc) (s : pst) : loc * pst :=
  match n with
  | O => (l, s)
  | S n' => let (l', s') := p_mstep l s in iter n' l' s'
  end.

Lemma iter_add n : forall m l s,
  iter (n + m) l s = let (l', s') := iter n l s in iter m l' s'.
Proof.
  induction n as [|n IH]; intros m l s; simpl; [reflexivity|].
  destruct (p_mstep l s) as [l' s']. apply IH.
Qed.

Lemma iter_trans n m l s l1 s1 l2 s2 :
  iter n l s = (l1, s1) -> iter m l1 s1 = (l2, s2) -> iter (n + m) l s = (l2, s2).
Proof. intros H1 H2. rewrite iter_add, H1. exact H2. Qed.

Lemma iter_done n r s : iter n (LDone r) s = (LDone r, s).
Proof. induction n as [|n IH]; simpl; [reflexivity|exact IH]. Qed.

Lemma iter_pad k n l s r s' : iter k l s = (LDone r, s') -> k <= n -> iter n l s = (LDone r, s').
Proof.
  intros H Hle. replace n with (k + (n - k)) by lia. eapply iter_trans; [exact H|apply iter_done].
Qed.

Lemma body_iter n : forall l s r s', iter n l s = (LDone r, s') -> p_body n l s = Some (r, s').
Proof.
  induction n as [|n IH]; intros l s r s' H.
  - simpl in H. inversion H; subst. reflexivity.
  - destruct (p_fin l) as [r0|] eqn:E.
    + destruct l; try discriminate. rewrite iter_done in H. inversion H; subst. reflexivity.
    + simpl. rewrite E. simpl in H. destruct (p_mstep l s) as [l' s0]. apply IH. exact H.
Qed.

Lemma p_step_iter n o p r p' : iter n (p_init o) p = (LDone r, p') -> n <= 32 ->
  p_step p o = (p', r).
Proof.
  intros H Hle. unfold p_step. rewrite (body_iter 32 _ _ r p'); [reflexivity|].
  eapply iter_pad; eassumption.
Qed.

Lemma iter_S n l s : iter (S n) l s = let (l', s') := p_mstep l s in iter n l' s'.
Proof. reflexivity. Qed.

Ltac red_step :=
  cbn [iter p_mstep p_fin set_nxt set_prv set_own set_val set_map set_len
       p_cap p_map p_nxt p_prv p_own p_key p_val p_len p_fresh].

(* List.move(e, &l.root): the six assignments *)
Lemma mv_exec c mp nx pv ow ky vl ln fr e aft :
  pv e <> e -> pv e <> ROOT -> e <> ROOT ->
  isnil (pv e) = false -> isnil (nx e) = false -> isnil (nx ROOT) = false ->
  iter 6 (LMv 1 e aft) (mkp c mp nx pv ow ky vl ln fr) =
  (after_mtf e aft,
   mkp c mp (upd (upd (upd nx (pv e) (nx e)) e (nx ROOT)) ROOT e)
            (upd (upd (upd pv (nx e) (pv e)) e ROOT) (nx ROOT) e) ow ky vl ln fr).
Proof.
  intros H1 H2 H3 N1 N2 N3.
  red_step. rewrite N1. red_step.
  rewrite (upd_other nx (pv e) (nx e) e) by congruence. rewrite N2. red_step.
  rewrite (upd_other nx (pv e) (nx e) ROOT) by congruence.
  rewrite upd_same. rewrite isnil_ROOT. red_step.
  rewrite (upd_other _ ROOT e e) by congruence. rewrite upd_same. rewrite N3.
  reflexivity.
Qed.

Ltac one_step :=
  rewrite iter_S;
  cbn [p_mstep p_fin set_nxt set_prv set_own set_val set_map set_len
       p_cap p_map p_nxt p_prv p_own p_key p_val p_len p_fresh].

(* delete(c.cache, lastElem.key); c.lruList.Remove(lastElem): List.remove, six statements *)
Lemma rm_exec c mp nx pv ow ky vl ln fr e k v :
  ow e = true -> pv e <> e -> isnil (pv e) = false -> isnil (nx e) = false ->
  iter 8 (LDel e k v) (mkp c mp nx pv ow ky vl ln fr) =
  (LAlloc k v,
   mkp c (mdel (ky e) mp) (upd (upd nx (pv e) (nx e)) e NIL) (upd (upd pv (nx e) (pv e)) e NIL)
       (upd ow e false) ky vl (pred ln) fr).
Proof.
  intros HO H1 N1 N2.
  red_step. rewrite HO. red_step. rewrite N1. red_step.
  rewrite (upd_other nx (pv e) (nx e) e) by congruence. rewrite N2.
  reflexivity.
Qed.

(* &Element{...}; List.insert(e, &l.root), six statements; c.cache[key] = e *)
Lemma push_exec c mp nx pv ow ky vl ln fr k v :
  fr <> ROOT -> isnil (nx ROOT) = false ->
  iter 8 (LAlloc k v) (mkp c mp nx pv ow ky vl ln fr) =
  (LDone RUnit,
   mkp c (mset k fr mp)
       (upd (upd (upd nx fr NIL) fr (nx ROOT)) ROOT fr)
       (upd (upd (upd pv fr NIL) fr ROOT) (nx ROOT) fr)
       (upd (upd ow fr false) fr true) (upd ky fr k) (upd vl fr v) (S ln) (S fr)).
Proof.
  intros H1 N1.
  red_step. rewrite (upd_other nx fr NIL ROOT) by congruence.
  rewrite upd_same. rewrite isnil_ROOT. red_step.
  rewrite (upd_other _ ROOT fr fr) by congruence. rewrite upd_same. rewrite N1.
  reflexivity.
Qed.

(* ------------------------------------------------------------------------------------ *)
(* the ring ROOT -> es -> ROOT under the three list surgeries *)
Lemma NoDup_rot {A} (x : A) l : NoDup (x :: l) -> NoDup (l ++ [x]).
Proof. intros H. eapply Permutation_NoDup; [apply Permutation_cons_append|exact H]. Qed.

Lemma ring_rm nx pv l1 e l2 :
  NoDup (ROOT :: l1 ++ e :: l2) ->
  chain nx ROOT (l1 ++ e :: l2) ROOT -> pchain pv ROOT (l1 ++ e :: l2) ROOT ->
  chain (upd (upd nx (pv e) (nx e)) e NIL) ROOT (l1 ++ l2) ROOT /\
  pchain (upd (upd pv (nx e) (pv e)) e NIL) ROOT (l1 ++ l2) ROOT.
Proof.
  intros Hnd Hc Hp.
  pose proof Hnd as Hnd0. apply NoDup_cons_iff in Hnd0. destruct Hnd0 as [HR Hnd1].
  destruct (NoDup_mid _ _ _ Hnd1) as [He1 [He2 _]].
  assert (HeR : e <> ROOT).
  { intros E. apply HR. rewrite <- E. apply in_or_app. right. left. reflexivity. }
  assert (He : ~ In e (l1 ++ l2)).
  { intros Hin. apply in_app_or in Hin. tauto. }
  split.
  - apply chain_frame; [exact HeR|exact He|]. apply chain_unlink; assumption.
  - apply pchain_frame; [exact HeR|exact He|]. apply pchain_unlink; try assumption.
    apply NoDup_rot in Hnd. rewrite <- app_assoc in Hnd. exact Hnd.
Qed.

Lemma ring_mtf nx pv f t e l2 :
  NoDup (ROOT :: (f :: t) ++ e :: l2) ->
  chain nx ROOT ((f :: t) ++ e :: l2) ROOT -> pchain pv ROOT ((f :: t) ++ e :: l2) ROOT ->
  chain (upd (upd (upd nx (pv e) (nx e)) e (nx ROOT)) ROOT e) ROOT (e :: (f :: t) ++ l2) ROOT /\
  pchain (upd (upd (upd pv (nx e) (pv e)) e ROOT) (nx ROOT) e) ROOT (e :: (f :: t) ++ l2) ROOT.
Proof.
  intros Hnd Hc Hp.
  pose proof Hnd as Hnd0. apply NoDup_cons_iff in Hnd0. destruct Hnd0 as [HR Hnd1].
  destruct (NoDup_mid _ _ _ Hnd1) as [He1 [He2 Hnd2]].
  assert (HeR : e <> ROOT).
  { intros E. apply HR. rewrite <- E. apply in_or_app. right. left. reflexivity. }
  assert (He : ~ In e ((f :: t) ++ l2)).
  { intros Hin. apply in_app_or in Hin. tauto. }
  assert (Hf : nx ROOT = f) by (simpl in Hc; apply Hc).
  pose proof (chain_unlink _ _ _ _ _ _ _ Hnd Hc Hp) as Hc'.
  assert (Hnd' : NoDup ((f :: t) ++ e :: l2 ++ [ROOT])).
  { apply NoDup_rot in Hnd. rewrite <- app_assoc in Hnd. exact Hnd. }
  pose proof (pchain_unlink _ _ _ _ _ _ _ Hnd' Hc Hp) as Hp'.
  rewrite Hf.
  simpl in Hc', Hp', He, HR, Hnd2. destruct Hc' as [Hc1 Hc2]. destruct Hp' as [Hp1 Hp2].
  apply NoDup_cons_iff in Hnd2. destruct Hnd2 as [Hft _].
  assert (HfR : f <> ROOT) by (intros E; apply HR; left; exact E).
  assert (Hfe : f <> e) by (intros E; apply He; left; exact E).
  assert (HRt : ~ In ROOT (t ++ l2)) by (intros Hin; apply HR; right; apply in_app_or in Hin;
    apply in_or_app; destruct Hin; [left; assumption|right; right; assumption]).
  assert (Het : ~ In e (t ++ l2)) by (intros Hin; apply He; right; exact Hin).
  split.
  - simpl. split; [apply upd_same|]. split.
    + rewrite upd_other by congruence. apply upd_same.
    + apply chain_frame; [congruence|exact HRt|].
      apply chain_frame; [congruence|exact Het|]. exact Hc2.
  - simpl. split; [|split].
    + rewrite upd_other by congruence. apply upd_same.
    + apply upd_same.
    + apply pchain_frame; [exact HfR|exact Hft|].
      apply pchain_frame; [exact HeR|exact Het|]. exact Hp2.
Qed.

Lemma ring_push nx pv es e :
  NoDup (ROOT :: es) -> e <> ROOT -> ~ In e es ->
  chain nx ROOT es ROOT -> pchain pv ROOT es ROOT ->
  chain (upd (upd (upd nx e NIL) e (nx ROOT)) ROOT e) ROOT (e :: es) ROOT /\
  pchain (upd (upd (upd pv e NIL) e ROOT) (nx ROOT) e) ROOT (e :: es) ROOT.
Proof.
  intros Hnd HeR He Hc Hp. apply NoDup_cons_iff in Hnd. destruct Hnd as [HR Hnd].
  destruct es as [|f t]; simpl in Hc, Hp.
  - rewrite Hc. simpl. split; split.
    + apply upd_same.
    + rewrite upd_other by congruence. apply upd_same.
    + rewrite upd_other by congruence. apply upd_same.
    + apply upd_same.
  - destruct Hc as [Hc1 Hc2]. destruct Hp as [Hp1 Hp2]. rewrite Hc1.
    apply NoDup_cons_iff in Hnd. destruct Hnd as [Hft _].
    assert (HfR : f <> ROOT) by (intros E; apply HR; left; exact E).
    assert (Hfe : f <> e) by (intros E; apply He; left; exact E).
    assert (HRt : ~ In ROOT t) by (intros Hin; apply HR; right; exact Hin).
    assert (Het : ~ In e t) by (intros Hin; apply He; right; exact Hin).
    simpl. split; (split; [|split]).
    + apply upd_same.
    + rewrite upd_other by congruence. apply upd_same.
    + apply chain_frame; [congruence|exact HRt|].
      apply chain_frame; [congruence|exact Het|].
      apply chain_frame; [congruence|exact Het|]. exact Hc2.
    + rewrite upd_other by congruence. apply upd_same.
    + apply upd_same.
    + apply pchain_frame; [exact HfR|exact Hft|].
      apply pchain_frame; [exact HeR|exact Het|].
      apply pchain_frame; [exact HeR|exact Het|]. exact Hp2.
Qed.

(* ------------------------------------------------------------------------------------ *)
(* list-level functions at a known position *)
Lemma lremove_mid l1 : forall x l2, ~ In (e_id x) (map e_id l1) ->
  lremove (e_id x) (l1 ++ x :: l2) = l1 ++ l2.
Proof.
  induction l1 as [|y l1 IH]; intros x l2 H; simpl.
  - rewrite Nat.eqb_refl. reflexivity.
  - simpl in H. destruct (Nat.eqb (e_id y) (e_id x)) eqn:E.
    + apply Nat.eqb_eq in E. tauto.
    + f_equal. apply IH. tauto.
Qed.

Lemma lsetval_mid l1 : forall x l2 v, ~ In (e_id x) (map e_id l1) ->
  lsetval (e_id x) v (l1 ++ x :: l2) = l1 ++ mke (e_id x) (e_key x) v :: l2.
Proof.
  induction l1 as [|y l1 IH]; intros x l2 v H; simpl.
  - rewrite Nat.eqb_refl. reflexivity.
  - simpl in H. destruct (Nat.eqb (e_id y) (e_id x)) eqn:E.
    + apply Nat.eqb_eq in E. tauto.
    + f_equal. apply IH. tauto.
Qed.

Lemma in_mid {A} (z x : A) l1 l2 : In z (x :: l1 ++ l2) <-> In z (l1 ++ x :: l2).
Proof. simpl. rewrite !in_app_iff. simpl. tauto. Qed.

(* ------------------------------------------------------------------------------------ *)
(* the representation predicate *)
Definition Repr (p : pst) (m : lru) : Prop :=
  p_cap p = cap m /\ p_map p = cache m /\ p_fresh p = fresh m /\ p_len p = length (lst m) /\
  2 <= fresh m /\
  (forall x, In x (lst m) -> 2 <= e_id x < fresh m) /\
  chain (p_nxt p) ROOT (map e_id (lst m)) ROOT /\
  pchain (p_prv p) ROOT (map e_id (lst m)) ROOT /\
  (forall x, In x (lst m) ->
     p_own p (e_id x) = true /\ p_key p (e_id x) = e_key x /\ p_val p (e_id x) = e_val x).

Ltac projs :=
  cbn [p_cap p_map p_nxt p_prv p_own p_key p_val p_len p_fresh cap cache lst fresh] in *.
Ltac splits := repeat match goal with |- _ /\ _ => split end.

Lemma Repr_new : forall c, Repr (p_new c) (m_new c).
Proof.
  intros c. unfold Repr, p_new, m_new. projs. splits; try reflexivity.
  - intros x [].
  - intros x [].
Qed.

Lemma ids_ge2 l fr : (forall x, In x l -> 2 <= e_id x < fr) ->
  forall i, In i (map e_id l) -> 2 <= i < fr.
Proof. intros H i Hi. apply in_map_iff in Hi. destruct Hi as [x [<- Hx]]. apply H. exact Hx. Qed.

Lemma ids_nodup_root l fr : (forall x, In x l -> 2 <= e_id x < fr) -> NoDup (map e_id l) ->
  NoDup (ROOT :: map e_id l).
Proof.
  intros H Hnd. constructor; [|exact Hnd]. intros Hin. apply (ids_ge2 _ _ H) in Hin.
  unfold ROOT in Hin. lia.
Qed.

(* ------------------------------------------------------------------------------------ *)
(* List.MoveToFront *)
Lemma mtf_exec p m x aft : Repr p m -> NoDup (map e_id (lst m)) -> In x (lst m) ->
  exists n p', n <= 7 /\ iter n (LMtf (e_id x) aft) p = (after_mtf (e_id x) aft, p') /\
    Repr p' (mkl (cap m) (cache m) (x :: lremove (e_id x) (lst m)) (fresh m)).
Proof.
  intros HR Hnd Hin. destruct (in_split _ _ Hin) as [l1 [l2 El]].
  destruct m as [cp ch ls fr]. destruct p as [c mp nx pv ow ky vl ln f0].
  unfold Repr in *. projs. subst ls.
  destruct HR as (Hcap & Hmap & Hfr & Hlen & H2 & Hrng & Hc & Hp & Hcell).
  pose proof (ids_ge2 _ _ Hrng) as Hge.
  pose proof (ids_nodup_root _ _ Hrng Hnd) as HndR.
  rewrite map_app in Hnd, Hc, Hp, Hge, HndR. cbn [map] in Hnd, Hc, Hp, Hge, HndR.
  assert (Hx1 : ~ In (e_id x) (map e_id l1)).
  { apply NoDup_mid in Hnd. tauto. }
  rewrite (lremove_mid _ _ _ Hx1).
  destruct (Hcell x Hin) as [Hown _].
  destruct l1 as [|y l1].
  - exists 1, (mkp c mp nx pv ow ky vl ln f0). split; [lia|]. split.
    + one_step. rewrite Hown. simpl in Hc. destruct Hc as [Hc _]. rewrite Hc, Nat.eqb_refl.
      reflexivity.
    + projs. simpl app in *. splits; assumption.
  - cbn [map] in *. set (e := e_id x) in *. set (f := e_id y) in *. set (t := map e_id l1) in *.
    set (t2 := map e_id l2) in *.
    assert (Hf : nx ROOT = f) by (simpl in Hc; apply Hc).
    assert (Hpe : In (pv e) (f :: t)).
    { simpl in Hp. destruct Hp as [_ Hp]. eapply pchain_prev_in. exact Hp. }
    assert (Hne : In (nx e) (t2 ++ [ROOT])).
    { eapply chain_next_in. exact Hc. }
    assert (He2 : 2 <= e) by (apply Hge; apply in_or_app; right; left; reflexivity).
    assert (Hpe2 : 2 <= pv e) by (apply Hge; apply in_or_app; left; exact Hpe).
    assert (Hf2 : 2 <= f) by (apply Hge; left; reflexivity).
    assert (Hfe : f <> e) by (intros E; apply Hx1; left; exact E).
    exists 7.
    exists (mkp c mp (upd (upd (upd nx (pv e) (nx e)) e (nx ROOT)) ROOT e)
                     (upd (upd (upd pv (nx e) (pv e)) e ROOT) (nx ROOT) e) ow ky vl ln f0).
    split; [lia|]. split.
    + one_step. rewrite Hown, Hf. apply Nat.eqb_neq in Hfe. rewrite Hfe. cbn [negb orb].
      rewrite <- Hf. apply mv_exec.
      * intros E. apply Hx1. rewrite <- E. exact Hpe.
      * unfold ROOT. lia.
      * unfold ROOT. lia.
      * apply isnil_ge2. exact Hpe2.
      * apply in_app_or in Hne. destruct Hne as [Hne|[<-|[]]]; [|apply isnil_ROOT].
        apply isnil_ge2. apply Hge. apply in_or_app. right. right. exact Hne.
      * rewrite Hf. apply isnil_ge2. exact Hf2.
    + projs. destruct (ring_mtf nx pv f t e t2 HndR Hc Hp) as [Hc' Hp'].
      splits; try assumption.
      * rewrite Hlen. simpl. rewrite !app_length. simpl. lia.
      * intros z Hz. apply Hrng. apply (in_mid z x (y :: l1) l2). exact Hz.
      * cbn [map]. rewrite map_app. exact Hc'.
      * cbn [map]. rewrite map_app. exact Hp'.
      * intros z Hz. apply Hcell. apply (in_mid z x (y :: l1) l2). exact Hz.
Qed.

(* elem.Value.value = value *)
Lemma setval_repr p m x v : Repr p m -> NoDup (map e_id (lst m)) -> In x (lst m) ->
  let l' := lsetval (e_id x) v (lst m) in
  Repr (set_val p (e_id x) v) (mkl (cap m) (cache m) l' (fresh m)) /\
  In (mke (e_id x) (e_key x) v) l' /\ NoDup (map e_id l').
Proof.
  intros HR Hnd Hin. destruct (in_split _ _ Hin) as [l1 [l2 El]].
  destruct m as [cp ch ls fr]. destruct p as [c mp nx pv ow ky vl ln f0].
  unfold Repr, set_val in *. projs. subst ls.
  destruct HR as (Hcap & Hmap & Hfr & Hlen & H2 & Hrng & Hc & Hp & Hcell).
  assert (Hx : ~ In (e_id x) (map e_id l1) /\ ~ In (e_id x) (map e_id l2)).
  { rewrite map_app in Hnd. cbn [map] in Hnd. apply NoDup_mid in Hnd. tauto. }
  destruct Hx as [Hx1 Hx2].
  rewrite (lsetval_mid _ _ _ _ Hx1). cbv zeta.
  assert (Eids : map e_id (l1 ++ mke (e_id x) (e_key x) v :: l2) = map e_id (l1 ++ x :: l2)).
  { rewrite !map_app. reflexivity. }
  split; [|split].
  - splits; try assumption.
    + rewrite Hlen, !app_length. reflexivity.
    + intros z Hz. apply in_app_or in Hz. destruct Hz as [Hz|[<-|Hz]].
      * apply Hrng. apply in_or_app. left. exact Hz.
      * cbn [e_id]. apply Hrng. exact Hin.
      * apply Hrng. apply in_or_app. right. right. exact Hz.
    + rewrite Eids. exact Hc.
    + rewrite Eids. exact Hp.
    + intros z Hz. apply in_app_or in Hz. destruct Hz as [Hz|[<-|Hz]].
      * assert (Hne : e_id z <> e_id x).
        { intros E. apply Hx1. rewrite <- E. apply in_map. exact Hz. }
        rewrite upd_other by exact Hne. apply Hcell. apply in_or_app. left. exact Hz.
      * cbn [e_id e_key e_val]. rewrite upd_same. destruct (Hcell x Hin) as (A & B & _).
        splits; [exact A|exact B|reflexivity].
      * assert (Hne : e_id z <> e_id x).
        { intros E. apply Hx2. rewrite <- E. apply in_map. exact Hz. }
        rewrite upd_other by exact Hne. apply Hcell. apply in_or_app. right. right. exact Hz.
  - apply in_or_app. right. left. reflexivity.
  - rewrite Eids. exact Hnd.
Qed.

(* delete(c.cache, lastElem.key); c.lruList.Remove(lastElem) *)
Lemma evict_exec p m l' x k v : Repr p m -> NoDup (map e_id (lst m)) -> lst m = l' ++ [x] ->
  exists p', iter 8 (LDel (e_id x) k v) p = (LAlloc k v, p') /\
    Repr p' (mkl (cap m) (mdel (e_key x) (cache m)) l' (fresh m)) /\
    p_prv p ROOT = e_id x.
Proof.
  intros HR Hnd El.
  destruct m as [cp ch ls fr]. destruct p as [c mp nx pv ow ky vl ln f0].
  unfold Repr in *. projs. subst ls.
  destruct HR as (Hcap & Hmap & Hfr & Hlen & H2 & Hrng & Hc & Hp & Hcell).
  pose proof (ids_ge2 _ _ Hrng) as Hge.
  pose proof (ids_nodup_root _ _ Hrng Hnd) as HndR.
  rewrite map_app in Hnd, Hc, Hp, Hge, HndR. cbn [map] in Hnd, Hc, Hp, Hge, HndR.
  assert (Hin : In x (l' ++ [x])) by (apply in_or_app; right; left; reflexivity).
  destruct (Hcell x Hin) as (Hown & Hkey & _).
  set (e := e_id x) in *. set (t := map e_id l') in *.
  assert (Hx1 : ~ In e t) by (apply NoDup_mid in Hnd; tauto).
  assert (He2 : 2 <= e) by (apply Hge; apply in_or_app; right; left; reflexivity).
  assert (Hpe : In (pv e) (ROOT :: t)) by (eapply pchain_prev_in; exact Hp).
  assert (Hne : nx e = ROOT).
  { pose proof (chain_next_in _ _ _ _ _ _ Hc) as H. simpl in H. destruct H as [H|[]]. symmetry. exact H. }
  assert (HpR : pv ROOT = e).
  { apply pchain_app in Hp. destruct Hp as [_ Hp]. exact Hp. }
  exists (mkp c (mdel (ky e) mp) (upd (upd nx (pv e) (nx e)) e NIL) (upd (upd pv (nx e) (pv e)) e NIL)
              (upd ow e false) ky vl (pred ln) f0).
  split; [|split; [|exact HpR]].
  - apply rm_exec.
    + exact Hown.
    + intros E. rewrite E in Hpe. destruct Hpe as [Hpe|Hpe]; [unfold ROOT in Hpe; lia|tauto].
    + destruct Hpe as [<-|Hpe]; [apply isnil_ROOT|]. apply isnil_ge2. apply Hge.
      apply in_or_app. left. exact Hpe.
    + rewrite Hne. apply isnil_ROOT.
  - projs. destruct (ring_rm nx pv t e [] HndR Hc Hp) as [Hc' Hp']. rewrite app_nil_r in Hc', Hp'.
    splits; try assumption.
    + rewrite Hkey, Hmap. reflexivity.
    + rewrite Hlen, app_length. simpl. lia.
    + intros z Hz. apply Hrng. apply in_or_app. left. exact Hz.
    + intros z Hz.
      assert (Hne' : e_id z <> e).
      { intros E. apply Hx1. rewrite <- E. apply in_map. exact Hz. }
      rewrite upd_other by exact Hne'. apply Hcell. apply in_or_app. left. exact Hz.
Qed.

(* newElem := c.lruList.PushFront(newEntry); c.cache[key] = newElem *)
Lemma push_repr p m k v : Repr p m -> NoDup (map e_id (lst m)) ->
  exists p', iter 8 (LAlloc k v) p = (LDone RUnit, p') /\
    Repr p' (mkl (cap m) (mset k (fresh m) (cache m)) (mke (fresh m) k v :: lst m) (S (fresh m))).
Proof.
  intros HR Hnd.
  destruct m as [cp ch ls fr]. destruct p as [c mp nx pv ow ky vl ln f0].
  unfold Repr in *. projs.
  destruct HR as (Hcap & Hmap & Hfr & Hlen & H2 & Hrng & Hc & Hp & Hcell). subst f0.
  pose proof (ids_ge2 _ _ Hrng) as Hge.
  pose proof (ids_nodup_root _ _ Hrng Hnd) as HndR.
  assert (HfR : fr <> ROOT) by (unfold ROOT; lia).
  assert (Hfl : ~ In fr (map e_id ls)) by (intros Hin; apply Hge in Hin; lia).
  exists (mkp c (mset k fr mp)
       (upd (upd (upd nx fr NIL) fr (nx ROOT)) ROOT fr)
       (upd (upd (upd pv fr NIL) fr ROOT) (nx ROOT) fr)
       (upd (upd ow fr false) fr true) (upd ky fr k) (upd vl fr v) (S ln) (S fr)).
  split.
  - apply push_exec; [exact HfR|].
    destruct ls as [|y ls]; simpl in Hc.
    + rewrite Hc. apply isnil_ROOT.
    + destruct Hc as [Hc _]. rewrite Hc. apply isnil_ge2. apply Hge. left. reflexivity.
  - projs. destruct (ring_push nx pv (map e_id ls) fr HndR HfR Hfl Hc Hp) as [Hc' Hp'].
    splits; try assumption.
    + rewrite Hmap. reflexivity.
    + reflexivity.
    + simpl. rewrite Hlen. reflexivity.
    + lia.
    + intros z [<-|Hz]; [cbn [e_id]; lia|]. specialize (Hrng z Hz). lia.
    + intros z [<-|Hz].
      * cbn [e_id e_key e_val]. rewrite !upd_same. splits; reflexivity.
      * assert (Hne : e_id z <> fr) by (specialize (Hrng z Hz); lia).
        rewrite !upd_other by exact Hne. apply Hcell. exact Hz.
Qed.

(* the harness dump *)
Lemma walk_S f s p : walk (S f) s p =
  if Nat.eqb p ROOT || isnil p then [] else (p_key s p, p_val s p) :: walk f s (p_nxt s p).
Proof. reflexivity. Qed.

Lemma walk_chain s l : forall x, chain (p_nxt s) x (map e_id l) ROOT ->
  (forall z, In z l -> 2 <= e_id z /\ p_key s (e_id z) = e_key z /\ p_val s (e_id z) = e_val z) ->
  walk (S (length l)) s (p_nxt s x) = map kv l.
Proof.
  induction l as [|a l IH]; intros x Hc Hz; simpl in Hc.
  - rewrite Hc. reflexivity.
  - destruct Hc as [Hc1 Hc2]. rewrite Hc1. cbn [length]. rewrite walk_S.
    destruct (Hz a (or_introl eq_refl)) as (Ha & Hk & Hv).
    assert (E1 : Nat.eqb (e_id a) ROOT = false) by (apply Nat.eqb_neq; unfold ROOT; lia).
    rewrite E1, (isnil_ge2 _ Ha). cbn [orb]. rewrite Hk, Hv. cbn [map]. f_equal.
    apply IH; [exact Hc2|]. intros z Hin. apply Hz. right. exact Hin.
Qed.

(* ------------------------------------------------------------------------------------ *)
(* every method of the pointer-level model refines the map+list model *)
Theorem p_step_refines : forall p m o, Repr p m -> minv m ->
  Repr (fst (p_step p o)) (fst (m_step m o)) /\ snd (p_step p o) = snd (m_step m o).
Proof.
  intros p m o HR Hinv. pose proof (mi_ids _ Hinv) as Hnd.
  pose proof HR as (Hcap & Hmap & Hfr & Hlen & H2 & Hrng & Hc & Hp & Hcell).
  destruct o as [k|k v|]; unfold m_step.
  - (* Get *)
    destruct (mget k (cache m)) as [i|] eqn:Eg.
    + destruct (mget_elem _ _ _ Hinv Eg) as [x [Hin [Ei Ek]]]. subst i.
      destruct (mtf_exec p m x AGet HR Hnd Hin) as [n [p' [Hn [Hit HR']]]].
      assert (Hrun : iter (1 + (n + 1)) (LGet0 k) p = (LDone (RVal (p_val p' (e_id x))), p')).
      { eapply iter_trans; [|eapply iter_trans; [exact Hit|reflexivity]].
        cbn [iter p_mstep]. rewrite Hmap, Eg. reflexivity. }
      rewrite (p_step_iter _ (Get k) _ _ _ Hrun) by lia.
      unfold move_to_front. rewrite (in_lfind _ _ Hnd Hin). cbn [fst snd lfind].
      rewrite Nat.eqb_refl. split; [exact HR'|].
      destruct HR' as (_ & _ & _ & _ & _ & _ & _ & _ & Hcell').
      destruct (Hcell' x (or_introl eq_refl)) as (_ & _ & Hv). rewrite Hv. reflexivity.
    + assert (Hrun : iter 1 (LGet0 k) p = (LDone (RVal 0%N), p)).
      { cbn [iter p_mstep]. rewrite Hmap, Eg. reflexivity. }
      rewrite (p_step_iter _ (Get k) _ _ _ Hrun) by lia. cbn [fst snd]. split; [exact HR|reflexivity].
  - (* Put *)
    destruct (mget k (cache m)) as [i|] eqn:Eg.
    + destruct (mget_elem _ _ _ Hinv Eg) as [x [Hin [Ei Ek]]]. subst i.
      destruct (setval_repr p m x v HR Hnd Hin) as [HR1 [Hin1 Hnd1]].
      set (x' := mke (e_id x) (e_key x) v) in *.
      set (m1 := mkl (cap m) (cache m) (lsetval (e_id x) v (lst m)) (fresh m)) in *.
      destruct (mtf_exec _ m1 x' APut HR1 Hnd1 Hin1) as [n [p' [Hn [Hit HR']]]].
      assert (Hrun : iter (2 + n) (LPut0 k v) p = (LDone RUnit, p')).
      { eapply iter_trans; [|exact Hit].
        cbn [iter p_mstep]. rewrite Hmap, Eg. reflexivity. }
      rewrite (p_step_iter _ (Put k v) _ _ _ Hrun) by lia.
      pose proof (in_lfind _ _ Hnd1 Hin1) as Hlf. unfold x', m1 in Hlf. cbn [e_id lst] in Hlf.
      unfold move_to_front. rewrite Hlf. cbn [fst snd].
      split; [exact HR'|reflexivity].
    + assert (Hfull : (p_cap p <=? N.of_nat (length (p_map p)))%N =
                      (cap m <=? N.of_nat (length (cache m)))%N) by (rewrite Hcap, Hmap; reflexivity).
      destruct (cap m <=? N.of_nat (length (cache m)))%N eqn:Efull.
      * destruct (back (lst m)) as [x|] eqn:Eb.
        -- destruct (back_spec _ _ Eb) as [l' El].
           destruct (evict_exec p m l' x k v HR Hnd El) as [p1 [Hit1 [HR1 Hpv]]].
           assert (Hrm : lremove (e_id x) (lst m) = l').
           { rewrite El. apply lremove_last. rewrite <- El. exact Hnd. }
           rewrite Hrm.
           set (m1 := mkl (cap m) (mdel (e_key x) (cache m)) l' (fresh m)) in *.
           assert (Hnd1 : NoDup (map e_id (lst m1))).
           { simpl. rewrite El, map_app in Hnd. apply NoDup_remove_1 in Hnd.
             rewrite app_nil_r in Hnd. exact Hnd. }
           destruct (push_repr p1 m1 k v HR1 Hnd1) as [p2 [Hit2 HR2]].
           assert (Hlen0 : Nat.eqb (p_len p) 0 = false).
           { apply Nat.eqb_neq. rewrite Hlen, El, app_length. simpl. lia. }
           assert (Hnil : isnil (p_prv p ROOT) = false).
           { rewrite Hpv. apply isnil_ge2. apply Hrng. rewrite El. apply in_or_app. right. left. reflexivity. }
           assert (Hrun : iter (3 + (8 + 8)) (LPut0 k v) p = (LDone RUnit, p2)).
           { eapply iter_trans; [|eapply iter_trans; [exact Hit1|exact Hit2]].
             cbn [iter p_mstep]. rewrite Hmap, Eg. cbn [iter p_mstep]. rewrite Hfull.
             cbn [iter p_mstep]. rewrite Hlen0, Hnil, Hpv. reflexivity. }
           rewrite (p_step_iter _ (Put k v) _ _ _ Hrun) by lia. cbn [fst snd].
           split; [exact HR2|reflexivity].
        -- apply back_none in Eb.
           destruct (push_repr p m k v HR Hnd) as [p2 [Hit2 HR2]].
           assert (Hlen0 : Nat.eqb (p_len p) 0 = true).
           { rewrite Hlen, Eb. reflexivity. }
           assert (Hrun : iter (3 + 8) (LPut0 k v) p = (LDone RUnit, p2)).
           { eapply iter_trans; [|exact Hit2].
             cbn [iter p_mstep]. rewrite Hmap, Eg. cbn [iter p_mstep]. rewrite Hfull.
             cbn [iter p_mstep]. rewrite Hlen0. reflexivity. }
           rewrite (p_step_iter _ (Put k v) _ _ _ Hrun) by lia. cbn [fst snd].
           split; [exact HR2|reflexivity].
      * destruct (push_repr p m k v HR Hnd) as [p2 [Hit2 HR2]].
        assert (Hrun : iter (2 + 8) (LPut0 k v) p = (LDone RUnit, p2)).
        { eapply iter_trans; [|exact Hit2].
          cbn [iter p_mstep]. rewrite Hmap, Eg. cbn [iter p_mstep]. rewrite Hfull.
          reflexivity. }
        rewrite (p_step_iter _ (Put k v) _ _ _ Hrun) by lia. cbn [fst snd].
        split; [exact HR2|reflexivity].
  - (* Dump *)
    assert (Hrun : iter 1 LDump p = (LDone (RList (p_dump p)), p)) by reflexivity.
    rewrite (p_step_iter _ Dump _ _ _ Hrun) by lia. cbn [fst snd]. split; [exact HR|].
    f_equal. unfold p_dump. rewrite Hlen. apply walk_chain; [exact Hc|].
    intros z Hz. destruct (Hcell z Hz) as (_ & A & B). specialize (Hrng z Hz). splits; [lia|exact A|exact B].
Qed.

Corollary p_run_refines : forall ops p m, Repr p m -> minv m -> p_run p ops = m_run m ops.
Proof.
  induction ops as [|o ops IH]; intros p m HR Hinv; simpl; [reflexivity|].
  destruct (p_step_refines p m o HR Hinv) as [A B].
  destruct (m_step_refines m o Hinv) as [C _].
  destruct (p_step p o) as [p' r]. destruct (m_step m o) as [m' r']. simpl in *.
  subst. f_equal. apply IH; assumption.
Qed.

Corollary p_run_new : forall c ops, p_run (p_new c) ops = m_run (m_new c) ops.
Proof. intros c ops. apply p_run_refines; [apply Repr_new|apply minv_new]. Qed.
