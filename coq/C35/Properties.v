(* C35/Properties.v *)
From Coq Require Import List NArith Bool.
From Common Require Import Lock.
From C35 Require Import Model Gen Checker Proofs.

(* the lock discipline read from lib/utils/lru-cache/lru_cache.go on this run: every method
   takes the exclusive lock first and releases it by defer *)
Example C35_discipline_ok : forallb exclusive_entry lru_locks = true.
Proof. reflexivity. Qed.
