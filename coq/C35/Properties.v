(* C35/Properties.v — property C35: shared LRU caches are safe under concurrency.
   Only statements, each closed by `exact <lemma>`, with Print Assumptions beneath. *)
From Coq Require Import List NArith ZArith Bool.
From Common Require Import Lock.
From Conc Require Import Lin Cert LockedObject.
From C35 Require Import Model Gen Checker Proofs ProofsT ProofsCap ProofsPtr ProofsConc ProofsTop.
Import ListNotations.
Local Open Scope N_scope.

(* ---- obligations tied to the Go source by the translator (Gen.v is regenerated on every run) *)
(* every method of LRUCache takes the exclusive lock first and releases it by defer *)
Example C35_discipline_ok : forallb exclusive_entry lru_locks = true.
Proof. reflexivity. Qed.
Example C35_modes_exclusive : forall o, mode_of lru_locks o = LockExclusive.
Proof. destruct o; reflexivity. Qed.
(* the shape the linearizability theorem assumes, read from the source: each method is ONE
   critical section (Lock first, defer Unlock next, no other lock call) *)
Example C35_one_critical_section : forallb snd lru_shapes = true.
Proof. reflexivity. Qed.
Example C35_default_capacity : default_lru_capacity = Z.of_N default_capacity.
Proof. reflexivity. Qed.

(* ---- sequential behaviour: for every capacity and every sequence of gets, puts (and dumps of
   the recency order) both Tier A models — the pointer-level model of container/list (sentinel
   ring, next/prev pointers, the statements of MoveToFront / Remove / PushFront one by one) and
   the map + recency-list model of lru_cache.go — return exactly what the capacity-bounded
   recency list returns: a get refreshes recency, a put into a full cache evicts the least
   recently used entry. *)
Theorem C35_seq_refines : forall (c : N) (ops : list op),
  p_run (p_new c) ops = r_run (r_new c) ops /\ m_run (m_new c) ops = r_run (r_new c) ops.
Proof. exact seq_refines. Qed.
Print Assumptions C35_seq_refines.

(* ---- "capacity-bounded map": after any sequence of operations the cache holds at most its
   (normalised) capacity of entries and at most one entry per key.  Together with
   C35_seq_refines (Dump shows exactly these entries in the implementation models) this bounds
   the real list and map. *)
Theorem C35_capacity_bounded : forall (c : N) (ops : list op),
  N.of_nat (length (r_items (r_exec (r_new c) ops))) <= norm_cap c /\
  NoDup (map fst (r_items (r_exec (r_new c) ops))).
Proof. exact capacity_bounded. Qed.
Print Assumptions C35_capacity_bounded.

(* ---- "least recently used": an entry that has just been put is still there, with its value,
   after any operations on other keys that touch fewer distinct keys than the capacity — however
   many operations these are, and whatever happened before.  (FIFO or random eviction violate
   this; it is the guarantee the de-duplication and rate-limiting users rely on.) *)
Theorem C35_retention : forall (c : N) (pre : list op) (k v : N) (mid : list op),
  Forall (fun o => op_key o <> Some k) mid ->
  N.of_nat (distinct (keys_of mid)) < norm_cap c ->
  snd (r_step (r_exec (r_new c) (pre ++ Put k v :: mid)) (Get k)) = RVal v.
Proof. exact retention. Qed.
Print Assumptions C35_retention.

(* the bound of C35_retention is tight: capacity-many distinct other keys evict the entry *)
Example C35_retention_tight :
  snd (r_step (r_exec (r_new 2) ([Put 9 1] ++ Put 1 7 :: [Put 2 0; Get 2; Put 2 5])) (Get 1)) = RVal 7 /\
  snd (r_step (r_exec (r_new 2) ([Put 9 1] ++ Put 1 7 :: [Put 2 0; Put 3 0])) (Get 1)) = RVal 0.
Proof. vm_compute. split; reflexivity. Qed.

(* the recency list is "least recently used" said with time stamps: every hit and every put
   stamps the entry with the current time, a put of a new key into a full cache evicts the entry
   with the smallest stamp.  For every capacity and every sequence of gets and puts the two
   specifications return the same results. *)
Theorem C35_lru_by_time : forall (c : N) (ops : list op),
  forallb getput ops = true -> r_run (r_new c) ops = t_run (t_new c) ops.
Proof. exact lru_by_time. Qed.
Print Assumptions C35_lru_by_time.

(* The generic theorem models a method as ONE critical section around its whole body (acquire,
   body, release); that the source has this shape is the obligation C35_one_critical_section above
   (shapes read by the translator on every run), cross-checked per method by the harness. *)
(* ---- concurrency: with the lock modes read from the source, every complete interleaved
   history of any number of threads calling Get/Put (bodies interleaved at the granularity of
   single statements of lru_cache.go and container/list) is linearizable w.r.t. the
   recency-list specification, and the final heap represents the list reached by that
   linearization (RP: a well-formed ring holding exactly those entries). *)
Theorem C35_linearizable :
  forall (c : N) (P : nat -> list op) (cf : cfg pst loc op res),
    reach pst loc op res p_init p_fin p_mstep (mode_of lru_locks) (init_cfg pst loc op res (p_new c) P) cf ->
    quiescent pst loc op res cf ->
    exists l q, linearization r_fspec (r_new c) (done pst loc op res cf) l q /\
                RP (shared pst loc op res cf) q.
Proof. exact (lru_linearizable_rspec lru_locks C35_modes_exclusive). Qed.
Print Assumptions C35_linearizable.

(* ---- the checker run on recorded histories of the real cache: its positive answers are
   sound (memoized search), the plain search decides linearizability *)
Theorem C35_lin_check_sound : forall bud c h,
  lru_lin bud c h = Some true -> linearizable (fspec rspec op res r_step) (r_new c) h.
Proof. exact lru_lin_sound. Qed.
Print Assumptions C35_lin_check_sound.

Theorem C35_lin_check_complete : forall bud c h,
  lru_lin_complete bud c h = Some false -> ~ linearizable (fspec rspec op res r_step) (r_new c) h.
Proof. exact lru_lin_complete_false. Qed.
Print Assumptions C35_lin_check_complete.

(* a linearization found by the driver's own (untrusted) search is accepted only through the
   certificate check: positions of the records in linearization order *)
Theorem C35_lin_cert_sound : forall c h p,
  lru_cert c h p = true -> linearizable (fspec rspec op res r_step) (r_new c) h.
Proof. exact lru_cert_sound. Qed.
Print Assumptions C35_lin_cert_sound.

(* ---- histories with pending calls.  In EVERY reachable configuration (calls may be waiting for
   the lock, running, or finished but not yet returned) the completed calls together with the
   calls that have released the lock — completed with the result they computed, returning "now" —
   form a linearizable history; the calls still waiting or running are omitted.  This is
   linearizability of an incomplete history (some completion of the pending calls is linearizable). *)
Theorem C35_linearizable_pending :
  forall (c : N) (P : nat -> list op) (cf : cfg pst loc op res),
    reach pst loc op res p_init p_fin p_mstep (mode_of lru_locks) (init_cfg pst loc op res (p_new c) P) cf ->
    exists (ts : list nat) (compl : list (@orec op res)) l q,
      NoDup ts /\
      Forall2 (fun t e => th pst loc op res cf t = Finished loc op res (o_call e) (o_op e) (o_res e) /\
                          o_ret e = clk pst loc op res cf) ts compl /\
      linearization r_fspec (r_new c) (done pst loc op res cf ++ compl) l q.
Proof. exact (lru_linearizable_pending lru_locks C35_modes_exclusive). Qed.
Print Assumptions C35_linearizable_pending.

(* the certificate check for recorded histories cut at an instant: [h] the calls that had returned,
   [pend] the calls in flight *)
Theorem C35_lin_pcert_sound : forall c h pend inf chosen p,
  lru_pcert c h pend inf chosen p = true -> linearizable_pending rspec op res r_step (r_new c) h pend.
Proof. exact lru_pcert_sound. Qed.
Print Assumptions C35_lin_pcert_sound.

(* ---- the pinned source before the fix: Get ran under the read lock.  Two concurrent Gets
   complete and leave a list from which an element is missing (3 elements, 2 reachable). *)
Theorem C35_concurrent_get_refuted :
  exists cf : cfg pst loc op res,
    reach pst loc op res p_init p_fin p_mstep (mode_of prefix_locks) (init_cfg pst loc op res s321 two_gets) cf /\
    length (done pst loc op res cf) = 2%nat /\
    p_wf (shared pst loc op res cf) = false.
Proof. exact concurrent_get_refuted. Qed.
Print Assumptions C35_concurrent_get_refuted.

(* non-vacuity: an eviction of the least recently used key after a refreshing get *)
Example C35_nonvacuous :
  r_run (r_new 2) [Put 1 10; Put 2 20; Get 1; Put 3 30; Get 2; Get 1; Dump]
  = [RUnit; RUnit; RVal 10; RUnit; RVal 0; RVal 10; RList [(1, 10); (3, 30)]].
Proof. vm_compute. reflexivity. Qed.
