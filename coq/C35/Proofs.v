(* C35/Proofs.v — the map+list model refines the recency-list specification. *)
From Coq Require Import List NArith Bool Arith Lia Permutation.
From C35 Require Import Model.
Import ListNotations.
Local Open Scope N_scope.

Definition kv (e : elem) : N * N := (e_key e, e_val e).
Definition ki (e : elem) : N * nat := (e_key e, e_id e).
Definition abs (s : lru) : rspec := mkr (cap s) (map kv (lst s)).

Record minv (s : lru) : Prop := {
  mi_ids : NoDup (map e_id (lst s));
  mi_keys : NoDup (map e_key (lst s));
  mi_map : Permutation (cache s) (map ki (lst s));
  mi_fresh : forall e, In e (lst s) -> (e_id e < fresh s)%nat }.

(* ---- association lists with unique keys ---- *)
Lemma mget_in (m : list (N * nat)) k i : mget k m = Some i -> In (k, i) m.
Proof.
  induction m as [|[k' e] m IH]; simpl; [discriminate|].
  destruct (k' =? k) eqn:E.
  - apply N.eqb_eq in E. intros H. inversion H; subst. left; reflexivity.
  - intros H. right. apply IH; exact H.
Qed.

Lemma in_mget (m : list (N * nat)) k i : NoDup (map fst m) -> In (k, i) m -> mget k m = Some i.
Proof.
  induction m as [|[k' e] m IH]; simpl; intros Hnd Hin; [tauto|].
  inversion Hnd; subst. destruct Hin as [Hin|Hin].
  - inversion Hin; subst. rewrite N.eqb_refl. reflexivity.
  - destruct (k' =? k) eqn:E.
    + apply N.eqb_eq in E. subst. exfalso. apply H1. apply in_map_iff. exists (k, i). split; [reflexivity|exact Hin].
    + apply IH; assumption.
Qed.

Lemma mget_none (m : list (N * nat)) k : mget k m = None <-> ~ In k (map fst m).
Proof.
  induction m as [|[k' e] m IH]; simpl; [tauto|].
  destruct (k' =? k) eqn:E.
  - apply N.eqb_eq in E. subst. split; [discriminate|]. intros H. exfalso. apply H. left; reflexivity.
  - apply N.eqb_neq in E. rewrite IH. tauto.
Qed.

Lemma mset_absent (m : list (N * nat)) k i : ~ In k (map fst m) -> mset k i m = m ++ [(k, i)].
Proof.
  induction m as [|[k' e] m IH]; simpl; intros H; [reflexivity|].
  destruct (k' =? k) eqn:E.
  - apply N.eqb_eq in E. subst. exfalso. apply H. left; reflexivity.
  - f_equal. apply IH. tauto.
Qed.

Lemma mdel_perm (m : list (N * nat)) k i : NoDup (map fst m) -> In (k, i) m ->
  Permutation m ((k, i) :: mdel k m).
Proof.
  induction m as [|[k' e] m IH]; simpl; intros Hnd Hin; [tauto|].
  inversion Hnd; subst. destruct Hin as [Hin|Hin].
  - inversion Hin; subst. rewrite N.eqb_refl. reflexivity.
  - destruct (k' =? k) eqn:E.
    + apply N.eqb_eq in E. subst. exfalso. apply H1. apply in_map_iff. exists (k, i). split; [reflexivity|exact Hin].
    + rewrite perm_swap. constructor. apply IH; assumption.
Qed.

(* ---- the recency list ---- *)
Lemma lfind_in l i e : lfind i l = Some e -> In e l /\ e_id e = i.
Proof.
  induction l as [|x l IH]; simpl; [discriminate|].
  destruct (Nat.eqb (e_id x) i) eqn:E.
  - apply Nat.eqb_eq in E. intros H. inversion H; subst. split; [left; reflexivity|reflexivity].
  - intros H. destruct (IH H). split; [right; assumption|assumption].
Qed.

Lemma in_lfind l e : NoDup (map e_id l) -> In e l -> lfind (e_id e) l = Some e.
Proof.
  induction l as [|x l IH]; simpl; intros Hnd Hin; [tauto|].
  inversion Hnd; subst. destruct Hin as [->|Hin].
  - rewrite Nat.eqb_refl. reflexivity.
  - destruct (Nat.eqb (e_id x) (e_id e)) eqn:E.
    + apply Nat.eqb_eq in E. exfalso. apply H1. rewrite E. apply in_map. exact Hin.
    + apply IH; assumption.
Qed.

Lemma rfind_kv l e : NoDup (map e_key l) -> In e l -> rfind (e_key e) (map kv l) = Some (e_val e).
Proof.
  induction l as [|x l IH]; simpl; intros Hnd Hin; [tauto|].
  inversion Hnd; subst. destruct Hin as [->|Hin].
  - rewrite N.eqb_refl. reflexivity.
  - destruct (e_key x =? e_key e) eqn:E.
    + apply N.eqb_eq in E. exfalso. apply H1. rewrite E. apply in_map. exact Hin.
    + apply IH; assumption.
Qed.

Lemma rfind_kv_none l k : ~ In k (map e_key l) -> rfind k (map kv l) = None.
Proof.
  induction l as [|x l IH]; simpl; intros H; [reflexivity|].
  destruct (e_key x =? k) eqn:E.
  - apply N.eqb_eq in E. exfalso. apply H. left; exact E.
  - apply IH. tauto.
Qed.

Lemma lremove_kv l e : NoDup (map e_id l) -> NoDup (map e_key l) -> In e l ->
  map kv (lremove (e_id e) l) = rremove (e_key e) (map kv l).
Proof.
  induction l as [|x l IH]; simpl; intros Hi Hk Hin; [tauto|].
  inversion Hi; subst. inversion Hk; subst. destruct Hin as [->|Hin].
  - rewrite Nat.eqb_refl, N.eqb_refl. reflexivity.
  - destruct (Nat.eqb (e_id x) (e_id e)) eqn:E.
    + apply Nat.eqb_eq in E. exfalso. apply H1. rewrite E. apply in_map. exact Hin.
    + destruct (e_key x =? e_key e) eqn:E2.
      * apply N.eqb_eq in E2. exfalso. apply H3. rewrite E2. apply in_map. exact Hin.
      * simpl. f_equal. apply IH; assumption.
Qed.

Lemma lremove_in l i x : In x (lremove i l) -> In x l.
Proof.
  induction l as [|y l IH]; simpl; [tauto|].
  destruct (Nat.eqb (e_id y) i); simpl; intros H; [right; exact H|].
  destruct H; [left; assumption|right; apply IH; assumption].
Qed.

Lemma lremove_nodup {A} (f : elem -> A) l i : NoDup (map f l) -> NoDup (map f (lremove i l)).
Proof.
  induction l as [|y l IH]; simpl; intros H; [constructor|].
  inversion H; subst. destruct (Nat.eqb (e_id y) i); [assumption|].
  simpl. constructor; [|apply IH; assumption].
  intros Hin. apply H2. apply in_map_iff in Hin. destruct Hin as [z [Ez Hz]].
  apply in_map_iff. exists z. split; [exact Ez|eapply lremove_in; exact Hz].
Qed.

Lemma lremove_not_in l e : NoDup (map e_id l) -> In e l -> ~ In (e_id e) (map e_id (lremove (e_id e) l)).
Proof.
  induction l as [|y l IH]; simpl; intros Hnd Hin; [tauto|].
  inversion Hnd; subst. destruct (Nat.eqb (e_id y) (e_id e)) eqn:E.
  - apply Nat.eqb_eq in E. rewrite <- E. exact H1.
  - destruct Hin as [->|Hin]; [rewrite Nat.eqb_refl in E; discriminate|].
    simpl. intros [H|H]; [apply Nat.eqb_neq in E; contradiction|]. apply (IH H2 Hin H).
Qed.

Lemma lremove_perm l e : NoDup (map e_id l) -> In e l -> Permutation l (e :: lremove (e_id e) l).
Proof.
  induction l as [|y l IH]; simpl; intros Hnd Hin; [tauto|].
  inversion Hnd; subst. destruct Hin as [->|Hin].
  - rewrite Nat.eqb_refl. reflexivity.
  - destruct (Nat.eqb (e_id y) (e_id e)) eqn:E.
    + apply Nat.eqb_eq in E. exfalso. apply H1. rewrite E. apply in_map. exact Hin.
    + rewrite perm_swap. constructor. apply IH; assumption.
Qed.

Lemma lremove_perm_map {A} (f : elem -> A) l e : NoDup (map e_id l) -> In e l ->
  Permutation (map f l) (f e :: map f (lremove (e_id e) l)).
Proof. intros H1 H2. change (f e :: map f (lremove (e_id e) l)) with (map f (e :: lremove (e_id e) l)).
  apply Permutation_map. apply lremove_perm; assumption. Qed.

Lemma lsetval_spec l e v : NoDup (map e_id l) -> In e l ->
  let e' := mke (e_id e) (e_key e) v in
  In e' (lsetval (e_id e) v l) /\ map e_id (lsetval (e_id e) v l) = map e_id l /\
  map e_key (lsetval (e_id e) v l) = map e_key l /\
  lremove (e_id e) (lsetval (e_id e) v l) = lremove (e_id e) l.
Proof.
  induction l as [|y l IH]; simpl; intros Hnd Hin; [tauto|].
  inversion Hnd; subst. destruct Hin as [->|Hin].
  - rewrite Nat.eqb_refl. simpl. rewrite Nat.eqb_refl. repeat split; try reflexivity. left; reflexivity.
  - destruct (Nat.eqb (e_id y) (e_id e)) eqn:E.
    + apply Nat.eqb_eq in E. exfalso. apply H1. rewrite E. apply in_map. exact Hin.
    + destruct (IH H2 Hin) as [A [B [C D]]]. simpl. rewrite E. repeat split.
      * right; exact A.
      * f_equal; exact B.
      * f_equal; exact C.
      * f_equal; exact D.
Qed.

Lemma back_spec l e : back l = Some e -> exists l', l = l' ++ [e].
Proof.
  unfold back. intros H. destruct l as [|x l]; [discriminate|].
  assert (Hne : x :: l <> []) by discriminate.
  destruct (exists_last Hne) as [l' [y E]]. rewrite E in *.
  rewrite map_app in H. simpl in H. rewrite last_last in H. inversion H; subst. exists l'. reflexivity.
Qed.

Lemma back_none l : back l = None -> l = [].
Proof.
  unfold back. destruct l as [|x l]; [reflexivity|]. intros H.
  assert (Hne : x :: l <> []) by discriminate.
  destruct (exists_last Hne) as [l' [y E]]. rewrite E in H.
  rewrite map_app in H. simpl in H. rewrite last_last in H. discriminate.
Qed.

Lemma lremove_last l e : NoDup (map e_id (l ++ [e])) -> lremove (e_id e) (l ++ [e]) = l.
Proof.
  induction l as [|y l IH]; simpl; intros Hnd.
  - rewrite Nat.eqb_refl. reflexivity.
  - inversion Hnd; subst. destruct (Nat.eqb (e_id y) (e_id e)) eqn:E.
    + apply Nat.eqb_eq in E. exfalso. apply H1. rewrite E, map_app. apply in_or_app. right. left; reflexivity.
    + f_equal. apply IH; assumption.
Qed.

(* ---- the refinement ---- *)
Lemma minv_new c : minv (m_new c).
Proof. constructor; simpl; [constructor|constructor|constructor|intros e []]. Qed.

Lemma abs_new c : abs (m_new c) = r_new c.
Proof. reflexivity. Qed.

Lemma cache_keys s : minv s -> NoDup (map fst (cache s)).
Proof.
  intros [Hi Hk Hm Hf]. eapply Permutation_NoDup.
  - apply Permutation_map. symmetry. exact Hm.
  - rewrite map_map. simpl. exact Hk.
Qed.

Lemma mget_elem s k i : minv s -> mget k (cache s) = Some i ->
  exists e, In e (lst s) /\ e_id e = i /\ e_key e = k.
Proof.
  intros Hinv H. apply mget_in in H. destruct Hinv as [Hi Hk Hm Hf].
  eapply Permutation_in in H; [|exact Hm]. apply in_map_iff in H. destruct H as [e [E He]].
  inversion E; subst. exists e. auto.
Qed.

Lemma mget_miss s k : minv s -> mget k (cache s) = None -> ~ In k (map e_key (lst s)).
Proof.
  intros Hinv H. apply mget_none in H. intros Hin. apply H. destruct Hinv as [Hi Hk Hm Hf].
  eapply Permutation_in; [apply Permutation_map; symmetry; exact Hm|].
  rewrite map_map. exact Hin.
Qed.

Theorem m_step_refines s o : minv s ->
  minv (fst (m_step s o)) /\ abs (fst (m_step s o)) = fst (r_step (abs s) o) /\
  snd (m_step s o) = snd (r_step (abs s) o).
Proof.
  intros Hinv. pose proof Hinv as [Hi Hk Hm Hf]. destruct o as [k|k v|]; simpl.
  - (* Get *)
    destruct (mget k (cache s)) as [i|] eqn:Eg.
    + destruct (mget_elem _ _ _ Hinv Eg) as [e [He [<- <-]]].
      unfold move_to_front. rewrite (in_lfind _ _ Hi He). simpl. rewrite Nat.eqb_refl.
      rewrite (rfind_kv _ _ Hk He). simpl. split; [|split; [|reflexivity]].
      * constructor; simpl.
        -- constructor; [apply lremove_not_in; assumption|apply lremove_nodup; assumption].
        -- eapply Permutation_NoDup; [|exact Hk]. apply (lremove_perm_map e_key); assumption.
        -- rewrite Hm. apply (lremove_perm_map ki); assumption.
        -- intros x [<-|Hx]; [apply Hf; assumption|apply Hf; eapply lremove_in; exact Hx].
      * unfold abs. simpl. f_equal. f_equal. apply lremove_kv; assumption.
    + rewrite (rfind_kv_none _ _ (mget_miss _ _ Hinv Eg)). simpl. auto.
  - (* Put *)
    destruct (mget k (cache s)) as [i|] eqn:Eg.
    + destruct (mget_elem _ _ _ Hinv Eg) as [e [He [<- <-]]].
      destruct (lsetval_spec _ _ v Hi He) as [A [B [C D]]].
      rewrite (rfind_kv _ _ Hk He). simpl.
      assert (Hi' : NoDup (map e_id (lsetval (e_id e) v (lst s)))) by (rewrite B; exact Hi).
      unfold move_to_front.
      pose proof (in_lfind _ _ Hi' A) as Hf'. simpl in Hf'. rewrite Hf'. rewrite D.
      split; [|split; [|reflexivity]].
      * constructor; simpl.
        -- constructor; [apply lremove_not_in; assumption|apply lremove_nodup; assumption].
        -- eapply Permutation_NoDup; [|exact Hk]. apply (lremove_perm_map e_key); assumption.
        -- rewrite Hm. change (ki (mke (e_id e) (e_key e) v)) with (ki e).
           apply (lremove_perm_map ki); assumption.
        -- intros x [<-|Hx]; [simpl; apply Hf; assumption|apply Hf; eapply lremove_in; exact Hx].
      * unfold abs. simpl. f_equal. f_equal. apply lremove_kv; assumption.
    + pose proof (mget_miss _ _ Hinv Eg) as Hmiss.
      rewrite (rfind_kv_none _ _ Hmiss). rewrite map_length.
      assert (Hlen : length (cache s) = length (lst s)).
      { rewrite (Permutation_length Hm). apply map_length. }
      rewrite Hlen.
      destruct (cap s <=? N.of_nat (length (lst s))) eqn:Efull.
      * destruct (back (lst s)) as [e|] eqn:Eb.
        -- destruct (back_spec _ _ Eb) as [l' El].
           assert (He : In e (lst s)) by (rewrite El; apply in_or_app; right; left; reflexivity).
           assert (Hrm : lremove (e_id e) (lst s) = l').
           { rewrite El. apply lremove_last. rewrite <- El. exact Hi. }
           rewrite Hrm. simpl.
           assert (Hl' : forall x, In x l' -> In x (lst s)) by (intros x Hx; rewrite El; apply in_or_app; left; exact Hx).
           assert (Hk' : NoDup (map e_key l')).
           { rewrite El, map_app in Hk. apply NoDup_remove_1 in Hk. rewrite app_nil_r in Hk. exact Hk. }
           assert (Hi'' : NoDup (map e_id l')).
           { rewrite El, map_app in Hi. apply NoDup_remove_1 in Hi. rewrite app_nil_r in Hi. exact Hi. }
           assert (Hperm : Permutation (mdel (e_key e) (cache s)) (map ki l')).
           { assert (Hin : In (e_key e, e_id e) (cache s)).
             { eapply Permutation_in; [symmetry; exact Hm|]. apply in_map_iff. exists e. split; [reflexivity|exact He]. }
             pose proof (mdel_perm _ _ _ (cache_keys _ Hinv) Hin) as P.
             rewrite Hm in P at 1. rewrite El in P at 1. rewrite map_app in P. simpl in P.
             apply Permutation_cons_inv with (a := ki e).
             rewrite <- P. symmetry. apply Permutation_cons_append. }
           assert (Hkabs : ~ In k (map fst (mdel (e_key e) (cache s)))).
           { intros Hin. eapply Permutation_in in Hin; [|apply Permutation_map; exact Hperm].
             rewrite map_map in Hin. simpl in Hin. apply Hmiss. rewrite El, map_app. apply in_or_app. left. exact Hin. }
           split; [|split; [|reflexivity]].
           ++ constructor; simpl.
              ** constructor; [|exact Hi''].
                 intros Hin. apply in_map_iff in Hin. destruct Hin as [x [Ex Hx]].
                 specialize (Hf x (Hl' x Hx)). lia.
              ** constructor; [|exact Hk'].
                 intros Hin. apply Hmiss. rewrite El, map_app. apply in_or_app. left. exact Hin.
              ** rewrite (mset_absent _ _ _ Hkabs). rewrite Hperm.
                 symmetry. apply Permutation_cons_append.
              ** intros x [<-|Hx]; simpl; [lia|]. specialize (Hf x (Hl' x Hx)). lia.
           ++ unfold abs. simpl. f_equal. f_equal. rewrite El, map_app. simpl.
              rewrite removelast_last. reflexivity.
        -- apply back_none in Eb. rewrite Eb in *. simpl.
           assert (Hc : cache s = []).
           { destruct (cache s); [reflexivity|]. simpl in Hlen. discriminate. }
           rewrite Hc. simpl. split; [|split; [|reflexivity]].
           ++ constructor; simpl.
              ** constructor; [intros []|constructor].
              ** constructor; [intros []|constructor].
              ** reflexivity.
              ** intros x [<-|[]]. simpl. lia.
           ++ reflexivity.
      * assert (Hkabs : ~ In k (map fst (cache s))) by (apply mget_none; exact Eg).
        split; [|split; [|reflexivity]].
        -- constructor; simpl.
           ++ constructor; [|exact Hi].
              intros Hin. apply in_map_iff in Hin. destruct Hin as [x [Ex Hx]]. specialize (Hf x Hx). lia.
           ++ constructor; [exact Hmiss|exact Hk].
           ++ rewrite (mset_absent _ _ _ Hkabs). rewrite Hm. symmetry. apply Permutation_cons_append.
           ++ intros x [<-|Hx]; simpl; [lia|]. specialize (Hf x Hx). lia.
        -- reflexivity.
  - (* Dump *)
    split; [exact Hinv|]. split; reflexivity.
Qed.

Theorem m_run_refines ops : forall s, minv s -> m_run s ops = r_run (abs s) ops.
Proof.
  induction ops as [|o ops IH]; intros s Hinv; simpl; [reflexivity|].
  destruct (m_step_refines s o Hinv) as [A [B C]].
  destruct (m_step s o) as [s' x]. destruct (r_step (abs s) o) as [q' y]. simpl in *.
  subst. f_equal. apply IH. exact A.
Qed.

(* ---- boolean equality of results ---- *)
Lemma pairs_eqb_spec a : forall b, pairs_eqb a b = true <-> a = b.
Proof.
  induction a as [|[k v] a IH]; intros [|[k' v'] b]; simpl; split; intros H; try discriminate; try reflexivity.
  - apply andb_true_iff in H. destruct H as [H H3]. apply andb_true_iff in H. destruct H as [H1 H2].
    apply N.eqb_eq in H1, H2. apply IH in H3. subst. reflexivity.
  - inversion H; subst. rewrite !N.eqb_refl. simpl. apply IH. reflexivity.
Qed.

Lemma res_eqb_spec a b : res_eqb a b = true <-> a = b.
Proof.
  destruct a, b; simpl; split; intros H; try discriminate; try reflexivity.
  - apply N.eqb_eq in H. subst. reflexivity.
  - inversion H. apply N.eqb_refl.
  - apply pairs_eqb_spec in H. subst. reflexivity.
  - inversion H. apply pairs_eqb_spec. reflexivity.
Qed.
