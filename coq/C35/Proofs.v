(* C35/Proofs.v — lemmas (placeholder, extended below). *)
From Coq Require Import List NArith Bool Arith Lia.
From C35 Require Import Model.
