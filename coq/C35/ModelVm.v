(* C35/ModelVm.v — helpers for the driver (definitions only): coverage buckets of a step of the
   recency-list specification, and the term the vm_compute cross-check evaluates inside Coq. *)
From Coq Require Import List NArith Bool Arith.
From C35 Require Import Model.
Import ListNotations.
Local Open Scope N_scope.

(* 0 dump, 1 get-miss, 2 get-hit-front (MoveToFront returns early), 3 get-hit-moved,
   4 put-update-front, 5 put-update-moved, 6 put-insert (room left), 7 put-insert-evict *)
Definition r_bucket (s : rspec) (o : op) : N :=
  let front k := match r_items s with (k', _) :: _ => k' =? k | [] => false end in
  match o with
  | Dump => 0
  | Get k => match rfind k (r_items s) with None => 1 | Some _ => if front k then 2 else 3 end
  | Put k _ =>
    match rfind k (r_items s) with
    | Some _ => if front k then 4 else 5
    | None => if r_cap s <=? N.of_nat (length (r_items s)) then 7 else 6
    end
  end.
Fixpoint r_buckets (s : rspec) (ops : list op) : list N :=
  match ops with
  | [] => []
  | o :: r => r_bucket s o :: r_buckets (fst (r_step s o)) r
  end.

Fixpoint res_list_eqb (a b : list res) : bool :=
  match a, b with
  | [], [] => true
  | x :: a', y :: b' => res_eqb x y && res_list_eqb a' b'
  | _, _ => false
  end.
(* one sampled sequential case recomputed inside Coq: the pointer-level model, the map+list
   model and the specification all return the observed results *)
Definition vm_seq_case (c : N) (ops : list op) (obs : list res) : bool :=
  res_list_eqb (p_run (p_new c) ops) obs && res_list_eqb (m_run (m_new c) ops) obs &&
  res_list_eqb (r_run (r_new c) ops) obs.
