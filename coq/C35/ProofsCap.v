(* C35/ProofsCap.v — what "capacity-bounded map with least-recently-used eviction" means for the
   recency-list specification, said on its states:
     * the cache never holds more than its capacity, and never two entries for one key;
     * a Get answers the value of the latest Put of that key that is still cached (map
       semantics), 0 otherwise;
     * RETENTION: an entry that has just been used (put, or hit by a get) is still cached, with
       its value, after any sequence of operations on OTHER keys that touches fewer distinct
       keys than the capacity.  (This is the guarantee the users of the cache rely on; it fails
       for FIFO or random eviction.) *)
From Coq Require Import List NArith Bool Arith Lia Permutation.
From C35 Require Import Model.
Import ListNotations.
Local Open Scope N_scope.

(* the state after a sequence of operations *)
Fixpoint r_exec (s : rspec) (ops : list op) : rspec :=
  match ops with
  | [] => s
  | o :: r => r_exec (fst (r_step s o)) r
  end.

Definition op_key (o : op) : option N :=
  match o with Get k => Some k | Put k _ => Some k | Dump => None end.
Fixpoint keys_of (ops : list op) : list N :=
  match ops with
  | [] => []
  | o :: r => match op_key o with Some k => k :: keys_of r | None => keys_of r end
  end.
Definition distinct (l : list N) : nat := length (nodup N.eq_dec l).

Definition keys (l : list (N * N)) : list N := map fst l.

Record RI (s : rspec) : Prop := {
  ri_nodup : NoDup (keys (r_items s));
  ri_len : N.of_nat (length (r_items s)) <= r_cap s;
  ri_cap : 1 <= r_cap s }.

Lemma norm_cap_pos c : 1 <= norm_cap c.
Proof. unfold norm_cap, default_capacity. destruct (c <? 1) eqn:E; [lia|apply N.ltb_ge in E; exact E]. Qed.

Lemma RI_new c : RI (r_new c).
Proof. constructor; simpl; [constructor|pose proof (norm_cap_pos c); lia|apply norm_cap_pos]. Qed.

Lemma rfind_none l k : rfind k l = None <-> ~ In k (keys l).
Proof.
  induction l as [|[k' v] l IH]; simpl; [tauto|].
  destruct (k' =? k) eqn:E.
  - apply N.eqb_eq in E. split; [discriminate|]. intros H. exfalso. apply H. left. exact E.
  - apply N.eqb_neq in E. rewrite IH. tauto.
Qed.

Lemma rfind_some_in l k v : rfind k l = Some v -> In (k, v) l.
Proof.
  induction l as [|[k' v'] l IH]; simpl; [discriminate|].
  destruct (k' =? k) eqn:E; [apply N.eqb_eq in E; intros H; inversion H; subst; left; reflexivity|].
  intros H. right. apply IH. exact H.
Qed.

Lemma rremove_in l k x : In x (rremove k l) -> In x l.
Proof.
  induction l as [|[k' v] l IH]; simpl; [tauto|].
  destruct (k' =? k); simpl; [tauto|]. intros [H|H]; [left; exact H|right; apply IH; exact H].
Qed.

Lemma rremove_keys l k x : In x (keys (rremove k l)) -> In x (keys l).
Proof.
  unfold keys. intros H. apply in_map_iff in H. destruct H as [e [E H]]. apply in_map_iff.
  exists e. split; [exact E|eapply rremove_in; exact H].
Qed.

Lemma rremove_nodup l k : NoDup (keys l) -> NoDup (keys (rremove k l)) /\ ~ In k (keys (rremove k l)).
Proof.
  induction l as [|[k' v] l IH]; simpl; intros H; [split; [constructor|tauto]|].
  inversion H as [|? ? Hn Hd]; subst. destruct (k' =? k) eqn:E.
  - apply N.eqb_eq in E. subst. split; assumption.
  - apply N.eqb_neq in E. destruct (IH Hd) as [H1 H2]. simpl. split.
    + constructor; [|exact H1]. intros Hin. apply Hn. eapply rremove_keys; exact Hin.
    + intros [Hin|Hin]; [congruence|tauto].
Qed.

Lemma rremove_length l k v : rfind k l = Some v -> S (length (rremove k l)) = length l.
Proof.
  induction l as [|[k' v'] l IH]; simpl; [discriminate|].
  destruct (k' =? k); [reflexivity|]. intros H. simpl. rewrite (IH H). reflexivity.
Qed.

Lemma removelast_keys l : keys (removelast l) = removelast (keys l).
Proof.
  induction l as [|a l IH]; [reflexivity|]. destruct l as [|b l]; [reflexivity|].
  change (keys (a :: removelast (b :: l)) = fst a :: removelast (keys (b :: l))). simpl. f_equal. exact IH.
Qed.

Lemma removelast_in {A} (l : list A) x : In x (removelast l) -> In x l.
Proof.
  induction l as [|a l IH]; [tauto|]. destruct l as [|b l]; [simpl; tauto|].
  intros [H|H]; [left; exact H|right; apply IH; exact H].
Qed.

Lemma removelast_nodup {A} (l : list A) : NoDup l -> NoDup (removelast l).
Proof.
  induction l as [|a l IH]; intros H; [constructor|]. destruct l as [|b l]; [constructor|].
  inversion H; subst. change (NoDup (a :: removelast (b :: l))). constructor; [|apply IH; assumption].
  intros Hin. apply removelast_in in Hin. tauto.
Qed.

Lemma removelast_length {A} (l : list A) : l <> [] -> S (length (removelast l)) = length l.
Proof.
  intros H. destruct (exists_last H) as [l' [a ->]]. rewrite removelast_last, app_length. simpl. lia.
Qed.

(* ---- capacity bound and key uniqueness are invariants ---- *)
Lemma RI_step s o : RI s -> RI (fst (r_step s o)).
Proof.
  intros [Hn Hl Hc]. destruct o as [k|k v|]; simpl.
  - destruct (rfind k (r_items s)) as [v|] eqn:E; simpl; [|constructor; assumption].
    destruct (rremove_nodup _ k Hn) as [H1 H2]. constructor; cbn [r_items r_cap length keys map fst]; [constructor; assumption| |exact Hc].
    rewrite (rremove_length _ _ _ E). exact Hl.
  - destruct (rfind k (r_items s)) as [v0|] eqn:E; simpl.
    + destruct (rremove_nodup _ k Hn) as [H1 H2]. constructor; cbn [r_items r_cap length keys map fst]; [constructor; assumption| |exact Hc].
      rewrite (rremove_length _ _ _ E). exact Hl.
    + apply rfind_none in E. destruct (r_cap s <=? N.of_nat (length (r_items s))) eqn:Ec.
      * constructor; cbn [r_items r_cap length keys map fst]; [| |exact Hc].
        -- constructor.
           ++ intros Hin. apply E. unfold keys in *. rewrite removelast_keys in Hin.
              apply removelast_in in Hin. exact Hin.
           ++ rewrite removelast_keys. apply removelast_nodup. exact Hn.
        -- destruct (r_items s) as [|a l] eqn:El; [simpl in *; lia|].
           assert (Hne : a :: l <> []) by discriminate.
           rewrite (removelast_length _ Hne). exact Hl.
      * apply N.leb_gt in Ec. constructor; cbn [r_items r_cap length keys map fst]; [constructor; assumption|lia|exact Hc].
  - constructor; assumption.
Qed.

Lemma RI_exec ops : forall s, RI s -> RI (r_exec s ops).
Proof. induction ops as [|o ops IH]; intros s H; simpl; [exact H|]. apply IH. apply RI_step. exact H. Qed.

Lemma r_cap_step s o : r_cap (fst (r_step s o)) = r_cap s.
Proof.
  destruct o as [k|k v|]; simpl; try reflexivity.
  - destruct (rfind k (r_items s)); reflexivity.
  - destruct (rfind k (r_items s)); reflexivity.
Qed.
Lemma r_cap_exec ops : forall s, r_cap (r_exec s ops) = r_cap s.
Proof. induction ops as [|o ops IH]; intros s; simpl; [reflexivity|]. rewrite IH. apply r_cap_step. Qed.

Theorem capacity_bounded c ops :
  N.of_nat (length (r_items (r_exec (r_new c) ops))) <= norm_cap c /\
  NoDup (keys (r_items (r_exec (r_new c) ops))).
Proof.
  pose proof (RI_exec ops _ (RI_new c)) as [Hn Hl _]. rewrite r_cap_exec in Hl. split; assumption.
Qed.

(* ---- retention ---- *)
Lemma NoDup_app_l {A} (l1 l2 : list A) : NoDup (l1 ++ l2) -> NoDup l1.
Proof.
  induction l1 as [|a l1 IH]; simpl; intros H; [constructor|]. inversion H; subst.
  constructor; [|apply IH; assumption]. intros Hin. apply H2. apply in_or_app. left. exact Hin.
Qed.
Lemma of_nat_le a b : (a <= b)%nat -> N.of_nat a <= N.of_nat b.
Proof. lia. Qed.

Lemma distinct_incl l l' : incl l l' -> (distinct l <= distinct l')%nat.
Proof.
  intros H. unfold distinct. apply NoDup_incl_length; [apply NoDup_nodup|].
  intros x Hx. apply nodup_In. apply H. apply nodup_In in Hx. exact Hx.
Qed.

Lemma nodup_le_distinct l l' : NoDup l -> incl l l' -> (length l <= distinct l')%nat.
Proof.
  intros Hn H. unfold distinct. apply NoDup_incl_length; [exact Hn|].
  intros x Hx. apply nodup_In. apply H. exact Hx.
Qed.

Lemma rfind_app_notin l1 l2 k : ~ In k (keys l1) -> rfind k (l1 ++ l2) = rfind k l2.
Proof.
  induction l1 as [|[k' v] l1 IH]; simpl; intros H; [reflexivity|].
  destruct (k' =? k) eqn:E; [apply N.eqb_eq in E; exfalso; apply H; left; exact E|].
  apply IH. intros Hin. apply H. right. exact Hin.
Qed.

Lemma rremove_app_notin l1 l2 k : ~ In k (keys l1) -> rremove k (l1 ++ l2) = l1 ++ rremove k l2.
Proof.
  induction l1 as [|[k' v] l1 IH]; simpl; intros H; [reflexivity|].
  destruct (k' =? k) eqn:E; [apply N.eqb_eq in E; exfalso; apply H; left; exact E|].
  f_equal. apply IH. intros Hin. apply H. right. exact Hin.
Qed.

Lemma rremove_app_in l1 l2 k : In k (keys l1) -> rremove k (l1 ++ l2) = rremove k l1 ++ l2.
Proof.
  induction l1 as [|[k' v] l1 IH]; simpl; intros H; [tauto|].
  destruct (k' =? k) eqn:E; [reflexivity|]. apply N.eqb_neq in E. simpl. f_equal. apply IH.
  destruct H as [H|H]; [congruence|exact H].
Qed.

Lemma rfind_app_in l1 l2 k : In k (keys l1) -> rfind k (l1 ++ l2) = rfind k l1.
Proof.
  induction l1 as [|[k' v] l1 IH]; simpl; intros H; [tauto|].
  destruct (k' =? k) eqn:E; [reflexivity|]. apply N.eqb_neq in E. apply IH.
  destruct H as [H|H]; [congruence|exact H].
Qed.

(* the touch of a key j <> k that is cached: k keeps its entry, j comes in front *)
Lemma touch_other l1 l2 k v j w : j <> k -> NoDup (keys (l1 ++ (k, v) :: l2)) ->
  exists l1' l2', (j, w) :: rremove j (l1 ++ (k, v) :: l2) = l1' ++ (k, v) :: l2' /\
                  incl (keys l1') (j :: keys l1).
Proof.
  intros Hjk Hn. destruct (in_dec N.eq_dec j (keys l1)) as [Hin|Hin].
  - rewrite (rremove_app_in _ _ _ Hin). exists ((j, w) :: rremove j l1), l2. split; [reflexivity|].
    intros x [Hx|Hx]; [left; exact Hx|right; eapply rremove_keys; exact Hx].
  - rewrite (rremove_app_notin _ _ _ Hin). simpl. apply N.eqb_neq in Hjk. rewrite N.eqb_sym, Hjk.
    exists ((j, w) :: l1), (rremove j l2). split; [reflexivity|]. intros x Hx. exact Hx.
Qed.

Lemma retention_gen : forall mid s l1 k v l2,
  RI s -> r_items s = l1 ++ (k, v) :: l2 ->
  Forall (fun o => op_key o <> Some k) mid ->
  N.of_nat (distinct (keys l1 ++ keys_of mid)) < r_cap s ->
  exists l1' l2', r_items (r_exec s mid) = l1' ++ (k, v) :: l2'.
Proof.
  induction mid as [|o mid IH]; intros s l1 k v l2 HI Hs Hk Hd; simpl.
  - exists l1, l2. exact Hs.
  - inversion Hk as [|? ? Ho Hk']; subst.
    pose proof (RI_step s o HI) as HI'. pose proof (r_cap_step s o) as Hcap.
    pose proof (ri_nodup _ HI) as Hn. rewrite Hs in Hn.
    destruct o as [j|j w|]; simpl in Ho, Hd.
    + (* Get j *)
      assert (Hjk : j <> k) by congruence.
      simpl in HI', Hcap |- *. destruct (rfind j (r_items s)) as [w|] eqn:Ef; simpl in *.
      * rewrite Hs in *. destruct (touch_other l1 l2 k v j w Hjk Hn) as [l1' [l2' [E Hinc]]].
        eapply (IH _ l1' k v l2' HI' E Hk'). try rewrite Hcap.
        eapply N.le_lt_trans; [|exact Hd]. apply of_nat_le. apply distinct_incl. intros x Hx. apply in_app_iff in Hx.
        destruct Hx as [Hx|Hx]; [apply Hinc in Hx; destruct Hx as [Hx|Hx];
          [subst; apply in_or_app; right; left; reflexivity|apply in_or_app; left; exact Hx]
          |apply in_or_app; right; right; exact Hx].
      * eapply (IH _ l1 k v l2 HI Hs Hk'). eapply N.le_lt_trans; [|exact Hd].
        apply of_nat_le. apply distinct_incl.
        intros x Hx. apply in_app_iff in Hx. apply in_or_app.
        destruct Hx as [Hx|Hx]; [left; exact Hx|right; right; exact Hx].
    + (* Put j w *)
      assert (Hjk : j <> k) by congruence.
      simpl in HI', Hcap |- *. destruct (rfind j (r_items s)) as [w0|] eqn:Ef; simpl in *.
      * rewrite Hs in *. destruct (touch_other l1 l2 k v j w Hjk Hn) as [l1' [l2' [E Hinc]]].
        eapply (IH _ l1' k v l2' HI' E Hk'). try rewrite Hcap.
        eapply N.le_lt_trans; [|exact Hd]. apply of_nat_le. apply distinct_incl. intros x Hx. apply in_app_iff in Hx.
        destruct Hx as [Hx|Hx]; [apply Hinc in Hx; destruct Hx as [Hx|Hx];
          [subst; apply in_or_app; right; left; reflexivity|apply in_or_app; left; exact Hx]
          |apply in_or_app; right; right; exact Hx].
      * (* a new key: possibly an eviction, never of k *)
        apply rfind_none in Ef. rewrite Hs in Ef.
        assert (Hj1 : ~ In j (keys l1)).
        { intros Hin. apply Ef. unfold keys. rewrite map_app. apply in_or_app. left. exact Hin. }
        assert (Hn1 : NoDup (j :: keys l1)).
        { constructor; [exact Hj1|]. unfold keys in Hn. rewrite map_app in Hn. apply NoDup_app_l in Hn. exact Hn. }
        assert (Hlen1 : (S (length l1) <= distinct (keys l1 ++ j :: keys_of mid))%nat).
        { replace (S (length l1)) with (length (j :: keys l1)) by (simpl; unfold keys; rewrite map_length; reflexivity).
          apply nodup_le_distinct; [exact Hn1|]. intros x [Hx|Hx];
            [subst; apply in_or_app; right; left; reflexivity|apply in_or_app; left; exact Hx]. }
        assert (Hitems : exists l2', (if r_cap s <=? N.of_nat (length (r_items s)) then removelast (r_items s) else r_items s)
                                    = l1 ++ (k, v) :: l2').
        { destruct (r_cap s <=? N.of_nat (length (r_items s))) eqn:Ec; [|exists l2; exact Hs].
          apply N.leb_le in Ec. rewrite Hs in *. rewrite app_length in Ec. simpl in Ec.
          destruct l2 as [|b l2]; [exfalso; simpl in Ec; lia|].
          exists (removelast (b :: l2)).
          rewrite removelast_app by discriminate.
          change ((k, v) :: b :: l2) with ([(k, v)] ++ b :: l2). rewrite removelast_app by discriminate. reflexivity. }
        destruct Hitems as [l2' E2]. rewrite E2 in *.
        eapply (IH _ ((j, w) :: l1) k v l2' HI' eq_refl Hk'). try rewrite Hcap.
        eapply N.le_lt_trans; [|exact Hd]. apply of_nat_le. apply distinct_incl. intros x Hx. simpl in Hx.
        destruct Hx as [Hx|Hx]; [subst; apply in_or_app; right; left; reflexivity|].
        apply in_app_iff in Hx. apply in_or_app.
        destruct Hx as [Hx|Hx]; [left; exact Hx|right; right; exact Hx].
    + (* Dump *)
      eapply (IH _ l1 k v l2 HI Hs Hk'). exact Hd.
Qed.

(* after a Put k v (or any state where k is the most recent entry), operations on other keys
   touching fewer distinct keys than the capacity leave (k, v) cached: the next Get k answers v *)
Theorem retention c pre k v mid :
  Forall (fun o => op_key o <> Some k) mid ->
  N.of_nat (distinct (keys_of mid)) < norm_cap c ->
  snd (r_step (r_exec (r_new c) (pre ++ Put k v :: mid)) (Get k)) = RVal v.
Proof.
  intros Hk Hd.
  assert (Hx : forall a b s, r_exec s (a ++ b) = r_exec (r_exec s a) b).
  { induction a as [|o a IHa]; intros b s; simpl; [reflexivity|apply IHa]. }
  rewrite Hx. set (s0 := r_exec (r_new c) pre).
  change (r_exec s0 (Put k v :: mid)) with (r_exec (fst (r_step s0 (Put k v))) mid).
  pose proof (RI_exec pre _ (RI_new c)) as HI0. fold s0 in HI0.
  assert (Hcap0 : r_cap s0 = norm_cap c) by (unfold s0; rewrite r_cap_exec; reflexivity).
  pose proof (RI_step s0 (Put k v) HI0) as HI1. pose proof (r_cap_step s0 (Put k v)) as Hc1.
  assert (Hfront : exists l2, r_items (fst (r_step s0 (Put k v))) = [] ++ (k, v) :: l2).
  { simpl. destruct (rfind k (r_items s0)); simpl; eexists; reflexivity. }
  destruct Hfront as [l2 Hf].
  set (s1 := fst (r_step s0 (Put k v))) in *.
  destruct (retention_gen mid s1 [] k v l2 HI1 Hf Hk) as [l1' [l2' E]].
  { rewrite Hc1, Hcap0. exact Hd. }
  pose proof (RI_exec mid _ HI1) as HIf. pose proof (ri_nodup _ HIf) as Hn.
  set (sf := r_exec s1 mid) in *. rewrite E in Hn.
  assert (Hnk : ~ In k (keys l1')).
  { unfold keys in Hn. rewrite map_app in Hn. simpl in Hn. apply NoDup_remove_2 in Hn.
    intros Hin. apply Hn. apply in_or_app. left. exact Hin. }
  unfold r_step. rewrite E, (rfind_app_notin _ _ _ Hnk). simpl. rewrite N.eqb_refl. reflexivity.
Qed.
