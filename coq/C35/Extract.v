From Coq Require Import Extraction ExtrOcamlBasic.
From Common Require Import Bytes Drv Lock.
From Conc Require Import Lin.
From C35 Require Import Model ModelVm Gen Checker.
Extraction "model.ml" drv_b2n drv_n2b drv_z_of_n drv_n_of_z drv_nat_of_n drv_n_of_nat
  r_new r_step r_run t_new t_run m_new m_run p_new p_run res_eqb r_buckets
  lru_lin lru_lin_complete lru_cert lru_pcert lru_mode_get lru_mode_put lru_discipline_ok probe_runs default_lru_capacity default_capacity.
