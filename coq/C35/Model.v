(* C35/Model.v — models of lib/utils/lru-cache/lru_cache.go (definitions only).

   Keys and values are numbers (the Go type is generic; the harness instantiates
   LRUCache[uint64,uint64]); the zero value returned by a missing Get is 0.

   Four levels, most abstract first:
     TSpec   "least recently used" said with time stamps: every hit and every put stamps the
             entry with the current time; a put of a new key into a full cache evicts the entry
             with the smallest stamp.
     RSpec   capacity-bounded recency list of (key,value), most recent first. This is the
             executable sequential specification the linearizability checker runs.
     Model   Tier A, sequential, "map + recency list" as the Go code has them: the map sends a
             key to an element handle, the list holds the elements (handle,key,value).
             Follows LRUCache.Get / Put branch by branch.
     PModel  Tier A at the level of container/list: elements are cells of a heap with next/prev
             pointers, a sentinel root and a length; every Go statement that touches shared
             memory is one ATOMIC MICRO-STEP of a little state machine, so that method bodies
             can be interleaved by Conc.LockedObject.  *)
From Coq Require Import List NArith Bool Arith Lia.
From Coq Require String.
From Common Require Import Lock.
Import ListNotations.
Local Open Scope N_scope.

(* ------------------------------------------------------------------------------------ *)
(* operations and results, shared by all levels *)
Inductive op := Get (k : N) | Put (k v : N) | Dump.
Inductive res := RVal (v : N) | RUnit | RList (l : list (N * N)) | RPanic.

Fixpoint pairs_eqb (a b : list (N * N)) : bool :=
  match a, b with
  | [], [] => true
  | (k, v) :: a', (k', v') :: b' => (k =? k') && (v =? v') && pairs_eqb a' b'
  | _, _ => false
  end.
Definition res_eqb (a b : res) : bool :=
  match a, b with
  | RVal x, RVal y => x =? y
  | RUnit, RUnit => true
  | RList x, RList y => pairs_eqb x y
  | RPanic, RPanic => true
  | _, _ => false
  end.

Definition default_capacity : N := 20.
(* NewLRUCache: capacity < 1 becomes DefaultLRUCapacity *)
Definition norm_cap (c : N) : N := if c <? 1 then default_capacity else c.

(* ------------------------------------------------------------------------------------ *)
(* RSpec: the recency list *)
Record rspec := mkr { r_cap : N; r_items : list (N * N) }.

Fixpoint rfind (k : N) (l : list (N * N)) : option N :=
  match l with
  | [] => None
  | (k', v) :: r => if k' =? k then Some v else rfind k r
  end.
Fixpoint rremove (k : N) (l : list (N * N)) : list (N * N) :=
  match l with
  | [] => []
  | (k', v) :: r => if k' =? k then r else (k', v) :: rremove k r
  end.

Definition r_new (c : N) : rspec := mkr (norm_cap c) [].

Definition r_step (s : rspec) (o : op) : rspec * res :=
  match o with
  | Get k =>
    match rfind k (r_items s) with
    | Some v => (mkr (r_cap s) ((k, v) :: rremove k (r_items s)), RVal v)
    | None => (s, RVal 0)
    end
  | Put k v =>
    match rfind k (r_items s) with
    | Some _ => (mkr (r_cap s) ((k, v) :: rremove k (r_items s)), RUnit)
    | None =>
      let items := if r_cap s <=? N.of_nat (length (r_items s)) then removelast (r_items s)
                   else r_items s in
      (mkr (r_cap s) ((k, v) :: items), RUnit)
    end
  | Dump => (s, RList (r_items s))
  end.

Fixpoint r_run (s : rspec) (ops : list op) : list res :=
  match ops with
  | [] => []
  | o :: r => let (s', x) := r_step s o in x :: r_run s' r
  end.

(* ------------------------------------------------------------------------------------ *)
(* TSpec: time stamps.  Entries (key, (value, last use)); the order of the list carries no
   meaning (every function below is invariant under permutation as long as keys are unique). *)
Record tspec := mkt { t_cap : N; t_now : N; t_ents : list (N * (N * N)) }.

Fixpoint tfind (k : N) (l : list (N * (N * N))) : option (N * N) :=
  match l with
  | [] => None
  | (k', x) :: r => if k' =? k then Some x else tfind k r
  end.
Fixpoint tset (k : N) (x : N * N) (l : list (N * (N * N))) : list (N * (N * N)) :=
  match l with
  | [] => [(k, x)]
  | (k', y) :: r => if k' =? k then (k, x) :: r else (k', y) :: tset k x r
  end.
Fixpoint tdel (k : N) (l : list (N * (N * N))) : list (N * (N * N)) :=
  match l with
  | [] => []
  | (k', y) :: r => if k' =? k then r else (k', y) :: tdel k r
  end.
(* the key with the smallest stamp *)
Fixpoint toldest (l : list (N * (N * N))) : option (N * N) (* key, stamp *) :=
  match l with
  | [] => None
  | (k, (_, t)) :: r =>
    match toldest r with
    | Some (k', t') => if t' <? t then Some (k', t') else Some (k, t)
    | None => Some (k, t)
    end
  end.

Definition t_new (c : N) : tspec := mkt (norm_cap c) 0 [].

Definition t_step (s : tspec) (o : op) : tspec * res :=
  let now := t_now s in
  match o with
  | Get k =>
    match tfind k (t_ents s) with
    | Some (v, _) => (mkt (t_cap s) (now + 1) (tset k (v, now) (t_ents s)), RVal v)
    | None => (mkt (t_cap s) (now + 1) (t_ents s), RVal 0)
    end
  | Put k v =>
    match tfind k (t_ents s) with
    | Some _ => (mkt (t_cap s) (now + 1) (tset k (v, now) (t_ents s)), RUnit)
    | None =>
      let ents := if t_cap s <=? N.of_nat (length (t_ents s)) then
                    match toldest (t_ents s) with
                    | Some (k', _) => tdel k' (t_ents s)
                    | None => t_ents s
                    end
                  else t_ents s in
      (mkt (t_cap s) (now + 1) (tset k (v, now) ents), RUnit)
    end
  | Dump => (s, RUnit)     (* Dump is an observer of the recency order; TSpec has no order *)
  end.

(* results of Get/Put only (Dump is not an operation of the cache) *)
Fixpoint t_run (s : tspec) (ops : list op) : list res :=
  match ops with
  | [] => []
  | o :: r => let (s', x) := t_step s o in x :: t_run s' r
  end.

(* ------------------------------------------------------------------------------------ *)
(* Model: map + list of elements *)
Record elem := mke { e_id : nat; e_key : N; e_val : N }.
Record lru := mkl { cap : N; cache : list (N * nat); lst : list elem; fresh : nat }.

Fixpoint mget (k : N) (m : list (N * nat)) : option nat :=
  match m with
  | [] => None
  | (k', e) :: r => if k' =? k then Some e else mget k r
  end.
Fixpoint mset (k : N) (e : nat) (m : list (N * nat)) : list (N * nat) :=
  match m with
  | [] => [(k, e)]
  | (k', e') :: r => if k' =? k then (k, e) :: r else (k', e') :: mset k e r
  end.
Fixpoint mdel (k : N) (m : list (N * nat)) : list (N * nat) :=
  match m with
  | [] => []
  | (k', e') :: r => if k' =? k then r else (k', e') :: mdel k r
  end.

Fixpoint lfind (i : nat) (l : list elem) : option elem :=
  match l with
  | [] => None
  | e :: r => if Nat.eqb (e_id e) i then Some e else lfind i r
  end.
Fixpoint lremove (i : nat) (l : list elem) : list elem :=
  match l with
  | [] => []
  | e :: r => if Nat.eqb (e_id e) i then r else e :: lremove i r
  end.
Fixpoint lsetval (i : nat) (v : N) (l : list elem) : list elem :=
  match l with
  | [] => []
  | e :: r => if Nat.eqb (e_id e) i then mke (e_id e) (e_key e) v :: r else e :: lsetval i v r
  end.
(* container/list MoveToFront: nothing happens when the element is not in the list *)
Definition move_to_front (i : nat) (l : list elem) : list elem :=
  match lfind i l with
  | Some e => e :: lremove i l
  | None => l
  end.
Definition back (l : list elem) : option elem := last (map Some l) None.

Definition m_new (c : N) : lru := mkl (norm_cap c) [] [] 2%nat.

Definition m_step (s : lru) (o : op) : lru * res :=
  match o with
  | Get k =>
    match mget k (cache s) with
    | Some i =>
      let l' := move_to_front i (lst s) in
      (mkl (cap s) (cache s) l' (fresh s),
       match lfind i l' with Some e => RVal (e_val e) | None => RPanic end)
    | None => (s, RVal 0)
    end
  | Put k v =>
    match mget k (cache s) with
    | Some i =>
      (mkl (cap s) (cache s) (move_to_front i (lsetval i v (lst s))) (fresh s), RUnit)
    | None =>
      let '(c1, l1) :=
        if cap s <=? N.of_nat (length (cache s)) then
          match back (lst s) with
          | Some e => (mdel (e_key e) (cache s), lremove (e_id e) (lst s))
          | None => (cache s, lst s)
          end
        else (cache s, lst s) in
      let i := fresh s in
      (mkl (cap s) (mset k i c1) (mke i k v :: l1) (S i), RUnit)
    end
  | Dump => (s, RList (map (fun e => (e_key e, e_val e)) (lst s)))
  end.

Fixpoint m_run (s : lru) (ops : list op) : list res :=
  match ops with
  | [] => []
  | o :: r => let (s', x) := m_step s o in x :: m_run s' r
  end.

(* ------------------------------------------------------------------------------------ *)
(* PModel: the heap of container/list cells.  Pointer 0 is the sentinel &l.root, pointer 1 is
   nil, elements are allocated from 2 upwards. *)
Definition ROOT : nat := 0%nat.
Definition NIL : nat := 1%nat.

Definition upd {A} (f : nat -> A) (a : nat) (v : A) : nat -> A :=
  fun x => if Nat.eqb x a then v else f x.

Record pst := mkp {
  p_cap : N;
  p_map : list (N * nat);        (* c.cache *)
  p_nxt : nat -> nat;            (* Element.next *)
  p_prv : nat -> nat;            (* Element.prev *)
  p_own : nat -> bool;           (* Element.list == c.lruList *)
  p_key : nat -> N;              (* Element.Value.key *)
  p_val : nat -> N;              (* Element.Value.value *)
  p_len : nat;                   (* List.len *)
  p_fresh : nat }.

Definition p_new (c : N) : pst :=
  mkp (norm_cap c) [] (fun _ => ROOT) (fun _ => ROOT) (fun _ => false) (fun _ => 0) (fun _ => 0) 0 2.

(* where a MoveToFront returns to *)
Inductive after := AGet | APut.

Inductive loc :=
| LGet0 (k : N)                         (* elem, exists := c.cache[key] *)
| LPut0 (k v : N)                       (* elem, exists := c.cache[key] *)
| LPutW (e : nat) (v : N)               (* elem.Value.value = value *)
| LMtf (e : nat) (a : after)            (* if e.list != l || l.root.next == e return *)
| LMv (i : nat) (e : nat) (a : after)   (* the six assignments of List.move(e, &l.root) *)
| LGetRet (e : nat)                     (* return elem.Value.value *)
| LFull (k v : N)                       (* if len(c.cache) >= capacity *)
| LBack (k v : N)                       (* lastElem := c.lruList.Back() *)
| LDel (e : nat) (k v : N)              (* delete(c.cache, lastElem.key) *)
| LRmChk (e : nat) (k v : N)            (* Remove: if e.list == l *)
| LRm (i : nat) (e : nat) (k v : N)     (* the six statements of List.remove *)
| LAlloc (k v : N)                      (* newEntry, &Element{Value: v} *)
| LIns (i : nat) (e : nat) (k v : N)    (* the six statements of List.insert(e, &l.root) *)
| LMapSet (e : nat) (k v : N)           (* c.cache[key] = newElem *)
| LDump
| LDone (r : res).

Definition p_init (o : op) : loc :=
  match o with Get k => LGet0 k | Put k v => LPut0 k v | Dump => LDump end.
Definition p_fin (l : loc) : option res := match l with LDone r => Some r | _ => None end.

Definition after_mtf (e : nat) (a : after) : loc :=
  match a with AGet => LGetRet e | APut => LDone RUnit end.

(* a nil dereference panics *)
Definition isnil (p : nat) : bool := Nat.eqb p NIL.

Definition set_nxt (s : pst) (a v : nat) : pst :=
  mkp (p_cap s) (p_map s) (upd (p_nxt s) a v) (p_prv s) (p_own s) (p_key s) (p_val s) (p_len s) (p_fresh s).
Definition set_prv (s : pst) (a v : nat) : pst :=
  mkp (p_cap s) (p_map s) (p_nxt s) (upd (p_prv s) a v) (p_own s) (p_key s) (p_val s) (p_len s) (p_fresh s).
Definition set_own (s : pst) (a : nat) (v : bool) : pst :=
  mkp (p_cap s) (p_map s) (p_nxt s) (p_prv s) (upd (p_own s) a v) (p_key s) (p_val s) (p_len s) (p_fresh s).
Definition set_val (s : pst) (a : nat) (v : N) : pst :=
  mkp (p_cap s) (p_map s) (p_nxt s) (p_prv s) (p_own s) (p_key s) (upd (p_val s) a v) (p_len s) (p_fresh s).
Definition set_map (s : pst) (m : list (N * nat)) : pst :=
  mkp (p_cap s) m (p_nxt s) (p_prv s) (p_own s) (p_key s) (p_val s) (p_len s) (p_fresh s).
Definition set_len (s : pst) (n : nat) : pst :=
  mkp (p_cap s) (p_map s) (p_nxt s) (p_prv s) (p_own s) (p_key s) (p_val s) n (p_fresh s).

(* the list walked from the front, as the harness dumps it: follow next until the sentinel,
   at most len+1 cells *)
Fixpoint walk (fuel : nat) (s : pst) (p : nat) : list (N * N) :=
  match fuel with
  | O => []
  | S f => if Nat.eqb p ROOT || isnil p then [] else (p_key s p, p_val s p) :: walk f s (p_nxt s p)
  end.
Definition p_dump (s : pst) : list (N * N) := walk (S (p_len s)) s (p_nxt s ROOT).

Definition panic : loc := LDone RPanic.

Definition p_mstep (l : loc) (s : pst) : loc * pst :=
  match l with
  | LGet0 k =>
    match mget k (p_map s) with
    | Some e => (LMtf e AGet, s)
    | None => (LDone (RVal 0), s)
    end
  | LPut0 k v =>
    match mget k (p_map s) with
    | Some e => (LPutW e v, s)
    | None => (LFull k v, s)
    end
  | LPutW e v => (LMtf e APut, set_val s e v)
  | LMtf e a =>
    if negb (p_own s e) || Nat.eqb (p_nxt s ROOT) e then (after_mtf e a, s)
    else (LMv 1 e a, s)        (* move(e, &l.root): e == at is impossible for an element *)
  | LMv 1 e a =>               (* e.prev.next = e.next *)
    if isnil (p_prv s e) then (panic, s) else (LMv 2 e a, set_nxt s (p_prv s e) (p_nxt s e))
  | LMv 2 e a =>               (* e.next.prev = e.prev *)
    if isnil (p_nxt s e) then (panic, s) else (LMv 3 e a, set_prv s (p_nxt s e) (p_prv s e))
  | LMv 3 e a => (LMv 4 e a, set_prv s e ROOT)                   (* e.prev = at *)
  | LMv 4 e a => (LMv 5 e a, set_nxt s e (p_nxt s ROOT))         (* e.next = at.next *)
  | LMv 5 e a =>               (* e.prev.next = e *)
    if isnil (p_prv s e) then (panic, s) else (LMv 6 e a, set_nxt s (p_prv s e) e)
  | LMv _ e a =>               (* e.next.prev = e *)
    if isnil (p_nxt s e) then (panic, s) else (after_mtf e a, set_prv s (p_nxt s e) e)
  | LGetRet e => (LDone (RVal (p_val s e)), s)
  | LFull k v =>
    if p_cap s <=? N.of_nat (length (p_map s)) then (LBack k v, s) else (LAlloc k v, s)
  | LBack k v =>
    if Nat.eqb (p_len s) 0 then (LAlloc k v, s) else
    if isnil (p_prv s ROOT) then (LAlloc k v, s) else (LDel (p_prv s ROOT) k v, s)
  | LDel e k v => (LRmChk e k v, set_map s (mdel (p_key s e) (p_map s)))
  | LRmChk e k v => if p_own s e then (LRm 1 e k v, s) else (LAlloc k v, s)
  | LRm 1 e k v =>             (* e.prev.next = e.next *)
    if isnil (p_prv s e) then (panic, s) else (LRm 2 e k v, set_nxt s (p_prv s e) (p_nxt s e))
  | LRm 2 e k v =>             (* e.next.prev = e.prev *)
    if isnil (p_nxt s e) then (panic, s) else (LRm 3 e k v, set_prv s (p_nxt s e) (p_prv s e))
  | LRm 3 e k v => (LRm 4 e k v, set_nxt s e NIL)
  | LRm 4 e k v => (LRm 5 e k v, set_prv s e NIL)
  | LRm 5 e k v => (LRm 6 e k v, set_own s e false)
  | LRm _ e k v => (LAlloc k v, set_len s (pred (p_len s)))
  | LAlloc k v =>
    let e := p_fresh s in
    (LIns 1 e k v,
     mkp (p_cap s) (p_map s) (upd (p_nxt s) e NIL) (upd (p_prv s) e NIL) (upd (p_own s) e false)
         (upd (p_key s) e k) (upd (p_val s) e v) (p_len s) (S e))
  | LIns 1 e k v => (LIns 2 e k v, set_prv s e ROOT)              (* e.prev = at *)
  | LIns 2 e k v => (LIns 3 e k v, set_nxt s e (p_nxt s ROOT))    (* e.next = at.next *)
  | LIns 3 e k v =>            (* e.prev.next = e *)
    if isnil (p_prv s e) then (panic, s) else (LIns 4 e k v, set_nxt s (p_prv s e) e)
  | LIns 4 e k v =>            (* e.next.prev = e *)
    if isnil (p_nxt s e) then (panic, s) else (LIns 5 e k v, set_prv s (p_nxt s e) e)
  | LIns 5 e k v => (LIns 6 e k v, set_own s e true)
  | LIns _ e k v => (LMapSet e k v, set_len s (S (p_len s)))
  | LMapSet e k v => (LDone RUnit, set_map s (mset k e (p_map s)))
  | LDump => (LDone (RList (p_dump s)), s)
  | LDone r => (LDone r, s)
  end.

(* sequential execution of one operation: at most 24 micro-steps *)
Fixpoint p_body (fuel : nat) (l : loc) (s : pst) : option (res * pst) :=
  match p_fin l with
  | Some r => Some (r, s)
  | None => match fuel with
            | O => None
            | S f => let (l', s') := p_mstep l s in p_body f l' s'
            end
  end.
Definition p_step (s : pst) (o : op) : pst * res :=
  match p_body 32 (p_init o) s with
  | Some (r, s') => (s', r)
  | None => (s, RPanic)
  end.
Fixpoint p_run (s : pst) (ops : list op) : list res :=
  match ops with
  | [] => []
  | o :: r => let (s', x) := p_step s o in x :: p_run s' r
  end.

(* ------------------------------------------------------------------------------------ *)
(* the lock mode of a method, looked up by name in the table the translator generates *)
Import String.
Definition method_name (o : op) : String.string :=
  match o with Get _ => "Get"%string | Put _ _ => "Put"%string | Dump => "(harness dump)"%string end.
Definition exclusive_entry (x : String.string * lockmode * bool) : bool :=
  match x with (_, LockExclusive, true) => true | _ => false end.
Definition mode_of (tbl : list (String.string * lockmode * bool)) (o : op) : lockmode :=
  match o with
  | Dump => LockExclusive                  (* the harness dumps under c.Lock() *)
  | _ => match lock_of tbl (method_name o) with
         | Some (m, _) => m
         | None => LockNone
         end
  end.
