(* C12/Model.v — entry points of the C12 check (definitions only).  The model is the shared
   library Scale (Types, Spec, Codec). *)
From Common Require Import Bytes Outcome.
From Scale Require Import Compact Types Spec Codec.
Local Open Scope N_scope.

(* the implementation's observables of one decode *)
Inductive impl_obs :=
| IOk (v : value) (consumed : nat) (large_alloc : bool)
| IErr (large_alloc : bool)
| IPanic.

(* the property predicate: a successful decode returns a well-typed value whose canonical
   encoding is exactly the consumed prefix; no panic; no allocation much larger than the input *)
Definition c12_prop (t : ty) (bs : list byte) (o : impl_obs) : bool :=
  match o with
  | IOk v consumed large =>
      has_type v t && bytes_eqb (spec_encode t v) (firstn consumed bs)
      && (consumed <=? length bs)%nat && negb large
  | IErr large => negb large
  | IPanic => false
  end.

(* the allocation budget the harness measures against: 256 KiB + 2048 bytes per input byte *)
Definition alloc_budget (bs : list byte) : N := 262144 + 2048 * N.of_nat (length bs).

(* cfg with the hypothetical strict map decoding (keys strictly ascending) *)
Definition strict (c : cfg) : cfg :=
  {| fix_read := fix_read c; fix_big := fix_big c; fix_bytes := fix_bytes c; fix_map := fix_map c;
     fix_uint57 := fix_uint57 c; strict_map := true |}.

Definition with_bytes (c : cfg) : cfg :=
  {| fix_read := fix_read c; fix_big := fix_big c; fix_bytes := true; fix_map := fix_map c;
     fix_uint57 := fix_uint57 c; strict_map := strict_map c |}.

(* guard of finding C12 bytes-overrun: some byte string / string in the input declares a length
   larger than the input that remains.  decodeBytes allocates the declared length and accepts the
   short read (zero-filled); the repaired decodeBytes (cfg with_bytes) fails instead, so the two
   decoders disagree on the outcome exactly on these inputs; when both fail, the guard is the
   allocation itself (a string is copied once more by the []byte -> string conversion: factor 2) *)
Definition bytes_overrun (t : ty) (bs : list byte) : bool :=
  match decode_res current t bs, decode_res (with_bytes current) t bs with
  | Ok _, Err _ => true
  | Err _, Err _ => alloc_budget bs <? 2 * decode_cost current t bs
  | _, _ => false
  end.

(* the decoder with both hypothetical repairs: chunked decodeBytes and strict map keys *)
Definition repaired (c : cfg) : cfg := strict (with_bytes c).

(* guard of finding C12 map-noncanonical: the input is accepted only because decodeMap takes
   entries in any key order / with repeated keys: the decoder with the chunked decodeBytes accepts
   it, the one that also requires strictly ascending keys rejects it.  (Second round: compared
   from [with_bytes current] rather than from [current], so that "no guard fires" is exactly the
   hypothesis of C12_prefix_guarded; on inputs without byte-string overrun the two coincide.) *)
Definition map_noncanonical (t : ty) (bs : list byte) : bool :=
  match decode_res (with_bytes current) t bs, decode_res (repaired current) t bs with
  | Ok _, Err _ => true
  | _, _ => false
  end.

(* ---- second round (auditor): decoding into a destination that already holds a value.
   The harness also decodes into pre-populated destinations (`dec dirty ... <dirt>`); the result
   must not depend on the previous content, so the model is the same [decode].  One defect class
   remains on the tree (finding dirty-nested-option): decodePointer, on Some, into a destination
   pointer that is non-nil and whose pointee is again a Go pointer (option of an option, of a
   *big.Int or of a *Uint128), unmarshals into pointee.Elem(), skipping one level: an
   Option<big> keeps its old number and consumes nothing, an Option<Option<T>> decodes T from
   the inner option byte, and a destination holding Some(None) panics (pkg/scale's own
   Test_unmarshal_optionality pins the branch).  The guard: the previous content [d] of the
   destination has a Some at such a type in a position that flows into the decode - struct
   fields, the pointee of a Some, the held alternative of a result (slices, arrays, enums and
   map entries are rebuilt from fresh values). *)
Definition ptr_repr (t : ty) : bool :=
  match t with TOption _ | TBig | TU128 => true | _ => false end.
Fixpoint dirty_nested (t : ty) (d : value) {struct d} : bool :=
  match d, t with
  | VSome d', TOption t' => ptr_repr t' || dirty_nested t' d'
  | VOk d', TResult a _ => dirty_nested a d'
  | VErr d', TResult _ b => dirty_nested b d'
  | VList ds, TStruct fs => dirty_nested_fields fs ds
  | _, _ => false
  end
with dirty_nested_fields (fs : tys) (ds : vals) {struct ds} : bool :=
  match ds, fs with
  | VCons d r, TCons _ t fr => dirty_nested t d || dirty_nested_fields fr r
  | _, _ => false
  end.
