(* C12/Model.v — entry points of the C12 check (definitions only).  The model is the shared
   library Scale (Types, Spec, Codec). *)
From Common Require Import Bytes Outcome.
From Scale Require Import Compact Types Spec Codec.
Local Open Scope N_scope.

(* the implementation's observables of one decode *)
Inductive impl_obs :=
| IOk (v : value) (consumed : nat) (large_alloc : bool)
| IErr (large_alloc : bool)
| IPanic.

(* the property predicate: a successful decode returns a well-typed value whose canonical
   encoding is exactly the consumed prefix; no panic; no allocation much larger than the input *)
Definition c12_prop (t : ty) (bs : list byte) (o : impl_obs) : bool :=
  match o with
  | IOk v consumed large =>
      has_type v t && bytes_eqb (spec_encode t v) (firstn consumed bs)
      && (consumed <=? length bs)%nat && negb large
  | IErr large => negb large
  | IPanic => false
  end.

(* the allocation budget the harness measures against: 256 KiB + 2048 bytes per input byte *)
Definition alloc_budget (bs : list byte) : N := 262144 + 2048 * N.of_nat (length bs).

(* cfg with the hypothetical strict map decoding (keys strictly ascending) *)
Definition strict (c : cfg) : cfg :=
  {| fix_read := fix_read c; fix_big := fix_big c; fix_bytes := fix_bytes c; fix_map := fix_map c;
     fix_uint57 := fix_uint57 c; strict_map := true |}.

Definition with_bytes (c : cfg) : cfg :=
  {| fix_read := fix_read c; fix_big := fix_big c; fix_bytes := true; fix_map := fix_map c;
     fix_uint57 := fix_uint57 c; strict_map := strict_map c |}.

(* guard of finding C12 bytes-overrun: some byte string / string in the input declares a length
   larger than the input that remains.  decodeBytes allocates the declared length and accepts the
   short read (zero-filled); the repaired decodeBytes (cfg with_bytes) fails instead, so the two
   decoders disagree on the outcome exactly on these inputs; when both fail, the guard is the
   allocation itself (a string is copied once more by the []byte -> string conversion: factor 2) *)
Definition bytes_overrun (t : ty) (bs : list byte) : bool :=
  match decode_res current t bs, decode_res (with_bytes current) t bs with
  | Ok _, Err _ => true
  | Err _, Err _ => alloc_budget bs <? 2 * decode_cost current t bs
  | _, _ => false
  end.

(* guard of finding C12 map-noncanonical: the decoder accepts the input only because decodeMap
   takes entries in any key order / with repeated keys *)
Definition map_noncanonical (t : ty) (bs : list byte) : bool :=
  match decode_res current t bs, decode_res (strict current) t bs with
  | Ok _, Err _ => true
  | _, _ => false
  end.
