(* C12/Properties.v — property C12: SCALE decoding rejects malformed input safely.
   Only statements, each closed by `exact <lemma>`, with Print Assumptions beneath. *)
From Common Require Import Bytes Outcome.
From Scale Require Import Compact CompactProofs Types Spec Codec EncodeProofs MonadLemmas RoundTrip Prefix Total Cost.
From Scale Require Import WellTyped CostExcess CostDeclared.
From C12 Require Import Model Proofs ProofsExcess ProofsDeclared.
Local Open Scope N_scope.

(* Universe: Scale/Types.v; specification: Scale/Spec.v; model of pkg/scale decode.go:
   Scale/Codec.v (decode at a cfg).  [ideal] is the decoder with every defect repaired, [current]
   the tree with the proposed patches (fixes/C12-short-read, -bigint-canonical, -map-nil), on which
   the two findings bytes-overrun and map-noncanonical remain; [repaired current] repairs exactly
   those two, so "decode_res (repaired current) = decode_res current" says no finding guard fires. *)

(* whatever the decoder accepts is canonical: the returned value is well typed and the input is
   exactly its canonical encoding followed by the unconsumed rest *)
Theorem C12_prefix_ideal : forall t bs v r,
  wf_ty t = true -> decode_res ideal t bs = Ok (v, r) ->
  has_type v t = true /\ bs = spec_encode t v ++ r.
Proof. exact prefix_ideal. Qed.
Print Assumptions C12_prefix_ideal.

Theorem C12_prefix_partial : forall t bs v r,
  wf_ty t = true -> decode_res current t bs = Ok (v, r) ->
  decode_res (repaired current) t bs = Ok (v, r) ->
  has_type v t = true /\ bs = spec_encode t v ++ r.
Proof. exact prefix_current_partial. Qed.
Print Assumptions C12_prefix_partial.

(* THE STATEMENT TIED TO THE CODE: on the current tree, for every well-formed type and every byte
   string, an accepted input outside the two finding guards - the same two boolean guards the
   driver evaluates on every case (Model.bytes_overrun, Model.map_noncanonical) - returned a
   well-typed value whose canonical encoding is exactly the consumed prefix *)
Theorem C12_prefix_guarded : forall t bs v r,
  wf_ty t = true -> decode_res current t bs = Ok (v, r) ->
  bytes_overrun t bs = false -> map_noncanonical t bs = false ->
  has_type v t = true /\ bs = spec_encode t v ++ r.
Proof. exact prefix_guarded. Qed.
Print Assumptions C12_prefix_guarded.

(* the guards are narrow: they never fire on an input the tree decodes canonically (so every
   guarded acceptance is a real failure of the property) *)
Theorem C12_guards_only_failures : forall t bs v r,
  wf_ty t = true -> decode_res current t bs = Ok (v, r) ->
  has_type v t = true -> bs = spec_encode t v ++ r -> has_uint57 t v = false ->
  bytes_overrun t bs = false /\ map_noncanonical t bs = false.
Proof. exact guards_only_failures. Qed.
Print Assumptions C12_guards_only_failures.

(* truncation and non-canonical input on the current tree, outside the guards *)
Theorem C12_truncation_guarded : forall t v p s,
  wf_ty t = true -> has_type v t = true -> spec_encode t v = p ++ s -> s <> [] ->
  bytes_overrun t p = false -> map_noncanonical t p = false ->
  forall w r, decode_res current t p <> Ok (w, r).
Proof. exact truncation_guarded. Qed.
Print Assumptions C12_truncation_guarded.

Theorem C12_noncanonical_guarded : forall t bs,
  wf_ty t = true -> (forall v r, has_type v t = true -> bs <> spec_encode t v ++ r) ->
  bytes_overrun t bs = false -> map_noncanonical t bs = false ->
  forall w r, decode_res current t bs <> Ok (w, r).
Proof. exact noncanonical_guarded. Qed.
Print Assumptions C12_noncanonical_guarded.

(* every strict prefix of a canonical encoding is rejected (never zero-filled) *)
Theorem C12_truncation_ideal : forall t v p s,
  wf_ty t = true -> has_type v t = true -> spec_encode t v = p ++ s -> s <> [] ->
  forall w r, decode_res ideal t p <> Ok (w, r).
Proof. exact truncation_ideal. Qed.
Print Assumptions C12_truncation_ideal.

(* non-canonical encodings (of compact integers or anything else) are rejected *)
Theorem C12_noncanonical_ideal : forall t bs,
  wf_ty t = true -> (forall v r, has_type v t = true -> bs <> spec_encode t v ++ r) ->
  forall w r, decode_res ideal t bs <> Ok (w, r).
Proof. exact noncanonical_ideal. Qed.
Print Assumptions C12_noncanonical_ideal.

(* decoding never panics and always terminates (no fuel exhaustion), for every well-formed type
   and every input, on the current tree *)
Theorem C12_total : forall t bs,
  wf_ty t = true -> decode_res current t bs <> Panic /\ decode_res current t bs <> OutOfFuel.
Proof. exact total_current. Qed.
Print Assumptions C12_total.

(* allocation: the decoder with the repaired decodeBytes never requests more than a constant
   (computed from the type: Scale.Cost.ca, cb) times 1 + the input length *)
Theorem C12_alloc_ideal : forall t bs,
  wf_ty t = true -> decode_cost ideal t bs <= (ca t + cb t) * (1 + len bs).
Proof. exact alloc_ideal. Qed.
Print Assumptions C12_alloc_ideal.

(* on the current tree the same bound holds for every type without []byte / string components *)
Theorem C12_alloc_partial : forall t bs,
  wf_ty t = true -> bytes_free t = true -> decode_cost current t bs <= (ca t + cb t) * (1 + len bs).
Proof. exact alloc_current_partial. Qed.
Print Assumptions C12_alloc_partial.

(* round 5: the excess of the CURRENT tree over the linear bound, named.  A decode that succeeds
   (for any type without maps) requested at most the linear bound PLUS the total length of the
   byte strings / strings in the value it returned - the lengths decodeBytes declared and accepted,
   zero-filled or not.  So the declared byte-string lengths (the guard of finding bytes-overrun)
   are the only source of super-linear allocation.  Failing decodes are not covered by this
   statement (for those: C12_alloc_partial, types without byte strings). *)
Theorem C12_alloc_excess : forall t bs v r,
  wf_ty t = true -> map_free t = true -> decode_res current t bs = Ok (v, r) ->
  decode_cost current t bs <= (ca t + cb t) * (1 + len bs) + bytes_total v.
Proof. exact alloc_excess. Qed.
Print Assumptions C12_alloc_excess.

Example C12_alloc_excess_nonvacuous :
  let bs := [b 253; b 255; b 65] in
  let v := VBytes (b 65 :: repeat (b 0) (N.to_nat 16382)) in
  decode_res current TBytes bs = Ok (v, []) /\ bytes_total v = 16383 /\
  16383 <= decode_cost current TBytes bs /\
  decode_cost current TBytes bs <= (ca TBytes + cb TBytes) * (1 + len bs) + bytes_total v.
Proof. exact alloc_excess_witness. Qed.

(* closer: the same for EVERY input and every well-formed type, maps included, whatever the outcome
   (failing decodes too).  declared_total t bs = Scale.CostDeclared.declared current t bs is a walker
   over the input: it follows the decoder and sums the byte-string lengths decodeBytes accepts
   (passes to make) on the way, whether or not the read that follows or a later component fails.
   The current tree requests at most the linear bound plus that sum; on a successful decode of a
   map-free type the sum is bytes_total of the returned value (C12_alloc_excess is that case). *)
Theorem C12_alloc_declared : forall t bs,
  wf_ty t = true ->
  decode_cost current t bs <= (ca t + cb t) * (1 + len bs) + declared_total t bs.
Proof. exact alloc_declared. Qed.
Print Assumptions C12_alloc_declared.

Theorem C12_alloc_declared_success : forall t bs v r,
  map_free t = true -> decode_res current t bs = Ok (v, r) -> declared_total t bs = bytes_total v.
Proof. exact declared_success. Qed.
Print Assumptions C12_alloc_declared_success.

(* non-vacuity: a failing decode whose accepted 16 383 bytes appear in no result, and a map with
   a repeated key whose dropped value is still counted *)
Example C12_alloc_declared_nonvacuous :
  let t1 := TStruct (TCons None TBytes (TCons None TU8 TNil)) in
  let bs1 := [b 253; b 255; b 65] in
  let t2 := TMap TU8 TBytes in
  let bs2 := [b 8; b 1; b 8; b 65; b 66; b 1; b 4; b 67] in
  (wf_ty t1 = true /\ decode_res current t1 bs1 = Err 1%nat /\ declared_total t1 bs1 = 16383 /\
   16383 <= decode_cost current t1 bs1 /\
   decode_cost current t1 bs1 <= (ca t1 + cb t1) * (1 + len bs1) + declared_total t1 bs1) /\
  (wf_ty t2 = true /\
   decode_res current t2 bs2 = Ok (VMap (KCons (VN 1) (VBytes [b 67]) KNil), []) /\
   bytes_total (VMap (KCons (VN 1) (VBytes [b 67]) KNil)) = 1 /\ declared_total t2 bs2 = 3).
Proof. exact alloc_declared_witness. Qed.

(* finding bytes-overrun: with []byte the current tree has no such bound *)
Theorem C12_alloc_refuted :
  exists t bs, wf_ty t = true /\ len bs = 5 /\ 65536 <= decode_cost current t bs /\
               decode_cost ideal t bs <= 5000.
Proof. exact alloc_current_refuted. Qed.
Print Assumptions C12_alloc_refuted.

(* the pinned tree (before fixes/C12-map-nil.patch) panics *)
Theorem C12_total_pinned_refuted : exists t bs, wf_ty t = true /\ decode_res pinned t bs = Panic.
Proof. exact pinned_panics. Qed.
Print Assumptions C12_total_pinned_refuted.

(* the pinned tree violates the property in three ways repaired by fixes/C12-*.patch:
   a u32 decodes from two bytes (zero-filled), a non-canonical big integer is accepted,
   decoding into a nil map panics *)
Theorem C12_pinned_refuted :
  decode_res pinned TU32 [b 1; b 2] = Ok (VN 513, []) /\
  decode_res pinned TBig [b 1; b 0] = Ok (VN 0, []) /\
  decode_res pinned (TMap TU8 TU8) [b 4; b 1; b 2] = Panic.
Proof. exact pinned_witnesses. Qed.
Print Assumptions C12_pinned_refuted.

(* findings that remain on the repaired tree *)
Theorem C12_bytes_overrun_refuted :
  decode_res current TBytes [b 8; b 65] = Ok (VBytes [b 65; b 0], []) /\
  spec_encode TBytes (VBytes [b 65; b 0]) <> [b 8; b 65] /\
  bytes_overrun TBytes [b 8; b 65] = true /\
  65536 <= decode_cost current TBytes [b 2; b 0; b 4; b 0; b 65] /\
  decode_res ideal TBytes [b 8; b 65] = Err 1%nat /\
  decode_cost ideal TBytes [b 2; b 0; b 4; b 0; b 65] <= 5000.
Proof. exact bytes_overrun_witness. Qed.
Print Assumptions C12_bytes_overrun_refuted.

Theorem C12_map_noncanonical_refuted :
  decode_res current (TMap TU8 TU8) [b 8; b 1; b 1; b 1; b 2] = Ok (VMap (KCons (VN 1) (VN 2) KNil), []) /\
  spec_encode (TMap TU8 TU8) (VMap (KCons (VN 1) (VN 2) KNil)) = [b 4; b 1; b 2] /\
  map_noncanonical (TMap TU8 TU8) [b 8; b 1; b 1; b 1; b 2] = true /\
  decode_res ideal (TMap TU8 TU8) [b 8; b 1; b 1; b 1; b 2] = Err 1%nat.
Proof. exact map_dup_witness. Qed.
Print Assumptions C12_map_noncanonical_refuted.

(* non-vacuity: a 13-byte input decodes to a nested value whose canonical encoding is the input;
   the same input cut by one byte is rejected *)
Example C12_nonvacuous :
  let t := TStruct (TCons None (TSlice TU16) (TCons None (TOption TBig) (TCons None TBytes TNil))) in
  let bs := [b 8; b 1; b 0; b 2; b 0; b 1; b 3; b 0; b 0; b 0; b 64; b 4; b 65] in
  wf_ty t = true /\
  decode_res current t bs = Ok (VList (VCons (VList (VCons (VN 1) (VCons (VN 2) VNil)))
                                (VCons (VSome (VN 1073741824)) (VCons (VBytes [b 65]) VNil))), []) /\
  decode_res ideal t bs = decode_res current t bs /\
  bytes_overrun t bs = false /\ map_noncanonical t bs = false /\
  decode_res current t (firstn 12 bs) = Err 1%nat /\
  bytes_overrun t (firstn 12 bs) = false.
Proof. vm_compute. repeat split; reflexivity. Qed.
