(* C12/Properties.v — property C12: SCALE decoding rejects malformed input safely.
   Only statements, each closed by `exact <lemma>`, with Print Assumptions beneath. *)
From Common Require Import Bytes Outcome.
From Scale Require Import Compact CompactProofs Types Spec Codec.
From C12 Require Import Model Proofs.
Local Open Scope N_scope.

(* the pinned tree violates the property in three ways repaired by fixes/C12-*.patch:
   a u32 decodes from two bytes (zero-filled), a non-canonical big integer is accepted,
   decoding into a nil map panics *)
Theorem C12_pinned_refuted :
  decode_res pinned TU32 [b 1; b 2] = Ok (VN 513, []) /\
  decode_res pinned TBig [b 1; b 0] = Ok (VN 0, []) /\
  decode_res pinned (TMap TU8 TU8) [b 4; b 1; b 2] = Panic.
Proof. exact pinned_witnesses. Qed.
Print Assumptions C12_pinned_refuted.

(* findings that remain on the repaired tree *)
Theorem C12_bytes_overrun_refuted :
  decode_res current TBytes [b 8; b 65] = Ok (VBytes [b 65; b 0], []) /\
  spec_encode TBytes (VBytes [b 65; b 0]) <> [b 8; b 65] /\
  bytes_overrun TBytes [b 8; b 65] = true /\
  65536 <= decode_cost current TBytes [b 2; b 0; b 4; b 0; b 65] /\
  decode_res ideal TBytes [b 8; b 65] = Err 1%nat /\
  decode_cost ideal TBytes [b 2; b 0; b 4; b 0; b 65] <= 5000.
Proof. exact bytes_overrun_witness. Qed.
Print Assumptions C12_bytes_overrun_refuted.

Theorem C12_map_noncanonical_refuted :
  decode_res current (TMap TU8 TU8) [b 8; b 1; b 1; b 1; b 2] = Ok (VMap (KCons (VN 1) (VN 2) KNil), []) /\
  spec_encode (TMap TU8 TU8) (VMap (KCons (VN 1) (VN 2) KNil)) = [b 4; b 1; b 2] /\
  map_noncanonical (TMap TU8 TU8) [b 8; b 1; b 1; b 1; b 2] = true /\
  decode_res ideal (TMap TU8 TU8) [b 8; b 1; b 1; b 1; b 2] = Err 1%nat.
Proof. exact map_dup_witness. Qed.
Print Assumptions C12_map_noncanonical_refuted.
