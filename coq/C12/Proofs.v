(* C12/Proofs.v — lemmas behind C12/Properties.v (the bulk is in Scale/*Proofs.v). *)
From Common Require Import Bytes Outcome.
From Scale Require Import Compact CompactProofs Types Spec Codec.
From C12 Require Import Model.
Local Open Scope N_scope.

Definition b (n : N) : byte := n2b n.

(* the pinned tree: zero-filled short reads, non-canonical big integers, nil-map panic *)
Lemma pinned_witnesses :
  decode_res pinned TU32 [b 1; b 2] = Ok (VN 513, []) /\
  decode_res pinned TBig [b 1; b 0] = Ok (VN 0, []) /\
  decode_res pinned (TMap TU8 TU8) [b 4; b 1; b 2] = Panic.
Proof. vm_compute. repeat split; reflexivity. Qed.

Lemma current_witnesses :
  decode_res current TU32 [b 1; b 2] = Err 1%nat /\
  decode_res current TBig [b 1; b 0] = Err 1%nat /\
  decode_res current (TMap TU8 TU8) [b 4; b 1; b 2] = Ok (VMap (KCons (VN 1) (VN 2) KNil), []).
Proof. vm_compute. repeat split; reflexivity. Qed.

(* finding bytes-overrun on the current tree: a byte string is decoded from a truncated body
   (the missing byte is zero), and 5 input bytes make decodeBytes request 65536 bytes *)
Lemma bytes_overrun_witness :
  decode_res current TBytes [b 8; b 65] = Ok (VBytes [b 65; b 0], []) /\
  spec_encode TBytes (VBytes [b 65; b 0]) <> [b 8; b 65] /\
  bytes_overrun TBytes [b 8; b 65] = true /\
  65536 <= decode_cost current TBytes [b 2; b 0; b 4; b 0; b 65] /\
  decode_res ideal TBytes [b 8; b 65] = Err 1%nat /\
  decode_cost ideal TBytes [b 2; b 0; b 4; b 0; b 65] <= 5000.
Proof. vm_compute. repeat split; try reflexivity; discriminate. Qed.

(* finding map-noncanonical on the current tree: a repeated key is accepted *)
Lemma map_dup_witness :
  decode_res current (TMap TU8 TU8) [b 8; b 1; b 1; b 1; b 2] = Ok (VMap (KCons (VN 1) (VN 2) KNil), []) /\
  spec_encode (TMap TU8 TU8) (VMap (KCons (VN 1) (VN 2) KNil)) = [b 4; b 1; b 2] /\
  map_noncanonical (TMap TU8 TU8) [b 8; b 1; b 1; b 1; b 2] = true /\
  decode_res ideal (TMap TU8 TU8) [b 8; b 1; b 1; b 1; b 2] = Err 1%nat.
Proof. vm_compute. repeat split; reflexivity. Qed.
