(* C12/Proofs.v — lemmas behind C12/Properties.v (the bulk is in Scale/*Proofs.v). *)
From Common Require Import Bytes Outcome.
From Scale Require Import Compact CompactProofs Types Spec Codec.
From C12 Require Import Model.
Local Open Scope N_scope.

Definition b (n : N) : byte := n2b n.

(* the pinned tree: zero-filled short reads, non-canonical big integers, nil-map panic *)
Lemma pinned_witnesses :
  decode_res pinned TU32 [b 1; b 2] = Ok (VN 513, []) /\
  decode_res pinned TBytes [b 8; b 65] = Ok (VBytes [b 65; b 0], []) /\
  decode_res pinned TBig [b 1; b 0] = Ok (VN 0, []) /\
  decode_res pinned (TMap TU8 TU8) [b 4; b 1; b 2] = Panic.
Proof. vm_compute. repeat split; reflexivity. Qed.

(* the pinned decodeBytes allocates the declared length: 5 input bytes, 2^32-1 bytes requested *)
Lemma pinned_alloc_witness :
  4294967295 <= decode_cost pinned TBytes [b 3; b 255; b 255; b 255; b 255; b 65].
Proof. vm_compute. discriminate. Qed.

Lemma current_witnesses :
  decode_res current TU32 [b 1; b 2] = Err 1%nat /\
  decode_res current TBytes [b 8; b 65] = Err 1%nat /\
  decode_res current TBig [b 1; b 0] = Err 1%nat /\
  decode_res current (TMap TU8 TU8) [b 4; b 1; b 2] = Ok (VMap (KCons (VN 1) (VN 2) KNil), []) /\
  decode_cost current TBytes [b 3; b 255; b 255; b 255; b 255; b 65] <= 5000.
Proof. vm_compute. repeat split; try reflexivity. discriminate. Qed.

(* finding map-noncanonical on the current tree: a repeated key is accepted *)
Lemma map_dup_witness :
  decode_res current (TMap TU8 TU8) [b 8; b 1; b 1; b 1; b 2] = Ok (VMap (KCons (VN 1) (VN 2) KNil), []) /\
  spec_encode (TMap TU8 TU8) (VMap (KCons (VN 1) (VN 2) KNil)) = [b 4; b 1; b 2] /\
  map_noncanonical (TMap TU8 TU8) [b 8; b 1; b 1; b 1; b 2] = true.
Proof. vm_compute. repeat split; reflexivity. Qed.
