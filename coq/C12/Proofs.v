(* C12/Proofs.v — lemmas behind C12/Properties.v (the bulk is in Scale/*Proofs.v). *)
From Common Require Import Bytes Outcome.
From Scale Require Import Compact CompactProofs Types Spec Codec EncodeProofs MonadLemmas RoundTrip Prefix Total Cost Mono.
From C12 Require Import Model.
Local Open Scope N_scope.

Definition b (n : N) : byte := n2b n.

(* the pinned tree: zero-filled short reads, non-canonical big integers, nil-map panic *)
Lemma pinned_witnesses :
  decode_res pinned TU32 [b 1; b 2] = Ok (VN 513, []) /\
  decode_res pinned TBig [b 1; b 0] = Ok (VN 0, []) /\
  decode_res pinned (TMap TU8 TU8) [b 4; b 1; b 2] = Panic.
Proof. vm_compute. repeat split; reflexivity. Qed.

Lemma current_witnesses :
  decode_res current TU32 [b 1; b 2] = Err 1%nat /\
  decode_res current TBig [b 1; b 0] = Err 1%nat /\
  decode_res current (TMap TU8 TU8) [b 4; b 1; b 2] = Ok (VMap (KCons (VN 1) (VN 2) KNil), []).
Proof. vm_compute. repeat split; reflexivity. Qed.

(* finding bytes-overrun on the current tree: a byte string is decoded from a truncated body
   (the missing byte is zero), and 5 input bytes make decodeBytes request 65536 bytes *)
Lemma bytes_overrun_witness :
  decode_res current TBytes [b 8; b 65] = Ok (VBytes [b 65; b 0], []) /\
  spec_encode TBytes (VBytes [b 65; b 0]) <> [b 8; b 65] /\
  bytes_overrun TBytes [b 8; b 65] = true /\
  65536 <= decode_cost current TBytes [b 2; b 0; b 4; b 0; b 65] /\
  decode_res ideal TBytes [b 8; b 65] = Err 1%nat /\
  decode_cost ideal TBytes [b 2; b 0; b 4; b 0; b 65] <= 5000.
Proof. vm_compute. repeat split; try reflexivity; discriminate. Qed.

(* finding map-noncanonical on the current tree: a repeated key is accepted *)
Lemma map_dup_witness :
  decode_res current (TMap TU8 TU8) [b 8; b 1; b 1; b 1; b 2] = Ok (VMap (KCons (VN 1) (VN 2) KNil), []) /\
  spec_encode (TMap TU8 TU8) (VMap (KCons (VN 1) (VN 2) KNil)) = [b 4; b 1; b 2] /\
  map_noncanonical (TMap TU8 TU8) [b 8; b 1; b 1; b 1; b 2] = true /\
  decode_res ideal (TMap TU8 TU8) [b 8; b 1; b 1; b 1; b 2] = Err 1%nat.
Proof. vm_compute. repeat split; reflexivity. Qed.

(* ---- the properties of the decoder with all repairs (cfg ideal) *)
Lemma res_of_run c t bs v r :
  decode_res c t bs = Ok (v, r) -> exists m', decode c t bs 0 = (Ok (v, r), m').
Proof.
  unfold decode_res, run_decode. destruct (decode c t bs 0) as [o m'] eqn:E. cbn. intros ->. now exists m'.
Qed.

Lemma prefix_ideal t bs v r :
  wf_ty t = true -> decode_res ideal t bs = Ok (v, r) ->
  has_type v t = true /\ bs = spec_encode t v ++ r.
Proof.
  intros W H. apply res_of_run in H as [m' H].
  exact (decode_prefix ideal eq_refl eq_refl eq_refl eq_refl t bs 0 v r m' W H).
Qed.

(* on the current tree the same holds whenever neither finding guard fires, because then the
   current decoder and the ideal one agree ... stated directly: if the decoder with the two
   hypothetical repairs (bytes, strict maps) returns the same result, the result is canonical *)
Lemma prefix_current_partial t bs v r :
  wf_ty t = true -> decode_res current t bs = Ok (v, r) ->
  decode_res (repaired current) t bs = Ok (v, r) ->
  has_type v t = true /\ bs = spec_encode t v ++ r.
Proof.
  intros W _ H. apply res_of_run in H as [m' H].
  exact (decode_prefix (repaired current) eq_refl eq_refl eq_refl eq_refl t bs 0 v r m' W H).
Qed.

Lemma app_inv_length {A} (a b c d : list A) : a ++ b = c ++ d -> length a = length c -> a = c /\ b = d.
Proof.
  revert c; induction a as [|x a IH]; intros [|y c] E L; try discriminate L; cbn in *.
  - now split.
  - injection E as -> E. injection L as L. destruct (IH c E L) as [-> ->]. now split.
Qed.

(* truncated input always fails *)
Lemma truncation_ideal t v p s :
  wf_ty t = true -> has_type v t = true -> spec_encode t v = p ++ s -> s <> [] ->
  forall w r, decode_res ideal t p <> Ok (w, r).
Proof.
  intros W H E NE w r D.
  destruct (prefix_ideal t p w r W D) as [Hw Ep].
  (* p = spec w ++ r, and spec v = p ++ s = spec w ++ (r ++ s): decode both *)
  assert (R1 : decode_res ideal t (spec_encode t w ++ (r ++ s)) = Ok (w, r ++ s)).
  { rewrite <- (encode_canonical t w Hw). unfold decode_res, run_decode.
    destruct (decode_encode ideal eq_refl t w (r ++ s) W Hw (or_introl eq_refl) 0) as [m' ->]. reflexivity. }
  assert (R2 : decode_res ideal t (spec_encode t v ++ []) = Ok (v, [])).
  { rewrite <- (encode_canonical t v H). unfold decode_res, run_decode.
    destruct (decode_encode ideal eq_refl t v [] W H (or_introl eq_refl) 0) as [m' ->]. reflexivity. }
  rewrite app_nil_r, E, Ep, <- app_assoc in R2. rewrite R1 in R2. injection R2 as _ R2.
  destruct r; destruct s; try discriminate R2. now apply NE.
Qed.

(* non-canonical input is rejected: anything accepted is canonical, so a string that is not
   (canonical encoding ++ rest) for any well-typed value is refused *)
Lemma noncanonical_ideal t bs :
  wf_ty t = true -> (forall v r, has_type v t = true -> bs <> spec_encode t v ++ r) ->
  forall w r, decode_res ideal t bs <> Ok (w, r).
Proof.
  intros W NC w r D. destruct (prefix_ideal t bs w r W D) as [Hw E]. exact (NC w r Hw E).
Qed.

(* ---- totality and allocation *)
Lemma total_current t bs :
  wf_ty t = true -> decode_res current t bs <> Panic /\ decode_res current t bs <> OutOfFuel.
Proof. intro W. unfold decode_res, run_decode. exact (decode_total current eq_refl eq_refl t bs 0 W). Qed.

Lemma total_ideal t bs :
  wf_ty t = true -> decode_res ideal t bs <> Panic /\ decode_res ideal t bs <> OutOfFuel.
Proof. intro W. unfold decode_res, run_decode. exact (decode_total ideal eq_refl eq_refl t bs 0 W). Qed.

Lemma linear_of t bs k : k <= ca t + cb t * len bs -> k <= (ca t + cb t) * (1 + len bs).
Proof. intro H. eapply N.le_trans; [exact H|]. rewrite N.mul_add_distr_r, !N.mul_add_distr_l. lia. Qed.

Lemma alloc_ideal t bs :
  wf_ty t = true -> decode_cost ideal t bs <= (ca t + cb t) * (1 + len bs).
Proof.
  intro W. apply linear_of. apply (decode_cost_linear ideal eq_refl eq_refl t bs W). now left.
Qed.

Lemma alloc_current_partial t bs :
  wf_ty t = true -> bytes_free t = true -> decode_cost current t bs <= (ca t + cb t) * (1 + len bs).
Proof.
  intros W B. apply linear_of. apply (decode_cost_linear current eq_refl eq_refl t bs W). now right.
Qed.

Lemma pinned_panics : exists t bs, wf_ty t = true /\ decode_res pinned t bs = Panic.
Proof. exists (TMap TU8 TU8), [b 4; b 1; b 2]. vm_compute. split; reflexivity. Qed.

(* no linear bound for the current decodeBytes: for every k some 5-byte input costs more *)
Lemma alloc_current_refuted :
  exists t bs, wf_ty t = true /\ len bs = 5 /\ 65536 <= decode_cost current t bs /\
               decode_cost ideal t bs <= 5000.
Proof.
  exists TBytes, [b 2; b 0; b 4; b 0; b 65]. vm_compute. repeat split; try reflexivity; discriminate.
Qed.

(* ---- second round (auditor): the canonicity / truncation / non-canonical statements on the
   CURRENT tree, under exactly the guards the driver uses *)

(* when neither finding guard fires on an accepted input, the decoder with both hypothetical
   repairs returns the same result *)
Lemma guards_give_repaired t bs v r :
  wf_ty t = true -> decode_res current t bs = Ok (v, r) ->
  bytes_overrun t bs = false -> map_noncanonical t bs = false ->
  decode_res (repaired current) t bs = Ok (v, r).
Proof.
  intros W C G1 G2.
  (* the chunked decoder does not fail (guard 1), panic or run out of fuel (totality) *)
  assert (T1 : decode_res (with_bytes current) t bs <> Panic /\ decode_res (with_bytes current) t bs <> OutOfFuel).
  { unfold decode_res, run_decode. exact (decode_total (with_bytes current) eq_refl eq_refl t bs 0 W). }
  unfold bytes_overrun in G1. rewrite C in G1.
  destruct (decode_res (with_bytes current) t bs) as [[v1 r1]|e| |] eqn:E1;
    [|discriminate G1|now destruct T1|now destruct T1].
  (* it returns what the tree returns *)
  assert (M1 : decode_res current t bs = Ok (v1, r1)).
  { apply (decode_res_mono current (with_bytes current)); try reflexivity; try exact E1; intro X; exact X || reflexivity. }
  rewrite C in M1. injection M1 as <- <-.
  (* the strict decoder does not fail either (guard 2) *)
  assert (T2 : decode_res (repaired current) t bs <> Panic /\ decode_res (repaired current) t bs <> OutOfFuel).
  { unfold decode_res, run_decode. exact (decode_total (repaired current) eq_refl eq_refl t bs 0 W). }
  unfold map_noncanonical in G2. rewrite E1 in G2.
  destruct (decode_res (repaired current) t bs) as [[v2 r2]|e| |] eqn:E2;
    [|discriminate G2|now destruct T2|now destruct T2].
  assert (M2 : decode_res (with_bytes current) t bs = Ok (v2, r2)).
  { apply (decode_res_mono (with_bytes current) (repaired current)); try reflexivity; try exact E2; intro X; exact X || reflexivity. }
  rewrite E1 in M2. injection M2 as <- <-. reflexivity.
Qed.

(* canonicity on the tree, outside the two finding guards *)
Lemma prefix_guarded t bs v r :
  wf_ty t = true -> decode_res current t bs = Ok (v, r) ->
  bytes_overrun t bs = false -> map_noncanonical t bs = false ->
  has_type v t = true /\ bs = spec_encode t v ++ r.
Proof.
  intros W C G1 G2. apply (prefix_current_partial t bs v r W C). now apply guards_give_repaired.
Qed.

(* truncated input fails on the tree, outside the guards (the guard bytes_overrun is where the
   tree zero-fills a truncated byte string) *)
Lemma truncation_guarded t v p s :
  wf_ty t = true -> has_type v t = true -> spec_encode t v = p ++ s -> s <> [] ->
  bytes_overrun t p = false -> map_noncanonical t p = false ->
  forall w r, decode_res current t p <> Ok (w, r).
Proof.
  intros W H E NE G1 G2 w r D.
  destruct (prefix_guarded t p w r W D G1 G2) as [Hw Ep].
  assert (R1 : decode_res ideal t (spec_encode t w ++ (r ++ s)) = Ok (w, r ++ s)).
  { rewrite <- (encode_canonical t w Hw). unfold decode_res, run_decode.
    destruct (decode_encode ideal eq_refl t w (r ++ s) W Hw (or_introl eq_refl) 0) as [m' ->]. reflexivity. }
  assert (R2 : decode_res ideal t (spec_encode t v ++ []) = Ok (v, [])).
  { rewrite <- (encode_canonical t v H). unfold decode_res, run_decode.
    destruct (decode_encode ideal eq_refl t v [] W H (or_introl eq_refl) 0) as [m' ->]. reflexivity. }
  rewrite app_nil_r, E, Ep, <- app_assoc in R2. rewrite R1 in R2. injection R2 as _ R2.
  destruct r; destruct s; try discriminate R2. now apply NE.
Qed.

(* non-canonical input is rejected on the tree, outside the guards *)
Lemma noncanonical_guarded t bs :
  wf_ty t = true -> (forall v r, has_type v t = true -> bs <> spec_encode t v ++ r) ->
  bytes_overrun t bs = false -> map_noncanonical t bs = false ->
  forall w r, decode_res current t bs <> Ok (w, r).
Proof.
  intros W NC G1 G2 w r D. destruct (prefix_guarded t bs w r W D G1 G2) as [Hw E]. exact (NC w r Hw E).
Qed.

(* the guards are narrow: on an accepted input a guard fires ONLY IF the accepted value is not
   canonical for the consumed prefix - i.e. each guarded input is a genuine failure of the
   property, not an excused success *)
Lemma guards_only_failures t bs v r :
  wf_ty t = true -> decode_res current t bs = Ok (v, r) ->
  has_type v t = true -> bs = spec_encode t v ++ r -> has_uint57 t v = false ->
  bytes_overrun t bs = false /\ map_noncanonical t bs = false.
Proof.
  intros W C T E U.
  (* a canonical input is accepted by every cfg with fix_map (round trip) *)
  assert (R : forall c, fix_map c = true -> fix_uint57 c = false -> decode_res c t bs = Ok (v, r)).
  { intros c Hm H57. rewrite E, <- (encode_canonical t v T). unfold decode_res, run_decode.
    destruct (decode_encode c Hm t v r W T (or_intror U) 0) as [m' ->]. reflexivity. }
  unfold bytes_overrun, map_noncanonical.
  rewrite (R current eq_refl eq_refl), (R (with_bytes current) eq_refl eq_refl), (R (repaired current) eq_refl eq_refl).
  now split.
Qed.
