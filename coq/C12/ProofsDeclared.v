(* C12/ProofsDeclared.v — closer: allocation on the CURRENT tree for EVERY input (failing decodes and
   types with maps included), the excess over the linear bound named by the walker
   Scale.CostDeclared.declared (sum of the byte-string lengths decodeBytes accepts on the way). *)
From Coq Require Import ZifyN ZifyNat ZifyBool.
From Common Require Import Bytes Outcome.
From Scale Require Import Compact Types Spec Codec Cost WellTyped CostExcess CostDeclared.
From C12 Require Import Model Proofs.
Local Open Scope N_scope.

Definition declared_total (t : ty) (bs : list byte) : N := declared current t bs.

Lemma alloc_declared t bs :
  wf_ty t = true ->
  decode_cost current t bs <= (ca t + cb t) * (1 + len bs) + declared_total t bs.
Proof.
  intro W. pose proof (decode_cost_declared current eq_refl eq_refl eq_refl eq_refl t bs W) as H.
  eapply N.le_trans; [exact H|]. apply N.add_le_mono_r. apply linear_of. apply N.le_refl.
Qed.

(* on success, for types without maps, the walker's sum is the byte-string total of the value:
   C12_alloc_excess is the successful, map-free case of alloc_declared *)
Lemma declared_success t bs v r :
  map_free t = true -> decode_res current t bs = Ok (v, r) -> declared_total t bs = bytes_total v.
Proof. exact (declared_bytes_total current eq_refl eq_refl eq_refl t bs v r). Qed.

(* witnesses.
   1. a FAILING decode: struct { []byte; u8 } on fd ff 41 - the byte string is accepted (16 383 bytes
      requested, zero-filled after the first), then the u8 meets the end of input: Err, and the
      16 383 bytes appear in no result but are named by the walker;
   2. a MAP: map[u8][]byte with the key 1 twice - the decode succeeds, the first value ("AB") is
      dropped by SetMapIndex, so the value's byte-string total (1) is below what was requested;
      the walker counts both (3). *)
Lemma alloc_declared_witness :
  let t1 := TStruct (TCons None TBytes (TCons None TU8 TNil)) in
  let bs1 := [b 253; b 255; b 65] in
  let t2 := TMap TU8 TBytes in
  let bs2 := [b 8; b 1; b 8; b 65; b 66; b 1; b 4; b 67] in
  (wf_ty t1 = true /\ decode_res current t1 bs1 = Err 1%nat /\ declared_total t1 bs1 = 16383 /\
   16383 <= decode_cost current t1 bs1 /\
   decode_cost current t1 bs1 <= (ca t1 + cb t1) * (1 + len bs1) + declared_total t1 bs1) /\
  (wf_ty t2 = true /\
   decode_res current t2 bs2 = Ok (VMap (KCons (VN 1) (VBytes [b 67]) KNil), []) /\
   bytes_total (VMap (KCons (VN 1) (VBytes [b 67]) KNil)) = 1 /\ declared_total t2 bs2 = 3).
Proof.
  cbv zeta. split.
  - split; [vm_compute; reflexivity|]. split; [vm_compute; reflexivity|]. split; [vm_compute; reflexivity|].
    split; vm_compute; discriminate.
  - repeat split; vm_compute; reflexivity.
Qed.
