From Coq Require Import Extraction ExtrOcamlBasic.
From Common Require Import Bytes Outcome Drv.
From Scale Require Import Compact Types Spec Codec FieldOrder.
From C12 Require Import Model.
Extraction "model.ml" drv_b2n drv_n2b drv_z_of_n drv_n_of_z drv_nat_of_n drv_n_of_nat
  compact_encode compact_decode
  has_type wf_ty multi_map min_size
  spec_encode encode run_decode decode_res decode_cost current pinned ideal
  field_order tags_distinct
  c12_prop alloc_budget strict with_bytes map_noncanonical bytes_overrun dirty_nested.
