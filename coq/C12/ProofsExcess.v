(* C12/ProofsExcess.v — round 5 (auditor): allocation on the CURRENT tree with the excess term named
   (Scale/CostExcess.v). *)
From Coq Require Import ZifyN ZifyNat ZifyBool.
From Common Require Import Bytes Outcome.
From Scale Require Import Compact Types Spec Codec Cost WellTyped CostExcess.
From C12 Require Import Model Proofs.
Local Open Scope N_scope.

Lemma alloc_excess t bs v r :
  wf_ty t = true -> map_free t = true -> decode_res current t bs = Ok (v, r) ->
  decode_cost current t bs <= (ca t + cb t) * (1 + len bs) + bytes_total v.
Proof.
  intros W MF D. pose proof (decode_cost_excess current eq_refl eq_refl eq_refl t bs v r W MF D) as H.
  eapply N.le_trans; [exact H|]. apply N.add_le_mono_r. apply linear_of. apply N.le_refl.
Qed.

(* a witness: three bytes, accepted (zero-filled), 16 383 bytes requested - all of it is the
   declared length of the returned byte string *)
Lemma alloc_excess_witness :
  let bs := [b 253; b 255; b 65] in
  let v := VBytes (b 65 :: repeat (b 0) (N.to_nat 16382)) in
  decode_res current TBytes bs = Ok (v, []) /\ bytes_total v = 16383 /\
  16383 <= decode_cost current TBytes bs /\
  decode_cost current TBytes bs <= (ca TBytes + cb TBytes) * (1 + len bs) + bytes_total v.
Proof.
  cbv zeta. split; [vm_compute; reflexivity|]. split; [vm_compute; reflexivity|].
  split; vm_compute; discriminate.
Qed.
