(* C20/Proofs.v -- lemmas about the correspondence model of C20 (Model.v): the wrapping
   accounting of round.go coincides with the specification inside the domain, and the
   "possible" formula of the specification against the paper's existential definition. *)
From Coq Require Import List Arith Lia Bool NArith ZifyN ZifyNat ZifyBool.
From Grandpa Require Import Tree Votes RoundSpec RoundProofs.
From C20 Require Import Model.
Import ListNotations.
Local Open Scope N_scope.

Lemma w64_small x : x < 0x10000000000000000 -> w64 x = x.
Proof.
  intro H. unfold w64. change 0xFFFFFFFFFFFFFFFF with (N.ones 64). rewrite N.land_ones.
  apply N.mod_small. exact H.
Qed.

Lemma sub64_small a b : b <= a -> a < 0x10000000000000000 -> sub64 a b = a - b.
Proof.
  intros L H. unfold sub64. rewrite (w64_small b) by lia.
  unfold w64. change 0xFFFFFFFFFFFFFFFF with (N.ones 64). rewrite N.land_ones.
  replace (a + 0x10000000000000000 - b) with ((a - b) + 1 * 0x10000000000000000) by lia.
  rewrite N.mod_add by lia. apply N.mod_small. lia.
Qed.

Lemma add64_small a b : a + b < 0x10000000000000000 -> add64 a b = a + b.
Proof. intro H. unfold add64. now apply w64_small. Qed.

Section Go.
Variable t : tree.
Variable ws : list N.
Hypothesis FIT : total ws < 0x10000000000000000.

(* inside the domain (tolerant precommits) the wrapping arithmetic never wraps *)
Lemma possible_go_spec C b : tolerant ws C = true -> possible_go t ws C b = possible t ws C b.
Proof.
  intro TOL. unfold tolerant, tolerance in TOL. apply N.leb_le in TOL.
  unfold possible_go, possible.
  pose proof (threshold_le_total ws) as TT.
  pose proof (wsum_le_total ws (voted C)) as CT. fold (cur_weight ws C) in CT.
  pose proof (weight_le_cur t ws C b) as PC.
  set (n := total ws) in *. set (th := threshold ws) in *. set (E := eq_weight ws C) in *.
  set (cur := cur_weight ws C) in *. set (pf := weight t ws C b) in *.
  rewrite (sub64_small n th) by lia.
  rewrite (sub64_small (n - th) E) by lia.
  rewrite (sub64_small n cur) by lia.
  rewrite (sub64_small cur pf) by lia.
  assert (M : (if cur - pf <=? n - th - E then cur - pf else n - th - E) = N.min (cur - pf) (n - th - E)).
  { destruct (N.leb_spec (cur - pf) (n - th - E)); lia. }
  rewrite M.
  rewrite (add64_small pf (n - cur)) by lia.
  rewrite add64_small by lia. reflexivity.
Qed.

Lemma state_at_spec V C :
  state_at t ws (possible t ws) (ghost t ws V) C = (finalized t ws V C, estimate t ws V C, completable t ws V C).
Proof.
  unfold state_at, finalized, estimate, completable. destruct (ghost t ws V) as [g|]; [|reflexivity].
  destruct (threshold ws <=? cur_weight ws C); [|reflexivity].
  destruct (find_anc t (possible t ws C) g); reflexivity.
Qed.

Lemma state_at_ext p q g C : (forall b, p C b = q C b) -> state_at t ws p g C = state_at t ws q g C.
Proof.
  intro E. unfold state_at. destruct g as [g|]; [|reflexivity].
  destruct (threshold ws <=? cur_weight ws C); [|reflexivity].
  rewrite (find_anc_ext t (p C) (q C) g E).
  replace (existsb (p C) (children t g)) with (existsb (q C) (children t g))
    by (apply existsb_ext_in; intros x _; symmetry; apply E).
  reflexivity.
Qed.

(* the Go-faithful round state IS the specification when the precommits are tolerant *)
Lemma round_state_go_spec V C : tolerant ws C = true -> round_state_go t ws V C = round_state_of t ws V C.
Proof.
  intro TOL. unfold round_state_go.
  rewrite (state_at_ext (possible_go t ws) (possible t ws) (ghost t ws V) C
             (fun b => possible_go_spec C b TOL)).
  rewrite state_at_spec. reflexivity.
Qed.

End Go.

(* ---------------- "possible" against the paper's existential definition ---------------- *)
Section Possible.
Variable t : tree.
Variable ws : list N.

(* If SOME tolerant extension of C has a supermajority for b, the formula says "possible"
   (for all weights: the formula never declares impossible what can still happen) *)
Lemma possible_of_extension C C' b :
  subset C C' -> tolerant ws C' = true -> has_supermajority t ws C' b = true -> possible t ws C b = true.
Proof.
  intros I TOL' SM. pose proof (tolerant_subset ws C C' I TOL') as TOL.
  apply (possible_tolerant_iff t ws C b TOL).
  assert (A : against_weight t ws C b <= against_weight t ws C' b).
  { apply wsum_mono. intro v. now apply against_mono. }
  assert (B : against_weight t ws C' b <= 2 * tolerance ws); [|lia].
  rewrite against_weight_split.
  unfold tolerant in TOL'. apply N.leb_le in TOL'.
  unfold has_supermajority in SM. apply N.leb_le in SM.
  pose proof (cur_split t ws C' b) as CS.
  pose proof (wsum_le_total ws (voted C')) as CT. fold (cur_weight ws C') in CT.
  unfold tolerance in *. pose proof (threshold_le_total ws). lia.
Qed.

End Possible.
