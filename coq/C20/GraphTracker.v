(* C20/GraphTracker.v -- the vote-tracker link: from cum_ok (GraphInv.v) to the specification's
   Votes.weight, for every tree, graph and vote set (unbounded).

   Round.importPrevote / importPrecommit (voteTracker.addVote) put the FIRST vote of a voter into
   the graph (bit 2*voter+phase at the vote's block), set the voter's equivocation bit on its second,
   different vote, and ignore everything else.  [tracker_ok t ph S eqv ins] states that relation
   between the imports S of one phase (oldest first), the equivocation bits and the inserted
   votes; it is preserved by the three kinds of import (first_vote_step, equivocation_step,
   ignored_step) and, with cum_ok, makes the weight of every vote-node the specification's weight. *)
From Coq Require Import List Arith Lia Bool NArith.
From Grandpa Require Import Tree Votes RoundSpec.
From C20 Require Import Model Graph GraphInv GraphProofs.
Import ListNotations.

Definition first_vote (S : list vote) (v : nat) : option vote := find (by_voter v) S.

Section Tracker.
Variable t : tree.

Definition first_under (S : list vote) (v : nat) (y : block) : bool :=
  match first_vote S v with Some x => ancb t y (vblock x) | None => false end.
Definition ins_bit (ins : list (block * bit)) (bt : bit) (y : block) : bool :=
  existsb (fun p => (snd p =? bt)%nat && ancb t y (fst p)) ins.

Definition tracker_ok (ph : nat) (S : list vote) (eqv : list bit) (ins : list (block * bit)) : Prop :=
  (forall v, memb (2 * v + ph) eqv = equivocates S v) /\
  (forall v y, ins_bit ins (2 * v + ph) y = first_under S v y).

Lemma by_voter_spec v x : by_voter v x = true <-> vvoter x = v.
Proof. unfold by_voter. apply Nat.eqb_eq. Qed.

Lemma first_vote_some S v f : first_vote S v = Some f -> In f S /\ vvoter f = v.
Proof. intro H. apply find_some in H. destruct H as [I B]. now apply by_voter_spec in B. Qed.

Lemma first_vote_none S v : first_vote S v = None <-> voted S v = false.
Proof.
  unfold first_vote, voted. split.
  - intro H. destruct (existsb (by_voter v) S) eqn:E; [|reflexivity].
    apply existsb_exists in E. destruct E as [x [I B]]. pose proof (find_none _ _ H x I). congruence.
  - intro H. destruct (find (by_voter v) S) as [f|] eqn:F; [|reflexivity].
    apply find_some in F. destruct F as [I B].
    assert (existsb (by_voter v) S = true) by (apply existsb_exists; eauto). congruence.
Qed.

(* a voter that does not equivocate supports exactly the blocks at or above its first vote *)
Lemma first_under_supports S v y :
  first_under S v y || equivocates S v = supports t S v y.
Proof.
  unfold supports. destruct (equivocates S v) eqn:E; [apply orb_true_r|]. rewrite orb_false_r. cbn [orb].
  unfold first_under. destruct (votes_for t S v y) eqn:VF.
  - apply votes_for_spec in VF. destruct VF as [x [I [V A]]].
    destruct (first_vote S v) as [f|] eqn:F.
    + destruct (first_vote_some S v f F) as [IF VF'].
      destruct (same_vote f x) eqn:SV.
      * apply same_vote_spec in SV. destruct SV as [B _]. rewrite B. now apply ancb_spec.
      * exfalso. assert (equivocates S v = true); [|congruence].
        apply equivocates_spec. exists f, x. auto.
    + exfalso. apply first_vote_none in F.
      assert (voted S v = true) by (apply voted_spec; eauto). congruence.
  - destruct (first_vote S v) as [f|] eqn:F; [|reflexivity].
    destruct (first_vote_some S v f F) as [IF VF'].
    destruct (ancb t y (vblock f)) eqn:A; [|reflexivity]. exfalso.
    assert (votes_for t S v y = true); [|congruence].
    apply votes_for_spec. exists f. split; [exact IF|]. split; [exact VF'|now apply ancb_spec].
Qed.

(* ---- the link: the weight of every vote-node is the specification's weight ---- *)
Theorem node_weight_is_spec_weight ws G ins ph S eqv y e :
  cum_ok t G ins -> tracker_ok ph S eqv ins -> eget y G = Some e ->
  bits_weight ws (g_cum e) eqv ph = weight t ws S y.
Proof.
  intros CO [TE TI] E. apply bits_weight_is_weight. intros v _.
  rewrite (CO y e E (2 * v + ph)%nat). fold (ins_bit ins (2 * v + ph) y).
  rewrite TI, TE. apply first_under_supports.
Qed.

(* ---- preservation by the three kinds of import ---- *)
Lemma find_app {A} (f : A -> bool) l1 l2 :
  find f (l1 ++ l2) = match find f l1 with Some a => Some a | None => find f l2 end.
Proof. induction l1 as [|a r IH]; [reflexivity|]. cbn [app find]. destruct (f a); [reflexivity|exact IH]. Qed.

Lemma subset_app_l (S : list vote) x : subset S (S ++ [x]).
Proof. intros z I. apply in_or_app. now left. Qed.

(* the votes of another voter are unaffected *)
Lemma equivocates_app_other S x v : vvoter x <> v -> equivocates (S ++ [x]) v = equivocates S v.
Proof.
  intro N. destruct (equivocates S v) eqn:E.
  - exact (equivocates_mono S (S ++ [x]) v (subset_app_l S x) E).
  - destruct (equivocates (S ++ [x]) v) eqn:E'; [exfalso|reflexivity].
    apply equivocates_spec in E'. destruct E' as [a [b [Ia [Ib [Va [Vb NS]]]]]].
    apply in_app_or in Ia, Ib.
    destruct Ia as [Ia|[<-|[]]]; [|congruence]. destruct Ib as [Ib|[<-|[]]]; [|congruence].
    assert (equivocates S v = true) by (apply equivocates_spec; exists a, b; auto). congruence.
Qed.

Lemma first_vote_app_other S x v : vvoter x <> v -> first_vote (S ++ [x]) v = first_vote S v.
Proof.
  intro N. unfold first_vote. rewrite find_app. destruct (find (by_voter v) S); [reflexivity|].
  cbn [find]. destruct (by_voter v x) eqn:B; [apply by_voter_spec in B; congruence|reflexivity].
Qed.

Lemma bit_neq v v0 ph : v <> v0 -> ((2 * v0 + ph =? 2 * v + ph)%nat = false).
Proof. intro N. apply Nat.eqb_neq. lia. Qed.

Lemma same_vote_refl x : same_vote x x = true.
Proof. unfold same_vote. now rewrite !Nat.eqb_refl. Qed.

(* (1) the voter's first vote: inserted into the graph *)
Lemma first_vote_step ph S eqv ins x :
  voted S (vvoter x) = false -> tracker_ok ph S eqv ins ->
  tracker_ok ph (S ++ [x]) eqv ((vblock x, 2 * vvoter x + ph)%nat :: ins).
Proof.
  intros NV [TE TI]. remember (vvoter x) as v0 eqn:EV. split.
  - intro v. rewrite TE. destruct (Nat.eq_dec v0 v) as [<-|N].
    + (* one vote only *)
      assert (E0 : equivocates S v0 = false).
      { destruct (equivocates S v0) eqn:E; [|reflexivity]. apply equivocates_voted in E. congruence. }
      rewrite E0. symmetry. destruct (equivocates (S ++ [x]) v0) eqn:E'; [exfalso|reflexivity].
      apply equivocates_spec in E'. destruct E' as [a [b [Ia [Ib [Va [Vb NS]]]]]].
      apply in_app_or in Ia, Ib.
      assert (NO : forall z, In z S -> vvoter z = v0 -> False).
      { intros z I V. assert (voted S v0 = true) by (apply voted_spec; eauto). congruence. }
      destruct Ia as [Ia|[<-|[]]]; [exact (NO a Ia Va)|]. destruct Ib as [Ib|[<-|[]]]; [exact (NO b Ib Vb)|].
      rewrite same_vote_refl in NS. discriminate.
    + symmetry. apply equivocates_app_other; congruence.
  - intros v y. unfold ins_bit. cbn [existsb fst snd]. fold (ins_bit ins (2 * v + ph) y). rewrite TI.
    destruct (Nat.eq_dec v0 v) as [<-|N].
    + rewrite Nat.eqb_refl. cbn [andb].
      assert (F0 : first_vote S v0 = None) by (apply first_vote_none; exact NV).
      assert (F1 : first_vote (S ++ [x]) v0 = Some x).
      { unfold first_vote in *. rewrite find_app, F0. cbn [find].
        assert (B : by_voter v0 x = true) by (apply by_voter_spec; now rewrite EV). now rewrite B. }
      unfold first_under. rewrite F0, F1. apply orb_false_r.
    + rewrite (bit_neq v v0 ph) by congruence. cbn [andb orb].
      unfold first_under. now rewrite (first_vote_app_other S x v ltac:(congruence)).
Qed.

(* (2) the voter's second, different vote: the equivocation bit *)
Lemma equivocation_step ph S eqv ins x a :
  first_vote S (vvoter x) = Some a -> same_vote a x = false -> tracker_ok ph S eqv ins ->
  tracker_ok ph (S ++ [x]) ((2 * vvoter x + ph)%nat :: eqv) ins.
Proof.
  intros FA NS [TE TI]. remember (vvoter x) as v0 eqn:EV. destruct (first_vote_some S v0 a FA) as [IA VA]. split.
  - intro v. unfold memb. cbn [existsb]. fold (memb (2 * v + ph) eqv). rewrite TE.
    destruct (Nat.eq_dec v0 v) as [<-|N].
    + rewrite Nat.eqb_refl. cbn [orb]. symmetry. apply equivocates_spec. exists a, x.
      split; [apply in_or_app; now left|]. split; [apply in_or_app; right; now left|]. auto.
    + assert ((2 * v + ph =? 2 * v0 + ph)%nat = false) by (apply Nat.eqb_neq; lia).
      rewrite H. cbn [orb]. symmetry. apply equivocates_app_other; congruence.
  - intros v y. rewrite TI. unfold first_under. destruct (Nat.eq_dec v0 v) as [<-|N].
    + assert (F1 : first_vote (S ++ [x]) v0 = Some a) by (unfold first_vote in *; now rewrite find_app, FA).
      now rewrite F1, FA.
    + now rewrite (first_vote_app_other S x v ltac:(congruence)).
Qed.

(* (3) a duplicate of the first vote, or any vote of a voter that already equivocates: ignored *)
Lemma ignored_step ph S eqv ins x :
  (equivocates S (vvoter x) = true \/
   (equivocates S (vvoter x) = false /\ exists a, first_vote S (vvoter x) = Some a /\ same_vote a x = true)) ->
  tracker_ok ph S eqv ins -> tracker_ok ph (S ++ [x]) eqv ins.
Proof.
  intros H [TE TI]. remember (vvoter x) as v0 eqn:EV.
  assert (HV : voted S v0 = true).
  { destruct H as [E|[_ [a [FA _]]]]; [now apply equivocates_voted|].
    destruct (first_vote_some S v0 a FA) as [IA VA]. apply voted_spec. eauto. }
  split.
  - intro v. rewrite TE. destruct (Nat.eq_dec v0 v) as [<-|N]; [|symmetry; apply equivocates_app_other; congruence].
    destruct H as [E|[E [a [FA SA]]]].
    + rewrite E. symmetry. exact (equivocates_mono S (S ++ [x]) v0 (subset_app_l S x) E).
    + rewrite E. symmetry. destruct (equivocates (S ++ [x]) v0) eqn:E'; [exfalso|reflexivity].
      destruct (first_vote_some S v0 a FA) as [IA VA].
      (* every vote of v0 in S ++ [x] is the same vote as a *)
      assert (ALL : forall z, In z (S ++ [x]) -> vvoter z = v0 -> same_vote a z = true).
      { intros z I V. apply in_app_or in I. destruct I as [I|[<-|[]]]; [|exact SA].
        destruct (same_vote a z) eqn:SZ; [reflexivity|]. exfalso.
        assert (equivocates S v0 = true) by (apply equivocates_spec; exists a, z; auto). congruence. }
      apply equivocates_spec in E'. destruct E' as [p [q [Ip [Iq [Vp [Vq NS]]]]]].
      pose proof (ALL p Ip Vp) as Sp. pose proof (ALL q Iq Vq) as Sq.
      apply same_vote_spec in Sp, Sq. destruct Sp as [P1 P2], Sq as [Q1 Q2].
      assert (same_vote p q = true) by (apply same_vote_spec; split; congruence). congruence.
  - intros v y. rewrite TI. unfold first_under. destruct (Nat.eq_dec v0 v) as [<-|N].
    + destruct (first_vote S v0) as [f|] eqn:F; [|apply first_vote_none in F; congruence].
      assert (F1 : first_vote (S ++ [x]) v0 = Some f) by (unfold first_vote in *; now rewrite find_app, F).
      now rewrite F1.
    + now rewrite (first_vote_app_other S x v ltac:(congruence)).
Qed.

(* (4) bits of the OTHER phase (in the graph or among the equivocations) do not matter *)
Lemma other_phase_ins ph ph' S eqv ins b v0 : (ph < 2)%nat -> (ph' < 2)%nat -> ph <> ph' ->
  tracker_ok ph S eqv ins -> tracker_ok ph S eqv ((b, 2 * v0 + ph')%nat :: ins).
Proof.
  intros L L' N [TE TI]. split; [exact TE|]. intros v y. unfold ins_bit. cbn [existsb fst snd].
  assert ((2 * v0 + ph' =? 2 * v + ph)%nat = false) by (apply Nat.eqb_neq; lia).
  rewrite H. cbn [andb orb]. apply TI.
Qed.
Lemma other_phase_eqv ph ph' S eqv ins v0 : (ph < 2)%nat -> (ph' < 2)%nat -> ph <> ph' ->
  tracker_ok ph S eqv ins -> tracker_ok ph S ((2 * v0 + ph')%nat :: eqv) ins.
Proof.
  intros L L' N [TE TI]. split; [|exact TI]. intro v. unfold memb. cbn [existsb].
  assert ((2 * v + ph =? 2 * v0 + ph')%nat = false) by (apply Nat.eqb_neq; lia).
  rewrite H. cbn [orb]. apply TE.
Qed.

Lemma tracker_ok_init ph : tracker_ok ph [] [] [].
Proof. split; intros; reflexivity. Qed.

End Tracker.
