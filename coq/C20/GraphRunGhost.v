(* C20/GraphRunGhost.v -- UNBOUNDED: the memoised ghosts ALONG THE RUN.

   Round keeps two memoised ghosts: prevoteGhost (r_pvg; refreshed by importPrevote after a first
   vote or an equivocation, once the prevotes seen reach the threshold, by FindGHOST restarted from
   the previous prevote ghost) and precommitGhost (r_pcg; refreshed by PrecommitGHOST, once the
   precommits seen reach the threshold, by FindGHOST over the PRECOMMIT weights restarted from the
   previous precommit ghost -- Graph.precommit_ghost; the prevote ghost plays no part in it).
   GraphGhost proves one memoisation step on a reach_full state; GraphImport proves that every
   history folded through step_op is a reach_all state; GraphComplete turns reach_all into
   reach_full.  Here the three are put together by induction over the history:

     run_ghosts        after ANY history h (phase tags 0/1) whose known-voter vote sets are
                       tolerant in both phases and whose known-voter votes are for blocks of the
                       tree, with 0 < total weight,
                         r_pvg (run h) = RoundSpec.ghost of the prevotes imported,
                         r_pcg (run h) = RoundSpec.ghost of the precommits imported.
     run_ghosts_prefix the same after EVERY prefix of h (the hypotheses are prefix-closed:
                       tolerance is antimonotone), against the ghost of ALL the votes of the phase
                       in the prefix (the votes of voters outside the voter set do not count:
                       ghost_known, tolerant_known), and "None exactly while the votes seen weigh
                       less than the threshold".

   The threshold gate of the Go code (the ghost is only recomputed when the votes seen reach the
   threshold) needs no hypothesis: below the threshold the specification's ghost is None as well
   (reach_full_ghost_memo_step).  A duplicate vote, or a further vote of a voter that equivocates
   already, is recorded in the history WITHOUT refreshing the prevote ghost: the graph, the heads
   and the equivocations do not change either, so FindGHOST from the base answers the ghost of both
   vote sets, which are therefore equal (same_core_same_ghost). *)
From Coq Require Import List Arith Lia Bool NArith.
From Grandpa Require Import Tree Votes RoundSpec RoundProofs.
From C20 Require Import Model ProofsPossible Graph GraphInv GraphInvAppend GraphProofs GraphTracker GraphReach
  GraphInvBranch GraphComplete GraphGhost GraphImport.
Import ListNotations.

(* ---------------------------------------------------------------------------------------- *)
(* the votes of voters outside the voter set: no ghost, no equivocation weight *)
Lemma ghost_known t ws S : ghost t ws (filter (known_voter ws) S) = ghost t ws S.
Proof.
  unfold ghost. apply find_ext. intros b _. unfold has_supermajority. now rewrite weight_known.
Qed.

Lemma equivocates_known ws S v : (v < length ws)%nat ->
  equivocates (filter (known_voter ws) S) v = equivocates S v.
Proof.
  intro L.
  assert (K : forall x, vvoter x = v -> known_voter ws x = true).
  { intros x V. unfold known_voter. apply Nat.ltb_lt. lia. }
  apply eq_true_iff_eq. rewrite !equivocates_spec. split.
  - intros [p [q [Ip [Iq R]]]]. exists p, q. apply filter_In in Ip, Iq. tauto.
  - intros [p [q [Ip [Iq [Vp [Vq NS]]]]]]. exists p, q.
    split; [apply filter_In; auto|]. split; [apply filter_In; auto|]. auto.
Qed.

Lemma voted_known ws S v : (v < length ws)%nat ->
  voted (filter (known_voter ws) S) v = voted S v.
Proof.
  intro L.
  assert (K : forall x, vvoter x = v -> known_voter ws x = true).
  { intros x V. unfold known_voter. apply Nat.ltb_lt. lia. }
  apply eq_true_iff_eq. rewrite !voted_spec. split.
  - intros [x [I V]]. exists x. apply filter_In in I. tauto.
  - intros [x [I V]]. exists x. split; [apply filter_In; auto|exact V].
Qed.

Lemma eq_weight_known ws S : eq_weight ws (filter (known_voter ws) S) = eq_weight ws S.
Proof.
  unfold eq_weight.
  assert (A : (wsum ws (equivocates (filter (known_voter ws) S)) <= wsum ws (equivocates S))%N).
  { apply wsum_mono_range. intros v L E. now rewrite <- (equivocates_known ws S v L). }
  assert (B : (wsum ws (equivocates S) <= wsum ws (equivocates (filter (known_voter ws) S)))%N).
  { apply wsum_mono_range. intros v L E. now rewrite (equivocates_known ws S v L). }
  lia.
Qed.

Lemma cur_weight_known ws S : cur_weight ws (filter (known_voter ws) S) = cur_weight ws S.
Proof.
  unfold cur_weight.
  assert (A : (wsum ws (voted (filter (known_voter ws) S)) <= wsum ws (voted S))%N).
  { apply wsum_mono_range. intros v L E. now rewrite <- (voted_known ws S v L). }
  assert (B : (wsum ws (voted S) <= wsum ws (voted (filter (known_voter ws) S)))%N).
  { apply wsum_mono_range. intros v L E. now rewrite (voted_known ws S v L). }
  lia.
Qed.

Lemma tolerant_known ws S : tolerant ws (filter (known_voter ws) S) = tolerant ws S.
Proof. unfold tolerant. now rewrite eq_weight_known. Qed.

(* ---------------------------------------------------------------------------------------- *)
Section RunGhost.
Variable t : tree.
Variable lbl : block -> nat.
Variable ws : list N.

(* ---- what one import does to the memoised ghosts ---- *)
Lemma update_fields s :
  r_G (update t lbl ws s) = r_G s /\ r_heads (update t lbl ws s) = r_heads s /\
  r_eqv (update t lbl ws s) = r_eqv s /\ r_pv (update t lbl ws s) = r_pv s /\
  r_pc (update t lbl ws s) = r_pc s /\ r_pvg (update t lbl ws s) = r_pvg s /\
  r_pcg (update t lbl ws s) = r_pcg s.
Proof.
  unfold update. destruct (cur_weight ws (r_pv s) <? th ws)%N; [repeat split|].
  destruct (r_pvg s) eqn:PV; [|repeat split; auto].
  destruct (th ws <=? cur_weight ws (r_pc s))%N; cbn [r_G r_heads r_eqv r_pv r_pc r_pvg r_pcg]; repeat split; auto.
Qed.

Lemma precommit_ghost_pvg s : r_pvg (precommit_ghost t lbl ws s) = r_pvg s.
Proof. unfold precommit_ghost. destruct (th ws <=? cur_weight ws (r_pc s))%N; reflexivity. Qed.

(* import never touches the precommit ghost *)
Lemma import_pcg ph x s : r_pcg (import t lbl ws ph x s) = r_pcg s.
Proof.
  unfold import. destruct (known_voter ws x); cbn [negb]; [|reflexivity].
  destruct (stored (vvoter x) (if (ph =? 0)%nat then r_pv s else r_pc s) []) as [|a [|b l]].
  - destruct (insert t lbl (r_G s) (r_heads s) (vblock x) (2 * vvoter x + ph)) as [G' heads'].
    destruct (ph =? 0)%nat; cbn [r_G r_heads r_eqv r_pv r_pc r_pvg r_pcg].
    + destruct (th ws <=? _)%N;
        match goal with |- r_pcg (update _ _ _ ?s0) = _ => destruct (update_fields s0) as [_ [_ [_ [_ [_ [_ E]]]]]]; rewrite E end;
        reflexivity.
    + match goal with |- r_pcg (update _ _ _ ?s0) = _ => destruct (update_fields s0) as [_ [_ [_ [_ [_ [_ E]]]]]]; rewrite E end.
      reflexivity.
  - destruct (same_vote a x).
    + destruct (ph =? 0)%nat; reflexivity.
    + destruct (ph =? 0)%nat; cbn [r_G r_heads r_eqv r_pv r_pc r_pvg r_pcg].
      * destruct (th ws <=? _)%N;
          match goal with |- r_pcg (update _ _ _ ?s0) = _ => destruct (update_fields s0) as [_ [_ [_ [_ [_ [_ E]]]]]]; rewrite E end;
          reflexivity.
      * match goal with |- r_pcg (update _ _ _ ?s0) = _ => destruct (update_fields s0) as [_ [_ [_ [_ [_ [_ E]]]]]]; rewrite E end.
        reflexivity.
  - destruct (ph =? 0)%nat; reflexivity.
Qed.

(* ... and the prevote ghost in one of three ways: the memoisation step on the new graph (a first
   prevote, a prevote equivocation); nothing, the graph being the same (recorded only); nothing,
   the prevote history being the same (a precommit, a voter outside the voter set) *)
Lemma import_pvg_cases ph x s :
  let s' := import t lbl ws ph x s in
  (ph = 0%nat /\
   r_pvg s' = if (th ws <=? cur_weight ws (r_pv s'))%N
              then find_ghost t lbl (r_G s') (r_heads s') (r_pvg s) (cond_ph ws (r_eqv s') 0)
              else r_pvg s) \/
  (r_pvg s' = r_pvg s /\ r_G s' = r_G s /\ r_heads s' = r_heads s /\ r_eqv s' = r_eqv s) \/
  (r_pvg s' = r_pvg s /\ r_pv s' = r_pv s).
Proof.
  cbv zeta. unfold import. destruct (known_voter ws x); cbn [negb]; [|right; right; split; reflexivity].
  destruct ph as [|ph]; cbn [Nat.eqb].
  - destruct (stored (vvoter x) (r_pv s) []) as [|a [|b l]].
    + destruct (insert t lbl (r_G s) (r_heads s) (vblock x) (2 * vvoter x + 0)) as [G' heads'].
      left. split; [reflexivity|]. cbn [r_G r_heads r_eqv r_pv r_pc r_pvg r_pcg].
      destruct (th ws <=? cur_weight ws (r_pv s ++ [x]))%N eqn:TH;
        match goal with |- context [update _ _ _ ?s0] =>
          destruct (update_fields s0) as [E1 [E2 [E3 [E4 [_ [E6 _]]]]]]; rewrite E1, E2, E3, E4, E6 end;
        cbn [r_G r_heads r_eqv r_pv r_pc r_pvg r_pcg]; rewrite TH; reflexivity.
    + destruct (same_vote a x).
      * right; left. repeat split; reflexivity.
      * left. split; [reflexivity|]. cbn [r_G r_heads r_eqv r_pv r_pc r_pvg r_pcg].
        destruct (th ws <=? cur_weight ws (r_pv s ++ [x]))%N eqn:TH;
          match goal with |- context [update _ _ _ ?s0] =>
            destruct (update_fields s0) as [E1 [E2 [E3 [E4 [_ [E6 _]]]]]]; rewrite E1, E2, E3, E4, E6 end;
          cbn [r_G r_heads r_eqv r_pv r_pc r_pvg r_pcg]; rewrite TH; reflexivity.
    + right; left. repeat split; reflexivity.
  - right; right.
    destruct (stored (vvoter x) (r_pc s) []) as [|a [|b l]].
    + destruct (insert t lbl (r_G s) (r_heads s) (vblock x) (2 * vvoter x + S ph)) as [G' heads'].
      match goal with |- context [update _ _ _ ?s0] =>
        destruct (update_fields s0) as [_ [_ [_ [E4 [_ [E6 _]]]]]]; rewrite E4, E6 end.
      split; reflexivity.
    + destruct (same_vote a x); [split; reflexivity|].
      match goal with |- context [update _ _ _ ?s0] =>
        destruct (update_fields s0) as [_ [_ [_ [E4 [_ [E6 _]]]]]]; rewrite E4, E6 end.
      split; reflexivity.
    + split; reflexivity.
Qed.

(* ---- two vote sets on the same graph have the same ghost ---- *)
Lemma same_core_same_ghost G heads eqv S ins S' ins' ph :
  reach_all t lbl G heads eqv S ins -> reach_all t lbl G heads eqv S' ins' -> (ph < 2)%nat ->
  (0 < total ws)%N -> tolerant ws (S ph) = true -> tolerant ws (S' ph) = true ->
  (forall x, In x (S ph) -> in_tree t (vblock x)) -> (forall x, In x (S' ph) -> in_tree t (vblock x)) ->
  ghost t ws (S ph) = ghost t ws (S' ph).
Proof.
  intros R R' L TP TOL TOL' IT IT'.
  destruct (reach_all_full t lbl _ _ _ _ _ R) as [RF _]. destruct (reach_all_full t lbl _ _ _ _ _ R') as [RF' _].
  rewrite <- (reach_full_find_ghost_is_spec_ghost t lbl ws G heads eqv S ins ph RF L TP TOL IT).
  exact (reach_full_find_ghost_is_spec_ghost t lbl ws G heads eqv S' ins' ph RF' L TP TOL' IT').
Qed.

(* ---- the hypotheses on a history ---- *)
Definition good (h : list (nat * vote)) : Prop :=
  (forall o, In o h -> (fst o < 2)%nat) /\
  tolerant ws (known_votes_of ws 0 h) = true /\ tolerant ws (known_votes_of ws 1 h) = true /\
  (forall o, In o h -> known_voter ws (snd o) = true -> in_tree t (vblock (snd o))).

Lemma known_votes_of_subset ph h1 h2 : subset (known_votes_of ws ph h1) (known_votes_of ws ph (h1 ++ h2)).
Proof.
  intros x I. unfold known_votes_of, votes_of in *. rewrite filter_app, map_app, filter_app.
  apply in_or_app. now left.
Qed.

Lemma good_prefix h1 h2 : good (h1 ++ h2) -> good h1.
Proof.
  intros [PH [T0 [T1 IT]]]. split; [intros o I; apply PH, in_or_app; now left|].
  split; [exact (tolerant_subset ws _ _ (known_votes_of_subset 0 h1 h2) T0)|].
  split; [exact (tolerant_subset ws _ _ (known_votes_of_subset 1 h1 h2) T1)|].
  intros o I K. apply IT; [apply in_or_app; now left|exact K].
Qed.

Lemma good_in_tree h ph x : good h -> In x (known_votes_of ws ph h) -> in_tree t (vblock x).
Proof.
  intros [_ [_ [_ IT]]] I. unfold known_votes_of, votes_of in I. apply filter_In in I. destruct I as [I K].
  apply in_map_iff in I. destruct I as [o [E I]]. apply filter_In in I. destruct I as [I _]. subst x.
  now apply IT.
Qed.

(* ---- the run ---- *)
Hypothesis TP : (0 < total ws)%N.

Theorem run_ghosts h : good h ->
  r_pvg (run t lbl ws h) = ghost t ws (known_votes_of ws 0 h) /\
  r_pcg (run t lbl ws h) = ghost t ws (known_votes_of ws 1 h).
Proof.
  induction h as [|o h IH] using rev_ind; intro GD.
  - assert (GN : ghost t ws [] = None).
    { destruct (ghost t ws []) as [g|] eqn:GH; [|reflexivity].
      assert (LE : (threshold ws <= cur_weight ws [])%N) by (apply (ghost_defined t ws []); eauto).
      assert (Z : cur_weight ws [] = 0%N) by (apply wsum_from_false; reflexivity).
      pose proof (three_threshold ws TP). lia. }
    split; symmetry; exact GN.
  - pose proof (good_prefix h [o] GD) as GDh. destruct (IH GDh) as [PV PC].
    destruct GD as [PH [T0 [T1 IT]]].
    assert (GD : good (h ++ [o])) by (split; [exact PH|split; [exact T0|split; [exact T1|exact IT]]]).
    destruct GDh as [PHh [T0h [T1h ITh]]].
    assert (GDh : good h) by (split; [exact PHh|split; [exact T0h|split; [exact T1h|exact ITh]]]).
    destruct (run_reach t lbl ws h PHh) as [S [ins [[R [E0 E1]] ES]]].
    assert (L : (fst o < 2)%nat) by (apply PH, in_or_app; right; now left).
    unfold run. rewrite fold_left_app. cbn [fold_left]. fold (run t lbl ws h).
    set (s := run t lbl ws h) in *. unfold step_op. set (s1 := import t lbl ws (fst o) (snd o) s).
    destruct (import_step t lbl ws (fst o) (snd o) s S ins L (conj R (conj E0 E1))) as [S' [ins' [[R1 [F0 F1]] U]]].
    fold s1 in R1, F0, F1.
    assert (ES' : forall p, S' p = known_votes_of ws p (h ++ [o])).
    { intro p. rewrite U, known_votes_of_app, ES. reflexivity. }
    destruct (reach_all_full t lbl _ _ _ _ _ R1) as [RF1 _].
    assert (SUB : forall p, subset (S p) (S' p)).
    { intro p. rewrite ES, ES'. apply known_votes_of_subset. }
    assert (IT' : forall p x, In x (S' p) -> in_tree t (vblock x)).
    { intros p x I. rewrite ES' in I. exact (good_in_tree _ p x GD I). }
    assert (ITS : forall p x, In x (S p) -> in_tree t (vblock x)).
    { intros p x I. apply (IT' p), SUB, I. }
    split.
    + (* the prevote ghost *)
      rewrite precommit_ghost_pvg, <- ES'.
      pose proof (import_pvg_cases (fst o) (snd o) s) as CS. cbv zeta in CS. fold s1 in CS.
      destruct CS as [[P0 A]|[[A [EG [EH EE]]]|[A EP]]].
      * rewrite A, <- F0.
        apply (reach_full_ghost_memo_step t lbl ws (r_G s1) (r_heads s1) (r_eqv s1) S' ins' 0 (r_pvg s) (S 0%nat) RF1);
          [lia|exact TP|now rewrite ES'|apply IT'|apply SUB|now rewrite PV, ES].
      * rewrite A, PV, <- ES. rewrite EG, EH, EE in R1.
        apply (same_core_same_ghost (r_G s) (r_heads s) (r_eqv s) S ins S' ins' 0 R R1);
          [lia|exact TP|now rewrite ES|now rewrite ES'|apply ITS|apply IT'].
      * rewrite A, PV, <- ES, E0, <- EP, <- F0. reflexivity.
    + (* the precommit ghost *)
      rewrite <- ES', F1.
      apply (precommit_ghost_is_spec_ghost t lbl ws s1 S' ins' (S 1%nat) RF1);
        [now symmetry|exact TP|now rewrite <- F1, ES'|rewrite <- F1; apply IT'|rewrite <- F1; apply SUB|].
      unfold s1. now rewrite import_pcg, PC, ES.
Qed.

(* after EVERY prefix, against all the votes of the phase in the prefix *)
Theorem run_ghosts_prefix h :
  (forall o, In o h -> (fst o < 2)%nat) ->
  tolerant ws (votes_of 0 h) = true -> tolerant ws (votes_of 1 h) = true ->
  (forall o, In o h -> known_voter ws (snd o) = true -> in_tree t (vblock (snd o))) ->
  forall h1 h2, h = h1 ++ h2 ->
  let s := run t lbl ws h1 in
  r_pvg s = ghost t ws (votes_of 0 h1) /\ r_pcg s = ghost t ws (votes_of 1 h1) /\
  (r_pvg s = None <-> (cur_weight ws (votes_of 0 h1) < threshold ws)%N) /\
  (r_pcg s = None <-> (cur_weight ws (votes_of 1 h1) < threshold ws)%N).
Proof.
  intros PH T0 T1 IT h1 h2 E s.
  assert (GD : good h).
  { split; [exact PH|]. unfold known_votes_of. rewrite !tolerant_known. auto. }
  rewrite E in GD. apply good_prefix in GD. destruct (run_ghosts h1 GD) as [PV PC]. fold s in PV, PC.
  unfold known_votes_of in PV, PC. rewrite ghost_known in PV, PC.
  assert (NONE : forall V, ghost t ws V = None <-> (cur_weight ws V < threshold ws)%N).
  { intro V. pose proof (ghost_defined t ws V) as D. destruct (ghost t ws V) as [g|] eqn:GH.
    - split; [discriminate|]. intro LT. assert (threshold ws <= cur_weight ws V)%N by (apply D; eauto). lia.
    - split; [|reflexivity]. intros _. apply N.lt_nge. intro LE. apply D in LE. destruct LE as [g LE]. discriminate. }
  split; [exact PV|]. split; [exact PC|]. rewrite PV, PC. split; apply NONE.
Qed.

End RunGhost.

(* non-vacuity: tree 0 - 1, 1 - 2, 1 - 3; four voters of weight 1 (threshold 3, tolerance 1).
   Prevotes 0:2, 1:3 (no supermajority yet: None), 2:0 (ghost = the base), 3:2 (the ghost moves up
   to block 1, a merge point inside the ancestor edges of 2 and 3: block 1 never gets a vote-node),
   3:2 again (duplicate: recorded, ghost not refreshed), 2:2 (equivocation of voter 2: the search
   restarts from block 1 inside the edge and moves up to block 2), 2:3 (ignored: equivocates
   already), a prevote of voter 7 (outside the voter set); precommits 0:2, 1:2, 3:3 (precommit
   ghost = block 1, a merge point again), 2:2 (moves up to block 2).  All hypotheses of
   run_ghosts_prefix hold for this history. *)
Example run_ghosts_example :
  let t := [0; 1; 1]%nat in let ws := [1; 1; 1; 1]%N in
  let h := [(0, mkVote 0 2 0); (0, mkVote 1 3 0); (0, mkVote 2 0 0); (0, mkVote 3 2 0); (0, mkVote 3 2 0);
            (0, mkVote 2 2 0); (0, mkVote 2 3 0); (0, mkVote 7 3 0);
            (1, mkVote 0 2 0); (1, mkVote 1 2 0); (1, mkVote 3 3 0); (1, mkVote 2 2 0)]%nat in
  (forall o, In o h -> (fst o < 2)%nat) /\ (0 < total ws)%N /\
  tolerant ws (votes_of 0 h) = true /\ tolerant ws (votes_of 1 h) = true /\
  (forall o, In o h -> known_voter ws (snd o) = true -> in_tree t (vblock (snd o))) /\
  map (fun k => let s := run t (fun b => b) ws (firstn k h) in (r_pvg s, r_pcg s)) (seq 0 13) =
    [(None, None); (None, None); (None, None); (Some 0, None); (Some 1, None); (Some 1, None);
     (Some 2, None); (Some 2, None); (Some 2, None); (Some 2, None); (Some 2, None); (Some 2, Some 1);
     (Some 2, Some 2)]%nat /\
  map (fun k => (ghost t ws (votes_of 0 (firstn k h)), ghost t ws (votes_of 1 (firstn k h)))) (seq 0 13) =
    [(None, None); (None, None); (None, None); (Some 0, None); (Some 1, None); (Some 1, None);
     (Some 2, None); (Some 2, None); (Some 2, None); (Some 2, None); (Some 2, None); (Some 2, Some 1);
     (Some 2, Some 2)]%nat /\
  map fst (r_G (run t (fun b => b) ws h)) = [0; 2; 3]%nat.
Proof.
  intros t ws h. split.
  { intros o I. cbn in I. repeat (destruct I as [<-|I]; [cbn; lia|]). destruct I. }
  split; [reflexivity|]. split; [reflexivity|]. split; [reflexivity|]. split.
  { intros o I K. cbn in I. unfold in_tree, size, t.
    repeat (destruct I as [<-|I]; [first [cbn; lia|discriminate K]|]). destruct I. }
  vm_compute. repeat split; reflexivity.
Qed.
