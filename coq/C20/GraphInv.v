(* C20/GraphInv.v -- UNBOUNDED statements about the vote-graph mirror (Graph.v), for every tree,
   every graph and every number of votes, for the part of Insert that does not restructure the
   graph: the cumulative-vote propagation, and Insert of a vote whose block already has a
   vote-node.  (Insert through append / introduceBranch is covered by the small-scope theorem
   C20_graph_mirror_small_scope only.)

   chain_inv G : the ancestor edge of every vote-node ends in the NEAREST vote-node above it
                 (or the node has no vote-node above it);
   cum_ok G I  : the cumulative vote of every vote-node y holds exactly the bits of the inserted
                 votes I = [(block, bit)] whose block is y or a descendant of y. *)
From Coq Require Import List Arith Lia Bool NArith.
From Grandpa Require Import Tree Votes RoundSpec.
From C20 Require Import Model Graph.
Import ListNotations.

Lemma eget_eset b e G y : eget y (eset b e G) = if (y =? b)%nat then Some e else eget y G.
Proof.
  induction G as [|[k e'] r IH]; cbn [eset eget].
  - rewrite (Nat.eqb_sym b y). reflexivity.
  - destruct (Nat.eqb_spec k b) as [->|N]; cbn [eget].
    + rewrite (Nat.eqb_sym b y). destruct (Nat.eqb_spec y b); reflexivity.
    + rewrite IH. destruct (Nat.eqb_spec k y) as [->|N2].
      * destruct (Nat.eqb_spec y b); [congruence|reflexivity].
      * reflexivity.
Qed.

Section Inv.
Variable t : tree.

Definition chain_inv (G : entries) : Prop :=
  forall x e, eget x G = Some e ->
    match ancestor_node e with
    | Some p => (exists pe, eget p G = Some pe) /\ anc t p x /\ p <> x /\
                (forall y ey, eget y G = Some ey -> anc t y x -> y <> x -> anc t y p)
    | None => forall y ey, eget y G = Some ey -> anc t y x -> y = x
    end.

Definition cum_ok (G : entries) (ins : list (block * bit)) : Prop :=
  forall y e, eget y G = Some e -> forall b,
    memb b (g_cum e) = existsb (fun p => (snd p =? b)%nat && ancb t y (fst p)) ins.

Definition add_bit (b : bit) (e : entry) : entry := mkE (g_anc e) (g_desc e) (b :: g_cum e).

(* replacing an entry by one with the same ancestor edge keeps chain_inv *)
Lemma chain_inv_eset G x e e' : eget x G = Some e -> g_anc e' = g_anc e ->
  chain_inv G -> chain_inv (eset x e' G).
Proof.
  intros EX EA CI x' e'' H. rewrite eget_eset in H.
  assert (KEYS : forall y, (exists ey, eget y (eset x e' G) = Some ey) <-> (exists ey, eget y G = Some ey)).
  { intro y. rewrite eget_eset. destruct (Nat.eqb_spec y x) as [->|N]; [|tauto].
    split; intros _; eauto. }
  assert (AN : ancestor_node e'' = match eget x' G with Some e0 => ancestor_node e0 | None => None end /\
               exists e0, eget x' G = Some e0).
  { destruct (Nat.eqb_spec x' x) as [->|N].
    - injection H as <-. rewrite EX. unfold ancestor_node. rewrite EA. eauto.
    - rewrite H. eauto. }
  destruct AN as [AN [e0 E0]]. rewrite E0 in AN. rewrite AN.
  pose proof (CI x' e0 E0) as C. destruct (ancestor_node e0) as [p|].
  - destruct C as [PE [A [N M]]]. split; [now apply KEYS|]. split; [exact A|]. split; [exact N|].
    intros y ey Y. destruct (proj1 (KEYS y) (ex_intro _ ey Y)) as [ey0 Y0]. exact (M y ey0 Y0).
  - intros y ey Y. destruct (proj1 (KEYS y) (ex_intro _ ey Y)) as [ey0 Y0]. exact (C y ey0 Y0).
Qed.

(* the cumulative-vote propagation of Insert: exactly the vote-nodes at or above x get the bit *)
Lemma propagate_spec : forall fuel G x b, chain_inv G -> (x < fuel)%nat ->
  (exists e, eget x G = Some e) ->
  forall y, eget y (propagate fuel G x b) =
    match eget y G with
    | Some e => Some (if ancb t y x then add_bit b e else e)
    | None => None
    end.
Proof.
  induction fuel as [|f IH]; intros G x b CI L [e EX] y; [lia|].
  cbn [propagate]. rewrite EX. fold (add_bit b e).
  pose proof (CI x e EX) as C.
  assert (XX : ancb t x x = true) by (apply ancb_spec, anc_refl).
  destruct (ancestor_node e) as [p|] eqn:AN.
  - destruct C as [[pe PE] [A [N M]]].
    assert (PL : (p < f)%nat) by (apply anc_le in A; lia).
    assert (CI1 : chain_inv (eset x (add_bit b e) G)) by (apply (chain_inv_eset G x e); auto).
    assert (P1 : exists e1, eget p (eset x (add_bit b e) G) = Some e1).
    { rewrite eget_eset. destruct (Nat.eqb_spec p x); [congruence|eauto]. }
    rewrite (IH _ p b CI1 PL P1 y). rewrite eget_eset.
    destruct (Nat.eqb_spec y x) as [->|NY].
    + rewrite EX, XX.
      assert (ancb t x p = false); [|now rewrite H].
      apply ancb_false. intro B. apply N. now apply (anc_antisym t).
    + destruct (eget y G) as [ey|] eqn:EY; [|reflexivity].
      assert (ancb t y p = ancb t y x); [|now rewrite H].
      destruct (ancb t y x) eqn:YX.
      * apply ancb_spec. apply ancb_spec in YX. exact (M y ey EY YX NY).
      * apply ancb_false. apply ancb_false in YX. intro B. apply YX. eapply anc_trans; eauto.
  - rewrite eget_eset. destruct (Nat.eqb_spec y x) as [->|NY].
    + now rewrite EX, XX.
    + destruct (eget y G) as [ey|] eqn:EY; [|reflexivity].
      assert (ancb t y x = false); [|now rewrite H].
      apply ancb_false. intro B. apply NY. exact (C y ey EY B).
Qed.

Lemma propagate_chain_inv fuel G x b : chain_inv G -> (x < fuel)%nat ->
  (exists e, eget x G = Some e) -> chain_inv (propagate fuel G x b).
Proof.
  intros CI L EX x' e' H. rewrite (propagate_spec fuel G x b CI L EX) in H.
  assert (KEYS : forall y, (exists ey, eget y (propagate fuel G x b) = Some ey) <-> (exists ey, eget y G = Some ey)).
  { intro y. rewrite (propagate_spec fuel G x b CI L EX). destruct (eget y G); split; intros [z Z]; eauto; discriminate. }
  destruct (eget x' G) as [e0|] eqn:E0; [|discriminate]. injection H as <-.
  assert (AN : ancestor_node (if ancb t x' x then add_bit b e0 else e0) = ancestor_node e0)
    by (destruct (ancb t x' x); reflexivity).
  rewrite AN. pose proof (CI x' e0 E0) as C. destruct (ancestor_node e0) as [p|].
  - destruct C as [PE [A [N M]]]. split; [now apply KEYS|]. split; [exact A|]. split; [exact N|].
    intros y ey Y. destruct (proj1 (KEYS y) (ex_intro _ ey Y)) as [ey0 Y0]. exact (M y ey0 Y0).
  - intros y ey Y. destruct (proj1 (KEYS y) (ex_intro _ ey Y)) as [ey0 Y0]. exact (C y ey0 Y0).
Qed.

Lemma propagate_cum_ok fuel G x b ins : chain_inv G -> (x < fuel)%nat ->
  (exists e, eget x G = Some e) -> cum_ok G ins -> cum_ok (propagate fuel G x b) ((x, b) :: ins).
Proof.
  intros CI L EX CO y e' H b'. rewrite (propagate_spec fuel G x b CI L EX) in H.
  destruct (eget y G) as [e0|] eqn:E0; [|discriminate]. injection H as <-.
  cbn [existsb fst snd]. rewrite <- (CO y e0 E0 b').
  destruct (ancb t y x); cbn [add_bit g_cum memb existsb andb orb].
  - rewrite andb_true_r. unfold memb. cbn [existsb]. now rewrite (Nat.eqb_sym b' b).
  - now rewrite andb_false_r.
Qed.

(* ---- Insert of a vote for a block that already has a vote-node (no restructuring) ---- *)
Variable lbl : block -> nat.

Theorem insert_existing_node G heads h b ins e0 :
  chain_inv G -> cum_ok G ins -> eget h G = Some e0 ->
  let '(G', heads') := insert t lbl G heads h b in
  heads' = heads /\ chain_inv G' /\ cum_ok G' ((h, b) :: ins) /\
  (forall y, option_map g_anc (eget y G') = option_map g_anc (eget y G)) /\
  (forall y, option_map g_desc (eget y G') = option_map g_desc (eget y G)).
Proof.
  intros CI CO EH. unfold insert, find_containing. rewrite EH.
  assert (L : (h < S (h + length G))%nat) by lia.
  assert (EX : exists e, eget h G = Some e) by eauto.
  split; [reflexivity|]. split; [now apply propagate_chain_inv|].
  split; [now apply propagate_cum_ok|].
  split; intro y; rewrite (propagate_spec _ G h b CI L EX y); destruct (eget y G); cbn [option_map];
    try reflexivity; destruct (ancb t y h); reflexivity.
Qed.

End Inv.

(* the weight a vote-node then carries (context.Weight): the voters with an inserted vote of the
   phase at or below the node, or with an equivocation bit *)
Lemma cum_ok_weight t ws G ins y e eqv ph : cum_ok t G ins -> eget y G = Some e ->
  bits_weight ws (g_cum e) eqv ph =
  wsum ws (fun v => existsb (fun p => (snd p =? 2 * v + ph)%nat && ancb t y (fst p)) ins
                    || memb (2 * v + ph) eqv).
Proof.
  intros CO E. unfold bits_weight. apply wsum_ext. intro v. now rewrite (CO y e E).
Qed.
