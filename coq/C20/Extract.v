From Coq Require Import Extraction ExtrOcamlBasic.
From Common Require Import Bytes Drv.
From Grandpa Require Import Tree Votes RoundSpec.
From C20 Require Import Model Graph.
Extraction "model.ml" drv_b2n drv_n2b drv_z_of_n drv_n_of_z drv_nat_of_n drv_n_of_nat
  mkVote round_state_of import_flags participants in_domain cur_weight eq_weight weight
  threshold total tolerant possible has_supermajority depth chain
  possible_go state_at round_state_go rs_eqb children
  rinit step_op observed.
