(* C20/ProofsPossible.v -- with UNIT weights the "possible" accounting of the specification is
   exactly the paper's existential definition: it is possible for C to have a supermajority for b
   iff some tolerant extension of C (votes of voters that have not voted yet, further equivocations
   within the tolerance) has a supermajority for b.  (With arbitrary weights only the direction
   Proofs.possible_of_extension holds.) *)
From Coq Require Import List Arith Lia Bool NArith ZifyN ZifyNat ZifyBool.
From Grandpa Require Import Tree Votes RoundSpec RoundProofs.
From C20 Require Import Model Proofs.
Import ListNotations.
Local Open Scope N_scope.

(* ---- sums over unit weights ---- *)
Lemma wsum_from_ext_ge i ws p q : (forall v, (i <= v)%nat -> p v = q v) -> wsum_from i ws p = wsum_from i ws q.
Proof.
  revert i. induction ws as [|w r IH]; intros i E; cbn [wsum_from]; [reflexivity|].
  rewrite (E i (le_n i)), (IH (S i)); [reflexivity|]. intros v L. apply E. lia.
Qed.

Lemma wsum_from_mono_range i ws p q :
  (forall v, (i <= v < i + length ws)%nat -> p v = true -> q v = true) -> wsum_from i ws p <= wsum_from i ws q.
Proof.
  revert i. induction ws as [|w r IH]; intros i E; cbn [wsum_from]; [lia|].
  assert (H : wsum_from (S i) r p <= wsum_from (S i) r q).
  { apply IH. intros v L. apply E. cbn [length]. lia. }
  destruct (p i) eqn:P.
  - rewrite (E i); [lia| cbn [length]; lia | exact P].
  - destruct (q i); lia.
Qed.

Lemma wsum_mono_range ws p q :
  (forall v, (v < length ws)%nat -> p v = true -> q v = true) -> wsum ws p <= wsum ws q.
Proof. intro E. apply wsum_from_mono_range. intros v L. apply E. lia. Qed.

(* any amount k up to the unit-weight sum of p is the sum of some q below p *)
Lemma pick_from n : forall i (p : nat -> bool) k, k <= wsum_from i (repeat 1 n) p ->
  exists q, (forall v, q v = true -> p v = true) /\ wsum_from i (repeat 1 n) q = k.
Proof.
  induction n as [|n IH]; intros i p k H; cbn [repeat wsum_from] in *.
  - exists (fun _ => false). split; [discriminate|]. cbn. lia.
  - destruct (N.eq_dec k 0) as [->|NZ].
    + exists (fun _ => false). split; [discriminate|].
      change (wsum_from i (repeat 1 (S n)) (fun _ => false) = 0). now apply wsum_from_false.
    + destruct (p i) eqn:P.
      * destruct (IH (S i) p (k - 1)) as [q [Q1 Q2]]; [lia|].
        exists (fun v => if (v =? i)%nat then true else q v). split.
        -- intros v. destruct (Nat.eqb_spec v i) as [->|N]; [intros _; exact P|apply Q1].
        -- rewrite Nat.eqb_refl.
           rewrite (wsum_from_ext_ge (S i) (repeat 1 n) _ q).
           ++ lia.
           ++ intros v L. destruct (Nat.eqb_spec v i); [lia|reflexivity].
      * destruct (IH (S i) p k) as [q [Q1 Q2]]; [lia|].
        exists (fun v => if (v =? i)%nat then false else q v). split.
        -- intros v. destruct (Nat.eqb_spec v i) as [->|N]; [discriminate|apply Q1].
        -- rewrite Nat.eqb_refl.
           rewrite (wsum_from_ext_ge (S i) (repeat 1 n) _ q).
           ++ lia.
           ++ intros v L. destruct (Nat.eqb_spec v i); [lia|reflexivity].
Qed.

Lemma wsum_disjoint ws p q : (forall v, p v && q v = false) ->
  wsum ws (fun v => p v || q v) = wsum ws p + wsum ws q.
Proof.
  intro D. pose proof (wsum_incl_excl ws p q) as IE.
  assert (Z : wsum ws (fun v => p v && q v) = 0) by (unfold wsum; now apply wsum_from_false).
  lia.
Qed.

Section Unit.
Variable t : tree.
Variable n : nat.
Notation ws := (repeat 1 n).

Variable C : list vote.
Variable b : block.

(* voters that have voted, do not equivocate and do not vote for b: they can still be made to
   equivocate; voters that have not voted yet *)
Definition movable (v : nat) : bool := voted C v && negb (supports t C v b).
Definition unvoted (v : nat) : bool := negb (voted C v).

(* the extension: every unvoted voter and every chosen movable voter casts a vote for b *)
Definition extend (q : nat -> bool) : list vote :=
  C ++ flat_map (fun v => if unvoted v || q v then [mkVote v b 0] else []) (seq 0 n).

Lemma in_extend q x : In x (extend q) <->
  In x C \/ exists v, (v < n)%nat /\ (unvoted v || q v) = true /\ x = mkVote v b 0.
Proof.
  unfold extend. rewrite in_app_iff, in_flat_map. split.
  - intros [H|[v [I H]]]; [now left|right]. apply in_seq in I.
    destruct (unvoted v || q v) eqn:E; [|contradiction]. destruct H as [<-|[]].
    exists v. repeat split; auto. lia.
  - intros [H|[v [L [E ->]]]]; [now left|right]. exists v. split; [apply in_seq; lia|].
    rewrite E. now left.
Qed.

Lemma extend_subset q : subset C (extend q).
Proof. intros x I. apply in_extend. now left. Qed.


Lemma extend_equivocates q v : (forall u, q u = true -> movable u = true) ->
  equivocates (extend q) v = true -> equivocates C v = true \/ q v = true.
Proof.
  intros QM E. destruct (q v) eqn:Qv; [now right|left].
  apply equivocates_spec in E. destruct E as [x [y [Ix [Iy [Vx [Vy NS]]]]]].
  apply in_extend in Ix, Iy.
  (* a new vote of v exists only when v has not voted in C *)
  assert (NEW : forall z, (exists u, (u < n)%nat /\ (unvoted u || q u) = true /\ z = mkVote u b 0) ->
                vvoter z = v -> voted C v = false /\ z = mkVote v b 0).
  { intros z [u [_ [EU ->]]] Vz. cbn in Vz. subst u. rewrite Qv, orb_false_r in EU.
    unfold unvoted in EU. apply negb_true_iff in EU. auto. }
  destruct Ix as [Ix|Nx], Iy as [Iy|Ny].
  - apply equivocates_spec. exists x, y. auto.
  - destruct (NEW y Ny Vy) as [NV _]. exfalso.
    assert (voted C v = true) by (apply voted_spec; eauto). congruence.
  - destruct (NEW x Nx Vx) as [NV _]. exfalso.
    assert (voted C v = true) by (apply voted_spec; eauto). congruence.
  - destruct (NEW x Nx Vx) as [_ ->]. destruct (NEW y Ny Vy) as [_ ->].
    unfold same_vote in NS. cbn in NS. rewrite !Nat.eqb_refl in NS. discriminate.
Qed.

Lemma extend_supports q v : (v < n)%nat ->
  (supports t C v b || (unvoted v || q v)) = true -> supports t (extend q) v b = true.
Proof.
  intros L H. apply orb_prop in H. destruct H as [H|H].
  - exact (supports_mono t C (extend q) v b (extend_subset q) H).
  - unfold supports. apply orb_true_iff. right. apply votes_for_spec.
    exists (mkVote v b 0). split; [apply in_extend; right; exists v; auto|].
    split; [reflexivity|apply anc_refl].
Qed.

Theorem possible_extension_unit : tolerant ws C = true -> possible t ws C b = true ->
  exists C', subset C C' /\ tolerant ws C' = true /\ has_supermajority t ws C' b = true.
Proof.
  intros TOL P. unfold tolerant in TOL. apply N.leb_le in TOL.
  unfold possible in P. apply N.leb_le in P.
  pose proof (cur_split t ws C b) as CS.
  fold movable in CS.
  assert (CS' : cur_weight ws C = weight t ws C b + wsum ws movable).
  { rewrite CS. f_equal. }
  set (k := N.min (cur_weight ws C - weight t ws C b) (tolerance ws - eq_weight ws C)) in *.
  destruct (pick_from n 0 movable k) as [q [QM QS]].
  { fold (wsum ws movable). unfold k. lia. }
  fold (wsum ws q) in QS.
  exists (extend q). split; [apply extend_subset|]. split.
  - (* tolerant *)
    unfold tolerant. apply N.leb_le.
    assert (eq_weight ws (extend q) <= wsum ws (fun v => equivocates C v || q v)).
    { apply wsum_mono. intros v E. apply orb_true_iff. now apply extend_equivocates. }
    pose proof (wsum_incl_excl ws (equivocates C) q) as IE. fold (eq_weight ws C) in IE.
    unfold k in QS. lia.
  - (* supermajority *)
    unfold has_supermajority. apply N.leb_le.
    assert (W : wsum ws (fun v => supports t C v b || (unvoted v || q v)) <= weight t ws (extend q) b).
    { apply wsum_mono_range. rewrite repeat_length. intros v L H. now apply extend_supports. }
    assert (D1 : forall v, unvoted v && q v = false).
    { intro v. destruct (q v) eqn:Qv; [|apply andb_false_r].
      apply QM in Qv. unfold movable in Qv. apply andb_true_iff in Qv. destruct Qv as [Vv _].
      unfold unvoted. now rewrite Vv. }
    assert (D2 : forall v, supports t C v b && (unvoted v || q v) = false).
    { intro v. destruct (supports t C v b) eqn:Sp; [|reflexivity]. cbn [andb].
      apply orb_false_iff. split.
      - unfold unvoted. now rewrite (supports_voted t C v b Sp).
      - destruct (q v) eqn:Qv; [|reflexivity]. apply QM in Qv. unfold movable in Qv.
        rewrite Sp in Qv. now rewrite andb_false_r in Qv. }
    rewrite (wsum_disjoint ws (fun v => supports t C v b) (fun v => unvoted v || q v) D2) in W.
    rewrite (wsum_disjoint ws unvoted q D1) in W.
    fold (weight t ws C b) in W.
    assert (U : wsum ws unvoted = total ws - cur_weight ws C).
    { unfold total. rewrite (wsum_split ws (fun _ => true) (voted C)).
      unfold cur_weight. cbn [andb]. unfold unvoted.
      assert (wsum ws (fun v => voted C v) = wsum ws (voted C)) by (apply wsum_ext; reflexivity).
      lia. }
    unfold k in QS. unfold tolerance in *. lia.
Qed.

End Unit.
