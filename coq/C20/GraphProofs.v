(* C20/GraphProofs.v -- the small-scope theorem about the Tier A mirror (complete enumeration by
   vm_compute in GraphScope.v; the bounds are in the statement). *)
From Coq Require Import List Arith Bool NArith.
From Grandpa Require Import Tree Votes RoundSpec.
From C20 Require Import Model Graph GraphCheck GraphScope.
Import ListNotations.

Lemma scope_ok_spec k len ws : scope_ok k len ws = true ->
  forall tr, In tr (trees k) -> forall h, In h (seqs len (ops_of k (length ws))) ->
  run_ok tr lbl_id ws h rinit = true /\ run_ok tr lbl_rev ws h rinit = true.
Proof.
  unfold scope_ok. intros H tr IT h IH.
  rewrite forallb_forall in H. specialize (H tr IT). rewrite forallb_forall in H.
  specialize (H h IH). now apply andb_true_iff in H.
Qed.

(* the checks after every import, as propositions about one state *)
Lemma run_ok_prefix t lbl ws : forall h1 h2 s, run_ok t lbl ws (h1 ++ h2) s = true ->
  h1 <> [] ->
  all_ok t ws (fold_left (fun st o => step_op t lbl ws (fst o) (snd o) st) h1 s) = true.
Proof.
  induction h1 as [|[ph x] r IH]; intros h2 s H NE; [congruence|].
  cbn [app run_ok] in H. apply andb_true_iff in H. destruct H as [A R].
  cbn [fold_left fst snd]. destruct r as [|o r'].
  - exact A.
  - apply (IH h2 _ R). discriminate.
Qed.

Theorem mirror_refines_spec_small_scope : forall k len ws,
  In (k, len, ws) [(4, 3, [1;1;1]%N); (3, 3, [2;1;1]%N); (2, 4, [1;1;1]%N)] ->
  forall tr, In tr (trees k) -> forall h, In h (seqs len (ops_of k (length ws))) ->
  forall lbl, lbl = lbl_id \/ lbl = lbl_rev ->
  forall h1 h2, h = h1 ++ h2 -> h1 <> [] ->
  all_ok tr ws (fold_left (fun st o => step_op tr lbl ws (fst o) (snd o) st) h1 rinit) = true.
Proof.
  intros k len ws IN tr IT h IH lbl L h1 h2 E NE. subst h.
  assert (S : scope_ok k len ws = true).
  { destruct IN as [X|[X|[X|[]]]]; inversion X; subst;
      [exact scope_4_3|exact scope_3_3w|exact scope_2_4]. }
  destruct (scope_ok_spec k len ws S tr IT _ IH) as [A B].
  destruct L as [-> | ->]; eapply run_ok_prefix; eauto.
Qed.

(* ---- the bridge between bitfields and the specification's weight (all trees, weights, votes):
   if the bits of a vote-node, merged with the equivocation bits, are exactly the voters that
   support the node's block, the weight context.Weight computes is Votes.weight ---- *)
From Coq Require Import Lia ZifyN ZifyNat ZifyBool.
From C20 Require Import ProofsPossible.
Local Open Scope N_scope.

Lemma bits_weight_is_weight t ws S b bits eqv ph :
  (forall v, (v < length ws)%nat ->
     memb (2 * v + ph) bits || memb (2 * v + ph) eqv = supports t S v b) ->
  bits_weight ws bits eqv ph = weight t ws S b.
Proof.
  intro H. unfold bits_weight, weight.
  assert (A : wsum ws (fun v => memb (2 * v + ph) bits || memb (2 * v + ph) eqv) <= wsum ws (fun v => supports t S v b)).
  { apply wsum_mono_range. intros v L E. now rewrite <- (H v L). }
  assert (B : wsum ws (fun v => supports t S v b) <= wsum ws (fun v => memb (2 * v + ph) bits || memb (2 * v + ph) eqv)).
  { apply wsum_mono_range. intros v L E. now rewrite (H v L). }
  lia.
Qed.

(* a history with a branch introduced in the middle of an edge and a ghost found as a merge point
   that is not a vote-node: tree 0 - 1, 1 - 2, 1 - 3; prevotes 0:2, 1:3, 2:3, then a prevote
   duplicate and precommits 0:2, 1:3, 2:1 *)
Example mirror_example :
  let t := [0; 1; 1]%nat in let ws := [1; 1; 1] in
  let h := [(0, mkVote 0 2 0); (0, mkVote 1 3 0); (0, mkVote 2 3 0);
            (1, mkVote 0 2 0); (1, mkVote 1 3 0); (1, mkVote 2 1 0)]%nat in
  let s := fold_left (fun st o => step_op t lbl_id ws (fst o) (snd o) st) h rinit in
  observed s = mkRS (Some 1%nat) (Some 1%nat) (Some 1%nat) true (Some 1%nat) /\
  map fst (r_G s) = [0; 2; 3; 1]%nat /\
  run_ok t lbl_id ws h rinit = true.
Proof. vm_compute. repeat split; reflexivity. Qed.
