(* C20/Model.v -- what the correspondence check of C20 replays (definitions only).

   The round state itself is NOT a mirror of pkg/finality-grandpa's Round/VoteGraph: it is the
   specification Grandpa.RoundSpec.round_state_of (the paper definitions over the vote sets), so
   the comparison "Go Round after every import = round_state_of of the votes imported so far" is
   the property C20 itself.  Only the bookkeeping answers of Round.importPrevote/importPrecommit
   (valid voter / duplicated / equivocation reported) are mirrored here, for the correspondence:
   voteTracker.addVote keeps the first two different votes of a voter and ignores the rest. *)
From Coq Require Import List Arith Bool NArith.
From Grandpa Require Import Tree Votes RoundSpec.
Import ListNotations.

(* the votes voteTracker has stored for voter v after the history h (oldest first): the first
   two different ones *)
Fixpoint stored (v : nat) (h : list vote) (acc : list vote) : list vote :=
  match h with
  | [] => acc
  | x :: r =>
    if by_voter v x then
      match acc with
      | [] => stored v r [x]
      | [a] => if same_vote a x then stored v r acc else stored v r [a; x]
      | _ => stored v r acc
      end
    else stored v r acc
  end.

(* bit 0: ValidVoter, bit 1: Duplicated, bit 2: an Equivocation is reported *)
Definition import_flags (ws : list N) (h : list vote) (x : vote) : N :=
  if known_voter ws x then
    let st := stored (vvoter x) h [] in
    if existsb (same_vote x) st then 3%N
    else match st with [_] => 5%N | _ => 1%N end
  else 0%N.

(* number of voters that have voted (voteTracker.participation) *)
Definition participants (ws : list N) (S : list vote) : nat :=
  length (filter (voted S) (seq 0 (length ws))).

(* the domain of the paper definitions: both vote sets tolerant (equivocating weight within
   total - threshold) *)
Definition in_domain (ws : list N) (V C : list vote) : bool := tolerant ws V && tolerant ws C.

(* ------------------------------------------------------------------------------------------
   The part of Round.update that is NOT the paper's definition outside the domain: the
   "possible to precommit" accounting computed with Go's wrapping uint64 arithmetic
   (toleratedEquivocations - currentEquivocations wraps when the precommit equivocators outweigh
   the tolerance; the Rust original saturates).  [possible_go] mirrors round.go literally;
   Proofs.possible_go_spec shows it is RoundSpec.possible whenever the precommits are tolerant and
   the total weight fits 64 bits.  The correspondence check uses it on prefixes with tolerant
   prevotes and intolerant precommits. *)
Local Open Scope N_scope.
Definition w64 (x : N) : N := N.land x 0xFFFFFFFFFFFFFFFF.
(* a - b on uint64 *)
Definition sub64 (a b : N) : N := w64 (a + 0x10000000000000000 - w64 b).
Definition add64 (a b : N) : N := w64 (a + b).

Definition possible_go (t : tree) (ws : list N) (C : list vote) (b : block) : bool :=
  let n := total ws in
  let th := threshold ws in
  let tolerated := sub64 n th in
  let cur_eq := eq_weight ws C in
  let additional := sub64 tolerated cur_eq in
  let cur := cur_weight ws C in
  let remaining := sub64 n cur in
  let pf := weight t ws C b in
  let poss_eq := if sub64 cur pf <=? additional then sub64 cur pf else additional in
  th <=? add64 (add64 pf remaining) poss_eq.

(* finalized / estimate / completable of Round.update as functions of the current prevote ghost
   [g] (Round.prevoteGhost), the precommits and the "possible" predicate in use *)
Definition state_at (t : tree) (ws : list N) (poss : list vote -> block -> bool)
    (g : option block) (C : list vote) : option block * option block * bool :=
  match g with
  | None => (None, None, false)
  | Some g =>
    if threshold ws <=? cur_weight ws C then
      let fin := find_anc t (has_supermajority t ws C) g in
      match find_anc t (poss C) g with
      | None => (fin, None, false)
      | Some e => (fin, Some e, negb (e =? g)%nat || negb (existsb (poss C) (children t g)))
      end
    else (None, Some g, false)
  end.

(* the Go round state when the prevotes are tolerant: the paper's ghost, and update() with the
   wrapping accounting *)
Definition round_state_go (t : tree) (ws : list N) (V C : list vote) : round_state :=
  let '(f, e, c) := state_at t ws (possible_go t ws) (ghost t ws V) C in
  mkRS (ghost t ws V) f e c (ghost t ws C).

Definition opt_eqb (a b : option block) : bool :=
  match a, b with
  | None, None => true
  | Some x, Some y => (x =? y)%nat
  | _, _ => false
  end.
Definition rs_eqb (a b : round_state) : bool :=
  opt_eqb (rs_ghost a) (rs_ghost b) && opt_eqb (rs_finalized a) (rs_finalized b) &&
  opt_eqb (rs_estimate a) (rs_estimate b) && Bool.eqb (rs_completable a) (rs_completable b) &&
  opt_eqb (rs_pc_ghost a) (rs_pc_ghost b).
