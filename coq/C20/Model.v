(* C20/Model.v -- what the correspondence check of C20 replays (definitions only).

   The round state itself is NOT a mirror of pkg/finality-grandpa's Round/VoteGraph: it is the
   specification Grandpa.RoundSpec.round_state_of (the paper definitions over the vote sets), so
   the comparison "Go Round after every import = round_state_of of the votes imported so far" is
   the property C20 itself.  Only the bookkeeping answers of Round.importPrevote/importPrecommit
   (valid voter / duplicated / equivocation reported) are mirrored here, for the correspondence:
   voteTracker.addVote keeps the first two different votes of a voter and ignores the rest. *)
From Coq Require Import List Arith Bool NArith.
From Grandpa Require Import Tree Votes RoundSpec.
Import ListNotations.

(* the votes voteTracker has stored for voter v after the history h (oldest first): the first
   two different ones *)
Fixpoint stored (v : nat) (h : list vote) (acc : list vote) : list vote :=
  match h with
  | [] => acc
  | x :: r =>
    if by_voter v x then
      match acc with
      | [] => stored v r [x]
      | [a] => if same_vote a x then stored v r acc else stored v r [a; x]
      | _ => stored v r acc
      end
    else stored v r acc
  end.

(* bit 0: ValidVoter, bit 1: Duplicated, bit 2: an Equivocation is reported *)
Definition import_flags (ws : list N) (h : list vote) (x : vote) : N :=
  if known_voter ws x then
    let st := stored (vvoter x) h [] in
    if existsb (same_vote x) st then 3%N
    else match st with [_] => 5%N | _ => 1%N end
  else 0%N.

(* number of voters that have voted (voteTracker.participation) *)
Definition participants (ws : list N) (S : list vote) : nat :=
  length (filter (voted S) (seq 0 (length ws))).

(* the domain of the paper definitions: both vote sets tolerant (equivocating weight within
   total - threshold) *)
Definition in_domain (ws : list N) (V C : list vote) : bool := tolerant ws V && tolerant ws C.
