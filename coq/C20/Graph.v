(* C20/Graph.v -- Tier A mirror of the core of pkg/finality-grandpa: the vote graph
   (vote_graph.go: entries with ancestor edges, append, introduceBranch, findContainingNodes,
   Insert with cumulative-vote propagation, FindGHOST with ghostFindMergePoint, FindAncestor), the
   weights of context.go over bitfields, and Round.importPrevote / importPrecommit / update /
   PrecommitGHOST on top of it, with the memoised fields.  Definitions only; executable; replayed by
   the driver on ALL prefixes (also outside the domain of the paper definitions).

   Blocks are the nodes of an explicit tree (Grandpa.Tree; block 0 = round base); a block's number is
   its depth.  Hashes are ordered through the labels [lbl] (the harness makes the hash of a block
   from its label): the order matters where Go iterates the sorted set of heads.  A vote-node's
   cumulative vote is the list of bit positions 2*voter+phase set in its bitfield (a set: order and
   repetition are irrelevant).  Go's btree map of entries is an association list. *)
From Coq Require Import List Arith Bool NArith.
From Grandpa Require Import Tree Votes RoundSpec.
From C20 Require Import Model.
Import ListNotations.

Definition bit := nat.   (* 2 * voter position + phase (0 prevote, 1 precommit) *)

Record entry := mkE {
  g_anc : list block;    (* ancestors, parent first; the last one is the parent vote-node *)
  g_desc : list block;   (* descendant vote-nodes *)
  g_cum : list bit       (* cumulativeVote *)
}.
Definition entries := list (block * entry).

Fixpoint eget (b : block) (m : entries) : option entry :=
  match m with [] => None | (k, e) :: r => if (k =? b)%nat then Some e else eget b r end.
Fixpoint eset (b : block) (e : entry) (m : entries) : entries :=
  match m with
  | [] => [(b, e)]
  | (k, e') :: r => if (k =? b)%nat then (b, e) :: r else (k, e') :: eset b e r
  end.
Definition memb (x : nat) (l : list nat) : bool := existsb (Nat.eqb x) l.
Fixpoint last_opt {A} (l : list A) : option A :=
  match l with [] => None | [x] => Some x | _ :: r => last_opt r end.

Section Graph.
Variable t : tree.
Variable lbl : block -> nat.      (* hash order *)

Definition number (b : block) : nat := depth t b.

(* voteGraphEntry.ancestorBlock / inDirectAncestry / ancestorNode *)
Definition ancestor_block (b : block) (e : entry) (num : nat) : option block :=
  if (number b <=? num)%nat then None else nth_error (g_anc e) (number b - num - 1).
Definition in_direct_ancestry (b : block) (e : entry) (h : block) (num : nat) : option bool :=
  match ancestor_block b e num with Some x => Some (x =? h)%nat | None => None end.
Definition ancestor_node (e : entry) : option block := last_opt (g_anc e).

(* heads.Keys(): sorted by hash *)
Fixpoint ins_sorted (x : block) (l : list block) : list block :=
  match l with
  | [] => [x]
  | y :: r => if (lbl x <=? lbl y)%nat then x :: l else y :: ins_sorted x r
  end.
Definition sort_heads (l : list block) : list block := fold_right ins_sorted [] l.

(* the walk of findContainingNodes from one head towards the base *)
Fixpoint walk (fuel : nat) (G : entries) (h : block) (head : block) (visited acc : list block)
    : list block * list block :=
  match fuel with
  | O => (visited, acc)
  | S f =>
    match eget head G with
    | None => (visited, acc)
    | Some e =>
      if memb head visited then (visited, acc)
      else
        let visited := head :: visited in
        match in_direct_ancestry head e h (number h) with
        | None => match ancestor_node e with
                  | Some p => walk f G h p visited acc
                  | None => (visited, acc)
                  end
        | Some true => (visited, acc ++ [head])
        | Some false => (visited, acc)
        end
    end
  end.

(* findContainingNodes: None = the block has a vote-node *)
Definition find_containing (G : entries) (heads : list block) (h : block) : option (list block) :=
  match eget h G with
  | Some _ => None
  | None =>
    Some (snd (fold_left (fun st head => walk (S (length G)) G h head (fst st) (snd st))
                         (sort_heads heads) ([], [])))
  end.

(* append *)
Fixpoint first_entry (G : entries) (l : list block) (i : nat) : option (nat * block) :=
  match l with
  | [] => None
  | a :: r => match eget a G with Some _ => Some (i, a) | None => first_entry G r (S i) end
  end.
Definition remove_block (x : block) (l : list block) : list block :=
  filter (fun y => negb (y =? x)%nat) l.

Definition append_node (G : entries) (heads : list block) (h : block) : entries * list block :=
  let ancestry := tl (chain t h) in
  match first_entry G ancestry 0 with
  | None => (G, heads)       (* Go panics: the base is always kept *)
  | Some (i, a) =>
    let G := match eget a G with
             | Some e => eset a (mkE (g_anc e) (g_desc e ++ [h]) (g_cum e)) G
             | None => G end in
    (eset h (mkE (firstn (S i) ancestry) [] []) G, remove_block a heads ++ [h])
  end.

(* introduceBranch *)
Definition introduce_branch (G : entries) (ds : list block) (h : block) : entries :=
  let step (st : entries * option (entry * option block)) (d : block) :=
    let '(G, maybe) := st in
    match eget d G with
    | None => st             (* Go panics *)
    | Some e =>
      let offset := number d - number h in
      let G := eset d (mkE (firstn offset (g_anc e)) (g_desc e) (g_cum e)) G in
      let '(ne, prev) := match maybe with
                         | Some x => x
                         | None => (mkE (skipn offset (g_anc e)) [] [], ancestor_node e)
                         end in
      (G, Some (mkE (g_anc ne) (g_desc ne ++ [d]) (g_cum ne ++ g_cum e), prev))
    end in
  match fold_left step ds (G, None) with
  | (G, None) => G
  | (G, Some (ne, prev)) =>
    let G := match prev with
             | Some p => match eget p G with
                         | Some pe => eset p (mkE (g_anc pe)
                                        (filter (fun d => negb (memb d (g_desc ne))) (g_desc pe) ++ [h])
                                        (g_cum pe)) G
                         | None => G end
             | None => G end in
    eset h ne G
  end.

(* the cumulative vote update of Insert *)
Fixpoint propagate (fuel : nat) (G : entries) (x : block) (b : bit) : entries :=
  match fuel with
  | O => G
  | S f =>
    match eget x G with
    | None => G            (* Go panics *)
    | Some e =>
      let G := eset x (mkE (g_anc e) (g_desc e) (b :: g_cum e)) G in
      match ancestor_node e with
      | Some p => propagate f G p b
      | None => G
      end
    end
  end.

(* VoteGraph.Insert of a single vote *)
Definition insert (G : entries) (heads : list block) (h : block) (b : bit) : entries * list block :=
  let '(G, heads) := match find_containing G heads h with
                     | None => (G, heads)
                     | Some [] => append_node G heads h
                     | Some ds => (introduce_branch G ds h, heads)
                     end in
  (propagate (S (h + length G)) G h b, heads).   (* fuel: the walk goes to blocks of smaller index *)

(* ghostFindMergePoint: returns the best block (last hash of the sub-chain) *)
Definition dnodes := list (block * entry).

Fixpoint merge_round (cond : list bit -> bool) (num : nat) (ds : dnodes)
    (blocks : list (block * list bit)) : option block :=
  match ds with
  | [] => None
  | (d, e) :: r =>
    match ancestor_block d e num with
    | None => merge_round cond num r blocks
    | Some db =>
      match find (fun p => (fst p =? db)%nat) blocks with
      | Some (_, v) =>
        let v' := v ++ g_cum e in
        if cond v' then Some db
        else merge_round cond num r
               (map (fun p => if (fst p =? db)%nat then (db, v') else p) blocks)
      | None => merge_round cond num r (blocks ++ [(db, g_cum e)])
      end
    end
  end.

Fixpoint merge_loop (fuel : nat) (cond : list bit -> bool) (num : nat) (ds : dnodes) (best : block)
    : block :=
  match fuel with
  | O => best
  | S f =>
    match merge_round cond (S num) ds [] with
    | None => best
    | Some nb =>
      merge_loop f cond (S num)
        (filter (fun p => match in_direct_ancestry (fst p) (snd p) nb (S num) with
                          | Some true => true | _ => false end) ds) nb
    end
  end.

Definition constrained (G : entries) (force : option block) (d : block) : option (block * entry) :=
  match eget d G with
  | None => None
  | Some e =>
    match force with
    | None => Some (d, e)
    | Some c => match in_direct_ancestry d e c (number c) with
                | Some true => Some (d, e) | _ => None end
    end
  end.

Definition merge_point (G : entries) (key : block) (e : entry) (force : option block)
    (cond : list bit -> bool) : block :=
  let ds := flat_map (fun d => match constrained G force d with Some x => [x] | None => [] end) (g_desc e) in
  merge_loop (S (size t)) cond (number key) ds key.

(* the descent of FindGHOST through vote-nodes *)
Fixpoint descend (fuel : nat) (G : entries) (cond : list bit -> bool) (key : block) (e : entry)
    (force : option block) : block * entry * option block :=
  match fuel with
  | O => (key, e, force)
  | S f =>
    let ds := flat_map (fun d => match constrained G force d with Some x => [x] | None => [] end) (g_desc e) in
    match find (fun p => cond (g_cum (snd p))) ds with
    | Some (d, de) => descend f G cond d de None
    | None => (key, e, force)
    end
  end.

Definition find_ghost (G : entries) (heads : list block) (current : option block)
    (cond : list bit -> bool) : option block :=
  let '(key, force) :=
    match current with
    | None => (0%nat, None)
    | Some c =>
      match find_containing G heads c with
      | None => (c, None)
      | Some (d :: _) =>
        match eget d G with
        | Some de => match ancestor_node de with Some a => (a, Some c) | None => (0%nat, None) end
        | None => (0%nat, None)
        end
      | Some [] => (0%nat, None)
      end
    end in
  match eget key G with
  | None => None
  | Some e =>
    if negb (cond (g_cum e)) then None
    else
      let '(key, e, force) := descend (S (length G)) G cond key e force in
      Some (merge_point G key e force cond)
  end.

(* FindAncestor *)
Fixpoint find_ancestor (fuel : nat) (G : entries) (heads : list block) (h : block)
    (cond : list bit -> bool) : option block :=
  match fuel with
  | O => None
  | S f =>
    match find_containing G heads h with
    | None =>
      match eget h G with
      | None => None
      | Some e =>
        if cond (g_cum e) then Some h
        else match g_anc e with [] => None | p :: _ => find_ancestor f G heads p cond end
      end
    | Some [] => None
    | Some cs =>
      let v := flat_map (fun c => match eget c G with Some e => g_cum e | None => [] end) cs in
      if cond v then Some h
      else match last_opt cs with
           | None => None
           | Some child =>
             match eget child G with
             | None => None
             | Some e => match nth_error (g_anc e) (number child - number h) with
                         | Some p => find_ancestor f G heads p cond
                         | None => None
                         end
             end
           end
    end
  end.

(* ---------------------------------------------------------------------------------------- *)
(* context.go: the weight of a bitfield in a phase, merged with the equivocation bitfield *)
Variable ws : list N.

Definition bits_weight (bits eqv : list bit) (ph : nat) : N :=
  wsum ws (fun v => memb (2 * v + ph) bits || memb (2 * v + ph) eqv).

(* Round *)
Record rstate := mkR {
  r_G : entries; r_heads : list block; r_eqv : list bit;
  r_pv : list vote; r_pc : list vote;                (* imports of known voters, oldest first *)
  r_pvg : option block; r_pcg : option block;        (* memoised prevote / precommit ghost *)
  r_fin : option block; r_est : option block; r_compl : bool
}.
Definition rinit : rstate := mkR [(0%nat, mkE [] [] [])] [0%nat] [] [] [] None None None None false.

Local Open Scope N_scope.
Definition th : N := threshold ws.
Definition cond_ph (eqv : list bit) (ph : nat) (bits : list bit) : bool := th <=? bits_weight bits eqv ph.

(* possibleToPrecommit on a vote-node's bitfield (wrapping uint64, as Model.possible_go) *)
Definition possible_bits (eqv : list bit) (cur_pc : N) (bits : list bit) : bool :=
  let n := total ws in
  let tolerated := sub64 n th in
  let cur_eq := bits_weight [] eqv 1 in
  let additional := sub64 tolerated cur_eq in
  let remaining := sub64 n cur_pc in
  let pf := bits_weight bits eqv 1 in
  let poss_eq := if sub64 cur_pc pf <=? additional then sub64 cur_pc pf else additional in
  th <=? add64 (add64 pf remaining) poss_eq.

Definition fuelG (s : rstate) : nat := S (size t + length (r_G s))%nat.

Definition update (s : rstate) : rstate :=
  if cur_weight ws (r_pv s) <? th then s
  else match r_pvg s with
  | None => s
  | Some g =>
    let cur_pc := cur_weight ws (r_pc s) in
    let fin := if th <=? cur_pc
               then find_ancestor (fuelG s) (r_G s) (r_heads s) g (cond_ph (r_eqv s) 1)
               else r_fin s in
    let poss := possible_bits (r_eqv s) cur_pc in
    if th <=? cur_pc then
      let est := find_ancestor (fuelG s) (r_G s) (r_heads s) g poss in
      let compl := match est with
                   | None => false
                   | Some e =>
                     negb (e =? g)%nat ||
                     match find_ghost (r_G s) (r_heads s) (Some e) poss with
                     | None => true
                     | Some x => (x =? g)%nat
                     end
                   end in
      mkR (r_G s) (r_heads s) (r_eqv s) (r_pv s) (r_pc s) (r_pvg s) (r_pcg s) fin est compl
    else
      mkR (r_G s) (r_heads s) (r_eqv s) (r_pv s) (r_pc s) (r_pvg s) (r_pcg s) fin (Some g) (r_compl s)
  end.

(* importPrevote (ph = 0) / importPrecommit (ph = 1) *)
Definition import (ph : nat) (x : vote) (s : rstate) : rstate :=
  if negb (known_voter ws x) then s
  else
    let hist := if (ph =? 0)%nat then r_pv s else r_pc s in
    let st := stored (vvoter x) hist [] in
    let b := (2 * vvoter x + ph)%nat in
    let hist' := hist ++ [x] in
    let with_hist (s : rstate) G heads eqv :=
      if (ph =? 0)%nat
      then mkR G heads eqv hist' (r_pc s) (r_pvg s) (r_pcg s) (r_fin s) (r_est s) (r_compl s)
      else mkR G heads eqv (r_pv s) hist' (r_pvg s) (r_pcg s) (r_fin s) (r_est s) (r_compl s) in
    let finish (s : rstate) :=
      let s := if (ph =? 0)%nat
               then if th <=? cur_weight ws (r_pv s)
                    then mkR (r_G s) (r_heads s) (r_eqv s) (r_pv s) (r_pc s)
                           (find_ghost (r_G s) (r_heads s) (r_pvg s) (cond_ph (r_eqv s) 0))
                           (r_pcg s) (r_fin s) (r_est s) (r_compl s)
                    else s
               else s in
      update s in
    match st with
    | [] =>                               (* first vote: into the graph *)
      let '(G, heads) := insert (r_G s) (r_heads s) (vblock x) b in
      finish (with_hist s G heads (r_eqv s))
    | [a] =>
      if same_vote a x then with_hist s (r_G s) (r_heads s) (r_eqv s)       (* duplicate *)
      else finish (with_hist s (r_G s) (r_heads s) (b :: r_eqv s))          (* equivocation *)
    | _ => with_hist s (r_G s) (r_heads s) (r_eqv s)                        (* duplicate or ignored *)
    end.

(* Round.PrecommitGHOST *)
Definition precommit_ghost (s : rstate) : rstate :=
  if th <=? cur_weight ws (r_pc s)
  then mkR (r_G s) (r_heads s) (r_eqv s) (r_pv s) (r_pc s) (r_pvg s)
         (find_ghost (r_G s) (r_heads s) (r_pcg s) (cond_ph (r_eqv s) 1))
         (r_fin s) (r_est s) (r_compl s)
  else s.

(* what the harness does per op: import, read State(), then PrecommitGHOST() *)
Definition step_op (ph : nat) (x : vote) (s : rstate) : rstate := precommit_ghost (import ph x s).
Definition observed (s : rstate) : round_state :=
  mkRS (r_pvg s) (r_fin s) (r_est s) (r_compl s) (r_pcg s).

End Graph.
