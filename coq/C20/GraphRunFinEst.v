(* C20/GraphRunFinEst.v -- UNBOUNDED: the finalized / estimate fields ALONG THE RUN.

   GraphRunState proves ONE Round.update on a reachable state whose memoised prevote ghost is the
   specification's; GraphRunGhost proves that the memoised ghosts are the specification's after
   every history.  Here the two are put together by induction over the history:

     run_fin_est         after ANY good history h (GraphRunGhost.good) with 0 < total ws < 2^64,
                           r_fin (run h) = RoundSpec.finalized of the votes imported so far,
                           r_est (run h) = RoundSpec.estimate  of the votes imported so far.
     run_fin_est_prefix  the same after EVERY prefix, against ALL the votes of the prefix (the votes
                         of voters outside the voter set do not count: finalized_known,
                         estimate_known).

   One import either ends in Round.update on the new graph (a first vote, an equivocation: update_fin_est
   with the old vote sets as V0, C0), or records the vote only (duplicate, third vote) or does nothing
   (voter outside the voter set).  In the recorded-only case the voter has voted already, so the
   weight of the votes seen does not change (cur_weight_app_voted); the graph, the heads and the
   equivocations do not change either, so the prevote ghosts are equal (same_core_same_ghost) and
   FindAncestor from that ghost on the one graph answers find_anc for both vote sets
   (reach_all_find_ancestor_supermajority / _possible for both reach_all states), which are
   therefore equal. *)
From Coq Require Import List Arith Lia Bool NArith.
From Grandpa Require Import Tree Votes RoundSpec RoundProofs.
From C20 Require Import Model Proofs ProofsPossible Graph GraphInv GraphInvAppend GraphProofs GraphTracker GraphReach
  GraphInvBranch GraphComplete GraphGhost GraphImport GraphRunGhost GraphRunState.
Import ListNotations.

(* a further vote of a voter that has voted already does not change the weight of the votes seen *)
Lemma cur_weight_app_voted ws S x : voted S (vvoter x) = true -> cur_weight ws (S ++ [x]) = cur_weight ws S.
Proof.
  intro V. unfold cur_weight. apply wsum_ext. intro v. rewrite voted_app.
  destruct (by_voter v x) eqn:B; [|apply orb_false_r].
  apply by_voter_spec in B. subst v. now rewrite V.
Qed.

Lemma stored_voted v h : stored v h [] <> [] -> voted h v = true.
Proof.
  intro NE. pose proof (stored_cases v h) as F. destruct (stored v h []) as [|a [|b l]]; [congruence| |];
    cbn [stored_fact] in F.
  - destruct F as [FA _]. destruct (first_vote_some h v a FA) as [IA VA]. apply voted_spec. eauto.
  - apply equivocates_spec in F. destruct F as [p [q [Ip [_ [Vp _]]]]]. apply voted_spec. eauto.
Qed.

Section RunFinEst.
Variable t : tree.
Variable lbl : block -> nat.
Variable ws : list N.

Lemma precommit_ghost_fin_est s :
  r_fin (precommit_ghost t lbl ws s) = r_fin s /\ r_est (precommit_ghost t lbl ws s) = r_est s.
Proof. unfold precommit_ghost. destruct (th ws <=? cur_weight ws (r_pc s))%N; split; reflexivity. Qed.

(* one import: Round.update at the end, or nothing that touches graph / finalized / estimate *)
Lemma import_fin_cases ph x s :
  let s1 := import t lbl ws ph x s in
  (exists s0, s1 = update t lbl ws s0 /\ r_fin s0 = r_fin s /\ r_est s0 = r_est s) \/
  (r_fin s1 = r_fin s /\ r_est s1 = r_est s /\
   r_G s1 = r_G s /\ r_heads s1 = r_heads s /\ r_eqv s1 = r_eqv s /\
   (known_voter ws x = false \/ voted (if (ph =? 0)%nat then r_pv s else r_pc s) (vvoter x) = true)).
Proof.
  cbv zeta. unfold import. destruct (known_voter ws x); cbn [negb]; [|right; repeat split; auto].
  pose proof (stored_voted (vvoter x) (if (ph =? 0)%nat then r_pv s else r_pc s)) as SV.
  destruct (stored (vvoter x) (if (ph =? 0)%nat then r_pv s else r_pc s) []) as [|a [|b l]].
  - destruct (insert t lbl (r_G s) (r_heads s) (vblock x) (2 * vvoter x + ph)) as [G' heads'].
    left. eexists. split; [reflexivity|].
    destruct (ph =? 0)%nat; [destruct (th ws <=? _)%N|]; split; reflexivity.
  - destruct (same_vote a x).
    + right. assert (V : voted (if (ph =? 0)%nat then r_pv s else r_pc s) (vvoter x) = true) by (apply SV; discriminate).
      destruct (ph =? 0)%nat; repeat split; auto.
    + left. eexists. split; [reflexivity|].
      destruct (ph =? 0)%nat; [destruct (th ws <=? _)%N|]; split; reflexivity.
  - right. assert (V : voted (if (ph =? 0)%nat then r_pv s else r_pc s) (vvoter x) = true) by (apply SV; discriminate).
    destruct (ph =? 0)%nat; repeat split; auto.
Qed.

Hypothesis TP : (0 < total ws)%N.
Hypothesis T64 : (total ws < 18446744073709551616)%N.

(* two vote sets on the same graph, with the same weight of precommits seen: same finalized / estimate *)
Lemma same_core_same_fin_est G heads eqv S ins S' ins' :
  reach_all t lbl G heads eqv S ins -> reach_all t lbl G heads eqv S' ins' ->
  tolerant ws (S 0%nat) = true -> tolerant ws (S' 0%nat) = true ->
  tolerant ws (S 1%nat) = true -> tolerant ws (S' 1%nat) = true ->
  (forall x, In x (S 0%nat) -> in_tree t (vblock x)) -> (forall x, In x (S' 0%nat) -> in_tree t (vblock x)) ->
  cur_weight ws (S' 1%nat) = cur_weight ws (S 1%nat) ->
  finalized t ws (S 0%nat) (S 1%nat) = finalized t ws (S' 0%nat) (S' 1%nat) /\
  estimate t ws (S 0%nat) (S 1%nat) = estimate t ws (S' 0%nat) (S' 1%nat).
Proof.
  intros R R' T0 T0' T1 T1' IT IT' CW.
  pose proof (same_core_same_ghost t lbl ws G heads eqv S ins S' ins' 0%nat R R' Nat.lt_0_2 TP T0 T0' IT IT') as GH0.
  unfold finalized, estimate. rewrite <- GH0, CW.
  destruct (ghost t ws (S 0%nat)) as [g|] eqn:GH; [|split; reflexivity].
  destruct (threshold ws <=? cur_weight ws (S 1%nat))%N; [|split; reflexivity].
  destruct (reach_all_invariants t lbl _ _ _ _ _ R) as [[_ [_ [_ [_ [IN _]]]]] TR].
  destruct (ghost_spec t ws (S 0%nat) g TP T0 GH) as [_ [SG _]].
  pose proof (sm_node_below t lbl ws G ins 0 (S 0%nat) eqv g (TR 0%nat ltac:(lia)) IN TP T0 SG) as Z.
  assert (F : (depth t g < Datatypes.S (size t))%nat) by (pose proof (depth_le_size t g); lia).
  split.
  - rewrite <- (reach_all_find_ancestor_supermajority t lbl ws G heads eqv S ins R _ g F Z).
    rewrite <- (reach_all_find_ancestor_supermajority t lbl ws G heads eqv S' ins' R' _ g F Z). reflexivity.
  - rewrite <- (reach_all_find_ancestor_possible t lbl ws G heads eqv S ins R _ g F Z T64 T1).
    rewrite <- (reach_all_find_ancestor_possible t lbl ws G heads eqv S' ins' R' _ g F Z T64 T1').
    now rewrite CW.
Qed.

Theorem run_fin_est h : good t ws h ->
  r_fin (run t lbl ws h) = finalized t ws (known_votes_of ws 0 h) (known_votes_of ws 1 h) /\
  r_est (run t lbl ws h) = estimate t ws (known_votes_of ws 0 h) (known_votes_of ws 1 h).
Proof.
  induction h as [|o h IH] using rev_ind; intro GD.
  - destruct (run_ghosts t lbl ws TP [] GD) as [PV _]. unfold finalized, estimate. rewrite <- PV.
    split; reflexivity.
  - pose proof (good_prefix t ws h [o] GD) as GDh. destruct (IH GDh) as [FIN EST].
    destruct (run_ghosts t lbl ws TP (h ++ [o]) GD) as [PV1 _].
    destruct GD as [PH [T0 [T1 IT]]].
    assert (GD : good t ws (h ++ [o])) by (split; [exact PH|split; [exact T0|split; [exact T1|exact IT]]]).
    destruct GDh as [PHh [T0h [T1h ITh]]].
    destruct (run_reach t lbl ws h PHh) as [S [ins [[R [E0 E1]] ES]]].
    assert (L : (fst o < 2)%nat) by (apply PH, in_or_app; right; now left).
    revert PV1. unfold run. rewrite fold_left_app. cbn [fold_left]. fold (run t lbl ws h).
    set (s := run t lbl ws h) in *. unfold step_op. set (s1 := import t lbl ws (fst o) (snd o) s).
    rewrite precommit_ghost_pvg. intro PV1.
    destruct (precommit_ghost_fin_est s1) as [-> ->].
    destruct (import_step t lbl ws (fst o) (snd o) s S ins L (conj R (conj E0 E1))) as [S' [ins' [[R1 [F0 F1]] U]]].
    fold s1 in R1, F0, F1.
    assert (ES' : forall p, S' p = known_votes_of ws p (h ++ [o])).
    { intro p. rewrite U, known_votes_of_app, ES. reflexivity. }
    assert (SUB : forall p, subset (S p) (S' p)).
    { intro p. rewrite ES, ES'. apply known_votes_of_subset. }
    assert (IT' : forall p x, In x (S' p) -> in_tree t (vblock x)).
    { intros p x I. rewrite ES' in I. exact (good_in_tree t ws _ p x GD I). }
    assert (ITS : forall p x, In x (S p) -> in_tree t (vblock x)).
    { intros p x I. apply (IT' p), SUB, I. }
    rewrite <- (ES' 0%nat), <- (ES' 1%nat). rewrite <- (ES 0%nat), <- (ES 1%nat) in FIN, EST.
    rewrite <- (ES 0%nat) in T0h. rewrite <- (ES 1%nat) in T1h.
    rewrite <- (ES' 0%nat) in T0, PV1. rewrite <- (ES' 1%nat) in T1.
    pose proof (import_fin_cases (fst o) (snd o) s) as CS. cbv zeta in CS. fold s1 in CS.
    destruct CS as [[s0 [EU [A B]]]|[A [B [EG [EH [EE V]]]]]].
    + (* the import ends in Round.update *)
      rewrite EU. rewrite EU in PV1, R1, F0, F1.
      destruct (update_fields t lbl ws s0) as [_ [_ [_ [_ [_ [E6 _]]]]]].
      apply (update_fin_est t lbl ws TP T64 s0 S' ins' (S 0%nat) (S 1%nat));
        [|exact T0|exact T1|now rewrite <- E6|apply SUB|apply SUB|now rewrite A|now rewrite B].
      apply (rel_core t lbl (update t lbl ws s0) s0 S' ins'); [symmetry; apply core_update|].
      split; [exact R1|split; assumption].
    + (* recorded only, or a voter outside the voter set *)
      rewrite A, B, FIN, EST. rewrite EG, EH, EE in R1.
      apply (same_core_same_fin_est (r_G s) (r_heads s) (r_eqv s) S ins S' ins' R R1 T0h T0 T1h T1 (ITS 0%nat) (IT' 0%nat)).
      rewrite U. destruct V as [K|V]; [now rewrite K|].
      destruct (known_voter ws (snd o)); cbn [andb]; [|reflexivity].
      destruct (1 =? fst o)%nat eqn:PE; [|reflexivity]. apply Nat.eqb_eq in PE. rewrite <- PE in V. cbn [Nat.eqb] in V.
      rewrite <- E1 in V. now apply cur_weight_app_voted.
Qed.

End RunFinEst.

(* ---------------------------------------------------------------------------------------- *)
(* the votes of voters outside the voter set do not count in the specification *)
Lemma possible_known t ws C b : possible t ws (filter (known_voter ws) C) b = possible t ws C b.
Proof. unfold possible. now rewrite eq_weight_known, cur_weight_known, weight_known. Qed.

Lemma finalized_known t ws V C :
  finalized t ws (filter (known_voter ws) V) (filter (known_voter ws) C) = finalized t ws V C.
Proof.
  unfold finalized. rewrite ghost_known, cur_weight_known. destruct (ghost t ws V) as [g|]; [|reflexivity].
  destruct (threshold ws <=? cur_weight ws C)%N; [|reflexivity].
  apply find_anc_ext. intro x. unfold has_supermajority. now rewrite weight_known.
Qed.

Lemma estimate_known t ws V C :
  estimate t ws (filter (known_voter ws) V) (filter (known_voter ws) C) = estimate t ws V C.
Proof.
  unfold estimate. rewrite ghost_known, cur_weight_known. destruct (ghost t ws V) as [g|]; [|reflexivity].
  destruct (threshold ws <=? cur_weight ws C)%N; [|reflexivity].
  apply find_anc_ext. intro x. apply possible_known.
Qed.

(* after EVERY prefix, against all the votes of the prefix *)
Theorem run_fin_est_prefix t lbl ws h :
  (0 < total ws)%N -> (total ws < 18446744073709551616)%N ->
  (forall o, In o h -> (fst o < 2)%nat) ->
  tolerant ws (votes_of 0 h) = true -> tolerant ws (votes_of 1 h) = true ->
  (forall o, In o h -> known_voter ws (snd o) = true -> in_tree t (vblock (snd o))) ->
  forall h1 h2, h = h1 ++ h2 ->
  let s := run t lbl ws h1 in
  r_fin s = finalized t ws (votes_of 0 h1) (votes_of 1 h1) /\
  r_est s = estimate t ws (votes_of 0 h1) (votes_of 1 h1).
Proof.
  intros TP T64 PH T0 T1 IT h1 h2 E s.
  assert (GD : good t ws h).
  { split; [exact PH|]. unfold known_votes_of. rewrite !tolerant_known. auto. }
  rewrite E in GD. apply good_prefix in GD. destruct (run_fin_est t lbl ws TP T64 h1 GD) as [F G]. fold s in F, G.
  unfold known_votes_of in F, G. rewrite finalized_known in F. rewrite estimate_known in G. auto.
Qed.

(* non-vacuity: the run of run_state_example with recorded-only imports in between: a duplicate
   prevote (0:2 again), a duplicate precommit (1:3 again), a prevote of voter 7 (outside the voter
   set), and at the end a precommit equivocation of voter 3 (3:2) and its third vote (3:1, recorded
   only).  All the hypotheses of run_fin_est_prefix hold, finalized and estimate become Some. *)
Example run_fin_est_example :
  let t := [0; 1; 1]%nat in let ws := [1; 1; 1; 1]%N in
  let h := [(0, mkVote 0 2 0); (0, mkVote 1 2 0); (0, mkVote 2 2 0); (0, mkVote 3 3 0); (0, mkVote 0 2 0);
            (1, mkVote 0 2 0); (1, mkVote 1 3 0); (1, mkVote 1 3 0); (0, mkVote 7 3 0); (1, mkVote 2 3 0);
            (1, mkVote 3 3 0); (1, mkVote 3 2 0); (1, mkVote 3 1 0)]%nat in
  (forall o, In o h -> (fst o < 2)%nat) /\ (0 < total ws)%N /\ (total ws < 18446744073709551616)%N /\
  tolerant ws (votes_of 0 h) = true /\ tolerant ws (votes_of 1 h) = true /\
  (forall o, In o h -> known_voter ws (snd o) = true -> in_tree t (vblock (snd o))) /\
  map (fun k => let s := run t (fun b => b) ws (firstn k h) in (r_fin s, r_est s)) (seq 0 14) =
    [(None, None); (None, None); (None, None); (None, Some 2); (None, Some 2); (None, Some 2);
     (None, Some 2); (None, Some 2); (None, Some 2); (None, Some 2); (Some 1, Some 2); (Some 1, Some 1);
     (Some 1, Some 1); (Some 1, Some 1)]%nat /\
  map (fun k => let V := votes_of 0 (firstn k h) in let C := votes_of 1 (firstn k h) in
                (finalized t ws V C, estimate t ws V C)) (seq 0 14) =
    [(None, None); (None, None); (None, None); (None, Some 2); (None, Some 2); (None, Some 2);
     (None, Some 2); (None, Some 2); (None, Some 2); (None, Some 2); (Some 1, Some 2); (Some 1, Some 1);
     (Some 1, Some 1); (Some 1, Some 1)]%nat.
Proof.
  intros t ws h. split.
  { intros o I. cbn in I. repeat (destruct I as [<-|I]; [cbn; lia|]). destruct I. }
  split; [reflexivity|]. split; [reflexivity|]. split; [reflexivity|]. split; [reflexivity|]. split.
  { intros o I K. cbn in I. unfold in_tree, size, t.
    repeat (destruct I as [<-|I]; [first [cbn; lia|discriminate K]|]). destruct I. }
  vm_compute. repeat split; reflexivity.
Qed.
