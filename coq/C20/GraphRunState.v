(* C20/GraphRunState.v -- UNBOUNDED: FindAncestor (Graph.find_ancestor) on reachable vote graphs.

   find_ancestor_spec: on a graph with the invariants of every reachable state (full_inv), for a
   start block h that has a vote-node at or below it, and a condition [cond] on bit lists that agrees
   with a block predicate P whenever the bit list is EXACTLY the set of bits inserted at or below the
   block (exact_at), FindAncestor = Tree.find_anc t P h: the first block of the chain of h (h
   first) that satisfies P -- on a vote-node (cumulative vote of the node) or inside an ancestor edge
   (the merged cumulative votes of the containing nodes, exact_edge).  Soundness and maximality
   against the specification weights follow from Tree.find_anc_some / find_anc_none.
   Instances: the precommit-supermajority condition (Round.update: finalized) and the wrapping
   "possible to precommit" condition (estimate), on reach_all states; update_fin_est: one
   Round.update on such a state gives the specification's finalised block and estimate. *)
From Coq Require Import List Arith Lia Bool NArith.
From Grandpa Require Import Tree Votes RoundSpec RoundProofs.
From C20 Require Import Model Proofs ProofsPossible Graph GraphInv GraphInvAppend GraphProofs GraphTracker GraphReach
  GraphInvBranch GraphComplete GraphGhost GraphImport GraphRunGhost.
Import ListNotations.

Lemma memb_flat_map {A} (f : A -> list nat) bt : forall l,
  memb bt (flat_map f l) = existsb (fun c => memb bt (f c)) l.
Proof.
  induction l as [|a r IH]; [reflexivity|]. cbn [flat_map existsb]. now rewrite memb_app, IH.
Qed.

Lemma nth_error_skipn_add {A} : forall k (l : list A) j, nth_error (skipn k l) j = nth_error l (k + j).
Proof.
  induction k as [|k IH]; intros l j; [reflexivity|]. destruct l as [|a l]; [now destruct j|]. cbn. apply IH.
Qed.

Lemma last_opt_in {A} : forall (l : list A), l <> [] -> exists c, last_opt l = Some c /\ In c l.
Proof.
  induction l as [|a r IH]; intro N; [congruence|]. destruct r as [|b r].
  - exists a. split; [reflexivity|now left].
  - destruct IH as [c [L I]]; [discriminate|]. exists c. split; [exact L|now right].
Qed.

Section FA.
Variable t : tree.
Variable lbl : block -> nat.
Variable G : entries.
Variable heads : list block.
Variable ins : list (block * bit).
Hypothesis CI : chain_inv t G.
Hypothesis CO : cum_ok t G ins.
Hypothesis W : anc_wf t G.
Hypothesis BASE : exists e0, eget 0%nat G = Some e0.
Hypothesis IN : forall p, In p ins -> exists e, eget (fst p) G = Some e.
Hypothesis HC : heads_cover t G heads.

(* the bit list is exactly the set of bits inserted at or below the block *)
Definition exact_at (b : block) (bits : list bit) : Prop := forall bt, memb bt bits = ins_bit t ins bt b.

Lemma exact_node y e : eget y G = Some e -> exact_at y (g_cum e).
Proof. intros E bt. exact (CO y e E bt). Qed.

Lemma climb_containing h : eget h G = None -> forall z ez, eget z G = Some ez -> anc t h z ->
  exists x, containing t G h x /\ anc t x z.
Proof.
  intros EH z. induction z as [z IHz] using lt_wf_ind. intros ez EZ AH.
  destruct (below_parent t lbl G h CI BASE EH z ez EZ AH) as [p [pe [AN [PE [A [PL _]]]]]].
  destruct (anc_linear t h p z AH A) as [HP|PH].
  - destruct (IHz p PL pe PE HP) as [x [CX AX]]. exists x. split; [exact CX|]. exact (anc_trans t x p z AX A).
  - exists z. split; [|apply anc_refl]. exists ez, p. auto.
Qed.

Definition merged (cs : list block) : list bit :=
  flat_map (fun c => match eget c G with Some e => g_cum e | None => [] end) cs.

Lemma exact_edge h cs : eget h G = None -> find_containing t lbl G heads h = Some cs -> exact_at h (merged cs).
Proof.
  intros EH FC bt. unfold merged. rewrite memb_flat_map. apply eq_true_iff_eq. split.
  - intro H. apply existsb_exists in H. destruct H as [c [IC M]].
    destruct (find_containing_sound t lbl G heads h cs FC c IC) as [e [E IDA]]. rewrite E in M.
    destruct (wf_ida t G c e h W E IDA) as [_ [A _]]. rewrite (CO c e E bt) in M.
    apply existsb_exists in M. destruct M as [p [IP H]]. apply andb_true_iff in H. destruct H as [H1 H2].
    unfold ins_bit. apply existsb_exists. exists p. split; [exact IP|]. apply andb_true_iff. split; [exact H1|].
    apply ancb_spec. apply ancb_spec in H2. exact (anc_trans t h c (fst p) A H2).
  - intro H. unfold ins_bit in H. apply existsb_exists in H. destruct H as [p [IP H]].
    apply andb_true_iff in H. destruct H as [H1 H2]. apply ancb_spec in H2.
    destruct (IN p IP) as [ez EZ]. destruct (climb_containing h EH (fst p) ez EZ H2) as [x [CX AX]].
    pose proof (find_containing_complete t lbl G h CI W BASE EH heads cs HC FC x CX) as IX.
    destruct CX as [ex [px [EX _]]].
    apply existsb_exists. exists x. split; [exact IX|]. rewrite EX, (CO x ex EX bt).
    apply existsb_exists. exists p. split; [exact IP|]. apply andb_true_iff. split; [exact H1|].
    now apply ancb_spec.
Qed.

Variable cond : list bit -> bool.
Variable P : block -> bool.
Hypothesis EXT : forall b bits, exact_at b bits -> cond bits = P b.

Theorem find_ancestor_spec : forall fuel h, (depth t h < fuel)%nat ->
  (exists z ez, eget z G = Some ez /\ anc t h z) ->
  find_ancestor t lbl fuel G heads h cond = find_anc t P h.
Proof.
  induction fuel as [|fuel IH]; intros h F [z [ez [EZ AZ]]]; [lia|]. cbn [find_ancestor].
  destruct (Nat.eq_dec h 0) as [->|NZ].
  - destruct BASE as [e0 E0].
    assert (FC : find_containing t lbl G heads 0 = None) by (unfold find_containing; now rewrite E0).
    rewrite FC, E0, find_anc_0, (EXT 0%nat _ (exact_node 0%nat e0 E0)).
    destruct (P 0%nat); [reflexivity|]. destruct (W 0%nat e0 E0) as [n GA]. rewrite GA, chain_0. cbn [tl].
    now rewrite firstn_nil.
  - rewrite (find_anc_nz t P h NZ).
    assert (REC : find_ancestor t lbl fuel G heads (parent t h) cond = find_anc t P (parent t h)).
    { apply IH; [rewrite (depth_nz t h NZ) in F; lia|]. exists z, ez. split; [exact EZ|].
      exact (anc_trans t _ h z (anc_parent t h) AZ). }
    destruct (find_containing t lbl G heads h) as [cs|] eqn:FC.
    + assert (EH : eget h G = None).
      { unfold find_containing in FC. destruct (eget h G); [discriminate|reflexivity]. }
      destruct cs as [|c1 cr].
      { exfalso. exact (complete_empty t lbl G h CI W BASE EH heads HC FC z ez EZ AZ). }
      fold (merged (c1 :: cr)). cbv zeta. rewrite (EXT h _ (exact_edge h (c1 :: cr) EH FC)).
      destruct (P h); [reflexivity|].
      destruct (last_opt_in (c1 :: cr)) as [child [LO IC]]; [discriminate|]. rewrite LO.
      destruct (find_containing_sound t lbl G heads h _ FC child IC) as [e [E IDA]]. rewrite E.
      destruct (ida_true t _ _ _ IDA) as [LT _]. destruct (wf_ida t G child e h W E IDA) as [N1 [A APH]].
      destruct (below_parent t lbl G h CI BASE EH child e E A) as [p [pe [AN [PE [AP [PL _]]]]]].
      specialize (APH p AN). assert (NPH : p <> h) by (intro; subst; congruence).
      pose proof (anc_depth_lt t lbl p h APH NPH) as DPH.
      destruct (node_len t lbl G W child e p E AN) as [LEN [DL NTH]]. unfold number in *.
      rewrite NTH by lia.
      replace (S (depth t child - depth t h - 1)) with (depth t child - depth t h)%nat in N1 by lia.
      pose proof (chain_skipn t child _ h N1) as SK.
      assert (NP : nth_error (chain t child) (S (depth t child - depth t h)) = Some (parent t h)).
      { replace (S (depth t child - depth t h)) with ((depth t child - depth t h) + 1)%nat by lia.
        rewrite <- nth_error_skipn_add, SK, (chain_nz t h NZ). cbn [nth_error].
        destruct (chain_head t (parent t h)) as [r CH]. now rewrite CH. }
      rewrite NP. exact REC.
    + destruct (eget h G) as [e|] eqn:EH.
      2:{ unfold find_containing in FC. rewrite EH in FC. discriminate. }
      rewrite (EXT h _ (exact_node h e EH)). destruct (P h); [reflexivity|].
      pose proof (CI h e EH) as C. destruct (ancestor_node e) as [p|] eqn:AN.
      * destruct (node_len t lbl G W h e p EH AN) as [LEN [DL NTH]].
        assert (LP : (0 < length (g_anc e))%nat) by lia. specialize (NTH 0%nat LP).
        rewrite (chain_nz t h NZ) in NTH. cbn [nth_error] in NTH.
        destruct (chain_head t (parent t h)) as [r CH]. rewrite CH in NTH.
        destruct (g_anc e) as [|q l]; [cbn in LP; lia|]. cbn in NTH. injection NTH as ->. exact REC.
      * exfalso. destruct BASE as [e0 E0]. specialize (C 0%nat e0 E0 (anc_root t h)). congruence.
Qed.

End FA.

(* ---------------------------------------------------------------------------------------- *)
Section Inst.
Variable t : tree.
Variable lbl : block -> nat.
Variable ws : list N.

Lemma exact_weight ins ph Sp eqv b bits : tracker_ok t ph Sp eqv ins -> exact_at t ins b bits ->
  bits_weight ws bits eqv ph = weight t ws Sp b.
Proof.
  intros [TE TI] EX. apply bits_weight_is_weight. intros v _. rewrite (EX (2 * v + ph)%nat), TI, TE.
  apply first_under_supports.
Qed.

Lemma nil_weight ins ph Sp eqv : tracker_ok t ph Sp eqv ins -> bits_weight ws [] eqv ph = eq_weight ws Sp.
Proof.
  intros [TE _]. unfold bits_weight, eq_weight. apply wsum_ext. intro v. cbn [memb existsb orb]. apply TE.
Qed.

Lemma sm_node_below G ins ph Sp eqv b : tracker_ok t ph Sp eqv ins ->
  (forall p, In p ins -> exists e, eget (fst p) G = Some e) ->
  (0 < total ws)%N -> tolerant ws Sp = true -> has_supermajority t ws Sp b = true ->
  exists z ez, eget z G = Some ez /\ anc t b z.
Proof.
  intros [TE TI] IN TP TOL SB.
  destruct (existsb (fun p : block * bit => ancb t b (fst p)) ins) eqn:X.
  - apply existsb_exists in X. destruct X as [p [I A]]. destruct (IN p I) as [e E].
    exists (fst p), e. split; [exact E|now apply ancb_spec].
  - exfalso.
    assert (LE : (weight t ws Sp b <= eq_weight ws Sp)%N).
    { apply wsum_mono. intros v H. rewrite <- first_under_supports in H. apply orb_prop in H.
      destruct H as [H|H]; [|exact H]. rewrite <- TI in H. unfold ins_bit in H.
      apply existsb_exists in H. destruct H as [p [I H]]. apply andb_true_iff in H. destruct H as [_ H].
      assert (existsb (fun p : block * bit => ancb t b (fst p)) ins = true); [|congruence].
      apply existsb_exists. exists p. auto. }
    unfold has_supermajority in SB. apply N.leb_le in SB. unfold tolerant in TOL. apply N.leb_le in TOL.
    pose proof (three_threshold ws TP). pose proof (threshold_le_total ws). unfold tolerance in TOL. lia.
Qed.

Variable G : entries.
Variable heads : list block.
Variable eqv : list bit.
Variable S : nat -> list vote.
Variable ins : list (block * bit).
Hypothesis R : reach_all t lbl G heads eqv S ins.

(* FindAncestor with the precommit-supermajority condition (Round.update: finalized) *)
Theorem reach_all_find_ancestor_supermajority fuel h : (depth t h < fuel)%nat ->
  (exists z ez, eget z G = Some ez /\ anc t h z) ->
  find_ancestor t lbl fuel G heads h (cond_ph ws eqv 1) = find_anc t (has_supermajority t ws (S 1%nat)) h.
Proof.
  intros F Z. destruct (reach_all_invariants t lbl G heads eqv S ins R) as [[CI [CO [W [BASE [IN HC]]]]] TR].
  apply (find_ancestor_spec t lbl G heads ins CI CO W BASE IN HC); [|exact F|exact Z].
  intros b bits EX. unfold cond_ph, th, has_supermajority.
  now rewrite (exact_weight ins 1 (S 1%nat) eqv b bits (TR 1%nat ltac:(lia)) EX).
Qed.

(* FindAncestor with the wrapping "possible to precommit" condition (Round.update: estimate) *)
Theorem reach_all_find_ancestor_possible fuel h : (depth t h < fuel)%nat ->
  (exists z ez, eget z G = Some ez /\ anc t h z) ->
  (total ws < 18446744073709551616)%N -> tolerant ws (S 1%nat) = true ->
  find_ancestor t lbl fuel G heads h (possible_bits ws eqv (cur_weight ws (S 1%nat))) =
  find_anc t (possible t ws (S 1%nat)) h.
Proof.
  intros F Z T64 TOL. destruct (reach_all_invariants t lbl G heads eqv S ins R) as [[CI [CO [W [BASE [IN HC]]]]] TR].
  apply (find_ancestor_spec t lbl G heads ins CI CO W BASE IN HC); [|exact F|exact Z].
  intros b bits EX. rewrite <- (possible_go_spec t ws T64 (S 1%nat) b TOL).
  unfold possible_bits, possible_go, th.
  rewrite (exact_weight ins 1 (S 1%nat) eqv b bits (TR 1%nat ltac:(lia)) EX).
  now rewrite (nil_weight ins 1 (S 1%nat) eqv (TR 1%nat ltac:(lia))).
Qed.

End Inst.

(* ---------------------------------------------------------------------------------------- *)
Section Upd.
Variable t : tree.
Variable lbl : block -> nat.
Variable ws : list N.
Hypothesis TP : (0 < total ws)%N.
Hypothesis T64 : (total ws < 18446744073709551616)%N.

Lemma ghost_none_mono V0 V : subset V0 V -> ghost t ws V = None -> ghost t ws V0 = None.
Proof.
  intros SUB GN. destruct (ghost t ws V0) as [g|] eqn:E; [|reflexivity]. exfalso.
  assert (A : (threshold ws <= cur_weight ws V0)%N) by (apply (ghost_defined t ws V0); eauto).
  pose proof (cur_weight_mono ws V0 V SUB) as B.
  assert (C : exists g', ghost t ws V = Some g') by (apply ghost_defined; lia).
  destruct C as [g' C]. congruence.
Qed.

(* ONE Round.update on a state whose graph is reachable and whose memoised prevote ghost is the
   specification's: finalized and estimate become the specification's (whatever earlier vote sets
   V0, C0 the old fields were computed for) *)
Theorem update_fin_est s S ins V0 C0 :
  rel t lbl s S ins -> tolerant ws (S 0%nat) = true -> tolerant ws (S 1%nat) = true ->
  r_pvg s = ghost t ws (S 0%nat) -> subset V0 (S 0%nat) -> subset C0 (S 1%nat) ->
  r_fin s = finalized t ws V0 C0 -> r_est s = estimate t ws V0 C0 ->
  r_fin (update t lbl ws s) = finalized t ws (S 0%nat) (S 1%nat) /\
  r_est (update t lbl ws s) = estimate t ws (S 0%nat) (S 1%nat).
Proof.
  intros [R [E0 E1]] T0 T1 PVG SV SC FIN EST.
  unfold update, finalized, estimate. rewrite <- E0, <- E1, PVG.
  destruct (ghost t ws (S 0%nat)) as [g|] eqn:GH.
  - assert (LE : (threshold ws <= cur_weight ws (S 0%nat))%N) by (apply (ghost_defined t ws (S 0%nat)); eauto).
    assert (LT : (cur_weight ws (S 0%nat) <? th ws)%N = false) by (apply N.ltb_ge; exact LE).
    rewrite LT. unfold th. destruct (threshold ws <=? cur_weight ws (S 1%nat))%N eqn:TH.
    + cbn [r_fin r_est r_G r_heads r_eqv].
      destruct (reach_all_invariants t lbl _ _ _ _ _ R) as [[_ [_ [_ [_ [IN _]]]]] TR].
      destruct (ghost_spec t ws (S 0%nat) g TP T0 GH) as [_ [SG _]].
      pose proof (sm_node_below t lbl ws (r_G s) ins 0 (S 0%nat) (r_eqv s) g (TR 0%nat ltac:(lia)) IN TP T0 SG) as Z.
      assert (F : (depth t g < fuelG t s)%nat) by (unfold fuelG; pose proof (depth_le_size t g); lia).
      split.
      * exact (reach_all_find_ancestor_supermajority t lbl ws _ _ _ S ins R _ g F Z).
      * exact (reach_all_find_ancestor_possible t lbl ws _ _ _ S ins R _ g F Z T64 T1).
    + cbn [r_fin r_est]. split; [|reflexivity]. rewrite FIN. unfold finalized.
      assert (H : (threshold ws <=? cur_weight ws C0)%N = false).
      { apply N.leb_gt. apply N.leb_gt in TH. pose proof (cur_weight_mono ws C0 (S 1%nat) SC). lia. }
      rewrite H. destruct (ghost t ws V0); reflexivity.
  - pose proof (ghost_none_mono V0 (S 0%nat) SV GH) as GN0.
    assert (A : r_fin s = None) by (rewrite FIN; unfold finalized; now rewrite GN0).
    assert (B : r_est s = None) by (rewrite EST; unfold estimate; now rewrite GN0).
    destruct (cur_weight ws (S 0%nat) <? th ws)%N; split; assumption.
Qed.

End Upd.

(* non-vacuity: tree 0 - 1, 1 - 2, 1 - 3; four voters of weight 1 (threshold 3).  Prevotes 0:2, 1:2,
   2:2 (ghost = block 2), 3:3; precommits 0:2, 1:3 (below the threshold: estimate = the ghost),
   2:3 (threshold reached: finalized = block 1, found INSIDE the ancestor edges of 2 and 3 -- block 1
   has no vote-node; block 2 is still possible, the round becomes completable), 3:3 (block 2 is not
   possible any more: the estimate moves down to block 1).  After every prefix the mirror's fields
   are the specification's. *)
Example run_state_example :
  let t := [0; 1; 1]%nat in let ws := [1; 1; 1; 1]%N in
  let h := [(0, mkVote 0 2 0); (0, mkVote 1 2 0); (0, mkVote 2 2 0); (0, mkVote 3 3 0);
            (1, mkVote 0 2 0); (1, mkVote 1 3 0); (1, mkVote 2 3 0); (1, mkVote 3 3 0)]%nat in
  map (fun k => let s := run t (fun b => b) ws (firstn k h) in (r_fin s, r_est s, r_compl s)) (seq 0 9) =
    [(None, None, false); (None, None, false); (None, None, false); (None, Some 2, false);
     (None, Some 2, false); (None, Some 2, false); (None, Some 2, false); (Some 1, Some 2, true);
     (Some 1, Some 1, true)]%nat /\
  map (fun k => let V := votes_of 0 (firstn k h) in let C := votes_of 1 (firstn k h) in
                (finalized t ws V C, estimate t ws V C, completable t ws V C)) (seq 0 9) =
    [(None, None, false); (None, None, false); (None, None, false); (None, Some 2, false);
     (None, Some 2, false); (None, Some 2, false); (None, Some 2, false); (Some 1, Some 2, true);
     (Some 1, Some 1, true)]%nat /\
  map fst (r_G (run t (fun b => b) ws h)) = [0; 2; 3]%nat.
Proof. vm_compute. repeat split; reflexivity. Qed.

(* the statement over the packaged invariant of reachable states, with soundness and maximality *)
Theorem find_ancestor_full_inv t lbl G heads ins : full_inv t G heads ins ->
  forall (cond : list bit -> bool) (P : block -> bool),
  (forall b bits, (forall bt, memb bt bits = ins_bit t ins bt b) -> cond bits = P b) ->
  forall fuel h, (depth t h < fuel)%nat -> (exists z ez, eget z G = Some ez /\ anc t h z) ->
  find_ancestor t lbl fuel G heads h cond = find_anc t P h /\
  (forall x, find_ancestor t lbl fuel G heads h cond = Some x ->
     anc t x h /\ P x = true /\ forall y, anc t y h -> P y = true -> anc t y x) /\
  (find_ancestor t lbl fuel G heads h cond = None -> forall y, anc t y h -> P y = false).
Proof.
  intros [CI [CO [W [BASE [IN HC]]]]] cond P EXT fuel h F Z.
  pose proof (find_ancestor_spec t lbl G heads ins CI CO W BASE IN HC cond P EXT fuel h F Z) as E.
  split; [exact E|]. rewrite E. split; [intro x; apply find_anc_some|apply find_anc_none].
Qed.
