(* C20/GraphInvAppend.v -- UNBOUNDED: Insert through append (the voted block has no vote-node and lies
   in no ancestor edge) preserves chain_inv and cum_ok, under the exact hypotheses stated in
   insert_append: the base has a vote-node, every inserted vote sits on a vote-node, and no
   vote-node lies below the new block (this is what "findContainingNodes returned the empty list"
   means in a canonical graph; that implication itself -- the completeness of the walk from the
   heads -- is covered by the small-scope theorem only). *)
From Coq Require Import List Arith Lia Bool NArith.
From Grandpa Require Import Tree Votes RoundSpec.
From C20 Require Import Model Graph GraphInv.
Import ListNotations.

Lemma last_opt_app {A} (l : list A) x : last_opt (l ++ [x]) = Some x.
Proof.
  induction l as [|a r IH]; [reflexivity|]. cbn [app last_opt].
  destruct (r ++ [x]) eqn:E; [destruct r; discriminate|]. exact IH.
Qed.

Lemma last_opt_firstn {A} (l : list A) k x : nth_error l k = Some x -> last_opt (firstn (S k) l) = Some x.
Proof.
  revert l. induction k as [|k IH]; intros [|a r] H; try discriminate.
  - injection H as ->. reflexivity.
  - cbn [nth_error] in H. specialize (IH r H). cbn [firstn] in *.
    destruct r as [|a' r']; [discriminate|]. cbn [last_opt]. cbn [firstn] in IH. exact IH.
Qed.

Section Append.
Variable t : tree.

Lemma first_entry_index G l : forall i0 i a, first_entry G l i0 = Some (i, a) ->
  (i0 <= i)%nat /\ nth_error l (i - i0) = Some a.
Proof.
  induction l as [|x r IH]; intros i0 i a H; [discriminate|]. cbn [first_entry] in H.
  destruct (eget x G).
  - injection H as <- <-. rewrite Nat.sub_diag. split; [lia|reflexivity].
  - destruct (IH _ _ _ H) as [L N]. split; [lia|].
    replace (i - i0)%nat with (S (i - S i0)) by lia. exact N.
Qed.

(* over the chain of q: the first vote-node found is the nearest vote-node at or above q *)
Lemma first_entry_chain G : (exists e0, eget 0%nat G = Some e0) -> forall q i0,
  exists i a, first_entry G (chain t q) i0 = Some (i, a) /\
    (exists ea, eget a G = Some ea) /\ anc t a q /\
    (forall y ey, eget y G = Some ey -> anc t y q -> anc t y a).
Proof.
  intros [e0 E0] q. induction q as [|q NZ IH] using (block_ind t); intro i0.
  - rewrite chain_0. cbn [first_entry]. rewrite E0. exists i0, 0%nat.
    split; [reflexivity|]. split; [eauto|]. split; [apply anc_refl|]. intros y ey _ A. exact A.
  - rewrite (chain_nz t q NZ). cbn [first_entry]. destruct (eget q G) as [eq|] eqn:EQ.
    + exists i0, q. split; [reflexivity|]. split; [eauto|]. split; [apply anc_refl|]. intros y ey _ A. exact A.
    + destruct (IH (S i0)) as [i [a [F [EA [A M]]]]]. exists i, a. split; [exact F|]. split; [exact EA|].
      split; [eapply anc_trans; [exact A|apply anc_parent]|].
      intros y ey Y AY. apply (M y ey Y). apply anc_parent_of; [exact AY|]. intro E. subst y. congruence.
Qed.

Variable lbl : block -> nat.

Theorem insert_append G heads h b ins :
  chain_inv t G -> cum_ok t G ins ->
  (exists e0, eget 0%nat G = Some e0) ->                              (* the base is a vote-node *)
  eget h G = None -> find_containing t lbl G heads h = Some [] ->     (* Insert takes the append path *)
  (forall y ey, eget y G = Some ey -> ~ anc t h y) ->                 (* no vote-node below h *)
  (forall p, In p ins -> exists e, eget (fst p) G = Some e) ->        (* votes sit on vote-nodes *)
  let '(G', heads') := insert t lbl G heads h b in
  chain_inv t G' /\ cum_ok t G' ((h, b) :: ins) /\
  (exists e, eget h G' = Some e) /\
  (forall p, In p ((h, b) :: ins) -> exists e, eget (fst p) G' = Some e) /\
  (forall y ey, eget y G = Some ey -> exists e2, eget y G' = Some e2).
Proof.
  intros CI CO BASE EH FC NB IN. unfold insert. rewrite FC. unfold append_node.
  assert (HNZ : h <> 0%nat) by (intro E; subst h; destruct BASE; congruence).
  assert (TL : tl (chain t h) = chain t (parent t h)) by (rewrite (chain_nz t h HNZ); reflexivity).
  rewrite TL. destruct (first_entry_chain G BASE (parent t h) 0) as [i [a [F [[ea EA] [AQ M]]]]].
  rewrite F, EA.
  destruct (first_entry_index G _ _ _ _ F) as [_ NTH]. rewrite Nat.sub_0_r in NTH.
  set (a' := mkE (g_anc ea) (g_desc ea ++ [h]) (g_cum ea)).
  set (ne := mkE (firstn (S i) (chain t (parent t h))) [] []).
  set (G1 := eset h ne (eset a a' G)).
  assert (AH : anc t a h) by (eapply anc_trans; [exact AQ|apply anc_parent]).
  assert (ANE : a <> h) by (intro E; subst a; congruence).
  (* entries of G1 *)
  assert (G1get : forall y, eget y G1 = if (y =? h)%nat then Some ne
                                       else if (y =? a)%nat then Some a' else eget y G).
  { intro y. unfold G1. now rewrite !eget_eset. }
  assert (OLD : forall y ey, eget y G1 = Some ey -> y <> h ->
                exists ey0, eget y G = Some ey0 /\ g_anc ey = g_anc ey0 /\ g_cum ey = g_cum ey0).
  { intros y ey H N. rewrite G1get in H. destruct (Nat.eqb_spec y h); [congruence|].
    destruct (Nat.eqb_spec y a) as [->|]; [injection H as <-; exists ea; auto|eauto]. }
  assert (KEEP : forall y ey0, eget y G = Some ey0 -> exists ey, eget y G1 = Some ey).
  { intros y ey0 H. rewrite G1get. destruct (Nat.eqb_spec y h); [eauto|].
    destruct (Nat.eqb_spec y a); eauto. }
  (* chain_inv G1 *)
  assert (CI1 : chain_inv t G1).
  { intros x e H. destruct (Nat.eq_dec x h) as [->|NX].
    - rewrite G1get, Nat.eqb_refl in H. injection H as <-.
      unfold ancestor_node. cbn [g_anc ne]. rewrite (last_opt_firstn _ _ _ NTH).
      split; [eapply KEEP; eauto|]. split; [exact AH|]. split; [exact ANE|].
      intros y ey Y AY NY. destruct (OLD y ey Y NY) as [ey0 [Y0 _]].
      apply (M y ey0 Y0). now apply anc_parent_of.
    - destruct (OLD x e H NX) as [e0 [X0 [GA _]]].
      pose proof (CI x e0 X0) as C. unfold ancestor_node in *. rewrite GA.
      destruct (last_opt (g_anc e0)) as [p|].
      + destruct C as [[pe PE] [A [N MM]]]. split; [eapply KEEP; eauto|]. split; [exact A|]. split; [exact N|].
        intros y ey Y AY NY. destruct (Nat.eq_dec y h) as [->|NYH].
        * exfalso. exact (NB x e0 X0 AY).
        * destruct (OLD y ey Y NYH) as [ey0 [Y0 _]]. exact (MM y ey0 Y0 AY NY).
      + intros y ey Y AY. destruct (Nat.eq_dec y h) as [->|NYH].
        * exfalso. exact (NB x e0 X0 AY).
        * destruct (OLD y ey Y NYH) as [ey0 [Y0 _]]. exact (C y ey0 Y0 AY). }
  (* cum_ok G1 ins *)
  assert (CO1 : cum_ok t G1 ins).
  { intros y e H b'. destruct (Nat.eq_dec y h) as [->|NY].
    - rewrite G1get, Nat.eqb_refl in H. injection H as <-. cbn [g_cum ne memb existsb].
      symmetry. apply not_true_is_false. intro X.
      apply existsb_exists in X. destruct X as [p [I P]]. apply andb_true_iff in P. destruct P as [_ P].
      apply ancb_spec in P. destruct (IN p I) as [ep EP]. exact (NB _ ep EP P).
    - destruct (OLD y e H NY) as [e0 [Y0 [_ GC]]]. rewrite GC. exact (CO y e0 Y0 b'). }
  assert (L : (h < S (h + length G1))%nat) by lia.
  assert (EX : exists e, eget h G1 = Some e) by (rewrite G1get, Nat.eqb_refl; eauto).
  fold a'. fold ne. fold G1.
  split; [now apply propagate_chain_inv|]. split; [now apply propagate_cum_ok|].
  assert (KEYS : forall y ey, eget y G1 = Some ey -> exists e2, eget y (propagate (S (h + length G1)) G1 h b) = Some e2).
  { intros y ey Y. rewrite (propagate_spec t _ G1 h b CI1 L EX y), Y. eauto. }
  split; [destruct EX as [e E]; eapply KEYS; eauto|].
  split.
  - intros p [<-|I]; cbn [fst].
    + destruct EX as [e E]. eapply KEYS; eauto.
    + destruct (IN p I) as [ep EP]. destruct (KEEP _ _ EP) as [e1 E1]. eapply KEYS; eauto.
  - intros y ey Y. destruct (KEEP _ _ Y) as [e1 E1]. eapply KEYS; eauto.
Qed.

End Append.

(* the hypotheses are satisfiable: the initial graph of a round (the base alone) satisfies both
   invariants, for every tree *)
Lemma init_graph_inv t : chain_inv t (r_G rinit) /\ cum_ok t (r_G rinit) [] /\
  (exists e0, eget 0%nat (r_G rinit) = Some e0).
Proof.
  split; [|split].
  - intros x e H. cbn in H. destruct x; [|discriminate]. injection H as <-. cbn.
    intros y ey Y _. cbn in Y. destruct y; [reflexivity|discriminate].
  - intros y e H b. cbn in H. destruct y; [|discriminate]. injection H as <-. reflexivity.
  - cbn. eauto.
Qed.
