(* C20/GraphGhost.v -- UNBOUNDED: VoteGraph.FindGHOST of the vote-graph mirror (Graph.find_ghost with
   ghostFindMergePoint = merge_point / merge_loop / merge_round) against the specification's
   g(S) (RoundSpec.ghost over Votes.weight), for every tree, graph, voter weights and vote set.

   SOUNDNESS, under cum_ok + anc_wf + tracker_ok only (no hypothesis on the descendant lists, on the
   heads, on [current] or on the fuel): whatever block find_ghost returns for the threshold
   condition of a phase -- a vote-node or a block inside an ancestor edge found as a merge point --
   has a supermajority in the specification's vote set, and so has every ancestor of it
   (find_ghost_sound, find_ghost_sound_ancestors); for a tolerant vote set whose votes are for blocks
   of the tree it lies on the chain of the specification's ghost (find_ghost_below_spec_ghost).
   With current = None find_ghost answers None exactly when the specification has no ghost
   (find_ghost_none_iff).
   The proof follows the bits: every bit list the search tests with [cond] is a concatenation of
   cumulative votes of vote-nodes at or below the block it is tested for ([under]), hence its weight
   is at most the specification's weight of that block (under_weight).

   MAXIMALITY / EQUALITY (current = None, the search from the round base), additionally under
   chain_inv, "every inserted vote's block has a vote-node", tolerance, votes inside the tree, and
   the two halves of "g_desc lists exactly the child vote-nodes" (desc_complete, desc_sound):
   find_ghost returns exactly RoundSpec.ghost (find_ghost_is_spec_ghost).  The descent ends in the
   lowest vote-node with a supermajority (descend_max; fuel: the vote-nodes with a larger index,
   [above]); a block c below it with a supermajority collects, at its level, the cumulative votes
   of the child vote-nodes through c, which carry every supporter's bit (nearest_child,
   ancestor_block_complete, level_cover), so a merge round that answers None refutes a
   supermajority on the next level (merge_round_none) and the loop stops exactly at the ghost
   (merge_loop_max; fuel: the depth of a block is at most size t).
   The descendant-list invariant is PROVED for all three paths of Insert (desc_exact: g_desc lists
   exactly the child vote-nodes; insert_existing_desc_exact, insert_append_desc_exact,
   insert_branch_desc_exact), so in every state of GraphInvBranch.reach_full FindGHOST from the base is
   the specification's ghost of the phase (reach_full_find_ghost_is_spec_ghost), for tolerant vote
   sets over blocks of the tree.
   RESTART (current = Some c, as Round passes its previous ghost): if c has a vote-node the search
   is the same from c (find_ghost_max_node; None iff c has no supermajority: find_ghost_node_none);
   if c lies inside an ancestor edge the descent and the merge loop are constrained to the child
   vote-nodes through c ([force]); when c still has a supermajority (so c is an ancestor of the
   ghost) the constrained rounds still collect every supporter of the ghost (child_through,
   level_cover_forced, merge_loop_max_forced) and the answer is the ghost (find_ghost_max_edge; only
   the SOUNDNESS of findContainingNodes is used -- if it misses the edge the search falls back to
   the base, which is correct as well).  Together: find_ghost_restart.
   NOT proved here: a restart from a block without a vote-node that has NO supermajority (only
   soundness holds; Round never does this in a tolerant round: ghosts only move down their chain);
   the correspondence between the bookkeeping of Round.import (voteTracker / [stored]) and the
   constructors of reach_full (the memoisation step itself is reach_full_ghost_memo_step, and
   PrecommitGHOST on a reachable state is precommit_ghost_is_spec_ghost); reach_full keeps its premise
   branch_complete (completeness of findContainingNodes) on the introduceBranch step. *)
From Coq Require Import List Arith Lia Bool NArith.
From Grandpa Require Import Tree Votes RoundSpec RoundProofs.
From C20 Require Import Model ProofsPossible Graph GraphInv GraphInvAppend GraphProofs GraphTracker
  GraphReach GraphInvBranch.
Import ListNotations.

(* ---- generic facts ---- *)
Lemma chain_nth_depth_sum t : forall d k a, nth_error (chain t d) k = Some a -> (depth t a + k = depth t d)%nat.
Proof.
  intro d. induction d as [|d NZ IH] using (block_ind t); intros k a H.
  - rewrite chain_0 in H. destruct k as [|[|k]]; cbn in H; try discriminate. injection H as <-. rewrite depth_0. lia.
  - rewrite (chain_nz t d NZ) in H. destruct k as [|k]; cbn [nth_error] in H.
    + injection H as <-. lia.
    + apply IH in H. rewrite (depth_nz t d NZ). lia.
Qed.

Lemma chain_nth_of_anc t : forall d c, anc t c d -> nth_error (chain t d) (depth t d - depth t c) = Some c.
Proof.
  intro d. induction d as [|d NZ IH] using (block_ind t); intros c A.
  - apply anc_0 in A. subst. reflexivity.
  - destruct (Nat.eq_dec c d) as [->|N].
    + rewrite Nat.sub_diag, (chain_nz t d NZ). reflexivity.
    + apply anc_parent_of in A; [|exact N]. pose proof (anc_depth_le _ _ _ A).
      rewrite (depth_nz t d NZ).
      replace (S (depth t (parent t d)) - depth t c)%nat with (S (depth t (parent t d) - depth t c)) by lia.
      rewrite (chain_nz t d NZ). cbn [nth_error]. now apply IH.
Qed.

Lemma depth_le t b : (depth t b <= b)%nat.
Proof.
  induction b as [|b NZ IH] using (block_ind t); [rewrite depth_0; lia|].
  rewrite (depth_nz t b NZ). pose proof (parent_lt t b NZ). lia.
Qed.

Lemma depth_le_size t b : (depth t b <= size t)%nat.
Proof.
  destruct (Nat.lt_ge_cases b (size t)) as [L|L]; [pose proof (depth_le t b); lia|].
  unfold size in *. destruct b as [|i]; [lia|].
  rewrite (depth_nz t (S i)) by lia. cbn [parent]. rewrite (nth_overflow t 0) by lia.
  rewrite Nat.min_0_r, depth_0. lia.
Qed.

Lemma child_on_path t a : forall g, anc t a g -> a <> g ->
  exists c, anc t a c /\ anc t c g /\ depth t c = S (depth t a).
Proof.
  intro g. induction g as [|g NZ IH] using (block_ind t); intros A N.
  - apply anc_0 in A. congruence.
  - pose proof (anc_parent_of t a g A N) as AP.
    destruct (Nat.eq_dec a (parent t g)) as [E|NE].
    + exists g. split; [exact A|]. split; [apply anc_refl|]. rewrite (depth_nz t g NZ). now rewrite E.
    + destruct (IH AP NE) as [c [A1 [A2 D]]]. exists c. split; [exact A1|]. split; [|exact D].
      eapply anc_trans; [exact A2|apply anc_parent].
Qed.

Lemma last_opt_nth_error {A} (l : list A) p : last_opt l = Some p -> nth_error l (length l - 1) = Some p.
Proof.
  induction l as [|a r IH]; [discriminate|]. destruct r as [|b r'].
  - cbn. congruence.
  - intro H. change (last_opt (b :: r') = Some p) in H. specialize (IH H).
    cbn [length] in *. replace (S (S (length r')) - 1)%nat with (S (S (length r') - 1)) by lia. exact IH.
Qed.

Lemma nth_error_firstn_below {A} (l : list A) : forall n k, (k < n)%nat -> nth_error (firstn n l) k = nth_error l k.
Proof.
  induction l as [|x r IH]; intros n k L; [now rewrite firstn_nil|].
  destruct n as [|n]; [lia|]. destruct k as [|k]; [reflexivity|]. cbn [firstn nth_error]. apply IH. lia.
Qed.

(* ---- the accumulation of one merge round ---- *)
Definition acc (bl : list (block * list bit)) (db : block) : list bit :=
  match find (fun p => (fst p =? db)%nat) bl with Some (_, v) => v | None => [] end.

Lemma find_upd db0 (v' : list bit) : forall (bl : list (block * list bit)) db,
  find (fun p => (fst p =? db)%nat) (map (fun p => if (fst p =? db0)%nat then (db0, v') else p) bl) =
  if (db =? db0)%nat
  then match find (fun p => (fst p =? db0)%nat) bl with Some _ => Some (db0, v') | None => None end
  else find (fun p => (fst p =? db)%nat) bl.
Proof.
  induction bl as [|[k w] r IH]; intro db; cbn [map find fst]; [now destruct (db =? db0)%nat|].
  destruct (Nat.eqb_spec k db0) as [->|K]; cbn [fst].
  - destruct (Nat.eqb_spec db db0) as [->|D].
    + now rewrite Nat.eqb_refl.
    + destruct (Nat.eqb_spec db0 db); [congruence|]. rewrite IH. destruct (Nat.eqb_spec db db0); [congruence|reflexivity].
  - destruct (Nat.eqb_spec db db0) as [->|D].
    + destruct (Nat.eqb_spec k db0); [congruence|]. rewrite IH. now rewrite Nat.eqb_refl.
    + destruct (Nat.eqb_spec k db); [reflexivity|]. rewrite IH. destruct (Nat.eqb_spec db db0); [congruence|reflexivity].
Qed.

Lemma merge_round_none t (cond : list bit -> bool) num : forall ds bl,
  (forall d de, In (d, de) ds -> cond (g_cum de) = false) ->
  (forall db, cond (acc bl db) = false) ->
  merge_round t cond num ds bl = None ->
  forall db, exists v, cond v = false /\
    (forall bt, memb bt (acc bl db) = true -> memb bt v = true) /\
    (forall d de, In (d, de) ds -> ancestor_block t d de num = Some db ->
       forall bt, memb bt (g_cum de) = true -> memb bt v = true).
Proof.
  induction ds as [|[d e] r IH]; intros bl DSF BLF H db.
  - exists (acc bl db). split; [apply BLF|]. split; [auto|]. intros d de [].
  - cbn [merge_round] in H.
    assert (DSr : forall d' de, In (d', de) r -> cond (g_cum de) = false) by (intros d' de I; apply (DSF d'); now right).
    destruct (ancestor_block t d e num) as [db0|] eqn:AB.
    + destruct (find (fun p => (fst p =? db0)%nat) bl) as [[k v]|] eqn:F.
      * destruct (cond (v ++ g_cum e)) eqn:C; [discriminate|].
        set (bl' := map (fun p => if (fst p =? db0)%nat then (db0, v ++ g_cum e) else p) bl) in H.
        assert (ACC : forall x, acc bl' x = if (x =? db0)%nat then v ++ g_cum e else acc bl x).
        { intro x. unfold acc, bl'. rewrite find_upd, F. now destruct (x =? db0)%nat. }
        assert (AV : acc bl db0 = v) by (unfold acc; now rewrite F).
        assert (BLF' : forall x, cond (acc bl' x) = false).
        { intro x. rewrite ACC. destruct (x =? db0)%nat; [exact C|apply BLF]. }
        destruct (IH bl' DSr BLF' H db) as [v1 [C1 [A1 D1]]]. exists v1. split; [exact C1|]. split.
        -- intros bt M. apply A1. rewrite ACC. destruct (Nat.eqb_spec db db0) as [->|N]; [|exact M].
           rewrite AV in M. rewrite memb_app, M. reflexivity.
        -- intros d' de [E|I] AB' bt M; [|exact (D1 d' de I AB' bt M)].
           injection E as <- <-. rewrite AB in AB'. injection AB' as <-. apply A1. rewrite ACC, Nat.eqb_refl.
           rewrite memb_app, M. apply orb_true_r.
      * set (bl' := bl ++ [(db0, g_cum e)]) in H.
        assert (A0 : acc bl db0 = []) by (unfold acc; now rewrite F).
        assert (ACC : forall x, acc bl' x = if (x =? db0)%nat then g_cum e else acc bl x).
        { intro x. unfold acc, bl'. rewrite find_app. cbn [find fst].
          destruct (Nat.eqb_spec x db0) as [->|N].
          - rewrite F, Nat.eqb_refl. reflexivity.
          - destruct (find (fun p => (fst p =? x)%nat) bl) as [[? ?]|]; [reflexivity|].
            destruct (Nat.eqb_spec db0 x); [congruence|reflexivity]. }
        assert (BLF' : forall x, cond (acc bl' x) = false).
        { intro x. rewrite ACC. destruct (x =? db0)%nat; [apply (DSF d); now left|apply BLF]. }
        destruct (IH bl' DSr BLF' H db) as [v1 [C1 [A1 D1]]]. exists v1. split; [exact C1|]. split.
        -- intros bt M. apply A1. rewrite ACC. destruct (Nat.eqb_spec db db0) as [->|N]; [|exact M].
           rewrite A0 in M. discriminate.
        -- intros d' de [E|I] AB' bt M; [|exact (D1 d' de I AB' bt M)].
           injection E as <- <-. rewrite AB in AB'. injection AB' as <-. apply A1. now rewrite ACC, Nat.eqb_refl.
    + destruct (IH bl DSr BLF H db) as [v1 [C1 [A1 D1]]]. exists v1. split; [exact C1|]. split; [exact A1|].
      intros d' de [E|I] AB' bt M; [|exact (D1 d' de I AB' bt M)].
      injection E as <- <-. congruence.
Qed.

Lemma merge_round_some_in t (cond : list bit -> bool) num : forall ds bl nb,
  merge_round t cond num ds bl = Some nb ->
  exists d de, In (d, de) ds /\ ancestor_block t d de num = Some nb.
Proof.
  induction ds as [|[d e] r IH]; intros bl nb H; [discriminate|]. cbn [merge_round] in H.
  destruct (ancestor_block t d e num) as [db0|] eqn:AB.
  - destruct (find (fun p => (fst p =? db0)%nat) bl) as [[k v]|].
    + destruct (cond (v ++ g_cum e)).
      * injection H as <-. exists d, e. split; [now left|exact AB].
      * destruct (IH _ _ H) as [d' [de [I A]]]. exists d', de. split; [now right|exact A].
    + destruct (IH _ _ H) as [d' [de [I A]]]. exists d', de. split; [now right|exact A].
  - destruct (IH _ _ H) as [d' [de [I A]]]. exists d', de. split; [now right|exact A].
Qed.

Section Sound.
Variable t : tree.
Variable lbl : block -> nat.
Variable ws : list N.
Variable G : entries.
Variable ins : list (block * bit).
Variable ph : nat.
Variable S : list vote.
Variable eqv : list bit.
Hypothesis CO : cum_ok t G ins.
Hypothesis W : anc_wf t G.
Hypothesis TR : tracker_ok t ph S eqv ins.

(* all bits of the list were inserted at or below b *)
Definition under (b : block) (bits : list bit) : Prop :=
  forall bt, memb bt bits = true -> ins_bit t ins bt b = true.

Lemma under_node y e : eget y G = Some e -> under y (g_cum e).
Proof. intros E bt M. rewrite (CO y e E bt) in M. exact M. Qed.

Lemma under_anc a b bits : anc t a b -> under b bits -> under a bits.
Proof.
  intros A U bt M. specialize (U bt M). unfold ins_bit in *.
  apply existsb_exists in U. destruct U as [p [I H]]. apply andb_true_iff in H. destruct H as [H1 H2].
  apply existsb_exists. exists p. split; [exact I|]. apply andb_true_iff. split; [exact H1|].
  apply ancb_spec. apply ancb_spec in H2. eapply anc_trans; eauto.
Qed.

Lemma under_app b l1 l2 : under b l1 -> under b l2 -> under b (l1 ++ l2).
Proof.
  intros U1 U2 bt M. rewrite memb_app in M. apply orb_prop in M. destruct M; [now apply U1|now apply U2].
Qed.

Lemma under_weight b bits : under b bits -> (bits_weight ws bits eqv ph <= weight t ws S b)%N.
Proof.
  intro U. destruct TR as [TE TI]. unfold bits_weight, weight. apply wsum_mono. intros v H.
  rewrite <- first_under_supports. apply orb_prop in H. destruct H as [H|H].
  - rewrite <- TI. rewrite (U _ H). reflexivity.
  - rewrite <- TE, H. apply orb_true_r.
Qed.

Definition cnd : list bit -> bool := cond_ph ws eqv ph.

Lemma cond_sound b bits : under b bits -> cnd bits = true -> has_supermajority t ws S b = true.
Proof.
  intros U C. unfold cnd, cond_ph, th in C. apply N.leb_le in C.
  unfold has_supermajority. apply N.leb_le. pose proof (under_weight b bits U). lia.
Qed.

(* the block has a witness: a tested bit list at or below it that meets the condition *)
Definition witnessed (b : block) : Prop := exists v, under b v /\ cnd v = true.

Lemma witnessed_sound b : witnessed b -> has_supermajority t ws S b = true.
Proof. intros [v [U C]]. exact (cond_sound b v U C). Qed.

Lemma ancestor_block_anc d e num db : eget d G = Some e -> ancestor_block t d e num = Some db -> anc t db d.
Proof.
  intros E H. unfold ancestor_block in H. destruct (number t d <=? num)%nat; [discriminate|].
  destruct (W d e E) as [n GA]. rewrite GA in H. apply nth_error_firstn_some in H.
  apply nth_error_In in H. unfold anc. destruct (chain_head t d) as [r CH]. rewrite CH in *. now right.
Qed.

Definition ds_ok (ds : dnodes) : Prop := forall d e, In (d, e) ds -> eget d G = Some e.
Definition blocks_ok (bl : list (block * list bit)) : Prop := forall db v, In (db, v) bl -> under db v.

Lemma merge_round_sound num : forall ds bl nb, ds_ok ds -> blocks_ok bl ->
  merge_round t cnd num ds bl = Some nb -> witnessed nb.
Proof.
  induction ds as [|[d e] r IH]; intros bl nb DS BL H; [discriminate|]. cbn [merge_round] in H.
  assert (DSr : ds_ok r) by (intros d' e' I; apply DS; now right).
  assert (ED : eget d G = Some e) by (apply DS; now left).
  destruct (ancestor_block t d e num) as [db|] eqn:AB; [|exact (IH bl nb DSr BL H)].
  pose proof (ancestor_block_anc d e num db ED AB) as A.
  assert (UD : under db (g_cum e)) by (apply (under_anc db d); [exact A|now apply under_node]).
  destruct (find (fun p => (fst p =? db)%nat) bl) as [[k v]|] eqn:F.
  - apply find_some in F. destruct F as [I K]. cbn [fst] in K. apply Nat.eqb_eq in K. subst k.
    assert (UV : under db (v ++ g_cum e)) by (apply under_app; [exact (BL db v I)|exact UD]).
    destruct (cnd (v ++ g_cum e)) eqn:C.
    + injection H as <-. exists (v ++ g_cum e). split; assumption.
    + apply (IH _ nb DSr) in H; [exact H|]. intros x w I'. apply in_map_iff in I'.
      destruct I' as [[k0 v0] [E0 I0]]. cbn [fst] in E0. destruct (k0 =? db)%nat.
      * injection E0 as <- <-. exact UV.
      * injection E0 as <- <-. exact (BL k0 v0 I0).
  - apply (IH _ nb DSr) in H; [exact H|]. intros x w I'. apply in_app_or in I'.
    destruct I' as [I'|[E0|[]]]; [exact (BL x w I')|]. injection E0 as <- <-. exact UD.
Qed.

Lemma merge_loop_sound : forall fuel num ds best, ds_ok ds -> witnessed best ->
  witnessed (merge_loop t fuel cnd num ds best).
Proof.
  induction fuel as [|f IH]; intros num ds best DS WB; [exact WB|]. cbn [merge_loop].
  destruct (merge_round t cnd (Datatypes.S num) ds []) as [nb|] eqn:MR; [|exact WB].
  apply IH.
  - intros d e I. apply filter_In in I. apply DS. exact (proj1 I).
  - apply (merge_round_sound (Datatypes.S num) ds [] nb DS); [intros x w []|exact MR].
Qed.

Lemma constrained_ds_ok force l :
  ds_ok (flat_map (fun d => match constrained t G force d with Some x => [x] | None => [] end) l).
Proof.
  intros d e I. apply in_flat_map in I. destruct I as [x [_ I]].
  unfold constrained in I. destruct (eget x G) as [ex|] eqn:EX; [|destruct I].
  destruct force as [c|].
  - destruct (in_direct_ancestry t x ex c (number t c)) as [[|]|]; cbn [In] in I; try contradiction.
    destruct I as [I|[]]. injection I as <- <-. exact EX.
  - destruct I as [I|[]]. injection I as <- <-. exact EX.
Qed.

Lemma merge_point_sound key e force : eget key G = Some e -> cnd (g_cum e) = true ->
  witnessed (merge_point t G key e force cnd).
Proof.
  intros E C. unfold merge_point. apply merge_loop_sound; [apply constrained_ds_ok|].
  exists (g_cum e). split; [now apply under_node|exact C].
Qed.

Lemma descend_sound : forall fuel key e force key' e' force',
  eget key G = Some e -> cnd (g_cum e) = true ->
  descend t fuel G cnd key e force = (key', e', force') ->
  eget key' G = Some e' /\ cnd (g_cum e') = true.
Proof.
  induction fuel as [|f IH]; intros key e force key' e' force' E C H.
  - cbn [descend] in H. injection H as <- <- <-. auto.
  - cbn [descend] in H.
    destruct (find (fun p => cnd (g_cum (snd p)))
                (flat_map (fun d => match constrained t G force d with Some x => [x] | None => [] end) (g_desc e)))
      as [[d de]|] eqn:F.
    + apply find_some in F. destruct F as [I CD]. cbn [snd] in CD.
      apply (IH d de None key' e' force'); [exact (constrained_ds_ok force (g_desc e) d de I)|exact CD|exact H].
    + injection H as <- <- <-. auto.
Qed.

(* ---- soundness of FindGHOST ---- *)
Theorem find_ghost_sound heads current b :
  find_ghost t lbl G heads current cnd = Some b -> has_supermajority t ws S b = true.
Proof.
  intro H. apply witnessed_sound. unfold find_ghost in H.
  match type of H with (let '(k, f) := ?X in _) = _ => destruct X as [key force] end.
  destruct (eget key G) as [e|] eqn:E; [|discriminate].
  destruct (cnd (g_cum e)) eqn:C; cbn [negb] in H; [|discriminate].
  destruct (descend t (Datatypes.S (length G)) G cnd key e force) as [[key' e'] force'] eqn:D.
  injection H as <-.
  destruct (descend_sound _ _ _ _ _ _ _ E C D) as [E' C']. now apply merge_point_sound.
Qed.

Theorem find_ghost_sound_ancestors heads current b a :
  find_ghost t lbl G heads current cnd = Some b -> anc t a b -> has_supermajority t ws S a = true.
Proof. intros H A. eapply has_supermajority_anc; [exact A|]. eapply find_ghost_sound; eauto. Qed.

(* in a tolerant vote set a block with a supermajority has a vote at or below it *)
Lemma supermajority_has_vote b : (0 < total ws)%N -> tolerant ws S = true ->
  has_supermajority t ws S b = true -> exists x, In x S /\ anc t b (vblock x).
Proof.
  intros TP TOL SB.
  destruct (existsb (fun x => ancb t b (vblock x)) S) eqn:X.
  - apply existsb_exists in X. destruct X as [x [I A]]. exists x. split; [exact I|now apply ancb_spec].
  - exfalso.
    assert (LE : (weight t ws S b <= eq_weight ws S)%N).
    { apply wsum_mono. intros v H. unfold supports in H. apply orb_prop in H. destruct H as [H|H]; [exact H|].
      apply votes_for_spec in H. destruct H as [x [I [_ A]]].
      assert (existsb (fun x => ancb t b (vblock x)) S = true); [|congruence].
      apply existsb_exists. exists x. split; [exact I|now apply ancb_spec]. }
    unfold has_supermajority in SB. apply N.leb_le in SB. unfold tolerant in TOL. apply N.leb_le in TOL.
    pose proof (three_threshold ws TP). pose proof (threshold_le_total ws). unfold tolerance in TOL. lia.
Qed.

(* the block FindGHOST returns lies on the chain of the specification's ghost *)
Theorem find_ghost_below_spec_ghost heads current b :
  (0 < total ws)%N -> tolerant ws S = true -> (forall x, In x S -> in_tree t (vblock x)) ->
  find_ghost t lbl G heads current cnd = Some b ->
  exists g, ghost t ws S = Some g /\ anc t b g.
Proof.
  intros TP TOL IT H. pose proof (find_ghost_sound heads current b H) as SB.
  destruct (supermajority_has_vote b TP TOL SB) as [x [I A]].
  assert (IB : in_tree t b) by (eapply anc_in_tree; [exact A|now apply IT]).
  destruct (ghost_some_of t ws S b IB SB) as [g GH]. exists g. split; [exact GH|].
  destruct (ghost_spec t ws S g TP TOL GH) as [_ [_ M]]. now apply M.
Qed.

(* with no current ghost the search starts at the base: it fails exactly when the specification
   has no ghost *)
Theorem find_ghost_none_iff heads : (exists e0, eget 0%nat G = Some e0) ->
  (find_ghost t lbl G heads None cnd = None <-> ghost t ws S = None).
Proof.
  intros [e0 E0].
  assert (BW : bits_weight ws (g_cum e0) eqv ph = cur_weight ws S).
  { rewrite (node_weight_is_spec_weight t ws G ins ph S eqv 0%nat e0 CO TR E0). apply weight_root. }
  assert (GD := ghost_defined t ws S).
  unfold find_ghost. rewrite E0. unfold cnd at 1. unfold cond_ph, th. rewrite BW.
  destruct (N.leb_spec (threshold ws) (cur_weight ws S)) as [L|L]; cbn [negb].
  - destruct (descend t (Datatypes.S (length G)) G cnd 0%nat e0 None) as [[k e] f].
    split; [discriminate|]. intro GN. destruct (proj2 GD L) as [g GS]. congruence.
  - split; [|reflexivity]. intros _. destruct (ghost t ws S) as [g|] eqn:GS; [|reflexivity].
    assert (threshold ws <= cur_weight ws S)%N by (apply GD; eauto). lia.
Qed.


(* ======================= maximality: the search from the base ======================= *)
Hypothesis CI : chain_inv t G.
Hypothesis IN : forall p, In p ins -> exists e, eget (fst p) G = Some e.
(* the descendant lists are complete: a vote-node is listed by its parent vote-node *)
Definition desc_complete : Prop :=
  forall x e y ey, eget x G = Some e -> eget y G = Some ey -> ancestor_node ey = Some x -> In y (g_desc e).
Hypothesis DC : desc_complete.
Hypothesis TP : (0 < total ws)%N.
Hypothesis TOL : tolerant ws S = true.
Hypothesis IT : forall x, In x S -> in_tree t (vblock x).
Variable g : block.
Hypothesis GH : ghost t ws S = Some g.


Lemma sm_anc_g b : has_supermajority t ws S b = true -> anc t b g.
Proof.
  intro SB. destruct (supermajority_has_vote b TP TOL SB) as [x [I A]].
  assert (IB : in_tree t b) by (eapply anc_in_tree; [exact A|now apply IT]).
  destruct (ghost_spec t ws S g TP TOL GH) as [_ [_ M]]. now apply M.
Qed.

Lemma witnessed_anc_g b : witnessed b -> anc t b g.
Proof. intro H. apply sm_anc_g. exact (witnessed_sound b H). Qed.

Lemma g_sm_anc a : anc t a g -> has_supermajority t ws S a = true.
Proof.
  intro A. destruct (ghost_spec t ws S g TP TOL GH) as [_ [SG _]]. eapply has_supermajority_anc; eauto.
Qed.

Lemma node_cnd y e : eget y G = Some e -> cnd (g_cum e) = has_supermajority t ws S y.
Proof.
  intro E. unfold cnd, cond_ph, th, has_supermajority.
  now rewrite (node_weight_is_spec_weight t ws G ins ph S eqv y e CO TR E).
Qed.

Lemma cnd_nil : cnd [] = false.
Proof.
  unfold cnd, cond_ph, th. apply N.leb_gt.
  assert (E : bits_weight ws [] eqv ph = eq_weight ws S).
  { unfold bits_weight, eq_weight. apply wsum_ext. intro v. destruct TR as [TE _]. cbn [memb existsb orb]. apply TE. }
  rewrite E. unfold tolerant in TOL. apply N.leb_le in TOL. unfold tolerance in TOL.
  pose proof (three_threshold ws TP). pose proof (threshold_le_total ws). lia.
Qed.

(* the vote-node directly below [key] on the way to a vote-node z strictly below [key] *)
Lemma nearest_child key : (exists e, eget key G = Some e) -> forall z ez, eget z G = Some ez ->
  anc t key z -> key <> z ->
  exists d de, eget d G = Some de /\ ancestor_node de = Some key /\ anc t d z.
Proof.
  intros [ek EK] z. induction z as [z IH] using lt_wf_ind. intros ez EZ A N.
  pose proof (CI z ez EZ) as C. destruct (ancestor_node ez) as [p|] eqn:AN.
  - destruct C as [[pe PE] [AP [NP M]]]. pose proof (M key ek EK A N) as KP.
    destruct (Nat.eq_dec key p) as [->|NK].
    + exists z, ez. split; [exact EZ|]. split; [exact AN|apply anc_refl].
    + assert (LT : (p < z)%nat) by (apply anc_le in AP; lia).
      destruct (IH p LT pe PE KP NK) as [d [de [ED [AD DZ]]]]. exists d, de. split; [exact ED|]. split; [exact AD|].
      eapply anc_trans; eauto.
  - exfalso. apply N. exact (C key ek EK A).
Qed.

(* ancestorBlock of a child vote-node at the number of a block c on its edge *)
Lemma ancestor_block_complete key d de c : eget d G = Some de -> ancestor_node de = Some key ->
  anc t key c -> key <> c -> anc t c d -> c <> d ->
  ancestor_block t d de (number t c) = Some c.
Proof.
  intros ED AN KC NKC CD NCD. unfold ancestor_block, number.
  assert (D1 : (depth t c < depth t d)%nat).
  { pose proof (anc_depth_le t c d CD). destruct (Nat.eq_dec (depth t c) (depth t d)) as [E|]; [|lia].
    exfalso. apply NCD. now apply (anc_depth_eq t). }
  assert (D2 : (depth t key < depth t c)%nat).
  { pose proof (anc_depth_le t key c KC). destruct (Nat.eq_dec (depth t key) (depth t c)) as [E|]; [|lia].
    exfalso. apply NKC. now apply (anc_depth_eq t). }
  destruct (Nat.leb_spec (depth t d) (depth t c)) as [L|_]; [lia|].
  destruct (W d de ED) as [n GA].
  destruct (chain_head t d) as [r CH].
  pose proof (chain_nth_of_anc t d c CD) as NC. rewrite CH in NC.
  replace (depth t d - depth t c)%nat with (Datatypes.S (depth t d - depth t c - 1)) in NC by lia.
  cbn [nth_error] in NC.
  (* the last element of g_anc is key *)
  unfold ancestor_node in AN. pose proof (last_opt_nth_error _ _ AN) as LK.
  assert (LEN : (length (g_anc de) = depth t d - depth t key)%nat).
  { assert (LP : (0 < length (g_anc de))%nat) by (destruct (g_anc de); [discriminate|cbn; lia]).
    assert (NK0 : forall m, nth_error (g_anc de) m = Some key -> nth_error (chain t d) (Datatypes.S m) = Some key).
    { intros m H. rewrite GA in H. apply nth_error_firstn_some in H. rewrite CH in *. exact H. }
    pose proof (NK0 _ LK) as NK.
    apply chain_nth_depth_sum in NK. lia. }
  rewrite GA. rewrite CH. cbn [tl]. rewrite nth_error_firstn_below; [exact NC|].
  assert (length (g_anc de) <= n)%nat by (rewrite GA; apply firstn_le_length). lia.
Qed.

Lemma ancestor_block_number d e num db : eget d G = Some e -> ancestor_block t d e num = Some db ->
  number t db = num.
Proof.
  intros E H. unfold ancestor_block, number in *. destruct (Nat.leb_spec (depth t d) num) as [L|L]; [discriminate|].
  destruct (W d e E) as [n GA]. rewrite GA in H. apply nth_error_firstn_some in H.
  destruct (chain_head t d) as [r CH].
  assert (NK : nth_error (chain t d) (Datatypes.S (depth t d - num - 1)) = Some db) by (rewrite CH in *; exact H).
  apply chain_nth_depth_sum in NK. lia.
Qed.

(* ---- the active vote-node [key] after the descent ---- *)
Section Active.
Variable key : block.
Variable ek : entry.
Hypothesis EK : eget key G = Some ek.
Hypothesis KS : has_supermajority t ws S key = true.

Definition ds0 : dnodes :=
  flat_map (fun d => match constrained t G None d with Some x => [x] | None => [] end) (g_desc ek).

Lemma ds0_complete d de : eget d G = Some de -> ancestor_node de = Some key -> In (d, de) ds0.
Proof.
  intros ED AN. unfold ds0. apply in_flat_map. exists d. split; [exact (DC key ek d de EK ED AN)|].
  unfold constrained. rewrite ED. now left.
Qed.

(* the descent stopped: no listed descendant vote-node meets the condition *)
Hypothesis KF : forall d de, In (d, de) ds0 -> cnd (g_cum de) = false.

Lemma KC d de : eget d G = Some de -> ancestor_node de = Some key -> has_supermajority t ws S d = false.
Proof. intros ED AN. rewrite <- (node_cnd d de ED). apply (KF d de). now apply ds0_complete. Qed.

(* a block c strictly below key with a supermajority: the bits of its supporters are in the
   cumulative votes of the child vote-nodes through c *)
Lemma level_cover c v (ds : dnodes) :
  anc t key c -> key <> c -> has_supermajority t ws S c = true ->
  (forall d de, eget d G = Some de -> ancestor_node de = Some key -> anc t c d -> c <> d -> In (d, de) ds) ->
  (forall d de, In (d, de) ds -> ancestor_block t d de (number t c) = Some c ->
     forall bt, memb bt (g_cum de) = true -> memb bt v = true) ->
  cnd v = true.
Proof.
  intros AKC NKC SC CMP COV. unfold cnd, cond_ph, th. apply N.leb_le.
  unfold has_supermajority in SC. apply N.leb_le in SC.
  assert (LE : (weight t ws S c <= bits_weight ws v eqv ph)%N); [|lia].
  unfold weight, bits_weight. apply wsum_mono. intros vo SP. destruct TR as [TE TI].
  rewrite <- first_under_supports in SP. apply orb_prop in SP. destruct SP as [FU|EQ]; [|rewrite TE, EQ; apply orb_true_r].
  rewrite <- TI in FU. unfold ins_bit in FU. apply existsb_exists in FU. destruct FU as [p [IP HP]].
  apply andb_true_iff in HP. destruct HP as [HB HA]. apply Nat.eqb_eq in HB. apply ancb_spec in HA.
  destruct (IN p IP) as [ez EZ].
  assert (KZ : anc t key (fst p)) by (eapply anc_trans; eauto).
  assert (NKZ : key <> fst p).
  { intro E. rewrite <- E in HA. apply NKC. now apply (anc_antisym t). }
  destruct (nearest_child key (ex_intro _ ek EK) (fst p) ez EZ KZ NKZ) as [d [de [ED [AN DZ]]]].
  assert (MB : memb (2 * vo + ph) (g_cum de) = true).
  { rewrite (CO d de ED). apply existsb_exists. exists p. split; [exact IP|].
    apply andb_true_iff. split; [now apply Nat.eqb_eq|now apply ancb_spec]. }
  destruct (anc_linear t c d (fst p) HA DZ) as [CD|DC'].
  - destruct (Nat.eq_dec c d) as [->|NCD].
    + exfalso. pose proof (KC d de ED AN) as F. unfold has_supermajority in F. apply N.leb_gt in F. lia.
    + rewrite (COV d de (CMP d de ED AN CD NCD) (ancestor_block_complete key d de c ED AN AKC NKC CD NCD) _ MB).
      reflexivity.
  - exfalso. assert (has_supermajority t ws S d = true).
    { apply (has_supermajority_anc t ws S d c DC'). unfold has_supermajority. now apply N.leb_le. }
    rewrite (KC d de ED AN) in H. discriminate.
Qed.

Lemma ds0_ok : ds_ok ds0.
Proof. apply constrained_ds_ok. Qed.

(* ghostFindMergePoint: the loop ends exactly at the specification's ghost *)
Lemma merge_loop_max : forall fuel num ds best,
  (size t < fuel + num)%nat -> number t best = num -> anc t key best -> anc t best g ->
  ds_ok ds -> (forall d de, In (d, de) ds -> cnd (g_cum de) = false) ->
  (forall d de, eget d G = Some de -> ancestor_node de = Some key -> anc t best d -> best <> d -> In (d, de) ds) ->
  merge_loop t fuel cnd num ds best = g.
Proof.
  induction fuel as [|f IH]; intros num ds best FU NB KB BG DS FALSE CMP.
  - exfalso. pose proof (depth_le_size t best). unfold number in NB. lia.
  - cbn [merge_loop]. destruct (merge_round t cnd (Datatypes.S num) ds []) as [nb|] eqn:MR.
    + assert (WN : witnessed nb) by (apply (merge_round_sound (Datatypes.S num) ds [] nb DS); [intros x w []|exact MR]).
      pose proof (witnessed_anc_g nb WN) as NG.
      destruct (merge_round_some_in t cnd (Datatypes.S num) ds [] nb MR) as [d [de [I AB]]].
      pose proof (ancestor_block_number d de (Datatypes.S num) nb (DS d de I) AB) as NN.
      assert (BN : anc t best nb).
      { destruct (anc_linear t best nb g BG NG) as [X|X]; [exact X|]. apply anc_depth_le in X. unfold number in *. lia. }
      assert (NE : best <> nb) by (intro E; subst best; unfold number in *; lia).
      assert (KN : anc t key nb) by (eapply anc_trans; eauto).
      assert (NKN : key <> nb).
      { intro E. subst nb. pose proof (anc_antisym t key best KB BN). congruence. }
      apply IH.
      * lia.
      * exact NN.
      * exact KN.
      * exact NG.
      * intros d' de' I'. apply filter_In in I'. apply DS. exact (proj1 I').
      * intros d' de' I'. apply filter_In in I'. apply (FALSE d' de'). exact (proj1 I').
      * intros d' de' ED AN A' N'. apply filter_In. split.
        -- apply CMP; [exact ED|exact AN|eapply anc_trans; eauto|].
           intro E. subst d'. apply NE. now apply (anc_antisym t).
        -- cbn [fst snd]. unfold in_direct_ancestry. rewrite <- NN.
           rewrite (ancestor_block_complete key d' de' nb ED AN KN NKN A' N'). now rewrite Nat.eqb_refl.
    + destruct (Nat.eq_dec best g) as [E|NE]; [exact E|exfalso].
      destruct (child_on_path t best g BG NE) as [c [BC [CG DC']]].
      pose proof (g_sm_anc c CG) as SC.
      assert (NC : number t c = Datatypes.S num) by (unfold number in *; lia).
      assert (NBC : best <> c) by (intro E; subst c; lia).
      destruct (merge_round_none t cnd (Datatypes.S num) ds [] FALSE (fun _ => cnd_nil) MR c) as [v [CV [_ COV]]].
      assert (CT : cnd v = true); [|congruence].
      apply (level_cover c v ds).
      * eapply anc_trans; eauto.
      * intro E. subst c. apply NBC. now apply (anc_antisym t).
      * exact SC.
      * intros d de ED AN CD NCD. apply CMP; [exact ED|exact AN|eapply anc_trans; eauto|].
        intro E. subst d. apply NBC. now apply (anc_antisym t).
      * intros d de I AB. apply (COV d de I). now rewrite <- NC.
Qed.

Lemma merge_point_max : merge_point t G key ek None cnd = g.
Proof.
  unfold merge_point. fold ds0. apply merge_loop_max.
  - lia.
  - reflexivity.
  - apply anc_refl.
  - now apply sm_anc_g.
  - exact ds0_ok.
  - exact KF.
  - intros d de ED AN _ _. now apply ds0_complete.
Qed.

End Active.

(* ---- the descent through the vote-nodes ---- *)
(* the descendant lists are sound: a listed vote-node has the listing node as its parent vote-node *)
Definition desc_sound : Prop :=
  forall x e y ey, eget x G = Some e -> In y (g_desc e) -> eget y G = Some ey -> ancestor_node ey = Some x.
Hypothesis DS : desc_sound.

Definition above (k : block) : nat := length (filter (fun p : block * entry => (k <? fst p)%nat) G).

Lemma eget_In : forall (m : entries) b e, eget b m = Some e -> In (b, e) m.
Proof.
  induction m as [|[k e'] r IH]; intros b e H; [discriminate|]. cbn [eget] in H.
  destruct (Nat.eqb_spec k b) as [->|N]; [injection H as ->; now left|right; now apply IH].
Qed.

Lemma above_lt k d de : eget d G = Some de -> (k < d)%nat -> (above d < above k)%nat.
Proof.
  intros ED L. apply eget_In in ED. unfold above. revert ED. generalize G as m.
  assert (LE : forall m : entries, (length (filter (fun p : block * entry => (d <? fst p)%nat) m) <=
                                   length (filter (fun p : block * entry => (k <? fst p)%nat) m))%nat).
  { induction m as [|[x ex] r IH]; [cbn; lia|]. cbn [filter fst].
    destruct (Nat.ltb_spec d x); destruct (Nat.ltb_spec k x); cbn [length]; lia. }
  induction m as [|[x ex] r IH]; intros I; [destruct I|]. cbn [filter fst]. destruct I as [E|I].
  - injection E as -> ->. rewrite Nat.ltb_irrefl. destruct (Nat.ltb_spec k d); [|lia]. cbn [length].
    specialize (LE r). lia.
  - specialize (IH I). destruct (Nat.ltb_spec d x); destruct (Nat.ltb_spec k x); cbn [length]; lia.
Qed.

Lemma above_le k : (above k <= length G)%nat.
Proof.
  unfold above. generalize G as m. induction m as [|x r IH]; [cbn; lia|]. cbn [filter length].
  destruct (k <? fst x)%nat; cbn [length]; lia.
Qed.

Lemma descend_max : forall fuel k e k' e' f',
  eget k G = Some e -> cnd (g_cum e) = true -> (above k < fuel)%nat ->
  descend t fuel G cnd k e None = (k', e', f') ->
  eget k' G = Some e' /\ cnd (g_cum e') = true /\ f' = None /\ (forall d de, In (d, de) (ds0 e') -> cnd (g_cum de) = false).
Proof.
  induction fuel as [|f IH]; intros k e k' e' f' E C AB H; [lia|]. cbn [descend] in H. fold (ds0 e) in H.
  destruct (find (fun p => cnd (g_cum (snd p))) (ds0 e)) as [[d de]|] eqn:F.
  - pose proof (find_some _ _ F) as [I CD]. cbn [snd] in CD.
    pose proof (ds0_ok e d de I) as ED.
    assert (ID : In d (g_desc e)).
    { unfold ds0 in I. apply in_flat_map in I. destruct I as [x [IX I]]. unfold constrained in I.
      destruct (eget x G); [|destruct I]. destruct I as [I|[]]. injection I as -> _. exact IX. }
    pose proof (DS k e d de E ID ED) as AN.
    pose proof (CI d de ED) as CH. rewrite AN in CH. destruct CH as [_ [A [N _]]].
    assert (L : (k < d)%nat) by (apply anc_le in A; lia).
    apply (IH d de k' e' f' ED CD); [|exact H]. pose proof (above_lt k d de ED L). lia.
  - injection H as <- <- <-. split; [exact E|]. split; [exact C|]. split; [reflexivity|].
    intros d de I. pose proof (find_none _ _ F (d, de) I) as X. exact X.
Qed.

(* ---- FindGHOST from the base is the specification's ghost ---- *)
Theorem find_ghost_max heads b : find_ghost t lbl G heads None cnd = Some b -> b = g.
Proof.
  intro H. unfold find_ghost in H.
  destruct (eget 0%nat G) as [e0|] eqn:E0; [|discriminate].
  destruct (cnd (g_cum e0)) eqn:C; cbn [negb] in H; [|discriminate].
  destruct (descend t (Datatypes.S (length G)) G cnd 0%nat e0 None) as [[k' e'] f'] eqn:D.
  injection H as <-.
  assert (AB : (above 0 < Datatypes.S (length G))%nat) by (pose proof (above_le 0); lia).
  destruct (descend_max _ _ _ _ _ _ E0 C AB D) as [E' [C' [-> KF]]].
  apply (merge_point_max k' e' E'); [|exact KF]. now rewrite <- (node_cnd k' e' E').
Qed.

(* ---- the restart from a previous ghost c inside an ancestor edge: the [force] constraint ---- *)
Lemma find_ghost_base_eq heads : (exists e0, eget 0%nat G = Some e0) ->
  find_ghost t lbl G heads None cnd = Some g.
Proof.
  intro BASE. destruct (find_ghost t lbl G heads None cnd) as [b|] eqn:F.
  - f_equal. exact (find_ghost_max heads b F).
  - apply (find_ghost_none_iff heads BASE) in F. congruence.
Qed.

Section Forced.
Variable a : block.
Variable ea : entry.
Hypothesis EA : eget a G = Some ea.
Variable c : block.
Hypothesis CN : eget c G = None.
Hypothesis AC : anc t a c.
Hypothesis SC : has_supermajority t ws S c = true.
(* c lies in the ancestor edge of a child vote-node d0 of a *)
Variable d0 : block.
Variable e0 : entry.
Hypothesis ED0 : eget d0 G = Some e0.
Hypothesis AN0 : ancestor_node e0 = Some a.
Hypothesis CD0 : anc t c d0.

Definition dsc : dnodes :=
  flat_map (fun d => match constrained t G (Some c) d with Some x => [x] | None => [] end) (g_desc ea).

Lemma NAC : a <> c.
Proof. intro E. subst c. congruence. Qed.

Lemma CG : anc t c g.
Proof. now apply sm_anc_g. Qed.

Lemma no_node_between y ey : eget y G = Some ey -> anc t y c -> anc t y a.
Proof.
  intros EY A. pose proof (CI d0 e0 ED0) as C. rewrite AN0 in C. destruct C as [_ [_ [_ M]]].
  apply (M y ey EY); [eapply anc_trans; eauto|].
  intro E. subst y. assert (c = d0) by (now apply (anc_antisym t)). subst c. congruence.
Qed.

(* a child vote-node of a above a block z below c is below c *)
Lemma child_through d de z : eget d G = Some de -> ancestor_node de = Some a ->
  anc t d z -> anc t c z -> anc t c d /\ c <> d.
Proof.
  intros ED AN DZ CZ. split; [|intro E; subst d; congruence].
  destruct (anc_linear t c d z CZ DZ) as [X|X]; [exact X|exfalso].
  pose proof (no_node_between d de ED X) as DA.
  pose proof (CI d de ED) as C. rewrite AN in C. destruct C as [_ [AD [N _]]].
  apply N. now apply (anc_antisym t).
Qed.

Lemma dsc_complete d de : eget d G = Some de -> ancestor_node de = Some a -> anc t c d -> c <> d ->
  In (d, de) dsc.
Proof.
  intros ED AN CD NCD. unfold dsc. apply in_flat_map. exists d. split; [exact (DC a ea d de EA ED AN)|].
  unfold constrained. rewrite ED. unfold in_direct_ancestry.
  rewrite (ancestor_block_complete a d de c ED AN AC NAC CD NCD). rewrite Nat.eqb_refl. now left.
Qed.

Lemma dsc_ok : ds_ok dsc.
Proof. apply constrained_ds_ok. Qed.

(* the descent stopped at a: no listed descendant vote-node through c meets the condition *)
Hypothesis KFc : forall d de, In (d, de) dsc -> cnd (g_cum de) = false.

Lemma level_cover_forced c' v (ds : dnodes) :
  anc t a c' -> a <> c' -> anc t c' g ->
  (forall d de, eget d G = Some de -> ancestor_node de = Some a -> anc t c' d -> c' <> d -> anc t c d -> In (d, de) ds) ->
  (forall d de, In (d, de) ds -> ancestor_block t d de (number t c') = Some c' ->
     forall bt, memb bt (g_cum de) = true -> memb bt v = true) ->
  cnd v = true.
Proof.
  intros AKC NKC C'G CMP COV. unfold cnd, cond_ph, th. apply N.leb_le.
  pose proof (g_sm_anc g (anc_refl t g)) as SG. unfold has_supermajority in SG. apply N.leb_le in SG.
  assert (LE : (weight t ws S g <= bits_weight ws v eqv ph)%N); [|lia].
  unfold weight, bits_weight. apply wsum_mono. intros vo SP. destruct TR as [TE TI].
  rewrite <- first_under_supports in SP. apply orb_prop in SP. destruct SP as [FU|EQ]; [|rewrite TE, EQ; apply orb_true_r].
  rewrite <- TI in FU. unfold ins_bit in FU. apply existsb_exists in FU. destruct FU as [p [IP HP]].
  apply andb_true_iff in HP. destruct HP as [HB HA]. apply Nat.eqb_eq in HB. apply ancb_spec in HA.
  destruct (IN p IP) as [ez EZ].
  assert (CZ : anc t c (fst p)) by (eapply anc_trans; [exact CG|exact HA]).
  assert (C'Z : anc t c' (fst p)) by (eapply anc_trans; [exact C'G|exact HA]).
  assert (KZ : anc t a (fst p)) by (eapply anc_trans; [exact AC|exact CZ]).
  assert (NKZ : a <> fst p).
  { intro E. rewrite <- E in CZ. apply NAC. now apply (anc_antisym t). }
  destruct (nearest_child a (ex_intro _ ea EA) (fst p) ez EZ KZ NKZ) as [d [de [ED [AN DZ]]]].
  assert (MB : memb (2 * vo + ph) (g_cum de) = true).
  { rewrite (CO d de ED). apply existsb_exists. exists p. split; [exact IP|].
    apply andb_true_iff. split; [now apply Nat.eqb_eq|now apply ancb_spec]. }
  destruct (child_through d de (fst p) ED AN DZ CZ) as [CD NCD].
  assert (NS : has_supermajority t ws S d = false).
  { rewrite <- (node_cnd d de ED). apply (KFc d de). now apply dsc_complete. }
  assert (C'D : anc t c' d /\ c' <> d).
  { destruct (anc_linear t c' d (fst p) C'Z DZ) as [X|X].
    - split; [exact X|]. intro E. subst d. rewrite (g_sm_anc c' C'G) in NS. discriminate.
    - exfalso. assert (anc t d g) by (eapply anc_trans; eauto). rewrite (g_sm_anc d H) in NS. discriminate. }
  destruct C'D as [C'D NC'D].
  rewrite (COV d de (CMP d de ED AN C'D NC'D CD) (ancestor_block_complete a d de c' ED AN AKC NKC C'D NC'D) _ MB).
  reflexivity.
Qed.

Lemma merge_loop_max_forced : forall fuel num ds best,
  (size t < fuel + num)%nat -> number t best = num -> anc t a best -> anc t best g ->
  ds_ok ds -> (forall d de, In (d, de) ds -> cnd (g_cum de) = false) ->
  (forall d de, eget d G = Some de -> ancestor_node de = Some a -> anc t best d -> best <> d -> anc t c d ->
     In (d, de) ds) ->
  merge_loop t fuel cnd num ds best = g.
Proof.
  induction fuel as [|f IH]; intros num ds best FU NB KB BG DSO FALSE CMP.
  - exfalso. pose proof (depth_le_size t best). unfold number in NB. lia.
  - cbn [merge_loop]. destruct (merge_round t cnd (Datatypes.S num) ds []) as [nb|] eqn:MR.
    + assert (WN : witnessed nb) by (apply (merge_round_sound (Datatypes.S num) ds [] nb DSO); [intros x w []|exact MR]).
      pose proof (witnessed_anc_g nb WN) as NG.
      destruct (merge_round_some_in t cnd (Datatypes.S num) ds [] nb MR) as [d [de [I AB]]].
      pose proof (ancestor_block_number d de (Datatypes.S num) nb (DSO d de I) AB) as NN.
      assert (BN : anc t best nb).
      { destruct (anc_linear t best nb g BG NG) as [X|X]; [exact X|]. apply anc_depth_le in X. unfold number in *. lia. }
      assert (NE : best <> nb) by (intro E; subst best; unfold number in *; lia).
      assert (KN : anc t a nb) by (eapply anc_trans; eauto).
      assert (NKN : a <> nb).
      { intro E. subst nb. pose proof (anc_antisym t a best KB BN). congruence. }
      apply IH.
      * lia.
      * exact NN.
      * exact KN.
      * exact NG.
      * intros d' de' I'. apply filter_In in I'. apply DSO. exact (proj1 I').
      * intros d' de' I'. apply filter_In in I'. apply (FALSE d' de'). exact (proj1 I').
      * intros d' de' ED AN A' N' CD'. apply filter_In. split.
        -- apply CMP; [exact ED|exact AN|eapply anc_trans; eauto| |exact CD'].
           intro E. subst d'. apply NE. now apply (anc_antisym t).
        -- cbn [fst snd]. unfold in_direct_ancestry. rewrite <- NN.
           rewrite (ancestor_block_complete a d' de' nb ED AN KN NKN A' N'). now rewrite Nat.eqb_refl.
    + destruct (Nat.eq_dec best g) as [E|NE]; [exact E|exfalso].
      destruct (child_on_path t best g BG NE) as [c' [BC [C'G DC']]].
      assert (NC : number t c' = Datatypes.S num) by (unfold number in *; lia).
      assert (NBC : best <> c') by (intro E; subst c'; lia).
      destruct (merge_round_none t cnd (Datatypes.S num) ds [] FALSE (fun _ => cnd_nil) MR c') as [v [CV [_ COV]]].
      assert (CT : cnd v = true); [|congruence].
      apply (level_cover_forced c' v ds).
      * eapply anc_trans; eauto.
      * intro E. subst c'. apply NBC. now apply (anc_antisym t).
      * exact C'G.
      * intros d de ED AN CD NCD CCD. apply CMP; [exact ED|exact AN|eapply anc_trans; eauto| |exact CCD].
        intro E. subst d. apply NBC. now apply (anc_antisym t).
      * intros d de I AB. apply (COV d de I). now rewrite <- NC.
Qed.

Lemma merge_point_max_forced : merge_point t G a ea (Some c) cnd = g.
Proof.
  unfold merge_point. fold dsc. apply merge_loop_max_forced.
  - lia.
  - reflexivity.
  - apply anc_refl.
  - eapply anc_trans; [exact AC|exact CG].
  - exact dsc_ok.
  - exact KFc.
  - intros d de ED AN _ _ CD. apply dsc_complete; [exact ED|exact AN|exact CD|]. intro E. subst d. congruence.
Qed.

End Forced.

Lemma find_ghost_forced a ea c d0 e0 : eget a G = Some ea -> eget c G = None -> anc t a c ->
  has_supermajority t ws S c = true ->
  eget d0 G = Some e0 -> ancestor_node e0 = Some a -> anc t c d0 ->
  (let '(k, e, f) := descend t (Datatypes.S (length G)) G cnd a ea (Some c) in merge_point t G k e f cnd) = g.
Proof.
  intros EA CN AC SC ED0 AN0 CD0. cbn [descend]. fold (dsc ea c).
  destruct (find (fun p => cnd (g_cum (snd p))) (dsc ea c)) as [[d de]|] eqn:F.
  - pose proof (find_some _ _ F) as [I CD]. cbn [snd] in CD.
    pose proof (dsc_ok ea c d de I) as ED.
    assert (ID : In d (g_desc ea)).
    { unfold dsc in I. apply in_flat_map in I. destruct I as [x [IX I]]. unfold constrained in I.
      destruct (eget x G) as [ex|]; [|destruct I].
      destruct (in_direct_ancestry t x ex c (number t c)) as [[|]|]; cbn [In] in I; try contradiction.
      destruct I as [I|[]]. injection I as -> _. exact IX. }
    pose proof (DS a ea d de EA ID ED) as AN.
    pose proof (CI d de ED) as CH. rewrite AN in CH. destruct CH as [_ [A [N _]]].
    assert (L : (a < d)%nat) by (apply anc_le in A; lia).
    destruct (descend t (length G) G cnd d de None) as [[k' e'] f'] eqn:D.
    assert (AB : (above d < length G)%nat) by (pose proof (above_lt a d de ED L); pose proof (above_le a); lia).
    destruct (descend_max _ _ _ _ _ _ ED CD AB D) as [E' [C' [-> KF]]].
    apply (merge_point_max k' e' E'); [|exact KF]. now rewrite <- (node_cnd k' e' E').
  - apply merge_point_max_forced with (d0 := d0) (e0 := e0); auto.
    intros d de I. exact (find_none _ _ F (d, de) I).
Qed.

Theorem find_ghost_max_edge heads c : (exists e0, eget 0%nat G = Some e0) ->
  eget c G = None -> has_supermajority t ws S c = true ->
  find_ghost t lbl G heads (Some c) cnd = Some g.
Proof.
  intros BASE CN SC. pose proof (find_ghost_base_eq heads BASE) as FB. unfold find_ghost in FB |- *.
  destruct (find_containing t lbl G heads c) as [[|d l]|] eqn:FC.
  - exact FB.
  - destruct (branch_sound_of_wf t lbl G heads c (d :: l) W FC d (or_introl eq_refl)) as [de [ED [_ [CD AP]]]].
    rewrite ED. destruct (ancestor_node de) as [a|] eqn:AN; [|exact FB].
    pose proof (AP a eq_refl) as AC.
    pose proof (CI d de ED) as CH. rewrite AN in CH. destruct CH as [[ea EA] _].
    rewrite EA.
    assert (CA : cnd (g_cum ea) = true).
    { rewrite (node_cnd a ea EA). exact (has_supermajority_anc t ws S a c AC SC). }
    rewrite CA. cbn [negb].
    pose proof (find_ghost_forced a ea c d de EA CN AC SC ED AN CD) as FF.
    destruct (descend t (Datatypes.S (length G)) G cnd a ea (Some c)) as [[k e] f]. now rewrite FF.
  - exfalso. unfold find_containing in FC. rewrite CN in FC. discriminate.
Qed.

(* the restart from a previous ghost c that has a vote-node: the same search from c *)
Theorem find_ghost_max_node heads c ec b : eget c G = Some ec ->
  find_ghost t lbl G heads (Some c) cnd = Some b -> b = g.
Proof.
  intros EC H. unfold find_ghost, find_containing in H. rewrite EC in H. cbv beta iota zeta in H. rewrite EC in H.
  destruct (cnd (g_cum ec)) eqn:C; cbn [negb] in H; [|discriminate].
  destruct (descend t (Datatypes.S (length G)) G cnd c ec None) as [[k' e'] f'] eqn:D.
  injection H as <-.
  assert (AB : (above c < Datatypes.S (length G))%nat) by (pose proof (above_le c); lia).
  destruct (descend_max _ _ _ _ _ _ EC C AB D) as [E' [C' [-> KF]]].
  apply (merge_point_max k' e' E'); [|exact KF]. now rewrite <- (node_cnd k' e' E').
Qed.

Lemma find_ghost_node_none heads c ec : eget c G = Some ec ->
  (find_ghost t lbl G heads (Some c) cnd = None <-> has_supermajority t ws S c = false).
Proof.
  intros EC. unfold find_ghost, find_containing. rewrite EC. cbv beta iota zeta. rewrite EC.
  rewrite (node_cnd c ec EC). destruct (has_supermajority t ws S c); cbn [negb].
  - destruct (descend t (Datatypes.S (length G)) G cnd c ec None) as [[k' e'] f']. split; discriminate.
  - split; reflexivity.
Qed.

(* the restart from ANY block c that still has a supermajority (the previous ghost): the ghost *)
Theorem find_ghost_restart heads c : (exists e0, eget 0%nat G = Some e0) ->
  has_supermajority t ws S c = true -> find_ghost t lbl G heads (Some c) cnd = Some g.
Proof.
  intros BASE SC. destruct (eget c G) as [ec|] eqn:EC; [|now apply find_ghost_max_edge].
  destruct (find_ghost t lbl G heads (Some c) cnd) as [b|] eqn:F.
  - f_equal. exact (find_ghost_max_node heads c ec b EC F).
  - apply (find_ghost_node_none heads c ec EC) in F. congruence.
Qed.

End Sound.

(* FindGHOST from the base IS the specification's ghost *)
Theorem find_ghost_is_spec_ghost t lbl ws G ins ph S eqv heads :
  chain_inv t G -> cum_ok t G ins -> anc_wf t G -> tracker_ok t ph S eqv ins ->
  (exists e0, eget 0%nat G = Some e0) ->
  (forall p, In p ins -> exists e, eget (fst p) G = Some e) ->
  desc_complete G -> desc_sound G ->
  (0 < total ws)%N -> tolerant ws S = true -> (forall x, In x S -> in_tree t (vblock x)) ->
  find_ghost t lbl G heads None (cond_ph ws eqv ph) = ghost t ws S.
Proof.
  intros CI CO W TR BASE IN DC DS TP TOL IT.
  pose proof (find_ghost_none_iff t lbl ws G ins ph S eqv CO TR heads BASE) as NI. unfold cnd in NI.
  destruct (ghost t ws S) as [g|] eqn:GH; [|now apply NI].
  destruct (find_ghost t lbl G heads None (cond_ph ws eqv ph)) as [b|] eqn:F.
  - f_equal. exact (find_ghost_max t lbl ws G ins ph S eqv CO W TR CI IN DC TP TOL IT g GH DS heads b F).
  - pose proof (proj1 NI eq_refl). discriminate.
Qed.

(* ... and from a previous ghost c that has a vote-node: the specification's ghost if c still has a
   supermajority (c is then an ancestor of the ghost), None otherwise *)
Theorem find_ghost_from_node_is_spec_ghost t lbl ws G ins ph S eqv heads c ec :
  chain_inv t G -> cum_ok t G ins -> anc_wf t G -> tracker_ok t ph S eqv ins ->
  (forall p, In p ins -> exists e, eget (fst p) G = Some e) ->
  desc_complete G -> desc_sound G ->
  (0 < total ws)%N -> tolerant ws S = true -> (forall x, In x S -> in_tree t (vblock x)) ->
  eget c G = Some ec ->
  find_ghost t lbl G heads (Some c) (cond_ph ws eqv ph) =
  if has_supermajority t ws S c then ghost t ws S else None.
Proof.
  intros CI CO W TR IN DC DS TP TOL IT EC.
  pose proof (find_ghost_node_none t lbl ws G ins ph S eqv CO TR heads c ec EC) as NI. unfold cnd in NI.
  destruct (has_supermajority t ws S c) eqn:SC; [|now apply NI].
  destruct (supermajority_has_vote t lbl ws S c TP TOL SC) as [x [I A]].
  assert (IB : in_tree t c) by (eapply anc_in_tree; [exact A|now apply IT]).
  destruct (ghost_some_of t ws S c IB SC) as [g GH]. rewrite GH.
  destruct (find_ghost t lbl G heads (Some c) (cond_ph ws eqv ph)) as [b|] eqn:F.
  - f_equal. exact (find_ghost_max_node t lbl ws G ins ph S eqv CO W TR CI IN DC TP TOL IT g GH DS heads c ec b EC F).
  - pose proof (proj1 NI eq_refl). discriminate.
Qed.

(* ... and from any block c that has a supermajority -- the use in Round: c is the previous ghost
   (a vote-node or a block inside an ancestor edge: the [force] constraint) *)
Theorem find_ghost_restart_is_spec_ghost t lbl ws G ins ph S eqv heads c :
  chain_inv t G -> cum_ok t G ins -> anc_wf t G -> tracker_ok t ph S eqv ins ->
  (exists e0, eget 0%nat G = Some e0) ->
  (forall p, In p ins -> exists e, eget (fst p) G = Some e) ->
  desc_complete G -> desc_sound G ->
  (0 < total ws)%N -> tolerant ws S = true -> (forall x, In x S -> in_tree t (vblock x)) ->
  has_supermajority t ws S c = true ->
  find_ghost t lbl G heads (Some c) (cond_ph ws eqv ph) = ghost t ws S.
Proof.
  intros CI CO W TR BASE IN DC DS TP TOL IT SC.
  destruct (supermajority_has_vote t lbl ws S c TP TOL SC) as [x [I A]].
  assert (IB : in_tree t c) by (eapply anc_in_tree; [exact A|now apply IT]).
  destruct (ghost_some_of t ws S c IB SC) as [g GH]. rewrite GH.
  exact (find_ghost_restart t lbl ws G ins ph S eqv CO W TR CI IN DC TP TOL IT g GH DS heads c BASE SC).
Qed.

(* non-vacuity: tree 0 - 1, 1 - 2, 1 - 3; three voters of weight 1 prevote 2, 3, 3 (append, append,
   existing node): the vote-nodes are 0, 2, 3 and the ghost is block 1, a merge point inside the
   ancestor edges of 2 and 3; all hypotheses of find_ghost_is_spec_ghost hold in that state; the
   restart from block 1 (inside the edges: the [force] case) answers 1 again *)
Example find_ghost_example :
  let t := [0; 1; 1]%nat in let ws := [1; 1; 1]%N in let lbl := fun b : block => b in
  exists G heads S ins,
    reach_full t lbl G heads [] S ins /\
    S 0%nat = [mkVote 0 2 0; mkVote 1 3 0; mkVote 2 3 0] /\ map fst G = [0; 2; 3]%nat /\
    desc_complete G /\ desc_sound G /\ tolerant ws (S 0%nat) = true /\
    (forall x, In x (S 0%nat) -> in_tree t (vblock x)) /\
    find_ghost t lbl G heads None (cond_ph ws [] 0) = Some 1%nat /\ ghost t ws (S 0%nat) = Some 1%nat /\
    eget 1%nat G = None /\ find_ghost t lbl G heads (Some 1%nat) (cond_ph ws [] 0) = Some 1%nat.
Proof.
  intros t ws lbl.
  pose (x0 := mkVote 0 2 0). pose (x1 := mkVote 1 3 0). pose (x2 := mkVote 2 3 0).
  destruct (insert t lbl (r_G rinit) (r_heads rinit) 2 0) as [G1 h1] eqn:I1.
  destruct (insert t lbl G1 h1 3 2) as [G2 h2] eqn:I2.
  destruct (insert t lbl G2 h2 3 4) as [G3 h3] eqn:I3.
  assert (R1 : reach_full t lbl G1 h1 [] (upd (fun _ => []) 0 x0) [(2, 0)%nat]).
  { apply (rf_first_append t lbl (r_G rinit) (r_heads rinit) [] (fun _ => []) [] 0 x0 G1 h1);
      [apply rf_init|lia|reflexivity|reflexivity|reflexivity| |exact I1].
    intros y ey H A. cbn in H. destruct y; [|discriminate]. apply anc_0 in A. discriminate. }
  vm_compute in I1. injection I1 as <- <-.
  assert (R2 : reach_full t lbl G2 h2 [] (upd (upd (fun _ => []) 0 x0) 0 x1) [(3, 2); (2, 0)]%nat).
  { apply (rf_first_append t lbl _ _ [] _ _ 0 x1 G2 h2 R1);
      [lia|reflexivity|reflexivity|reflexivity| |exact I2].
    intros y ey H A. unfold anc in A. destruct y as [|[|[|y]]]; try discriminate; vm_compute in A; intuition discriminate. }
  vm_compute in I2. injection I2 as <- <-.
  assert (R3 : reach_full t lbl G3 h3 [] (upd (upd (upd (fun _ => []) 0 x0) 0 x1) 0 x2) [(3, 4); (3, 2); (2, 0)]%nat).
  { eapply (rf_first_existing t lbl _ _ [] _ _ 0 x2); [exact R2|lia|reflexivity|reflexivity|exact I3]. }
  vm_compute in I3. injection I3 as <- <-.
  eexists _, _, _, _. split; [exact R3|]. split; [reflexivity|]. split; [reflexivity|].
  split.
  { intros x e y ey EX EY AN. destruct y as [|[|[|[|y]]]]; try discriminate; cbn in EY; injection EY as <-;
      cbn in AN; try discriminate; injection AN as <-; cbn in EX; injection EX as <-; cbn; auto. }
  split.
  { intros x e y ey EX IY EY. destruct x as [|[|[|[|x]]]]; try discriminate; cbn in EX; injection EX as <-;
      cbn in IY; try contradiction; destruct IY as [<-|[<-|[]]]; cbn in EY; injection EY as <-; reflexivity. }
  split; [reflexivity|]. split.
  { intros x [<-|[<-|[<-|[]]]]; unfold in_tree, size, t; cbn; lia. }
  repeat split; reflexivity.
Qed.



(* ======================= the descendant lists ======================= *)
(* g_desc lists exactly the child vote-nodes *)
Definition desc_exact (G : entries) : Prop :=
  forall x e, eget x G = Some e -> forall y,
    In y (g_desc e) <-> exists ey, eget y G = Some ey /\ ancestor_node ey = Some x.

Lemma desc_exact_complete G : desc_exact G -> desc_complete G.
Proof. intros D x e y ey EX EY AN. apply (D x e EX y). eauto. Qed.

Lemma desc_exact_sound G : desc_exact G -> desc_sound G.
Proof.
  intros D x e y ey EX IY EY. apply (D x e EX y) in IY. destruct IY as [ey' [EY' AN]]. congruence.
Qed.

Lemma init_desc_exact : desc_exact (r_G rinit).
Proof.
  intros x e EX y. cbn in EX. destruct x; [|discriminate]. injection EX as <-. cbn [g_desc].
  split; [intros []|]. intros [ey [EY AN]]. cbn in EY. destruct y; [|discriminate]. injection EY as <-.
  discriminate.
Qed.

Lemma desc_exact_same G G' :
  (forall y, option_map g_anc (eget y G') = option_map g_anc (eget y G)) ->
  (forall y, option_map g_desc (eget y G') = option_map g_desc (eget y G)) ->
  desc_exact G -> desc_exact G'.
Proof.
  intros HA HD D x e' E' y. pose proof (HD x) as HX. rewrite E' in HX.
  destruct (eget x G) as [e|] eqn:E; [|discriminate]. cbn in HX. injection HX as HX. rewrite HX.
  rewrite (D x e E y). pose proof (HA y) as HY.
  split; intros [ey [EY AN]]; rewrite EY in HY.
  - destruct (eget y G') as [ey'|]; [|discriminate]. cbn in HY. injection HY as HY.
    exists ey'. split; [reflexivity|]. unfold ancestor_node in *. now rewrite HY.
  - destruct (eget y G) as [ey0|]; [|discriminate]. cbn in HY. injection HY as HY.
    exists ey0. split; [reflexivity|]. unfold ancestor_node in *. now rewrite <- HY.
Qed.

Section Desc.
Variable t : tree.
Variable lbl : block -> nat.

Lemma propagate_keeps_g_desc : forall fuel G x b y,
  option_map g_desc (eget y (propagate fuel G x b)) = option_map g_desc (eget y G).
Proof.
  induction fuel as [|f IH]; intros G x b y; [reflexivity|]. cbn [propagate].
  destruct (eget x G) as [e|] eqn:E; [|reflexivity].
  assert (S1 : option_map g_desc (eget y (eset x (mkE (g_anc e) (g_desc e) (b :: g_cum e)) G)) =
               option_map g_desc (eget y G)).
  { rewrite eget_eset. destruct (Nat.eqb_spec y x) as [->|]; [now rewrite E|reflexivity]. }
  destruct (ancestor_node e); [now rewrite IH|exact S1].
Qed.

Lemma propagate_desc_exact fuel G x b : desc_exact G -> desc_exact (propagate fuel G x b).
Proof. apply desc_exact_same; intro y; [apply propagate_g_anc|apply propagate_keeps_g_desc]. Qed.

(* Insert of a vote for a block that has a vote-node *)
Lemma insert_existing_desc_exact G heads h b e0 : eget h G = Some e0 -> desc_exact G ->
  desc_exact (fst (insert t lbl G heads h b)).
Proof. intros EH D. unfold insert, find_containing. rewrite EH. cbn [fst]. now apply propagate_desc_exact. Qed.

(* Insert through append *)
Lemma insert_append_desc_exact G heads h b : chain_inv t G -> (exists e0, eget 0%nat G = Some e0) ->
  eget h G = None -> find_containing t lbl G heads h = Some [] -> desc_exact G ->
  desc_exact (fst (insert t lbl G heads h b)).
Proof.
  intros CI BASE EH FC D. unfold insert. rewrite FC. unfold append_node.
  assert (HNZ : h <> 0%nat) by (intro E; subst h; destruct BASE; congruence).
  assert (TL : tl (chain t h) = chain t (parent t h)) by (rewrite (chain_nz t h HNZ); reflexivity).
  rewrite TL. destruct (first_entry_chain t G BASE (parent t h) 0) as [i [a [F [[ea EA] [AQ M]]]]].
  rewrite F, EA. cbn [fst].
  destruct (first_entry_index G _ _ _ _ F) as [_ NTH]. rewrite Nat.sub_0_r in NTH.
  set (a' := mkE (g_anc ea) (g_desc ea ++ [h]) (g_cum ea)).
  set (ne := mkE (firstn (S i) (chain t (parent t h))) [] []).
  apply propagate_desc_exact.
  set (G1 := eset h ne (eset a a' G)).
  assert (ANE : a <> h) by (intro E; subst a; congruence).
  assert (G1get : forall y, eget y G1 = if (y =? h)%nat then Some ne
                                       else if (y =? a)%nat then Some a' else eget y G).
  { intro y. unfold G1. now rewrite !eget_eset. }
  assert (ANne : ancestor_node ne = Some a).
  { unfold ancestor_node. cbn [g_anc ne]. exact (last_opt_firstn _ _ _ NTH). }
  assert (RH : forall x, (exists ey, eget h G1 = Some ey /\ ancestor_node ey = Some x) <-> x = a).
  { intro x. rewrite G1get, Nat.eqb_refl. split.
    - intros [ey [E AN]]. injection E as <-. congruence.
    - intros ->. eauto. }
  assert (RO : forall y x, y <> h ->
            ((exists ey, eget y G1 = Some ey /\ ancestor_node ey = Some x) <->
             (exists ey0, eget y G = Some ey0 /\ ancestor_node ey0 = Some x))).
  { intros y x NY. rewrite G1get. destruct (Nat.eqb_spec y h); [congruence|].
    destruct (Nat.eqb_spec y a) as [->|]; [|tauto]. rewrite EA. split.
    - intros [ey [E AN]]. injection E as <-. exists ea. split; [reflexivity|exact AN].
    - intros [ey [E AN]]. injection E as <-. exists a'. split; [reflexivity|exact AN]. }
  assert (NOH : forall x e, eget x G = Some e -> ~ In h (g_desc e)).
  { intros x e E I. apply (D x e E h) in I. destruct I as [ey [EY _]]. congruence. }
  intros x e E y. rewrite G1get in E. destruct (Nat.eq_dec y h) as [->|NY].
  - rewrite RH. destruct (Nat.eqb_spec x h) as [->|NXH].
    + injection E as <-. cbn [g_desc ne]. split; [intros []|]. intro X. congruence.
    + destruct (Nat.eqb_spec x a) as [->|NXA].
      * injection E as <-. cbn [g_desc a']. split; [reflexivity|]. intros _. apply in_or_app. right. now left.
      * split; [|congruence]. intro I. exfalso. exact (NOH x e E I).
  - rewrite (RO y x NY). destruct (Nat.eqb_spec x h) as [->|NXH].
    + injection E as <-. cbn [g_desc ne]. split; [intros []|]. intros [ey0 [EY AN]]. exfalso.
      pose proof (CI y ey0 EY) as C. rewrite AN in C. destruct C as [[pe PE] _]. congruence.
    + destruct (Nat.eqb_spec x a) as [->|NXA].
      * injection E as <-. cbn [g_desc a']. rewrite <- (D a ea EA y). rewrite in_app_iff. cbn [In]. intuition congruence.
      * exact (D x e E y).
Qed.

Lemma reach_desc_exact G heads eqv S ins : reach t lbl G heads eqv S ins -> desc_exact G.
Proof.
  induction 1 as [|G heads eqv S ins ph x e G' heads' R IH L NV EX INS
                   |G heads eqv S ins ph x G' heads' R IH L NV EN FC NB INS
                   |G heads eqv S ins ph x a R IH L FA NS
                   |G heads eqv S ins ph x R IH L H]; try exact IH.
  - exact init_desc_exact.
  - pose proof (insert_existing_desc_exact G heads (vblock x) (2 * vvoter x + ph) e EX IH) as P. now rewrite INS in P.
  - destruct (reach_good t lbl G heads eqv S ins R) as [CI [_ [BASE _]]].
    pose proof (insert_append_desc_exact G heads (vblock x) (2 * vvoter x + ph) CI BASE EN FC IH) as P.
    now rewrite INS in P.
Qed.

(* in every state reached through the existing-node and append paths of Insert, FindGHOST from the
   base is the specification's ghost of the phase *)
Theorem reach_find_ghost_is_spec_ghost ws G heads eqv S ins ph :
  reach t lbl G heads eqv S ins -> (ph < 2)%nat ->
  (0 < total ws)%N -> tolerant ws (S ph) = true -> (forall x, In x (S ph) -> in_tree t (vblock x)) ->
  find_ghost t lbl G heads None (cond_ph ws eqv ph) = ghost t ws (S ph).
Proof.
  intros R L TP TOL IT. pose proof (reach_desc_exact G heads eqv S ins R) as D.
  destruct (reach_full_invariants t lbl G heads eqv S ins (reach_sub t lbl G heads eqv S ins R))
    as [CI [CO [BASE [IN [TR W]]]]].
  apply (find_ghost_is_spec_ghost t lbl ws G ins ph (S ph) eqv heads); auto.
  - now apply desc_exact_complete.
  - now apply desc_exact_sound.
Qed.

End Desc.

Section DescBranch.
Variable t : tree.
Variable lbl : block -> nat.

(* the descendant list of the node introduceBranch accumulates *)
Lemma fold_desc_list h : forall ds G0 ne0 prev0, (forall d, In d ds -> exists e, eget d G0 = Some e) ->
  exists ne, snd (fold_left (bstep t h) ds (G0, Some (ne0, prev0))) = Some (ne, prev0) /\
    g_desc ne = g_desc ne0 ++ ds.
Proof.
  induction ds as [|d r IH]; intros G0 ne0 prev0 H.
  - exists ne0. cbn. split; [reflexivity|]. now rewrite app_nil_r.
  - destruct (H d (or_introl eq_refl)) as [e E]. cbn [fold_left].
    rewrite (bstep_some t h G0 (Some (ne0, prev0)) d e E).
    destruct (IH (eset d (trunc t h d e) G0) (mkE (g_anc ne0) (g_desc ne0 ++ [d]) (g_cum ne0 ++ g_cum e)) prev0)
      as [ne [F GD]].
    + intros d' I. rewrite eget_eset. destruct (Nat.eqb_spec d' d); [eauto|]. apply H. now right.
    + exists ne. split; [exact F|]. rewrite GD. cbn [g_desc]. now rewrite <- app_assoc.
Qed.

(* the descendant lists of the graph introduceBranch returns *)
Lemma branch_shape_desc G ds h d1 r e1 : ds = d1 :: r -> eget h G = None ->
  (forall d, In d ds -> exists e, eget d G = Some e) -> eget d1 G = Some e1 ->
  exists ne, eget h (introduce_branch t G ds h) = Some ne /\ g_desc ne = ds /\
    (forall y ey, y <> h -> eget y (introduce_branch t G ds h) = Some ey ->
       exists ey0, eget y G = Some ey0 /\
         g_desc ey = if match ancestor_node e1 with Some p => (y =? p)%nat | None => false end
                     then filter (fun d => negb (memb d ds)) (g_desc ey0) ++ [h] else g_desc ey0).
Proof.
  intros DS EH ALL E1. rewrite introduce_branch_eq.
  destruct (fold_left (bstep t h) ds (G, None)) as [G1 m1] eqn:F.
  assert (GE : forall y, eget y G1 =
            match eget y G with Some e => Some (if memb y ds then trunc t h y e else e) | None => None end).
  { intro y. rewrite <- (fold_fst t h ds G None ALL y). now rewrite F. }
  assert (M : exists ne, m1 = Some (ne, ancestor_node e1) /\ g_desc ne = ds).
  { rewrite DS in F. cbn [fold_left] in F. rewrite (bstep_some t h G None d1 e1 E1) in F.
    destruct (fold_desc_list h r (eset d1 (trunc t h d1 e1) G)
                (mkE (skipn (number t d1 - number t h) (g_anc e1)) ([] ++ [d1]) ([] ++ g_cum e1))
                (ancestor_node e1)) as [ne [S1 GD]].
    { intros d' I. rewrite eget_eset. destruct (Nat.eqb_spec d' d1); [eauto|]. apply ALL. rewrite DS. now right. }
    rewrite F in S1. cbn [snd] in S1. exists ne. split; [exact S1|]. rewrite GD, DS. reflexivity. }
  destruct M as [ne [-> GDne]]. cbv beta iota zeta.
  exists ne. split; [now rewrite eget_eset, Nat.eqb_refl|]. split; [exact GDne|].
  intros y ey NY H. rewrite eget_eset in H. destruct (Nat.eqb_spec y h); [congruence|].
  assert (GD1 : forall z ez, eget z G1 = Some ez -> exists ez0, eget z G = Some ez0 /\ g_desc ez = g_desc ez0).
  { intros z ez Z. rewrite GE in Z. destruct (eget z G) as [ez0|]; [|discriminate]. injection Z as <-.
    exists ez0. split; [reflexivity|]. now destruct (memb z ds). }
  destruct (ancestor_node e1) as [p1|].
  - destruct (eget p1 G1) as [pe|] eqn:EP.
    + rewrite eget_eset in H. destruct (Nat.eqb_spec y p1) as [->|NP].
      * injection H as <-. destruct (GD1 p1 pe EP) as [pe0 [P0 GP]]. exists pe0. split; [exact P0|].
        cbn [g_desc]. now rewrite GDne, GP.
      * destruct (GD1 y ey H) as [ey0 [Y0 GY]]. eauto.
    + destruct (Nat.eqb_spec y p1) as [->|NP]; [congruence|]. destruct (GD1 y ey H) as [ey0 [Y0 GY]]. eauto.
  - destruct (GD1 y ey H) as [ey0 [Y0 GY]]. eauto.
Qed.

(* Insert through introduceBranch *)
Lemma insert_branch_desc_exact G heads h b ds : chain_inv t G ->
  eget h G = None -> find_containing t lbl G heads h = Some ds -> ds <> [] ->
  branch_sound t G ds h -> desc_exact G ->
  desc_exact (fst (insert t lbl G heads h b)).
Proof.
  intros CI EH FC NE SND D. unfold insert. rewrite FC.
  destruct ds as [|d1 r] eqn:DS; [congruence|]. cbv iota. rewrite <- DS in *. clear NE. cbn [fst].
  apply propagate_desc_exact.
  assert (I1 : In d1 ds) by (rewrite DS; now left).
  assert (ALL : forall d, In d ds -> exists e, eget d G = Some e).
  { intros d I. destruct (SND d I) as [e [E _]]. eauto. }
  destruct (SND d1 I1) as [e1 [E1 [IDA1 [AH1 AP1]]]].
  destruct (branch_shape t G ds h d1 r e1 DS EH ALL E1) as [ne [G2h [GAne [_ [OLD KEEP]]]]].
  destruct (branch_shape_desc G ds h d1 r e1 DS EH ALL E1) as [ne' [G2h' [GDne OLDD]]].
  set (G2 := introduce_branch t G ds h) in *.
  rewrite G2h in G2h'. injection G2h' as <-.
  destruct (ida_true _ _ _ _ IDA1) as [LT1 NTH1].
  destruct (last_opt_some (g_anc e1)) as [p1 AN1].
  { intro X. rewrite X in NTH1. destruct (number t d1 - number t h - 1)%nat; discriminate. }
  fold (ancestor_node e1) in AN1. pose proof (AP1 p1 AN1) as AP.
  pose proof (CI d1 e1 E1) as C1. rewrite AN1 in C1. destruct C1 as [[pe1 PE1] [A1 [N1 M1]]].
  assert (NP1 : p1 <> h) by (intro X; subst p1; congruence).
  assert (ANne : ancestor_node ne = Some p1).
  { unfold ancestor_node. rewrite GAne.
    replace (number t d1 - number t h)%nat with (S (number t d1 - number t h - 1)) by lia.
    apply (last_opt_skipn _ _ h p1 NTH1); [exact AN1|congruence]. }
  rewrite AN1 in OLDD.
  (* the nodes of ds: parent vote-node before (p1) and after (h) *)
  assert (NOTH : forall y, In y ds -> y <> h).
  { intros y I E. subst y. destruct (ALL h I). congruence. }
  assert (NEWANC : forall y ey, In y ds -> eget y G2 = Some ey -> ancestor_node ey = Some h).
  { intros y ey I Y. destruct (OLD y ey (NOTH y I) Y) as [ey0 [Y0 [_ GA]]].
    assert (MY : memb y ds = true) by now apply memb_In. rewrite MY in GA.
    destruct (SND y I) as [e' [E' [IDA _]]]. rewrite Y0 in E'. injection E' as <-.
    destruct (ida_true _ _ _ _ IDA) as [LT NTH]. unfold ancestor_node. rewrite GA.
    replace (number t y - number t h)%nat with (S (number t y - number t h - 1)) by lia.
    exact (last_opt_firstn _ _ _ NTH). }
  assert (OLDANC : forall y ey0, In y ds -> eget y G = Some ey0 -> ancestor_node ey0 = Some p1).
  { intros y ey0 I Y0. destruct (SND y I) as [e' [E' [IDA [AHY APY]]]]. rewrite Y0 in E'. injection E' as <-.
    destruct (ida_true _ _ _ _ IDA) as [LT NTH].
    destruct (last_opt_some (g_anc ey0)) as [py ANY].
    { intro X. rewrite X in NTH. destruct (number t y - number t h - 1)%nat; discriminate. }
    fold (ancestor_node ey0) in ANY. rewrite ANY. f_equal.
    pose proof (APY py ANY) as APH.
    pose proof (CI y ey0 Y0) as CY. rewrite ANY in CY. destruct CY as [[pye PYE] [AY [NY MY]]].
    apply (anc_antisym t).
    - (* py above d1 *)
      apply (M1 py pye PYE); [exact (anc_trans t py h d1 APH AH1)|].
      intro X. subst py. assert (h = d1) by (now apply (anc_antisym t)). subst h. congruence.
    - apply (MY p1 pe1 PE1); [exact (anc_trans t p1 h y AP AHY)|].
      intro X. subst p1. assert (h = y) by (now apply (anc_antisym t)). subst h. congruence. }
  assert (OLDG : forall y ey, y <> h -> eget y G2 = Some ey -> memb y ds = false ->
            exists ey0, eget y G = Some ey0 /\ ancestor_node ey = ancestor_node ey0).
  { intros y ey NY Y MB. destruct (OLD y ey NY Y) as [ey0 [Y0 [_ GA]]]. rewrite MB in GA.
    exists ey0. split; [exact Y0|]. unfold ancestor_node. now rewrite GA. }
  assert (NEWG : forall y ey0, eget y G = Some ey0 -> memb y ds = false ->
            exists ey, eget y G2 = Some ey /\ ancestor_node ey = ancestor_node ey0).
  { intros y ey0 Y0 MB. destruct (KEEP y ey0 Y0) as [ey Y]. exists ey. split; [exact Y|].
    assert (NY : y <> h) by (intro X; subst y; congruence).
    destruct (OLDG y ey NY Y MB) as [ey0' [Y0' AN]]. congruence. }
  assert (NOH : forall x e, eget x G = Some e -> ~ In h (g_desc e)).
  { intros x e E I. apply (D x e E h) in I. destruct I as [ey [EY _]]. congruence. }
  intros x e E y. destruct (Nat.eq_dec x h) as [->|NXH].
  - (* the new node *)
    rewrite G2h in E. injection E as <-. rewrite GDne. split.
    + intro I. destruct (ALL y I) as [ey0 Y0]. destruct (KEEP y ey0 Y0) as [ey Y]. exists ey. split; [exact Y|].
      exact (NEWANC y ey I Y).
    + intros [ey [Y AN]]. destruct (Nat.eq_dec y h) as [->|NY]; [congruence|].
      destruct (memb y ds) eqn:MB; [now apply memb_In|exfalso].
      destruct (OLDG y ey NY Y MB) as [ey0 [Y0 AN0]]. rewrite AN in AN0.
      pose proof (CI y ey0 Y0) as C. rewrite <- AN0 in C. destruct C as [[pe PE] _]. congruence.
  - destruct (OLDD x e NXH E) as [e0 [X0 GD]]. destruct (Nat.eqb_spec x p1) as [->|NXP].
    + (* the parent vote-node of the new node *)
      rewrite X0 in PE1. injection PE1 as <-. rewrite GD. rewrite in_app_iff, filter_In. cbn [In].
      destruct (Nat.eq_dec y h) as [->|NY].
      * split; [intros _; eauto|]. intros _. right. now left.
      * split.
        -- intros [[I NM]|[X|[]]]; [|congruence]. apply negb_true_iff in NM.
           apply (D p1 e0 X0 y) in I. destruct I as [ey0 [Y0 AN0]].
           destruct (NEWG y ey0 Y0 NM) as [ey [Y AN]]. exists ey. split; [exact Y|congruence].
        -- intros [ey [Y AN]]. left. destruct (memb y ds) eqn:MB.
           ++ apply memb_In in MB. rewrite (NEWANC y ey MB Y) in AN. congruence.
           ++ split; [|reflexivity]. destruct (OLDG y ey NY Y MB) as [ey0 [Y0 AN0]].
              apply (D p1 e0 X0 y). exists ey0. split; [exact Y0|congruence].
    + rewrite GD. rewrite (D x e0 X0 y). split.
      * intros [ey0 [Y0 AN0]]. destruct (memb y ds) eqn:MB.
        -- apply memb_In in MB. rewrite (OLDANC y ey0 MB Y0) in AN0. congruence.
        -- destruct (NEWG y ey0 Y0 MB) as [ey [Y AN]]. exists ey. split; [exact Y|congruence].
      * intros [ey [Y AN]]. destruct (Nat.eq_dec y h) as [->|NY]; [congruence|].
        destruct (memb y ds) eqn:MB.
        -- apply memb_In in MB. rewrite (NEWANC y ey MB Y) in AN. congruence.
        -- destruct (OLDG y ey NY Y MB) as [ey0 [Y0 AN0]]. exists ey0. split; [exact Y0|congruence].
Qed.

Lemma reach_full_desc_exact G heads eqv S ins : reach_full t lbl G heads eqv S ins -> desc_exact G.
Proof.
  induction 1 as [|G heads eqv S ins ph x e G' heads' R IH L NV EX INS
                   |G heads eqv S ins ph x G' heads' R IH L NV EN FC NB INS
                   |G heads eqv S ins ph x ds G' heads' R IH L NV EN FC NE CMP INS
                   |G heads eqv S ins ph x a R IH L FA NS
                   |G heads eqv S ins ph x R IH L H]; try exact IH.
  - exact init_desc_exact.
  - pose proof (insert_existing_desc_exact t lbl G heads (vblock x) (2 * vvoter x + ph) e EX IH) as P. now rewrite INS in P.
  - destruct (reach_full_invariants t lbl G heads eqv S ins R) as [CI [_ [BASE _]]].
    pose proof (insert_append_desc_exact t lbl G heads (vblock x) (2 * vvoter x + ph) CI BASE EN FC IH) as P.
    now rewrite INS in P.
  - destruct (reach_full_invariants t lbl G heads eqv S ins R) as [CI [_ [_ [_ [_ W]]]]].
    pose proof (insert_branch_desc_exact G heads (vblock x) (2 * vvoter x + ph) ds CI EN FC NE
                  (branch_sound_of_wf t lbl G heads _ ds W FC) IH) as P.
    now rewrite INS in P.
Qed.

(* in EVERY reachable state (existing-node, append and introduceBranch paths of Insert),
   FindGHOST from the base is the specification's ghost of the phase *)
Theorem reach_full_find_ghost_is_spec_ghost ws G heads eqv S ins ph :
  reach_full t lbl G heads eqv S ins -> (ph < 2)%nat ->
  (0 < total ws)%N -> tolerant ws (S ph) = true -> (forall x, In x (S ph) -> in_tree t (vblock x)) ->
  find_ghost t lbl G heads None (cond_ph ws eqv ph) = ghost t ws (S ph).
Proof.
  intros R L TP TOL IT. pose proof (reach_full_desc_exact G heads eqv S ins R) as D.
  destruct (reach_full_invariants t lbl G heads eqv S ins R) as [CI [CO [BASE [IN [TR W]]]]].
  apply (find_ghost_is_spec_ghost t lbl ws G ins ph (S ph) eqv heads); auto.
  - now apply desc_exact_complete.
  - now apply desc_exact_sound.
Qed.

Theorem reach_full_find_ghost_from_node ws G heads eqv S ins ph c ec :
  reach_full t lbl G heads eqv S ins -> (ph < 2)%nat ->
  (0 < total ws)%N -> tolerant ws (S ph) = true -> (forall x, In x (S ph) -> in_tree t (vblock x)) ->
  eget c G = Some ec ->
  find_ghost t lbl G heads (Some c) (cond_ph ws eqv ph) =
  if has_supermajority t ws (S ph) c then ghost t ws (S ph) else None.
Proof.
  intros R L TP TOL IT EC. pose proof (reach_full_desc_exact G heads eqv S ins R) as D.
  destruct (reach_full_invariants t lbl G heads eqv S ins R) as [CI [CO [BASE [IN [TR W]]]]].
  apply (find_ghost_from_node_is_spec_ghost t lbl ws G ins ph (S ph) eqv heads c ec); auto.
  - now apply desc_exact_complete.
  - now apply desc_exact_sound.
Qed.

Theorem reach_full_find_ghost_restart ws G heads eqv S ins ph c :
  reach_full t lbl G heads eqv S ins -> (ph < 2)%nat ->
  (0 < total ws)%N -> tolerant ws (S ph) = true -> (forall x, In x (S ph) -> in_tree t (vblock x)) ->
  has_supermajority t ws (S ph) c = true ->
  find_ghost t lbl G heads (Some c) (cond_ph ws eqv ph) = ghost t ws (S ph).
Proof.
  intros R L TP TOL IT SC. pose proof (reach_full_desc_exact G heads eqv S ins R) as D.
  destruct (reach_full_invariants t lbl G heads eqv S ins R) as [CI [CO [BASE [IN [TR W]]]]].
  apply (find_ghost_restart_is_spec_ghost t lbl ws G ins ph (S ph) eqv heads c); auto.
  - now apply desc_exact_complete.
  - now apply desc_exact_sound.
Qed.

(* the memoisation step of Round (importPrevote: prevoteGhost, PrecommitGHOST: precommitGhost): the
   previous ghost [prev], computed for an earlier vote set V0 of the phase, is fed back as [current]
   once the votes seen reach the threshold; the result is the specification's ghost of the votes
   seen so far *)
Theorem reach_full_ghost_memo_step ws G heads eqv S ins ph prev V0 :
  reach_full t lbl G heads eqv S ins -> (ph < 2)%nat ->
  (0 < total ws)%N -> tolerant ws (S ph) = true -> (forall x, In x (S ph) -> in_tree t (vblock x)) ->
  subset V0 (S ph) -> prev = ghost t ws V0 ->
  (if (th ws <=? cur_weight ws (S ph))%N then find_ghost t lbl G heads prev (cond_ph ws eqv ph) else prev)
  = ghost t ws (S ph).
Proof.
  intros R L TP TOL IT SUB PV. unfold th. destruct (N.leb_spec (threshold ws) (cur_weight ws (S ph))) as [LE|LT].
  - destruct prev as [c|].
    + apply (reach_full_find_ghost_restart ws G heads eqv S ins ph c R L TP TOL IT).
      symmetry in PV. unfold ghost in PV. apply find_some in PV. destruct PV as [_ SC].
      exact (has_supermajority_mono t ws V0 (S ph) c SUB SC).
    + exact (reach_full_find_ghost_is_spec_ghost ws G heads eqv S ins ph R L TP TOL IT).
  - assert (G1 : ghost t ws (S ph) = None).
    { destruct (ghost t ws (S ph)) as [x|] eqn:E; [|reflexivity].
      assert (threshold ws <= cur_weight ws (S ph))%N by (apply (ghost_defined t ws (S ph)); eauto). lia. }
    rewrite G1, PV. destruct (ghost t ws V0) as [x|] eqn:E; [|reflexivity].
    assert (threshold ws <= cur_weight ws V0)%N by (apply (ghost_defined t ws V0); eauto).
    pose proof (cur_weight_mono ws V0 (S ph) SUB). lia.
Qed.

(* Round.PrecommitGHOST on a mirror state whose graph is reachable *)
Theorem precommit_ghost_is_spec_ghost ws s S ins V0 :
  reach_full t lbl (r_G s) (r_heads s) (r_eqv s) S ins -> r_pc s = S 1%nat ->
  (0 < total ws)%N -> tolerant ws (r_pc s) = true -> (forall x, In x (r_pc s) -> in_tree t (vblock x)) ->
  subset V0 (r_pc s) -> r_pcg s = ghost t ws V0 ->
  r_pcg (precommit_ghost t lbl ws s) = ghost t ws (r_pc s).
Proof.
  intros R E TP TOL IT SUB PV. rewrite E in *.
  pose proof (reach_full_ghost_memo_step ws (r_G s) (r_heads s) (r_eqv s) S ins 1 (r_pcg s) V0 R
                ltac:(lia) TP TOL IT SUB PV) as H.
  unfold precommit_ghost. rewrite E. fold (th ws).
  destruct (th ws <=? cur_weight ws (S 1%nat))%N; cbn [r_pcg]; exact H.
Qed.

End DescBranch.
