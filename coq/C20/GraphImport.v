(* C20/GraphImport.v -- UNBOUNDED: the mirror's top-level import function performs exactly the
   abstract [reach_all] steps.

   Graph.import ph x s (Round.importPrevote / importPrecommit) looks the voter up, asks the vote
   tracker (Model.stored: the first two different votes of the voter) what it holds, and then
     - inserts the vote into the graph (the voter's first vote of the phase),
     - or sets the voter's equivocation bit (second, different vote),
     - or only records the vote (duplicate, or a voter that already equivocates),
     - or does nothing at all (voter outside the voter set);
   afterwards it refreshes the memoised ghosts / estimate / finalized / completable, which never
   touches the graph, the heads, the equivocations nor the histories.

   stored_cases ties the tracker's answer to the specification's voted / first_vote / equivocates
   of the phase's history; import_step shows that one import is one reach_all step (ra_first,
   ra_equivocation, ra_ignored) or no step; run_reach folds that over ANY list of (phase, vote)
   operations from the initial round, with step_op (import + PrecommitGHOST) as the harness and the
   small-scope theorem do.  Consequences (import_run_weights): for every tree, every weighted
   voter set, every hash order and every history -- any order, duplicates, equivocations, voters
   outside the set, blocks outside the tree (children of the base), both phases -- the state is a
   reach_all state whose histories are the known-voter votes of each phase in import order, all
   the invariants hold (full_inv, tracker_ok, heads_exact, desc_ok) and every vote-node carries
   the specification's Votes.weight of ALL the votes of the phase imported so far (the votes of
   unknown voters weigh nothing in the specification either: weight_known).

   The only hypothesis is that the phase tags of the history are 0 or 1. *)
From Coq Require Import List Arith Lia Bool NArith.
From Grandpa Require Import Tree Votes RoundSpec.
From C20 Require Import Model ProofsPossible Graph GraphInv GraphInvAppend GraphProofs GraphTracker GraphReach
  GraphInvBranch GraphComplete.
Import ListNotations.

(* ---------------------------------------------------------------------------------------- *)
(* the vote tracker against the specification's predicates *)
Lemma stored_app v : forall pre h acc, stored v (pre ++ h) acc = stored v h (stored v pre acc).
Proof.
  induction pre as [|x r IH]; intros h acc; [reflexivity|]. cbn [app stored].
  destruct (by_voter v x); [|apply IH].
  destruct acc as [|a [|b l]]; [apply IH| |apply IH]. destruct (same_vote a x); apply IH.
Qed.

Lemma voted_app S x v : voted (S ++ [x]) v = voted S v || by_voter v x.
Proof. unfold voted. rewrite existsb_app. cbn [existsb]. now rewrite orb_false_r. Qed.

Definition stored_fact (h : list vote) (v : nat) (st : list vote) : Prop :=
  match st with
  | [] => voted h v = false
  | [a] => first_vote h v = Some a /\ equivocates h v = false
  | _ => equivocates h v = true
  end.

Lemma stored_cases v : forall h, stored_fact h v (stored v h []).
Proof.
  induction h as [|x h IH] using rev_ind; [reflexivity|].
  rewrite stored_app. cbn [stored]. destruct (by_voter v x) eqn:B.
  - apply by_voter_spec in B.
    destruct (stored v h []) as [|a [|b l]]; cbn [stored_fact] in *.
    + (* the first vote *)
      split.
      * unfold first_vote. rewrite find_app.
        assert (F0 : find (by_voter v) h = None) by (apply first_vote_none; exact IH).
        rewrite F0. cbn [find]. assert (B' : by_voter v x = true) by now apply by_voter_spec.
        now rewrite B'.
      * destruct (equivocates (h ++ [x]) v) eqn:E'; [exfalso|reflexivity].
        apply equivocates_spec in E'. destruct E' as [p [q [Ip [Iq [Vp [Vq NS]]]]]].
        apply in_app_or in Ip, Iq.
        assert (NO : forall z, In z h -> vvoter z = v -> False).
        { intros z I V. assert (voted h v = true) by (apply voted_spec; eauto). congruence. }
        destruct Ip as [Ip|[<-|[]]]; [exact (NO p Ip Vp)|]. destruct Iq as [Iq|[<-|[]]]; [exact (NO q Iq Vq)|].
        rewrite same_vote_refl in NS. discriminate.
    + destruct IH as [FA E]. destruct (first_vote_some h v a FA) as [IA VA].
      destruct (same_vote a x) eqn:SA; cbn [stored_fact].
      * split; [unfold first_vote in *; now rewrite find_app, FA|].
        destruct (equivocates (h ++ [x]) v) eqn:E'; [exfalso|reflexivity].
        assert (ALL : forall z, In z (h ++ [x]) -> vvoter z = v -> same_vote a z = true).
        { intros z I V. apply in_app_or in I. destruct I as [I|[<-|[]]]; [|exact SA].
          destruct (same_vote a z) eqn:SZ; [reflexivity|]. exfalso.
          assert (equivocates h v = true) by (apply equivocates_spec; exists a, z; auto). congruence. }
        apply equivocates_spec in E'. destruct E' as [p [q [Ip [Iq [Vp [Vq NS]]]]]].
        pose proof (ALL p Ip Vp) as Sp. pose proof (ALL q Iq Vq) as Sq.
        apply same_vote_spec in Sp, Sq. destruct Sp as [P1 P2], Sq as [Q1 Q2].
        assert (same_vote p q = true) by (apply same_vote_spec; split; congruence). congruence.
      * apply equivocates_spec. exists a, x.
        split; [apply in_or_app; now left|]. split; [apply in_or_app; right; now left|]. auto.
    + exact (equivocates_mono h (h ++ [x]) v (subset_app_l h x) IH).
  - assert (N : vvoter x <> v) by (intro V; apply by_voter_spec in V; congruence).
    destruct (stored v h []) as [|a [|b l]]; cbn [stored_fact] in *.
    + rewrite voted_app, IH, B. reflexivity.
    + destruct IH as [FA E]. split; [now rewrite first_vote_app_other|now rewrite equivocates_app_other].
    + now rewrite equivocates_app_other.
Qed.

(* ---------------------------------------------------------------------------------------- *)
(* the votes of voters outside the voter set weigh nothing in the specification *)
Lemma supports_known t ws S v b : (v < length ws)%nat ->
  supports t (filter (known_voter ws) S) v b = supports t S v b.
Proof.
  intro L.
  assert (K : forall x, vvoter x = v -> known_voter ws x = true).
  { intros x V. unfold known_voter. apply Nat.ltb_lt. lia. }
  apply eq_true_iff_eq. unfold supports. rewrite !orb_true_iff, !equivocates_spec, !votes_for_spec.
  split.
  - intros [[p [q [Ip [Iq R]]]]|[x [I R]]].
    + left. exists p, q. apply filter_In in Ip, Iq. tauto.
    + right. exists x. apply filter_In in I. tauto.
  - intros [[p [q [Ip [Iq [Vp [Vq NS]]]]]]|[x [I [V A]]]].
    + left. exists p, q. split; [apply filter_In; auto|]. split; [apply filter_In; auto|]. auto.
    + right. exists x. split; [apply filter_In; auto|]. auto.
Qed.

Lemma weight_known t ws S b : weight t ws (filter (known_voter ws) S) b = weight t ws S b.
Proof.
  unfold weight.
  assert (A : (wsum ws (fun v => supports t (filter (known_voter ws) S) v b) <=
               wsum ws (fun v => supports t S v b))%N).
  { apply wsum_mono_range. intros v L E. now rewrite <- (supports_known t ws S v b L). }
  assert (B : (wsum ws (fun v => supports t S v b) <=
               wsum ws (fun v => supports t (filter (known_voter ws) S) v b))%N).
  { apply wsum_mono_range. intros v L E. now rewrite (supports_known t ws S v b L). }
  lia.
Qed.

(* ---------------------------------------------------------------------------------------- *)
Section Import.
Variable t : tree.
Variable lbl : block -> nat.
Variable ws : list N.

(* what the abstract steps talk about: graph, heads, equivocation bits and the two histories *)
Definition core (s : rstate) : entries * list block * list bit * list vote * list vote :=
  (r_G s, r_heads s, r_eqv s, r_pv s, r_pc s).

Lemma core_update s : core (update t lbl ws s) = core s.
Proof.
  unfold update. destruct (cur_weight ws (r_pv s) <? th ws)%N; [reflexivity|].
  destruct (r_pvg s); [|reflexivity]. destruct (th ws <=? cur_weight ws (r_pc s))%N; reflexivity.
Qed.

Lemma core_precommit_ghost s : core (precommit_ghost t lbl ws s) = core s.
Proof. unfold precommit_ghost. destruct (th ws <=? cur_weight ws (r_pc s))%N; reflexivity. Qed.

(* the state of the mirror is the abstract state (G, heads, eqv, S, ins) *)
Definition rel (s : rstate) (S : nat -> list vote) (ins : list (block * bit)) : Prop :=
  reach_all t lbl (r_G s) (r_heads s) (r_eqv s) S ins /\ S 0%nat = r_pv s /\ S 1%nat = r_pc s.

Lemma rel_core s s' S ins : core s' = core s -> rel s S ins -> rel s' S ins.
Proof.
  unfold core, rel. intros E R. injection E as -> -> -> -> ->. exact R.
Qed.

(* the phase's history of the votes of known voters after an import *)
Definition hist_of (s : rstate) (ph : nat) : list vote := if (ph =? 0)%nat then r_pv s else r_pc s.

(* ONE import is one reach_all step, or none (voter outside the voter set) *)
Theorem import_step ph x s S ins : (ph < 2)%nat -> rel s S ins ->
  exists S' ins', rel (import t lbl ws ph x s) S' ins' /\
    (forall p, S' p = if known_voter ws x && (p =? ph)%nat then S p ++ [x] else S p).
Proof.
  intros L [R [E0 E1]]. unfold import.
  destruct (known_voter ws x) eqn:K; cbn [negb andb].
  2:{ exists S, ins. split; [split; [exact R|split; assumption]|reflexivity]. }
  assert (EH : (if (ph =? 0)%nat then r_pv s else r_pc s) = S ph).
  { destruct ph as [|[|ph]]; [now rewrite <- E0|now rewrite <- E1|lia]. }
  rewrite EH.
  pose proof (stored_cases (vvoter x) (S ph)) as F.
  assert (UPD : forall p, upd S ph x p = if (p =? ph)%nat then S p ++ [x] else S p) by reflexivity.
  assert (U0 : forall G heads eqv,
    upd S ph x 0%nat = r_pv (if (ph =? 0)%nat
      then mkR G heads eqv (S ph ++ [x]) (r_pc s) (r_pvg s) (r_pcg s) (r_fin s) (r_est s) (r_compl s)
      else mkR G heads eqv (r_pv s) (S ph ++ [x]) (r_pvg s) (r_pcg s) (r_fin s) (r_est s) (r_compl s)) /\
    upd S ph x 1%nat = r_pc (if (ph =? 0)%nat
      then mkR G heads eqv (S ph ++ [x]) (r_pc s) (r_pvg s) (r_pcg s) (r_fin s) (r_est s) (r_compl s)
      else mkR G heads eqv (r_pv s) (S ph ++ [x]) (r_pvg s) (r_pcg s) (r_fin s) (r_est s) (r_compl s))).
  { intros G heads eqv. destruct ph as [|[|ph]]; [| |lia]; cbn; unfold upd; cbn; auto. }
  (* the graph, heads and equivocations of with_hist *)
  assert (WH : forall G heads eqv,
    let s' := (if (ph =? 0)%nat
      then mkR G heads eqv (S ph ++ [x]) (r_pc s) (r_pvg s) (r_pcg s) (r_fin s) (r_est s) (r_compl s)
      else mkR G heads eqv (r_pv s) (S ph ++ [x]) (r_pvg s) (r_pcg s) (r_fin s) (r_est s) (r_compl s)) in
    r_G s' = G /\ r_heads s' = heads /\ r_eqv s' = eqv).
  { intros G heads eqv. destruct (ph =? 0)%nat; cbn; auto. }
  (* finish keeps the core *)
  assert (FIN : forall s0,
    core (update t lbl ws
      (if (ph =? 0)%nat
       then if (th ws <=? cur_weight ws (r_pv s0))%N
            then mkR (r_G s0) (r_heads s0) (r_eqv s0) (r_pv s0) (r_pc s0)
                   (find_ghost t lbl (r_G s0) (r_heads s0) (r_pvg s0) (cond_ph ws (r_eqv s0) 0))
                   (r_pcg s0) (r_fin s0) (r_est s0) (r_compl s0)
            else s0
       else s0)) = core s0).
  { intro s0. rewrite core_update. destruct (ph =? 0)%nat; [|reflexivity].
    destruct (th ws <=? cur_weight ws (r_pv s0))%N; reflexivity. }
  assert (MK : forall G heads eqv ins', reach_all t lbl G heads eqv (upd S ph x) ins' ->
    rel (if (ph =? 0)%nat
      then mkR G heads eqv (S ph ++ [x]) (r_pc s) (r_pvg s) (r_pcg s) (r_fin s) (r_est s) (r_compl s)
      else mkR G heads eqv (r_pv s) (S ph ++ [x]) (r_pvg s) (r_pcg s) (r_fin s) (r_est s) (r_compl s))
      (upd S ph x) ins').
  { intros G heads eqv ins' R'. destruct (WH G heads eqv) as [A [B C]]. destruct (U0 G heads eqv) as [P Q].
    split; [|split; assumption]. cbv zeta in A, B, C. rewrite A, B, C. exact R'. }
  destruct (stored (vvoter x) (S ph) []) as [|a [|b l]]; cbn [stored_fact] in F.
  - (* first vote: an Insert *)
    destruct (insert t lbl (r_G s) (r_heads s) (vblock x) (2 * vvoter x + ph)) as [G' heads'] eqn:INS.
    exists (upd S ph x), ((vblock x, 2 * vvoter x + ph)%nat :: ins). split; [|exact UPD].
    eapply rel_core; [apply FIN|]. apply MK. eapply ra_first; eauto.
  - destruct F as [FA E]. destruct (same_vote a x) eqn:SA.
    + (* duplicate *)
      exists (upd S ph x), ins. split; [|exact UPD]. apply MK. apply ra_ignored; [exact R|exact L|].
      right. split; [exact E|]. exists a. auto.
    + (* equivocation *)
      exists (upd S ph x), ins. split; [|exact UPD].
      eapply rel_core; [apply FIN|]. apply MK. eapply ra_equivocation; eauto.
  - (* the voter equivocates already *)
    exists (upd S ph x), ins. split; [|exact UPD]. apply MK. apply ra_ignored; [exact R|exact L|]. now left.
Qed.

(* the same, with [rel] spelled out (the form quoted in Properties.v) *)
Lemma import_step_flat ph x s S ins : (ph < 2)%nat ->
  reach_all t lbl (r_G s) (r_heads s) (r_eqv s) S ins -> S 0%nat = r_pv s -> S 1%nat = r_pc s ->
  let s' := import t lbl ws ph x s in
  exists S' ins',
    reach_all t lbl (r_G s') (r_heads s') (r_eqv s') S' ins' /\ S' 0%nat = r_pv s' /\ S' 1%nat = r_pc s' /\
    (forall p, S' p = if known_voter ws x && (p =? ph)%nat then S p ++ [x] else S p).
Proof.
  intros L R E0 E1 s'.
  destruct (import_step ph x s S ins L (conj R (conj E0 E1))) as [S' [ins' [[R' [A B]] U]]].
  exists S', ins'. auto.
Qed.

(* the harness's step: import, then PrecommitGHOST *)
Lemma step_op_step ph x s S ins : (ph < 2)%nat -> rel s S ins ->
  exists S' ins', rel (step_op t lbl ws ph x s) S' ins' /\
    (forall p, S' p = if known_voter ws x && (p =? ph)%nat then S p ++ [x] else S p).
Proof.
  intros L R. destruct (import_step ph x s S ins L R) as [S' [ins' [R' U]]].
  exists S', ins'. split; [|exact U]. unfold step_op. eapply rel_core; [apply core_precommit_ghost|exact R'].
Qed.

(* ---- any history ---- *)
Definition run (h : list (nat * vote)) : rstate :=
  fold_left (fun st o => step_op t lbl ws (fst o) (snd o) st) h rinit.

(* the votes of a phase in the history, in import order: all of them / those of known voters *)
Definition votes_of (ph : nat) (h : list (nat * vote)) : list vote :=
  map snd (filter (fun o => (fst o =? ph)%nat) h).
Definition known_votes_of (ph : nat) (h : list (nat * vote)) : list vote :=
  filter (known_voter ws) (votes_of ph h).

Lemma votes_of_app ph h o : votes_of ph (h ++ [o]) =
  if (fst o =? ph)%nat then votes_of ph h ++ [snd o] else votes_of ph h.
Proof.
  unfold votes_of. rewrite filter_app, map_app. cbn [filter]. destruct (fst o =? ph)%nat; cbn [map].
  - reflexivity.
  - apply app_nil_r.
Qed.

Lemma known_votes_of_app ph h o : known_votes_of ph (h ++ [o]) =
  if known_voter ws (snd o) && (ph =? fst o)%nat then known_votes_of ph h ++ [snd o] else known_votes_of ph h.
Proof.
  unfold known_votes_of. rewrite votes_of_app, (Nat.eqb_sym ph (fst o)).
  destruct (fst o =? ph)%nat; [|now rewrite andb_false_r].
  rewrite filter_app. cbn [filter]. destruct (known_voter ws (snd o)); cbn [andb]; [reflexivity|apply app_nil_r].
Qed.

Theorem run_reach h : (forall o, In o h -> (fst o < 2)%nat) ->
  exists S ins, rel (run h) S ins /\ forall p, S p = known_votes_of p h.
Proof.
  induction h as [|o h IH] using rev_ind; intro PH.
  - exists (fun _ => []), []. split; [|reflexivity]. split; [apply ra_init|split; reflexivity].
  - destruct IH as [S [ins [R ES]]]; [intros o' I; apply PH, in_or_app; now left|].
    assert (L : (fst o < 2)%nat) by (apply PH, in_or_app; right; now left).
    unfold run. rewrite fold_left_app. cbn [fold_left]. fold (run h).
    destruct (step_op_step (fst o) (snd o) (run h) S ins L R) as [S' [ins' [R' U]]].
    exists S', ins'. split; [exact R'|]. intro p. rewrite U, known_votes_of_app, ES. reflexivity.
Qed.

(* ---- the general statement ---- *)
Theorem import_run_weights h : (forall o, In o h -> (fst o < 2)%nat) ->
  let s := run h in
  (* the histories the mirror keeps: the votes of known voters, per phase, in import order *)
  r_pv s = known_votes_of 0 h /\ r_pc s = known_votes_of 1 h /\
  (* the state is a reach_all state, with all the invariants *)
  (exists S ins,
     reach_all t lbl (r_G s) (r_heads s) (r_eqv s) S ins /\ S 0%nat = r_pv s /\ S 1%nat = r_pc s /\
     full_inv t (r_G s) (r_heads s) ins /\
     (forall ph, (ph < 2)%nat -> tracker_ok t ph (S ph) (r_eqv s) ins)) /\
  heads_exact t (r_G s) (r_heads s) /\ desc_ok (r_G s) /\
  (* every vote-node carries the specification's weight of ALL the votes imported so far *)
  (forall y e, eget y (r_G s) = Some e ->
     bits_weight ws (g_cum e) (r_eqv s) 0 = weight t ws (votes_of 0 h) y /\
     bits_weight ws (g_cum e) (r_eqv s) 1 = weight t ws (votes_of 1 h) y).
Proof.
  intros PH s. destruct (run_reach h PH) as [S [ins [[R [E0 E1]] ES]]]. fold s in R, E0, E1.
  destruct (reach_all_invariants t lbl _ _ _ _ _ R) as [FI TR].
  destruct (reach_all_shape t lbl _ _ _ _ _ R) as [HE DO].
  split; [now rewrite <- E0, ES|]. split; [now rewrite <- E1, ES|].
  split; [exists S, ins; auto|]. split; [exact HE|]. split; [exact DO|].
  intros y e EY. split.
  - rewrite (reach_all_node_weights t lbl ws _ _ _ _ _ R y e 0%nat ltac:(lia) EY), ES. apply weight_known.
  - rewrite (reach_all_node_weights t lbl ws _ _ _ _ _ R y e 1%nat ltac:(lia) EY), ES. apply weight_known.
Qed.

End Import.

(* non-vacuity: tree 0 - 1 - 2 with a fork 0 - 3, weights 2 1 1 1.  Prevotes 0:2 (append), 1:1
   (introduceBranch: splits the edge of 2), 2:3 (append on the fork), 1:1 again (duplicate), 1:2
   (equivocation), 1:3 (ignored: equivocates already), a prevote of voter 9 (outside the voter set:
   nothing happens); precommits 0:1 (existing node), 3:2, 3:3 (equivocation in the other phase);
   finally a prevote 3:7 for a block outside the listed tree (a child of the base). *)
Example import_run_example :
  let t := [0; 1; 0]%nat in let ws := [2; 1; 1; 1]%N in
  let h := [(0, mkVote 0 2 0); (0, mkVote 1 1 0); (0, mkVote 2 3 0); (0, mkVote 1 1 0);
            (0, mkVote 1 2 0); (0, mkVote 1 3 0); (0, mkVote 9 2 0); (1, mkVote 0 1 0);
            (1, mkVote 3 2 0); (1, mkVote 3 3 0); (0, mkVote 3 7 0)]%nat in
  let s := run t (fun b => b) ws h in
  (forall o, In o h -> (fst o < 2)%nat) /\
  map fst (r_G s) = [0; 2; 1; 3; 7]%nat /\ r_heads s = [2; 3; 7]%nat /\ r_eqv s = [7; 2]%nat /\
  length (r_pv s) = 7%nat /\ length (votes_of 0 h) = 8%nat /\ length (r_pc s) = 3%nat /\
  map (fun p => (fst p, bits_weight ws (g_cum (snd p)) (r_eqv s) 0, bits_weight ws (g_cum (snd p)) (r_eqv s) 1))
      (r_G s) = [(0%nat, 5%N, 3%N); (2%nat, 3%N, 1%N); (1%nat, 3%N, 3%N); (3%nat, 2%N, 1%N); (7%nat, 2%N, 1%N)].
Proof.
  intros t ws h s. split.
  - intros o I. cbn in I. repeat (destruct I as [<-|I]; [cbn; lia|]). destruct I.
  - vm_compute. repeat split; reflexivity.
Qed.
